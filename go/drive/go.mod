module verifdrive

go 1.26
