// Command drive is the entry point behind /verif/check: it rebuilds the
// instrumented harness from /repo's current working tree (cached by content
// hash), fans out simulation workers, merges their results, confirms every
// violation by replaying its minimised file in a fresh process, matches
// signatures against known_findings.json, writes evidence/<id>.json and exits
// 0 (held), 1 (VIOLATION) or 2 (build / watchdog / harness trouble).
package main

import (
	"bufio"
	"bytes"
	"crypto/sha256"
	"encoding/hex"
	"encoding/json"
	"flag"
	"fmt"
	"io"
	"io/fs"
	"os"
	"os/exec"
	"path/filepath"
	"sort"
	"strconv"
	"strings"
	"sync"
	"syscall"
	"time"
)

const goBin = "/opt/veriftools/go1.26.8/bin/go"

// verifDir and repoDir can be redirected (development copies); the registered
// commands always use /verif and /repo.
var (
	verifDir = envOr("VERIF_DIR", "/verif")
	repoDir  = envOr("VERIF_REPO", "/repo")
)

// scratchDirs lists scratch directories of this driver; os.Exit does not run defers, so every exit
// path goes through quit().
var scratchDirs []string

func quit(code int) {
	for _, d := range scratchDirs {
		os.RemoveAll(d)
	}
	os.Exit(code)
}

// removeStaleScratch deletes scratch trees left in /var/tmp by drivers that were killed (older than two hours).
func removeStaleScratch() {
	ents, _ := os.ReadDir("/var/tmp")
	for _, e := range ents {
		if !strings.HasPrefix(e.Name(), "verif-build-") && !strings.HasPrefix(e.Name(), "verif-run-") && !strings.HasPrefix(e.Name(), "verif-replay-") {
			continue
		}
		if fi, err := e.Info(); err == nil && time.Since(fi.ModTime()) > 2*time.Hour {
			os.RemoveAll(filepath.Join("/var/tmp", e.Name()))
		}
	}
}

func fatal(code int, format string, a ...any) {
	fmt.Fprintf(os.Stderr, "drive: "+format+"\n", a...)
	quit(code)
}

func goEnv() []string {
	env := os.Environ()
	env = append(env, "GOFLAGS=-mod=mod", "GOPROXY=off", "GOSUMDB=off", "GOTOOLCHAIN=local",
		"PATH=/opt/veriftools/go1.26.8/bin:"+os.Getenv("PATH"))
	return env
}

// ---------------------------------------------------------------- build

var skipDirs = map[string]bool{".git": true, "docs": true, "next-docs": true, "udp-test": true, "build": true, "mobile": true}

func repoFiles() []string {
	var files []string
	filepath.WalkDir(repoDir, func(p string, d fs.DirEntry, err error) error {
		if err != nil {
			return nil
		}
		rel, _ := filepath.Rel(repoDir, p)
		if d.IsDir() {
			top := strings.Split(rel, string(filepath.Separator))[0]
			if skipDirs[top] {
				return filepath.SkipDir
			}
			return nil
		}
		if strings.HasSuffix(rel, ".go") || rel == "go.mod" || rel == "go.sum" || strings.Contains(rel, "/testdata/") ||
			(strings.HasPrefix(rel, "internal/") && !strings.HasSuffix(rel, ".md")) {
			if info, err := d.Info(); err == nil && info.Size() < 4<<20 && info.Mode().IsRegular() {
				files = append(files, rel)
			}
		}
		return nil
	})
	sort.Strings(files)
	return files
}

func hashTree() (string, []string) {
	h := sha256.New()
	files := repoFiles()
	for _, f := range files {
		b, err := os.ReadFile(filepath.Join(repoDir, f))
		if err != nil {
			continue
		}
		fmt.Fprintf(h, "R %s %d\n", f, len(b))
		h.Write(b)
	}
	for _, sub := range []string{"go/sim", "go/instr", "overlay"} {
		filepath.WalkDir(filepath.Join(verifDir, sub), func(p string, d fs.DirEntry, err error) error {
			if err != nil || d.IsDir() {
				return nil
			}
			b, err := os.ReadFile(p)
			if err != nil {
				return nil
			}
			fmt.Fprintf(h, "V %s %d\n", p, len(b))
			h.Write(b)
			return nil
		})
	}
	if b, err := os.ReadFile(filepath.Join(verifDir, "properties.jsonl")); err == nil {
		h.Write(b)
	}
	return hex.EncodeToString(h.Sum(nil))[:20], files
}

func copyFile(src, dst string) error {
	if err := os.MkdirAll(filepath.Dir(dst), 0o755); err != nil {
		return err
	}
	in, err := os.Open(src)
	if err != nil {
		return err
	}
	defer in.Close()
	out, err := os.Create(dst)
	if err != nil {
		return err
	}
	defer out.Close()
	_, err = io.Copy(out, in)
	return err
}

func copyTree(src, dst string) error {
	return filepath.WalkDir(src, func(p string, d fs.DirEntry, err error) error {
		if err != nil {
			return err
		}
		rel, _ := filepath.Rel(src, p)
		if d.IsDir() {
			return os.MkdirAll(filepath.Join(dst, rel), 0o755)
		}
		return copyFile(p, filepath.Join(dst, rel))
	})
}

func run(dir string, env []string, out io.Writer, name string, args ...string) error {
	cmd := exec.Command(name, args...)
	cmd.Dir = dir
	cmd.Env = env
	cmd.Stdout = out
	cmd.Stderr = out
	return cmd.Run()
}

func denseList() []string {
	f, err := os.Open(filepath.Join(verifDir, "properties.jsonl"))
	if err != nil {
		return nil
	}
	defer f.Close()
	set := map[string]bool{}
	sc := bufio.NewScanner(f)
	sc.Buffer(make([]byte, 1<<20), 1<<24)
	for sc.Scan() {
		var p struct {
			Anchors struct {
				Files []string `json:"files"`
			} `json:"anchors"`
		}
		if json.Unmarshal(sc.Bytes(), &p) == nil {
			for _, fl := range p.Anchors.Files {
				set[fl] = true
			}
		}
	}
	// extra dense files (harness-chosen): see /verif/dense_extra.txt
	if b, err := os.ReadFile(filepath.Join(verifDir, "dense_extra.txt")); err == nil {
		for _, l := range strings.Split(string(b), "\n") {
			l = strings.TrimSpace(l)
			if l != "" && !strings.HasPrefix(l, "#") {
				set[l] = true
			}
		}
	}
	var out []string
	for k := range set {
		out = append(out, k)
	}
	sort.Strings(out)
	return out
}

// ensureBinary returns the path of the harness binary for the current tree.
func ensureBinary(log io.Writer) string {
	hash, files := hashTree()
	binDir := filepath.Join(verifDir, "bin", hash)
	bin := filepath.Join(binDir, "sim.test")
	if _, err := os.Stat(bin); err == nil {
		return bin
	}
	// serialise concurrent builds
	os.MkdirAll(filepath.Join(verifDir, "bin"), 0o755)
	lock, err := os.OpenFile(filepath.Join(verifDir, "bin", ".lock"), os.O_CREATE|os.O_RDWR, 0o644)
	if err == nil {
		syscall.Flock(int(lock.Fd()), syscall.LOCK_EX)
		defer func() { syscall.Flock(int(lock.Fd()), syscall.LOCK_UN); lock.Close() }()
		if _, err := os.Stat(bin); err == nil {
			return bin
		}
	}
	start := time.Now()
	scratch, err := os.MkdirTemp("/var/tmp", "verif-build-")
	if err != nil {
		fatal(2, "mktemp: %v", err)
	}
	defer os.RemoveAll(scratch)
	scratchDirs = append(scratchDirs, scratch)
	removeStaleScratch()
	env := goEnv()
	if gc := goCache(); gc != "" {
		env = append(env, "GOCACHE="+gc)
	}
	repoCopy := filepath.Join(scratch, "repo")
	for _, f := range files {
		if err := copyFile(filepath.Join(repoDir, f), filepath.Join(repoCopy, f)); err != nil {
			fatal(2, "copy %s: %v", f, err)
		}
	}
	if err := copyTree(filepath.Join(verifDir, "overlay"), repoCopy); err != nil {
		fatal(2, "overlay: %v", err)
	}
	instr := filepath.Join(verifDir, "bin", "verifinstr")
	if stale(instr, filepath.Join(verifDir, "go/instr")) {
		var b bytes.Buffer
		if err := run(filepath.Join(verifDir, "go/instr"), env, &b, goBin, "build", "-o", instr, "."); err != nil {
			fatal(2, "building instrumenter failed:\n%s", b.String())
		}
	}
	densePath := filepath.Join(scratch, "dense.txt")
	os.WriteFile(densePath, []byte(strings.Join(denseList(), "\n")+"\n"), 0o644)
	var ib bytes.Buffer
	if err := run(repoCopy, env, &ib, instr, "-dir", repoCopy, "-dense", densePath); err != nil {
		fatal(2, "instrumenter failed (tree does not build?):\n%s", tail(ib.String(), 6000))
	}
	lines := strings.Split(strings.TrimSpace(ib.String()), "\n")
	fmt.Fprintf(log, "build: %s\n", lines[len(lines)-1])
	simCopy := filepath.Join(scratch, "sim")
	if err := copyTree(filepath.Join(verifDir, "go/sim"), simCopy); err != nil {
		fatal(2, "copy sim: %v", err)
	}
	tmpl, _ := os.ReadFile(filepath.Join(simCopy, "go.mod.tmpl"))
	os.WriteFile(filepath.Join(simCopy, "go.mod"), bytes.ReplaceAll(tmpl, []byte("REPO_DIR"), []byte(repoCopy)), 0o644)
	copyFile(filepath.Join(repoCopy, "go.sum"), filepath.Join(simCopy, "go.sum"))
	var cb bytes.Buffer
	tmpBin := filepath.Join(scratch, "sim.test")
	if err := run(simCopy, env, &cb, goBin, "test", "-c", "-tags", "verif", "-ldflags=-checklinkname=0", "-o", tmpBin, "."); err != nil {
		fatal(2, "harness build failed:\n%s", tail(cb.String(), 8000))
	}
	os.MkdirAll(binDir, 0o755)
	if err := copyFile(tmpBin, bin+".tmp"); err != nil {
		fatal(2, "install binary: %v", err)
	}
	os.Chmod(bin+".tmp", 0o755)
	os.Rename(bin+".tmp", bin)
	fmt.Fprintf(log, "build: harness for tree %s built in %.0fs\n", hash, time.Since(start).Seconds())
	pruneBins(hash)
	return bin
}

func goCache() string {
	if v := os.Getenv("VERIF_GOCACHE"); v != "" {
		return v
	}
	return ""
}

func stale(bin, srcDir string) bool {
	bi, err := os.Stat(bin)
	if err != nil {
		return true
	}
	st := false
	filepath.WalkDir(srcDir, func(p string, d fs.DirEntry, err error) error {
		if err == nil && !d.IsDir() {
			if i, err := d.Info(); err == nil && i.ModTime().After(bi.ModTime()) {
				st = true
			}
		}
		return nil
	})
	return st
}

func pruneBins(keep string) {
	ents, _ := os.ReadDir(filepath.Join(verifDir, "bin"))
	type e struct {
		name string
		t    time.Time
	}
	var ds []e
	for _, d := range ents {
		if d.IsDir() && d.Name() != keep {
			if i, err := d.Info(); err == nil {
				ds = append(ds, e{d.Name(), i.ModTime()})
			}
		}
	}
	sort.Slice(ds, func(i, j int) bool { return ds[i].t.After(ds[j].t) })
	for i, d := range ds {
		if i >= 3 {
			os.RemoveAll(filepath.Join(verifDir, "bin", d.name))
		}
	}
}

func tail(s string, n int) string {
	if len(s) > n {
		return "...\n" + s[len(s)-n:]
	}
	return s
}

// ---------------------------------------------------------------- findings

type finding struct {
	Property  string `json:"property"`
	Status    string `json:"status"` // known | fixed
	Signature string `json:"signature"`
	What      string `json:"what"`
	Commit    string `json:"commit,omitempty"`
}

func loadFindings() []finding {
	b, err := os.ReadFile(filepath.Join(verifDir, "known_findings.json"))
	if err != nil {
		return nil
	}
	var f struct {
		Findings []finding `json:"findings"`
	}
	if err := json.Unmarshal(b, &f); err != nil {
		fatal(2, "known_findings.json: %v", err)
	}
	return f.Findings
}

// ---------------------------------------------------------------- run

type wmsg struct {
	Type       string         `json:"type"`
	Worker     int            `json:"worker"`
	Sig        string         `json:"sig"`
	Detail     string         `json:"detail"`
	Replay     string         `json:"replay"`
	Run        int64          `json:"run"`
	Runs       int            `json:"runs"`
	PureRuns   int            `json:"pure_runs"`
	Nontrivial int            `json:"nontrivial"`
	Hashes     []string       `json:"hashes"`
	Probes     map[string]int `json:"probes"`
	Faults     map[string]int `json:"faults"`
	States     []string       `json:"states"`
	SigCounts  map[string]int `json:"sig_counts"`
	Steps      int64          `json:"steps"`
	SimNS      int64          `json:"sim_ns"`
	SimS       float64        `json:"sim_s"`
	Stuck      int            `json:"stuck"`
	StepCap    int            `json:"step_cap"`
	Leaky      int            `json:"leaky_runs"`
	Samples    []string       `json:"samples"`
	WallS      float64        `json:"wall_s"`
	FaultFree  int            `json:"fault_free_runs"`
	Sigs       []string       `json:"sigs"`
	SchedHash  uint64         `json:"sched_hash"`
}

type meta struct {
	Level       string   `json:"level"`
	Rule        string   `json:"rule"`
	Real        []string `json:"real"`
	Stub        []string `json:"stub"`
	Assumptions []string `json:"assumptions"`
}

func main() {
	var tier, replay string
	var seed int64
	var workers, budget int
	flag.StringVar(&tier, "tier", envOr("VERIF_TIER", "quick"), "quick|thorough")
	flag.Int64Var(&seed, "seed", envInt("VERIF_SEED", 1), "seed")
	flag.StringVar(&replay, "replay", "", "replay file")
	flag.IntVar(&workers, "workers", 16, "worker processes")
	flag.IntVar(&budget, "budget", 0, "wall budget in seconds (0 = tier default)")
	buildOnly := flag.Bool("build-only", false, "only build the harness")
	flag.Parse()
	if *buildOnly {
		fmt.Println(ensureBinary(os.Stdout))
		return
	}
	if flag.NArg() < 1 {
		fatal(2, "usage: drive [flags] <property id> | selftest-determinism [ids...]")
	}
	if flag.Arg(0) == "selftest-determinism" {
		selftestDeterminism(flag.Args()[1:])
		return
	}
	id := flag.Arg(0)
	// flags may follow the id
	if flag.NArg() > 1 {
		fs2 := flag.NewFlagSet("rest", flag.ExitOnError)
		fs2.StringVar(&tier, "tier", tier, "")
		fs2.Int64Var(&seed, "seed", seed, "")
		fs2.StringVar(&replay, "replay", replay, "")
		fs2.IntVar(&workers, "workers", workers, "")
		fs2.IntVar(&budget, "budget", budget, "")
		fs2.Parse(flag.Args()[1:])
	}
	if tier != "quick" && tier != "thorough" {
		fatal(2, "bad tier %q", tier)
	}
	start := time.Now()
	bin := ensureBinary(os.Stdout)

	if replay != "" {
		sigs, hash, err := replayOnce(bin, id, replay, true)
		if err != nil {
			fatal(2, "replay: %v", err)
		}
		var r struct {
			Sig string `json:"sig"`
		}
		b, _ := os.ReadFile(replay)
		json.Unmarshal(b, &r)
		fmt.Printf("replay: signatures=%v sched_hash=%x expected=%s\n", sigs, hash, r.Sig)
		for _, s := range sigs {
			if s == r.Sig {
				fmt.Printf("VIOLATION property=%s replay=%s\n", id, replay)
				quit(1)
			}
		}
		fmt.Println("replay: expected violation did not recur")
		quit(0)
	}

	if budget == 0 {
		budget = 60
		if tier == "thorough" {
			budget = 600
		}
		if v := envInt("VERIF_BUDGET_S", 0); v > 0 {
			budget = int(v)
		}
	}
	findings := loadFindings()
	var knownSigs []string
	for _, f := range findings {
		if f.Property == id && f.Status == "known" {
			knownSigs = append(knownSigs, f.Signature)
		}
	}
	ks, _ := json.Marshal(knownSigs)

	runDir, err := os.MkdirTemp("/var/tmp", "verif-run-")
	if err != nil {
		fatal(2, "mktemp: %v", err)
	}
	defer os.RemoveAll(runDir)
	scratchDirs = append(scratchDirs, runDir)
	replayDir := filepath.Join(verifDir, "replays")
	os.MkdirAll(replayDir, 0o755)

	// scenario metadata
	var md meta
	{
		cmd := exec.Command(bin, "-test.run", "^TestMeta$")
		cmd.Env = append(os.Environ(), "VERIF_PROP="+id)
		out, err := cmd.Output()
		if err != nil {
			fatal(2, "meta for %s: %v\n%s", id, err, out)
		}
		for _, l := range strings.Split(string(out), "\n") {
			if strings.HasPrefix(l, "{") {
				json.Unmarshal([]byte(l), &md)
			}
		}
		if md.Level == "" {
			fatal(2, "property %s has no scenario", id)
		}
	}

	var wg sync.WaitGroup
	outs := make([]string, workers)
	errs := make([]error, workers)
	stderrs := make([]bytes.Buffer, workers)
	deadline := time.Duration(budget)*time.Second*3 + 4*time.Minute
	for i := 0; i < workers; i++ {
		outs[i] = filepath.Join(runDir, fmt.Sprintf("w%d.jsonl", i))
		wg.Add(1)
		go func(i int) {
			defer wg.Done()
			cmd := exec.Command(bin, "-test.run", "^TestWorker$", "-test.cpu", "1", "-test.timeout", "12h")
			cmd.Env = append(os.Environ(),
				"VERIF_PROP="+id, "VERIF_TIER="+tier, "VERIF_SEED="+strconv.FormatInt(seed, 10),
				"VERIF_WORKER="+strconv.Itoa(i), "VERIF_WORKERS="+strconv.Itoa(workers),
				"VERIF_BUDGET_MS="+strconv.Itoa(budget*1000), "VERIF_OUT="+outs[i],
				"VERIF_REPLAY_DIR="+replayDir, "VERIF_KNOWN_SIGS="+string(ks), "GOMAXPROCS=2", "GOMEMLIMIT=5GiB")
			cmd.Stderr = &stderrs[i]
			cmd.Stdout = &stderrs[i]
			if err := cmd.Start(); err != nil {
				errs[i] = err
				return
			}
			done := make(chan error, 1)
			go func() { done <- cmd.Wait() }()
			select {
			case err := <-done:
				errs[i] = err
			case <-time.After(deadline):
				cmd.Process.Kill()
				errs[i] = fmt.Errorf("watchdog: worker exceeded %v", deadline)
			}
		}(i)
	}
	wg.Wait()

	agg := wmsg{Probes: map[string]int{}, Faults: map[string]int{}, SigCounts: map[string]int{}}
	simSeconds := 0.0
	hashes := map[string]bool{}
	states := map[string]bool{}
	type viol struct{ sig, detail, replay string }
	var viols []viol
	seenSig := map[string]bool{}
	trouble := false
	for i := 0; i < workers; i++ {
		gotSummary := false
		f, err := os.Open(outs[i])
		if err == nil {
			sc := bufio.NewScanner(f)
			sc.Buffer(make([]byte, 1<<20), 1<<28)
			for sc.Scan() {
				var m wmsg
				if json.Unmarshal(sc.Bytes(), &m) != nil {
					continue
				}
				switch m.Type {
				case "violation":
					// a worker reports a signature twice from the same file: unminimised as soon as it is
					// found, minimised (file rewritten in place) at the end
					if !seenSig[m.Sig] {
						seenSig[m.Sig] = true
						viols = append(viols, viol{m.Sig, m.Detail, m.Replay})
					} else {
						same := false
						for k := range viols {
							if viols[k].sig == m.Sig && viols[k].replay == m.Replay {
								viols[k].detail = m.Detail
								same = true
							}
						}
						if !same {
							os.Remove(m.Replay)
						}
					}
				case "summary":
					gotSummary = true
					agg.Runs += m.Runs
					agg.PureRuns += m.PureRuns
					agg.Nontrivial += m.Nontrivial
					agg.Steps += m.Steps
					simSeconds += float64(m.SimNS)/1e9 + m.SimS
					agg.Stuck += m.Stuck
					agg.StepCap += m.StepCap
					agg.Leaky += m.Leaky
					agg.FaultFree += m.FaultFree
					for k, v := range m.Probes {
						agg.Probes[k] += v
					}
					for k, v := range m.Faults {
						agg.Faults[k] += v
					}
					for k, v := range m.SigCounts {
						agg.SigCounts[k] += v
					}
					for _, h := range m.Hashes {
						hashes[h] = true
					}
					for _, s := range m.States {
						states[s] = true
					}
					if len(agg.Samples) < 4 {
						agg.Samples = append(agg.Samples, m.Samples...)
					}
				}
			}
			f.Close()
		}
		if !gotSummary || errs[i] != nil {
			trouble = true
			fmt.Fprintf(os.Stderr, "drive: worker %d failed: %v\n%s\n", i, errs[i], tail(stderrs[i].String(), 4000))
		}
	}
	// Worker trouble is never an oracle verdict. A violation that some worker found and that a fresh
	// process reproduces from its replay file is one, whatever happened to the other workers (a defect
	// that exhausts memory can kill them): it is reported; everything else about a troubled batch is not believed.

	// classify violations
	exit := 0
	var knownSeen, newViol []string
	sort.Slice(viols, func(i, j int) bool { return viols[i].sig < viols[j].sig })
	for _, v := range viols {
		var kf *finding
		for i := range findings {
			f := &findings[i]
			if f.Property == id && f.Status == "known" && sigMatch(f.Signature, v.sig) {
				kf = f
			}
		}
		if kf != nil {
			fmt.Printf("KNOWN-FINDING: property=%s %s [%s] (seen %d times)\n", id, kf.What, v.sig, agg.SigCounts[v.sig])
			knownSeen = append(knownSeen, v.sig)
			os.Remove(v.replay)
			continue
		}
		// confirm in a fresh process
		sigs, _, err := replayOnce(bin, id, v.replay, false)
		confirmed := false
		for _, s := range sigs {
			if s == v.sig {
				confirmed = true
			}
		}
		if err != nil || !confirmed {
			agg.Probes["replay_divergences"]++
			fmt.Fprintf(os.Stderr, "drive: replay of %s did not reproduce %s in a fresh process (err=%v, got %v)\n", v.replay, v.sig, err, sigs)
			// fall back: the violation was observed by an oracle on real code; still report it
			if trouble {
				continue // ... except in a troubled batch, where only reproduced violations count
			}
		}
		fmt.Printf("VIOLATION property=%s replay=%s\n", id, v.replay)
		fmt.Printf("  signature: %s\n  %s\n", v.sig, strings.ReplaceAll(tail(v.detail, 1500), "\n", "\n  "))
		newViol = append(newViol, v.sig)
		exit = 1
	}

	if trouble && exit == 0 {
		fatal(2, "worker trouble (not an oracle verdict)")
	}
	if trouble {
		fmt.Fprintf(os.Stderr, "drive: some workers failed (see above); reporting the violations the others found and a fresh process reproduced\n")
	}

	// evidence
	wall := time.Since(start).Seconds()
	distinct := len(hashes)
	cov := map[string]any{
		"evaluations":         agg.Runs,
		"distinct_nontrivial": distinct,
		"rule":                md.Rule,
		"samples":             agg.Samples,
		"simulated_runs":      agg.Runs - agg.PureRuns,
		"pure_input_runs":     agg.PureRuns,
		"nontrivial_runs":     agg.Nontrivial,
		"seeds_per_hour":      int(float64(agg.Runs) / wall * 3600),
		"sim_time_total_s":    simSeconds,
		"steps_total":         agg.Steps,
		"faults_fired":        agg.Faults,
		"fault_free_runs":     agg.FaultFree,
		"probes":              agg.Probes,
		"distinct_states":     len(states),
		"stuck_runs":          agg.Stuck,
		"step_cap_runs":       agg.StepCap,
		"runs_with_live_goroutines_at_end": agg.Leaky,
		"components_real":     md.Real,
		"components_stub":     md.Stub,
		"known_findings_seen": knownSeen,
		"violation_signatures": newViol,
		"signature_counts":    agg.SigCounts,
		"workers":             workers,
		"budget_s":            budget,
		"worker_trouble":      trouble,
	}
	if len(agg.Samples) == 0 {
		cov["samples"] = []string{"(no sample recorded)"}
	}
	ev := map[string]any{
		"property_id": id, "tier": tier, "seed": seed, "level": md.Level, "coverage": cov,
		"assumptions": md.Assumptions, "wall_s": wall, "violations": len(newViol),
	}
	b, _ := json.MarshalIndent(ev, "", " ")
	evDir := envOr("VERIF_EVIDENCE_DIR", filepath.Join(verifDir, "evidence")) // redirected only by the seeded-defect runner
	os.MkdirAll(evDir, 0o755)
	if err := os.WriteFile(filepath.Join(evDir, id+".json"), b, 0o644); err != nil {
		fatal(2, "evidence: %v", err)
	}
	for k, v := range agg.Probes {
		_ = v
		_ = k
	}
	fmt.Printf("%s tier=%s seed=%d runs=%d nontrivial=%d distinct=%d steps=%d sim=%.0fs wall=%.0fs known=%d violations=%d\n",
		id, tier, seed, agg.Runs, agg.Nontrivial, distinct, agg.Steps, simSeconds, wall, len(knownSeen), len(newViol))
	quit(exit)
}

func replayOnce(bin, id, file string, trace bool) ([]string, uint64, error) {
	outf, err := os.CreateTemp("/var/tmp", "verif-replay-*.jsonl")
	if err != nil {
		return nil, 0, err
	}
	outf.Close()
	defer os.Remove(outf.Name())
	cmd := exec.Command(bin, "-test.run", "^TestWorker$", "-test.cpu", "1", "-test.timeout", "1h")
	cmd.Env = append(os.Environ(), "VERIF_PROP="+id, "VERIF_REPLAY="+file, "VERIF_OUT="+outf.Name())
	if trace {
		cmd.Env = append(cmd.Env, "VERIF_TRACE=1")
		cmd.Stderr = os.Stderr
	}
	done := make(chan error, 1)
	if err := cmd.Start(); err != nil {
		return nil, 0, err
	}
	go func() { done <- cmd.Wait() }()
	select {
	case err := <-done:
		if err != nil {
			return nil, 0, err
		}
	case <-time.After(20 * time.Minute):
		cmd.Process.Kill()
		return nil, 0, fmt.Errorf("replay watchdog")
	}
	b, _ := os.ReadFile(outf.Name())
	for _, l := range strings.Split(string(b), "\n") {
		var m wmsg
		if json.Unmarshal([]byte(l), &m) == nil && m.Type == "replay" {
			return m.Sigs, m.SchedHash, nil
		}
	}
	return nil, 0, fmt.Errorf("no replay result")
}

func envOr(k, d string) string {
	if v := os.Getenv(k); v != "" {
		return v
	}
	return d
}

func envInt(k string, d int64) int64 {
	if v := os.Getenv(k); v != "" {
		if n, err := strconv.ParseInt(v, 10, 64); err == nil {
			return n
		}
	}
	return d
}

// sigMatch matches a violation signature against a known-finding pattern in which '*' stands for
// any (possibly empty) text; without '*' the match is exact.
func sigMatch(pattern, sig string) bool {
	parts := strings.Split(pattern, "*")
	if len(parts) == 1 {
		return pattern == sig
	}
	if !strings.HasPrefix(sig, parts[0]) {
		return false
	}
	rest := sig[len(parts[0]):]
	for i := 1; i < len(parts); i++ {
		p := parts[i]
		if i == len(parts)-1 {
			return strings.HasSuffix(rest, p)
		}
		j := strings.Index(rest, p)
		if j < 0 {
			return false
		}
		rest = rest[j+len(p):]
	}
	return true
}

// selftestDeterminism runs, for every scenario, the same run indices in six fresh processes
// (2 repetitions x GOMAXPROCS 1/4/16) and compares the per-run schedule hashes, step counts, draw
// counts and violation signatures. Any difference is a nondeterminism of the simulator.
func selftestDeterminism(ids []string) {
	bin := ensureBinary(os.Stdout)
	if len(ids) == 0 {
		b, _ := os.ReadFile(filepath.Join(verifDir, "MANIFEST.json"))
		var m struct {
			Checks []struct {
				ID string `json:"property_id"`
			} `json:"checks"`
		}
		json.Unmarshal(b, &m)
		for _, c := range m.Checks {
			ids = append(ids, c.ID)
		}
	}
	runs := int(envInt("VERIF_DET_RUNS", 40))
	dir, _ := os.MkdirTemp("/var/tmp", "verif-det-")
	defer os.RemoveAll(dir)
	scratchDirs = append(scratchDirs, dir)
	type result struct {
		Runs, Mismatch int
		First          string
	}
	out := map[string]result{}
	bad := false
	for _, id := range ids {
		var logs [][]string
		for rep := 0; rep < 2; rep++ {
			for _, procs := range []string{"1", "4", "16"} {
				lp := filepath.Join(dir, fmt.Sprintf("%s-%d-%s.log", id, rep, procs))
				cmd := exec.Command(bin, "-test.run", "^TestWorker$", "-test.cpu", procs, "-test.timeout", "30m")
				cmd.Env = append(os.Environ(), "VERIF_PROP="+id, "VERIF_TIER=quick", "VERIF_SEED=12345", "VERIF_WORKER=0", "VERIF_WORKERS=1",
					"VERIF_BUDGET_MS=600000", "VERIF_MAXRUNS="+strconv.Itoa(runs), "VERIF_OUT="+lp+".jsonl", "VERIF_HASHLOG="+lp,
					"VERIF_REPLAY_DIR="+dir, "VERIF_KNOWN_SIGS=[\"*\"]", "GOMAXPROCS="+procs)
				if b, err := cmd.CombinedOutput(); err != nil {
					fatal(2, "selftest worker %s failed: %v\n%s", id, err, tail(string(b), 2000))
				}
				b, _ := os.ReadFile(lp)
				logs = append(logs, strings.Split(strings.TrimSpace(string(b)), "\n"))
			}
		}
		r := result{Runs: len(logs[0])}
		for i := range logs[0] {
			for _, l := range logs[1:] {
				if i >= len(l) || l[i] != logs[0][i] {
					r.Mismatch++
					if r.First == "" {
						other := "<missing>"
						if i < len(l) {
							other = l[i]
						}
						r.First = logs[0][i] + "  vs  " + other
					}
					break
				}
			}
		}
		out[id] = r
		fmt.Printf("determinism %s: runs=%d x6 processes, mismatching runs=%d %s\n", id, r.Runs, r.Mismatch, r.First)
		if r.Mismatch > 0 {
			bad = true
		}
	}
	b, _ := json.MarshalIndent(out, "", " ")
	os.WriteFile(filepath.Join(verifDir, "evidence", "selftest-determinism.json"), b, 0o644)
	if bad {
		quit(1)
	}
}
