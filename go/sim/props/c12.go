package props

import (
	"bytes"
	"errors"
	"fmt"
	"io"
	"net"
	"os"
	"strings"
	"syscall"
	"time"

	"tunnox-core/internal/client/mapping"
	"tunnox-core/internal/client/tunnel"
	"tunnox-core/internal/stream/transform"
	"tunnox-core/internal/utils/iocopy"
	"tunnox-core/verifsim/simnet"
	"tunnox-core/verifsim/simrt"
)

// C12 — client-side relays deliver everything and always terminate.
//
// World (component level): the real iocopy.Bidirectional / iocopy.UDP, either
// called directly or driven by a real tunnel.Tunnel (runDataCopy) registered in
// a real DefaultTunnelManager, between two simnet links:
//
//	app  <==link L==>  local | RELAY | tun  <==link T==>  rem
//
// "app" is the local application socket (stream, or message link for UDP),
// "rem" is the far end of the tunnel stream. Both are harness peers that run a
// drawn script. The relay's tunnel endpoint is wrapped by c12tun, which ends
// (EOF) or fails (error) the inbound tunnel stream at a drawn absolute byte
// offset and records when the relay was told so.
//
// The oracle is a list comparison against what the scripts sent, a 10-line
// length-prefix codec owned by the harness, and a watchdog on the relay call.

const (
	// c12Bound is the configured meaning of "promptly"/"once ... have finished":
	// simulated time the relay gets to return after the harness knows that it
	// has been handed the end of every direction. (Everything the relay needs to
	// do after that is local computation plus at most one flush tick.)
	c12Bound = time.Second
	// c12SpinLimit: Reads issued on the tunnel endpoint after it already
	// returned its terminal result before the harness stops feeding the loop.
	c12SpinLimit = 16
)

type c12crashT struct{}

var c12Sentinel = &c12crashT{}

var errC12Tunnel = errors.New("c12: tunnel transport failed (injected)")

// ---------------------------------------------------------------- relay-side endpoints

// c12tun is the relay's tunnel endpoint: a simnet stream end whose inbound
// stream ends or fails at an absolute offset.
type c12tun struct {
	w          *simrt.World
	c          *simnet.Conn
	cutAt      int64 // -1: the stream ends only when rem ends it
	cutErr     bool  // the cut is a transport error instead of EOF
	withData   bool  // the terminal result is returned together with the last bytes
	failWrites bool  // after the cut the write side fails too
	rideEnd    bool  // like TLS/QUIC streams: when the peer has already finished, the last chunk comes with io.EOF in the same Read

	delivered   int64
	term        bool // the relay has been handed the end of the inbound stream
	termErr     error
	termAt      time.Duration
	dead        bool // some Read already returned an error
	deadErr     error
	postReads   int
	spin        bool
	release     chan struct{}
	closes      int
	closeWrites int
	writeFailed bool
	rode        bool // a Read returned data together with the natural end of the stream
}

func (t *c12tun) ended(err error, fromTunnel bool) {
	if !t.dead {
		t.dead, t.deadErr = true, err
	}
	if fromTunnel && !t.term {
		t.term, t.termErr, t.termAt = true, err, t.w.Now()
	}
}

func (t *c12tun) Read(p []byte) (int, error) {
	if t.dead {
		t.w.Yield("tun.read.afterend")
		t.postReads++
		if t.postReads > c12SpinLimit {
			// the relay keeps polling a stream that has ended: stop feeding the
			// loop (the watchdog gives the verdict) and unwind it at the end.
			t.spin = true
			select {
			case <-t.release:
			case <-t.w.Ctx.Done():
			}
			t.w.Yield("tun.spin.release")
			panic(c12Sentinel)
		}
		return 0, t.deadErr
	}
	if t.cutAt >= 0 {
		rem := t.cutAt - t.delivered
		if rem <= 0 {
			t.w.Yield("tun.read.cut")
			t.ended(t.cutResult(), true)
			return 0, t.deadErr
		}
		if int64(len(p)) > rem {
			p = p[:rem]
		}
	}
	n, err := t.c.Read(p)
	t.delivered += int64(n)
	if err != nil {
		t.ended(err, !t.c.Closed() && !c12IsTimeout(err))
		return n, err
	}
	if t.cutAt >= 0 && t.delivered == t.cutAt && t.withData {
		t.ended(t.cutResult(), true)
		return n, t.deadErr
	}
	if t.rideEnd && n > 0 && t.c.PeerClosedWrite() && t.c.Pending() == 0 {
		t.rode = true
		t.ended(io.EOF, true)
		return n, io.EOF
	}
	return n, nil
}

func (t *c12tun) cutResult() error {
	if t.cutErr {
		return errC12Tunnel
	}
	return io.EOF
}

func (t *c12tun) Write(p []byte) (int, error) {
	if t.term && t.failWrites {
		t.w.Yield("tun.write.failed")
		t.writeFailed = true
		return 0, errC12Tunnel
	}
	n, err := t.c.Write(p)
	if err != nil {
		t.writeFailed = true
	}
	return n, err
}

func (t *c12tun) Close() error      { t.closes++; return t.c.Close() }
func (t *c12tun) CloseWrite() error { t.closeWrites++; return t.c.CloseWrite() }

func c12IsTimeout(err error) bool {
	te, ok := err.(interface{ Timeout() bool })
	return ok && te.Timeout()
}

// c12tunDL is the same endpoint seen as a socket (net.Conn-like): it also has
// deadlines, which work as on a socket (a deadline interrupts a blocked call).
type c12tunDL struct{ *c12tun }

func (x c12tunDL) SetDeadline(d time.Time) error      { return x.c.SetDeadline(d) }
func (x c12tunDL) SetReadDeadline(d time.Time) error  { return x.c.SetReadDeadline(d) }
func (x c12tunDL) SetWriteDeadline(d time.Time) error { return x.c.SetWriteDeadline(d) }

// c12tunNoCWDL: deadlines but no half-close.
type c12tunNoCWDL struct{ c12tunNoCW }

func (x c12tunNoCWDL) SetDeadline(d time.Time) error      { return x.t.c.SetDeadline(d) }
func (x c12tunNoCWDL) SetReadDeadline(d time.Time) error  { return x.t.c.SetReadDeadline(d) }
func (x c12tunNoCWDL) SetWriteDeadline(d time.Time) error { return x.t.c.SetWriteDeadline(d) }

// c12tunNoCW is a tunnel transport without half-close support.
type c12tunNoCW struct{ t *c12tun }

func (x c12tunNoCW) Read(p []byte) (int, error)  { return x.t.Read(p) }
func (x c12tunNoCW) Write(p []byte) (int, error) { return x.t.Write(p) }
func (x c12tunNoCW) Close() error                { return x.t.Close() }

// c12udp is the relay's datagram endpoint (one Read = one datagram). It shows
// the relay nothing but io.ReadWriteCloser.
type c12udp struct {
	c      io.ReadWriteCloser
	inRead bool
	closes int

	w           *simrt.World
	failAt      int // 1-based index of the first Write call that fails (0: none)
	failN       int // number of consecutive failing Write calls
	failErr     error
	writes      int
	writeFaults int
}

func (u *c12udp) Read(p []byte) (int, error) {
	u.inRead = true
	n, err := u.c.Read(p)
	u.inRead = false
	return n, err
}
func (u *c12udp) Write(p []byte) (int, error) {
	u.writes++
	if u.failAt > 0 && u.writes >= u.failAt && u.writes < u.failAt+u.failN {
		u.w.Yield("udp.write.fault")
		u.writeFaults++
		return 0, u.failErr
	}
	return u.c.Write(p)
}
func (u *c12udp) Close() error { u.closes++; return u.c.Close() }

// c12udpDL additionally exposes the endpoint's own read-deadline behaviour
// (a socket wakes a blocked Read, mapping.UDPVirtualConn only samples the
// deadline when a Read starts).
type c12udpDL struct {
	*c12udp
	dl interface{ SetReadDeadline(time.Time) error }
}

func (u c12udpDL) SetReadDeadline(t time.Time) error { return u.dl.SetReadDeadline(t) }

// c12pktConn plays the kernel socket under a mapping.UDPMappingAdapter: what
// the session's writeLoop sends is what the application receives.
type c12pktConn struct {
	w   *simrt.World
	got *[][]byte
}

func (p *c12pktConn) WriteTo(b []byte, _ net.Addr) (int, error) {
	p.w.Yield("udp.socket.sendto")
	*p.got = append(*p.got, append([]byte(nil), b...))
	return len(b), nil
}
func (p *c12pktConn) ReadFrom([]byte) (int, net.Addr, error) { return 0, nil, io.EOF }
func (p *c12pktConn) Close() error                           { return nil }
func (p *c12pktConn) LocalAddr() net.Addr                    { return simnet.Addr{Net: "udp", S: "127.0.0.1:5353"} }
func (p *c12pktConn) SetDeadline(time.Time) error            { return nil }
func (p *c12pktConn) SetReadDeadline(time.Time) error        { return nil }
func (p *c12pktConn) SetWriteDeadline(time.Time) error       { return nil }

// ---------------------------------------------------------------- relay driver

type c12stubClient struct{ notifies int }

func (s *c12stubClient) SendTunnelCloseNotify(int64, string, string, string) error {
	s.notifies++
	return nil
}

type c12relay struct {
	w        *simrt.World
	via      bool
	task     *simrt.Task
	res      *iocopy.Result
	tun      *tunnel.Tunnel
	mgr      *tunnel.DefaultTunnelManager
	cli      *c12stubClient
	onClosed int
	reason   tunnel.CloseReason
}

func c12Start(w *simrt.World, udp, via bool, local, tunRWC io.ReadWriteCloser, xf transform.StreamTransformer) *c12relay {
	r := &c12relay{w: w, via: via}
	if via {
		proto := "tcp"
		if udp {
			proto = "udp"
		}
		r.mgr = tunnel.NewTunnelManager(w.Ctx, tunnel.TunnelRoleListen)
		r.cli = &c12stubClient{}
		r.tun = tunnel.NewTunnel(&tunnel.TunnelConfig{ID: "tun-1", MappingID: "map-1", Role: tunnel.TunnelRoleListen, Protocol: proto,
			LocalConn: local, TunnelRWC: tunRWC, TargetClient: 7, Manager: r.mgr, Client: r.cli,
			OnClosed: func(reason tunnel.CloseReason, err error) { r.onClosed++; r.reason = reason }})
		if err := r.mgr.RegisterTunnel(r.tun); err != nil {
			w.Violationf("C12:harness:register", "%v", err)
		}
		if err := r.tun.Start(); err != nil {
			w.Violationf("C12:harness:start", "%v", err)
		}
		return r
	}
	r.task = w.Spawn("relay", func() {
		opt := &iocopy.Options{LogPrefix: "c12", Transformer: xf}
		if udp {
			r.res = iocopy.UDP(local, tunRWC, opt)
		} else {
			r.res = iocopy.Bidirectional(local, tunRWC, opt)
		}
	})
	return r
}

func (r *c12relay) returned() bool {
	if r.via {
		return r.onClosed > 0
	}
	return r.task.Done()
}

// c12Await polls (on the fake clock, with growing steps) until cond holds or
// the simulated deadline passes.
func c12Await(w *simrt.World, deadline time.Duration, cond func() bool) bool {
	step := 5 * time.Millisecond
	for !cond() {
		if w.Now() >= deadline {
			return false
		}
		d := step
		if rem := deadline - w.Now(); d > rem {
			d = rem
		}
		w.Sleep(d)
		if step < 20*time.Second {
			step *= 2
		}
	}
	return true
}

// c12CheckTunnelClosed is the lifecycle clause: the relay result drives the
// tunnel to Closed exactly once and releases both endpoints.
func c12CheckTunnelClosed(w *simrt.World, r *c12relay, localClosed bool, t *c12tun) {
	if !r.via || r.onClosed == 0 {
		return
	}
	c12Await(w, w.Now()+100*time.Millisecond, func() bool { return r.tun.GetState() == tunnel.TunnelStateClosed })
	if r.onClosed != 1 {
		w.Violationf("C12:tunnel-close:onclosed-count", "OnClosed ran %d times", r.onClosed)
	}
	if st := r.tun.GetState(); st != tunnel.TunnelStateClosed {
		w.Violationf("C12:tunnel-close:state", "after the relay finished the tunnel state is %d, want Closed", st)
	}
	if r.mgr.GetTunnel("tun-1") != nil {
		w.Violationf("C12:tunnel-close:still-registered", "tunnel still registered after close")
	}
	if !localClosed || t.closes == 0 {
		w.Violationf("C12:tunnel-close:endpoint-open", "after close: local closed=%v tunnel closes=%d", localClosed, t.closes)
	}
}

// ---------------------------------------------------------------- TCP peers

const (
	c12EndHalf  = iota // send everything, half-close, keep reading to EOF
	c12EndClose        // send everything, then close the socket (stops reading)
	c12EndReset        // connection reset after part of the payload
	c12EndReply        // send a head, wait for the peer's EOF, send the rest, half-close
)

var c12EndNames = []string{"halfclose", "close", "reset", "reply-after-eof"}

type c12peer struct {
	w       *simrt.World
	name    string
	conn    *simnet.Conn
	payload []byte
	cuts    []int // chunk end offsets
	gaps    []time.Duration
	end     int
	mark    int // EndReply: offset at which to wait; EndReset: offset at which to reset

	sent      int
	werr      error
	got       []byte
	rerr      error
	eof       bool
	eofCh     chan struct{}
	ended     bool
	gotAtEnd  int
	awaited   bool
	sentAtEOF int
}

func c12Payload(n int, x byte) []byte {
	b := make([]byte, n)
	for i := range b {
		b[i] = byte(i*7+i>>8) ^ x
	}
	return b
}

func (p *c12peer) await() {
	p.awaited = true
	select {
	case <-p.eofCh:
	case <-p.w.Ctx.Done():
	}
	p.w.Yield("peer.await:" + p.name)
}

func (p *c12peer) writer() {
	off := 0
	for i, e := range p.cuts {
		if p.gaps[i] > 0 {
			p.w.Sleep(p.gaps[i])
		}
		if p.end == c12EndReply && off >= p.mark && !p.awaited {
			p.await()
		}
		if p.end == c12EndReset && off >= p.mark {
			break
		}
		if e > off {
			n, err := p.conn.Write(p.payload[off:e])
			p.sent += n
			if err != nil {
				p.werr = err
				break
			}
		}
		off = e
	}
	if p.end == c12EndReply && !p.awaited {
		p.await()
	}
	switch p.end {
	case c12EndHalf, c12EndReply:
		p.conn.CloseWrite()
	case c12EndClose:
		p.conn.Close()
		p.w.Fault("close:" + p.name)
	case c12EndReset:
		p.w.Yield("peer.reset:" + p.name)
		p.conn.Reset()
		p.w.Fault("reset:" + p.name)
	}
	p.ended = true
	p.gotAtEnd = len(p.got)
}

func (p *c12peer) reader() {
	buf := make([]byte, 32<<10)
	for {
		n, err := p.conn.Read(buf)
		p.got = append(p.got, buf[:n]...)
		if err != nil {
			p.rerr = err
			p.eof = err == io.EOF
			p.sentAtEOF = p.sent
			close(p.eofCh)
			return
		}
	}
}

func c12TCPSize(c *simrt.Choice) int {
	switch c.Intn(8, "tcp.size.class") {
	case 0:
		return 1 + c.Intn(600, "tcp.size")
	case 1:
		return 0
	case 2:
		return 1
	case 3:
		return 32768 - 3 + c.Intn(7, "tcp.size")
	case 4:
		return 65536 - 2 + c.Intn(5, "tcp.size")
	case 5:
		return 100000 + c.Intn(200000, "tcp.size")
	default:
		return 600 + c.Intn(8000, "tcp.size")
	}
}

func c12Script(w *simrt.World, name string, conn *simnet.Conn, x byte, long, slow bool) *c12peer {
	c := w.C
	p := &c12peer{w: w, name: name, conn: conn, eofCh: make(chan struct{})}
	n := c12TCPSize(c)
	k := 1 + c.Biased(6, name+".chunks")
	if long {
		// three or more pauses of ~2 minutes with bytes flowing after each of them:
		// the transfer is active for more than 5 minutes and never idle for 5
		if k < 4 {
			k = 4
		}
		if n < 2*k {
			n = 2 * k
		}
	}
	if slow {
		// bytes keep flowing, with pauses of seconds to tens of seconds between the
		// chunks (a slow producer: report generation, dump, tar | nc)
		if k < 2 {
			k = 2
		}
		if n < 2*k {
			n = 2 * k
		}
	}
	p.payload = c12Payload(n, x)
	for i := 1; i < k; i++ {
		if long || slow {
			p.cuts = append(p.cuts, i*n/k)
		} else {
			p.cuts = append(p.cuts, c.Intn(n+1, name+".chunk.at"))
		}
	}
	p.cuts = append(p.cuts, n)
	sortInts(p.cuts)
	for i := range p.cuts {
		var g time.Duration
		if long {
			if i > 0 {
				g = 2*time.Minute + time.Duration(c.Intn(1000, name+".gap"))*time.Millisecond
			}
		} else if slow {
			if i > 0 {
				g = []time.Duration{1500 * time.Millisecond, 4 * time.Second, 11 * time.Second, 20 * time.Second}[c.Intn(4, name+".slowgap")] +
					time.Duration(c.Intn(1000, name+".gap"))*time.Millisecond
			}
		} else if c.Intn(3, name+".gap?") == 2 {
			g = time.Duration(1+c.Intn(40, name+".gap")) * time.Millisecond
		}
		p.gaps = append(p.gaps, g)
	}
	return p
}

func sortInts(s []int) {
	for i := 1; i < len(s); i++ {
		for j := i; j > 0 && s[j] < s[j-1]; j-- {
			s[j], s[j-1] = s[j-1], s[j]
		}
	}
}

func c12TCP(w *simrt.World, via bool) {
	c := w.C
	// ---- swarm configuration
	long := via && c.Intn(5, "tcp.long") == 4 // a transfer that stays active for more than 5 minutes
	limited := !via && c.Intn(4, "tcp.ratelimited") == 3
	slow := !long && c.Intn(5, "tcp.slow") == 4 // seconds between chunks; the whole transfer stays below 4 minutes
	noCW := c.Intn(5, "tcp.tunnel.nocw") == 4
	wrap := c.Intn(2, "tcp.tunnel.wrap") // 0: iocopy.NewReadWriteCloser (as production), 1: endpoint itself
	laws := [4]simnet.Law{}
	for i := range laws {
		laws[i] = []simnet.Law{simnet.LawAll, simnet.LawMixed, simnet.LawMTU, simnet.LawSmall, simnet.LawOne}[c.Intn(5, "tcp.law")]
	}
	capL := []int{0, 1 << 16, 4096, 100}[c.Intn(4, "tcp.capL")]
	capT := []int{0, 1 << 16, 4096, 100}[c.Intn(4, "tcp.capT")]

	app := c12Script(w, "app", nil, 0x00, long, slow)
	rem := c12Script(w, "rem", nil, 0xff, long, slow)
	total := len(app.payload) + len(rem.payload)
	if total > 20000 {
		for i := range laws {
			if laws[i] == simnet.LawSmall || laws[i] == simnet.LawOne {
				laws[i] = simnet.LawMTU
			}
		}
	}
	// laws are per reading end
	la, lb := simnet.NewLink(w, simnet.LinkConfig{NameA: "app", NameB: "local", Capacity: capL, LawAB: laws[0], LawBA: laws[1]})
	ta, tb := simnet.NewLink(w, simnet.LinkConfig{NameA: "tun", NameB: "rem", Capacity: capT, LawAB: laws[2], LawBA: laws[3]})
	app.conn, rem.conn = la, tb

	// end-of-stream orders
	app.end = c.Intn(4, "app.end")
	rem.end = c.Intn(4, "rem.end")
	if app.end == c12EndReply && (rem.end == c12EndReply) {
		rem.end = c12EndHalf // two peers waiting for each other's EOF is a protocol deadlock, not a relay property
	}
	if noCW && rem.end == c12EndReply {
		rem.end = c12EndHalf // EOF cannot travel over a transport without half-close
	}
	for _, p := range []*c12peer{app, rem} {
		if p.end == c12EndReply || p.end == c12EndReset {
			p.mark = p.cuts[c.Intn(len(p.cuts), p.name+".mark")]
			if p.end == c12EndReset && p.mark == len(p.payload) && len(p.cuts) > 1 {
				p.mark = p.cuts[0]
			}
		}
	}
	// tunnel stream cut
	t := &c12tun{w: w, c: ta, cutAt: -1, release: make(chan struct{})}
	if !long && c.Intn(3, "tcp.cut") == 2 {
		t.cutAt = int64(c.Intn(len(rem.payload)+1, "tcp.cut.at"))
		t.cutErr = c.Intn(2, "tcp.cut.err") == 1
		t.withData = c.Intn(3, "tcp.cut.withdata") == 2
		t.failWrites = t.cutErr || c.Intn(3, "tcp.cut.failwrites") == 2
	}
	// either relay-side endpoint may report the end of its stream together with
	// the last bytes (io.Reader allows n > 0 with io.EOF; TLS and QUIC streams do it)
	t.rideEnd = c.Intn(3, "tcp.tunnel.ride-eof") == 2
	loc := &c12tun{w: w, c: lb, cutAt: -1, release: t.release, rideEnd: c.Intn(3, "tcp.local.ride-eof") == 2}
	// what else the relay can see of its endpoints: the local application socket is a
	// net.Conn in production (deadlines), the tunnel end only when it is not wrapped
	locDL := c.Intn(3, "tcp.local.deadlines") != 2
	tunDL := c.Intn(2, "tcp.tunnel.deadlines") == 1
	var locEnd io.ReadWriteCloser = loc
	if locDL {
		locEnd = c12tunDL{loc}
	}
	var tunEnd io.ReadWriteCloser = t
	switch {
	case noCW && tunDL:
		tunEnd = c12tunNoCWDL{c12tunNoCW{t}}
	case noCW:
		tunEnd = c12tunNoCW{t}
	case tunDL:
		tunEnd = c12tunDL{t}
	}
	tunRWC := tunEnd
	if wrap == 0 {
		var err error
		tunRWC, err = iocopy.NewReadWriteCloser(tunEnd, tunEnd, func() error { return tunEnd.Close() })
		if err != nil {
			w.Violationf("C12:harness:rwc", "%v", err)
			return
		}
	}
	var xf transform.StreamTransformer
	if limited {
		xf, _ = transform.NewTransformer(&transform.TransformConfig{BandwidthLimit: 256 << 20})
	}
	class := func() string {
		s := "plain"
		if limited {
			s = "ratelimited"
		}
		if via {
			s = "tunnel"
		}
		if long {
			s = "tunnel-long-lived"
		}
		if slow {
			s += "-slow"
		}
		return s
	}()
	cutName := "nocut"
	if t.cutAt >= 0 {
		cutName = "cut-eof"
		if t.cutErr {
			cutName = "cut-err"
		}
	}
	w.Sample(fmt.Sprintf("tcp via=%v long=%v ratelimited=%v nocw=%v wrap=%d laws=%v capL=%d capT=%d app{len=%d chunks=%v gaps=%v end=%s mark=%d} rem{len=%d chunks=%v gaps=%v end=%s mark=%d} cut=%d err=%v withdata=%v failwrites=%v ride-eof{local=%v tunnel=%v} deadlines{local=%v tunnel=%v}",
		via, long, limited, noCW, wrap, laws, capL, capT, len(app.payload), app.cuts, app.gaps, c12EndNames[app.end], app.mark,
		len(rem.payload), rem.cuts, rem.gaps, c12EndNames[rem.end], rem.mark, t.cutAt, t.cutErr, t.withData, t.failWrites, loc.rideEnd, t.rideEnd, locDL, tunDL))
	w.State(fmt.Sprintf("tcp/%s/%s-%s/%s/nocw=%v/ride=%v,%v/dl=%v,%v", class, c12EndNames[app.end], c12EndNames[rem.end], cutName, noCW, loc.rideEnd, t.rideEnd, locDL, tunDL))

	// ---- run
	r := c12Start(w, false, via, locEnd, tunRWC, xf)
	tasks := []*simrt.Task{
		w.Spawn("app.rd", app.reader), w.Spawn("rem.rd", rem.reader),
		w.Spawn("app.wr", app.writer), w.Spawn("rem.wr", rem.writer),
	}
	var scripted time.Duration
	for _, p := range []*c12peer{app, rem} {
		for _, g := range p.gaps {
			scripted += g
		}
	}
	// the harness knows a direction can finish when its sender ended its write
	// side or the tunnel was cut; then the relay gets c12Bound to return.
	dirsOver := func() bool {
		return app.ended && (rem.ended || t.term)
	}
	c12Await(w, scripted+30*time.Second, func() bool { return r.returned() || dirsOver() })
	over := dirsOver()
	if over {
		c12Await(w, w.Now()+c12Bound, r.returned)
	}
	returned := r.returned()
	ends := c12EndNames[app.end] + "-" + c12EndNames[rem.end]
	if t.spin {
		w.Probe("tcp.spin")
	}
	if !returned {
		switch {
		case over && t.spin:
			w.Violationf("C12:tcp-return:spins-after-tunnel-end:"+class, "both directions were over at the latest %v ago, relay keeps reading the ended tunnel (%d reads after its terminal result)", c12Bound, t.postReads)
		case over:
			w.Violationf("C12:tcp-return:not-returned:"+class+":"+ends+":"+cutName, "app and rem ended their write sides (tunnel cut=%v) but the relay has not returned %v later; live=%v", t.term, c12Bound, c12Live(w))
		case app.end == c12EndReply && !app.ended && rem.ended && !app.eof && !t.writeFailed:
			w.Violationf("C12:tcp-halfclose:not-propagated:tunnel-to-app:"+class, "rem half-closed/closed (end=%s) but app never saw EOF and cannot send its reply", c12EndNames[rem.end])
		case rem.end == c12EndReply && !rem.ended && app.ended && !rem.eof && t.cutAt < 0:
			w.Violationf("C12:tcp-halfclose:not-propagated:app-to-tunnel:"+class, "app half-closed/closed (end=%s) but rem never saw EOF and cannot send its reply", c12EndNames[app.end])
		default:
			w.Violationf("C12:tcp-deliver:stalled:"+class+":"+ends+":"+cutName, "a sender is still blocked %v after the script should have ended: app.ended=%v sent=%d/%d rem.ended=%v sent=%d/%d; live=%v",
				30*time.Second, app.ended, app.sent, len(app.payload), rem.ended, rem.sent, len(rem.payload), c12Live(w))
		}
	} else {
		w.Probe("tcp.returned")
	}
	c12CheckTunnelClosed(w, r, lb.Closed(), t)

	// Let the peers drain before judging delivery: a byte the relay has written to
	// a peer's socket counts as received only once that peer's reader task has been
	// scheduled, and the watchdog's poll instant can coincide with the relay's last
	// write (same fake instant, main scheduled first). Readers end on the EOF/error
	// that follows the relay's close; simulated time cannot advance while they are
	// still runnable.
	c12Await(w, w.Now()+c12Bound, func() bool { return tasks[0].Done() && tasks[1].Done() })

	// ---- delivery oracle
	anyReset := app.end == c12EndReset || rem.end == c12EndReset
	// app -> rem
	c12CheckDir(w, "app-to-tunnel", class, app, rem, -1, loc.rode,
		!anyReset && rem.end != c12EndClose && !(t.cutAt >= 0 && t.failWrites))
	// rem -> app (subject to the tunnel cut)
	c12CheckDir(w, "tunnel-to-app", class, rem, app, t.cutAt, t.rode || t.term && t.cutAt >= 0 && t.withData && !t.cutErr,
		!anyReset && app.end != c12EndClose && !(t.cutAt >= 0 && t.cutErr))

	// ---- non-triviality
	for _, p := range []*c12peer{app, rem} {
		if p.ended && len(p.got) > p.gotAtEnd && (p.end == c12EndHalf || p.end == c12EndReply) {
			w.Probe("tcp.delivered-after-own-halfclose")
			w.Nontrivial()
		}
		if p.awaited && p.eof && p.sent > p.sentAtEOF {
			w.Probe("tcp.reply-after-peer-eof")
			w.Nontrivial()
		}
	}
	if anyReset || app.end == c12EndClose || rem.end == c12EndClose || t.term && t.cutAt >= 0 {
		if len(app.got)+len(rem.got) > 0 {
			w.Nontrivial()
		}
	}
	if t.term && t.cutAt >= 0 {
		w.Fault("tunnel." + cutName)
	}
	if loc.rode {
		w.Probe("tcp.local.eof-with-last-chunk")
		w.Nontrivial()
	}
	if t.rode {
		w.Probe("tcp.tunnel.eof-with-last-chunk")
		w.Nontrivial()
	}
	w.Probe("tcp.class." + class)
	if locDL || tunDL && wrap == 1 {
		w.Probe("tcp.relay-sees-deadlines")
	}

	// ---- cleanup
	close(t.release)
	la.Close()
	tb.Close()
	lb.Close()
	ta.Close()
	if r.mgr != nil {
		r.mgr.Close()
	}
	c12Await(w, w.Now()+time.Second, func() bool {
		for _, x := range tasks {
			if !x.Done() {
				return false
			}
		}
		return true
	})
}

func c12Live(w *simrt.World) string {
	var s []string
	for _, ti := range w.LiveTasks() {
		if ti.ID == "main" {
			continue
		}
		s = append(s, ti.ID+"@"+ti.Site)
	}
	return strings.Join(s, ", ")
}

// c12CheckDir: what y received must be a prefix of what x sent; when nothing
// legitimately interrupts the direction it must be everything (up to the cut).
func c12CheckDir(w *simrt.World, dir, class string, x, y *c12peer, cut int64, rode, complete bool) {
	want := x.payload
	if cut >= 0 && int64(len(want)) > cut {
		want = want[:cut]
	}
	if len(y.got) > len(want) || !bytes.Equal(y.got, want[:len(y.got)]) {
		w.Violationf("C12:tcp-prefix:"+dir, "%s received %d bytes that are not a prefix of the %d bytes sent (first difference at %d)", y.name, len(y.got), len(want), firstDiff(y.got, want))
		return
	}
	if !complete {
		return
	}
	if len(y.got) < len(want) {
		order := "reverse-direction-still-open"
		if y.ended && (y.end == c12EndHalf || y.end == c12EndReply) {
			order = "after-receiver-half-closed"
		}
		if rode {
			order = "last-chunk-read-together-with-eof"
		}
		w.Violationf("C12:tcp-deliver:"+dir+":"+class+":"+order, "%s sent/should have sent %d bytes (accepted %d, write error %v) but %s received only %d (read ended with %v); %s.end=%s %s.end=%s",
			x.name, len(want), x.sent, x.werr, y.name, len(y.got), y.rerr, x.name, c12EndNames[x.end], y.name, c12EndNames[y.end])
		return
	}
	w.Probe("tcp.complete." + dir)
}

// ---------------------------------------------------------------- UDP

func c12Encode(ds [][]byte) ([]byte, []int) {
	var enc []byte
	var offs []int
	for _, d := range ds {
		offs = append(offs, len(enc))
		enc = append(enc, byte(len(d)>>8), byte(len(d)))
		enc = append(enc, d...)
	}
	return enc, offs
}

// c12Decode is the harness's own reader of the length-prefixed encoding.
func c12Decode(b []byte) (ds [][]byte, rest int) {
	for len(b) >= 2 {
		n := int(b[0])<<8 | int(b[1])
		if len(b) < 2+n {
			break
		}
		ds = append(ds, b[2:2+n])
		b = b[2+n:]
	}
	return ds, len(b)
}

var c12DgSizes = []int{1, 2, 255, 256, 1472, 65507, 3, 1200, 9000, 32768}

func c12Datagrams(c *simrt.Choice, label string, tag byte) [][]byte {
	var ds [][]byte
	n := 0
	switch c.Intn(5, label+".count.class") {
	case 0:
		n = 1 + c.Intn(4, label+".count")
	case 1:
		n = 0
	case 2:
		n = 30 + c.Intn(40, label+".count") // crosses the 32-datagram batch
	case 3:
		n = 5 + c.Intn(8, label+".count")
	default:
		n = 1
	}
	big := c.Intn(4, label+".big") == 3 // bursts that cross the 128 KiB / 256 KiB thresholds
	for i := 0; i < n; i++ {
		var sz int
		if big && n <= 12 {
			sz = []int{65507, 32768, 65507, 9000}[c.Intn(4, label+".size")]
		} else if n > 12 {
			sz = []int{1, 2, 255, 256, 3, 1472}[c.Intn(6, label+".size")]
		} else {
			sz = c12DgSizes[c.Intn(len(c12DgSizes), label+".size")]
		}
		d := make([]byte, sz)
		for j := range d {
			d[j] = byte(j*13+i*31) ^ tag
		}
		// first bytes identify the datagram; keep a non-zero length-looking body so a
		// mis-framed stream cannot accidentally re-synchronise
		d[0] = byte(i + 1)
		ds = append(ds, d)
	}
	return ds
}

func c12CutClass(cut int64, offs []int, ds [][]byte, total int) string {
	if cut < 0 {
		return "nocut"
	}
	for i, o := range offs {
		switch {
		case cut == int64(o):
			return "at-boundary"
		case cut == int64(o)+1:
			return "inside-prefix"
		case cut == int64(o)+2:
			return "after-prefix"
		case cut > int64(o)+2 && cut < int64(o+2+len(ds[i])):
			return "inside-payload"
		}
	}
	if cut == int64(total) {
		return "at-boundary"
	}
	return "beyond"
}

func c12UDP(w *simrt.World, via bool) {
	c := w.C
	in := c12Datagrams(c, "udp.in", 0xa5)   // rem -> app (encoded by the harness, de-framed by the relay)
	out := c12Datagrams(c, "udp.out", 0x3c) // app -> rem (framed by the relay, decoded by the harness)
	enc, offs := c12Encode(in)
	N := len(enc)
	appFirst := c.Intn(4, "udp.appfirst") == 3 // the application side ends first, the tunnel only afterwards
	wrap := c.Intn(2, "udp.tunnel.wrap")
	t := &c12tun{w: w, cutAt: -1, release: make(chan struct{})}
	if !appFirst {
		// cut position: a record index and a position relative to it
		ri := c.Intn(len(in)+1, "udp.cut.record")
		if ri == len(in) {
			t.cutAt = int64(N)
		} else {
			o, l := offs[ri], len(in[ri])
			switch c.Intn(7, "udp.cut.where") {
			case 0:
				t.cutAt = int64(o + 1) // inside the 2-byte prefix
			case 1:
				t.cutAt = int64(o) // record boundary
			case 2:
				t.cutAt = int64(o + 2) // prefix complete, no payload
			case 3:
				t.cutAt = int64(o + 3) // first payload byte
			case 4:
				t.cutAt = int64(o + 2 + l - 1) // last payload byte missing
			default:
				t.cutAt = int64(o + 2 + c.Intn(l, "udp.cut.in")) // anywhere in the payload (o+2 = after prefix)
			}
			if t.cutAt > int64(o+2+l) {
				t.cutAt = int64(o + 2 + l)
			}
		}
		t.cutErr = c.Intn(3, "udp.cut.err") == 2
		t.withData = c.Intn(3, "udp.cut.withdata") == 2
		t.failWrites = t.cutErr || c.Intn(2, "udp.cut.failwrites") == 1
	}
	t.rideEnd = c.Intn(3, "udp.tunnel.ride-eof") == 2
	// what the relay's datagram endpoint is: 0 a bare io.ReadWriteCloser, 1 socket-like (a read
	// deadline interrupts a blocked Read, as *net.UDPConn on the target side), 2 the real
	// mapping.UDPVirtualConn of a UDPMappingAdapter session (listen side)
	udpKind := c.Intn(3, "udp.local.kind")
	if udpKind == 2 && len(out) == 0 {
		udpKind = 0 // a session exists only once its source address has sent a datagram
	}
	kindName := []string{"rwc", "socket", "udpvirtualconn"}[udpKind]
	kindSuffix := ""
	if udpKind != 0 {
		kindSuffix = ":" + kindName
	}
	// a fault on the relay's writes to the datagram side: which Write calls fail and how
	// (a plain error, or the errno-typed transient errors of a connected UDP socket)
	wfAt, wfN, wfName := 0, 0, "none"
	var wfErr error
	if len(in) > 0 && c.Intn(4, "udp.local.writefault") == 3 {
		wfAt = 1 + c.Intn(len(in), "udp.local.writefault.at")
		wfN = 1 + c.Biased(3, "udp.local.writefault.n")
		switch c.Intn(3, "udp.local.writefault.kind") {
		case 0:
			wfName, wfErr = "econnrefused", &net.OpError{Op: "write", Net: "udp", Err: os.NewSyscallError("sendto", syscall.ECONNREFUSED)}
		case 1:
			wfName, wfErr = "enobufs", &net.OpError{Op: "write", Net: "udp", Err: os.NewSyscallError("sendto", syscall.ENOBUFS)}
		default:
			wfName, wfErr = "error", errors.New("c12: udp write failed (injected)")
		}
	}
	lawIn := []simnet.Law{simnet.LawAll, simnet.LawMixed, simnet.LawMTU, simnet.LawSmall, simnet.LawOne}[c.Intn(5, "udp.law")]
	if N > 6000 && (lawIn == simnet.LawSmall || lawIn == simnet.LawOne) {
		lawIn = simnet.LawMTU
	}
	if N > 400000 && lawIn != simnet.LawAll {
		lawIn = simnet.LawAll
	}
	// rem's write chunking of the encoded stream and its pauses (longer than the flush timers)
	var chunks []int
	k := 1 + c.Biased(6, "udp.in.chunks")
	for i := 1; i < k; i++ {
		chunks = append(chunks, c.Intn(N+1, "udp.in.chunk.at"))
	}
	chunks = append(chunks, N)
	sortInts(chunks)
	inGaps := make([]time.Duration, len(chunks))
	for i := range inGaps {
		if c.Intn(3, "udp.in.gap?") == 2 {
			inGaps[i] = time.Duration(1+c.Intn(60, "udp.in.gap")) * time.Millisecond
		}
	}
	outGaps := make([]time.Duration, len(out))
	for i := range outGaps {
		if c.Intn(4, "udp.out.gap?") == 3 {
			outGaps[i] = time.Duration(1+c.Intn(60, "udp.out.gap")) * time.Millisecond
		}
	}
	cutClass := c12CutClass(t.cutAt, offs, in, N)
	endKind := "eof"
	if t.cutErr {
		endKind = "error"
	}
	if appFirst {
		endKind = "app-closes-first"
	}
	var inSizes, outSizes []int
	for _, d := range in {
		inSizes = append(inSizes, len(d))
	}
	for _, d := range out {
		outSizes = append(outSizes, len(d))
	}
	w.Sample(fmt.Sprintf("udp via=%v wrap=%d in=%v (encoded %dB, chunks=%v gaps=%v law=%s) out=%v gaps=%v cut=%d(%s) end=%s withdata=%v failwrites=%v ride-eof=%v local=%s writefault=%s@%d+%d",
		via, wrap, inSizes, N, chunks, inGaps, simnet.LawNames[lawIn], outSizes, outGaps, t.cutAt, cutClass, endKind, t.withData, t.failWrites, t.rideEnd, kindName, wfName, wfAt, wfN))
	w.State(fmt.Sprintf("udp/via=%v/%s/%s/wd=%v/fw=%v/in%d/out%d/%s", via, cutClass, endKind, t.withData, t.failWrites, c12Bucket(len(in)), c12Bucket(len(out)), kindName))

	ua, ub := simnet.NewLink(w, simnet.LinkConfig{NameA: "app", NameB: "local", Message: true})
	ta, tb := simnet.NewLink(w, simnet.LinkConfig{NameA: "tun", NameB: "rem", LawBA: lawIn})
	t.c = ta
	var appGot [][]byte
	appSent := 0
	local := &c12udp{c: ub}
	var localRWC io.ReadWriteCloser = local
	appClose := func() { ua.Close() }
	appSend := func(d []byte) error { _, err := ua.Write(d); return err }
	var adapter *mapping.UDPMappingAdapter
	switch udpKind {
	case 1:
		localRWC = c12udpDL{local, ub}
	case 2:
		// listen side of a UDP mapping without the kernel: the harness injects the
		// application's datagrams where readLoop would, the first one creates the
		// session exactly as in production, Accept hands it to the relay, and the
		// session's writeLoop sends to the fake socket.
		sock := &c12pktConn{w: w, got: &appGot}
		appAddr := simnet.Addr{Net: "udp", S: "127.0.0.1:40001"}
		adapter = mapping.NewUDPMappingAdapter()
		adapter.InjectPacketForVerif(sock, appAddr, out[0])
		appSent = 1
		vc, err := adapter.Accept()
		if err != nil {
			w.Violationf("C12:harness:udp-accept", "%v", err)
			return
		}
		local = &c12udp{c: vc}
		localRWC = c12udpDL{local, vc.(interface{ SetReadDeadline(time.Time) error })}
		appClose = func() { vc.Close() } // what the stale-session sweep and adapter shutdown do
		appSend = func(d []byte) error { adapter.InjectPacketForVerif(sock, appAddr, d); return nil }
	}
	local.w, local.failAt, local.failN, local.failErr = w, wfAt, wfN, wfErr
	var tunRWC io.ReadWriteCloser = t
	if wrap == 0 {
		var err error
		tunRWC, err = iocopy.NewReadWriteCloser(t, t, func() error { return t.Close() })
		if err != nil {
			w.Violationf("C12:harness:rwc", "%v", err)
			return
		}
	}
	r := c12Start(w, true, via, localRWC, tunRWC, nil)

	// ---- peers
	var appRerr error
	appRd := w.Spawn("app.rd", func() {
		if udpKind == 2 {
			return // the application's receptions are what the fake socket was asked to send
		}
		buf := make([]byte, 70000)
		for {
			n, err := ua.Read(buf)
			if err != nil {
				appRerr = err
				return
			}
			appGot = append(appGot, append([]byte(nil), buf[:n]...))
		}
	})
	firstOut := appSent
	appWr := w.Spawn("app.wr", func() {
		for i, d := range out {
			if i < firstOut {
				continue
			}
			if outGaps[i] > 0 {
				w.Sleep(outGaps[i])
			}
			if err := appSend(d); err != nil {
				return
			}
			appSent++
		}
	})
	var remGot []byte
	remEOF := false
	remEOFCh := make(chan struct{})
	remRd := w.Spawn("rem.rd", func() {
		buf := make([]byte, 64<<10)
		for {
			n, err := tb.Read(buf)
			remGot = append(remGot, buf[:n]...)
			if err != nil {
				remEOF = err == io.EOF
				close(remEOFCh)
				return
			}
		}
	})
	remWrote := false
	remWr := w.Spawn("rem.wr", func() {
		off := 0
		for i, e := range chunks {
			if inGaps[i] > 0 {
				w.Sleep(inGaps[i])
			}
			if e > off {
				if _, err := tb.Write(enc[off:e]); err != nil {
					return
				}
			}
			off = e
		}
		remWrote = true
		if appFirst {
			// a well-behaved far end: finishes its stream once it saw ours end
			select {
			case <-remEOFCh:
			case <-w.Ctx.Done():
			}
			w.Yield("rem.await")
			tb.CloseWrite()
		}
	})
	tasks := []*simrt.Task{appRd, appWr, remRd, remWr}
	var scripted time.Duration
	for _, g := range inGaps {
		scripted += g
	}
	for _, g := range outGaps {
		scripted += g
	}

	outOK := func() bool { // everything the application sent has reached the far end, framed
		ds, _ := c12Decode(remGot)
		return len(ds) >= len(out)
	}
	if appFirst {
		// fault-free phase: the relay must frame and forward every datagram without
		// needing further traffic or a close to push it out.
		c12Await(w, scripted+5*time.Second, func() bool { return appWr.Done() && remWrote || r.returned() })
		if !c12Await(w, w.Now()+c12Bound, func() bool { return outOK() || r.returned() || local.writeFaults > 0 }) {
			ds, rest := c12Decode(remGot)
			w.Violationf("C12:udp-out:not-forwarded-while-idle", "application sent %d datagrams; %v later the far end has %d complete records (+%d stray bytes) and nothing else is going to happen", len(out), c12Bound, len(ds), rest)
		}
		inAll := c12Await(w, w.Now()+c12Bound, func() bool { return len(appGot) >= len(in) || r.returned() || local.writeFaults > 0 })
		if !inAll {
			w.Violationf("C12:udp-in:not-delivered-while-idle", "far end wrote %d complete records, application has %d datagrams %v later", len(in), len(appGot), c12Bound)
		}
		appClose() // the application goes away; rem then finishes the tunnel stream
		w.Fault("app.close-first")
	}
	// the tunnel stream ends (cut, or rem's close): from the moment the relay is
	// told so it has c12Bound to return.
	c12Await(w, w.Now()+scripted+5*time.Second, func() bool { return t.term || r.returned() })
	if !t.term && !r.returned() {
		w.Violationf("C12:udp-progress:tunnel-not-drained:"+cutClass, "the relay never read the tunnel up to its end (delivered %d of %d, far end wrote all=%v); live=%v", t.delivered, t.cutAt, remWrote, c12Live(w))
	}
	inTime := true
	if t.term {
		inTime = c12Await(w, t.termAt+c12Bound, r.returned)
	}
	appGotAtVerdict := -1
	if t.spin {
		w.Probe("udp.spin")
	}
	if !inTime {
		// a full c12Bound of simulated time has passed since the end of the stream:
		// everything written to the application socket by then has been read
		appGotAtVerdict = len(appGot)
		behaviour := "blocked"
		switch {
		case t.spin:
			behaviour = "spins-reading-ended-tunnel"
		case local.inRead:
			behaviour = "waits-for-datagram-on-udp-side"
		}
		w.Violationf("C12:udp-return:"+endKind+":"+cutClass+":"+behaviour+kindSuffix, "tunnel stream ended (%v) at offset %d (%s) at t=%v; %v later iocopy.UDP has not returned: spin=%v (reads after the terminal result: %d) udpReadOutstanding=%v; live=%v",
			t.termErr, t.cutAt, cutClass, t.termAt, c12Bound, t.spin, t.postReads, local.inRead, c12Live(w))
		// what production eventually does: the datagram session goes away. A relay
		// whose only problem is the outstanding UDP read then returns.
		close(t.release)
		appClose()
		w.Fault("rescue.close-udp-side")
		if !c12Await(w, w.Now()+c12Bound, r.returned) {
			w.Violationf("C12:udp-return:stuck-even-after-udp-side-closed:"+cutClass, "relay still has not returned %v after the datagram side was closed too; live=%v", c12Bound, c12Live(w))
		}
	} else {
		close(t.release)
		if t.term {
			w.Probe("udp.returned-in-time")
		}
	}
	c12CheckTunnelClosed(w, r, local.closes > 0, t)

	// Let the peers drain before judging delivery (see c12TCP): the relay may have
	// returned at the very instant the watchdog polled, with its last datagram /
	// final flush still unread in a peer's socket.
	if r.returned() {
		w.Sleep(time.Millisecond) // a UDPVirtualConn sends from its own writeLoop goroutine
		c12Await(w, w.Now()+c12Bound, func() bool { return appRd.Done() && remRd.Done() })
	}
	if appGotAtVerdict < 0 {
		appGotAtVerdict = len(appGot)
	}

	// ---- delivery oracle, tunnel -> application
	var want [][]byte
	lim := int64(N)
	if t.cutAt >= 0 {
		lim = t.cutAt
	}
	for i, d := range in {
		if int64(offs[i]+2+len(d)) <= lim {
			want = append(want, d)
		}
	}
	if local.writeFaults > 0 {
		// the datagram side refused writes: losing datagrams is acceptable, but whatever
		// does reach the application must be datagrams that were sent, each at most
		// once and in the order sent (a subsequence of the records before the end).
		w.Fault("udp.write-fault." + wfName)
		w.Nontrivial()
		j := 0
		for i, g := range appGot {
			k := j
			for k < len(want) && !bytes.Equal(g, want[k]) {
				k++
			}
			if k == len(want) {
				kind := "not-a-sent-datagram"
				for b := 0; b < j; b++ {
					if bytes.Equal(g, want[b]) {
						kind = "duplicate-or-reordered"
					}
				}
				w.Violationf("C12:udp-in:after-udp-write-error:"+kind+":"+wfName, "write #%d.. to the datagram side failed (%v); datagram #%d the application received afterwards (%d bytes, id %d) is %s: %d records precede the end of the tunnel stream, %d of them matched so far",
					wfAt, wfErr, i, len(g), g[0], kind, len(want), j)
				break
			}
			j = k + 1
		}
	}
	for i, g := range appGot {
		if local.writeFaults > 0 {
			break
		}
		if i >= len(want) {
			kind := "from-partial-record"
			if len(want) == len(in) {
				kind = "beyond-stream"
			}
			w.Violationf("C12:udp-in:invented-datagram:"+kind+":"+cutClass, "application received datagram #%d (%d bytes) but only %d complete records precede the end of the tunnel stream at %d", i, len(g), len(want), lim)
			break
		}
		if !bytes.Equal(g, want[i]) {
			kind := "content"
			if len(g) != len(want[i]) {
				kind = "boundary"
			}
			w.Violationf("C12:udp-in:"+kind+"-mismatch", "datagram #%d: sent %d bytes (id %d), application received %d bytes (id %d), first difference at %d", i, len(want[i]), want[i][0], len(g), g[0], firstDiff(g, want[i]))
			break
		}
	}
	if !appFirst && !t.cutErr && local.writeFaults == 0 && appGotAtVerdict < len(want) {
		w.Violationf("C12:udp-in:missing-datagram:"+cutClass+kindSuffix, "%d complete records precede the end-of-stream at offset %d but the application had only %d datagrams %v after it (application read ended: %v)", len(want), lim, appGotAtVerdict, c12Bound, appRerr)
	}
	// ---- application -> tunnel: the harness decoder must read back the datagrams
	ds, rest := c12Decode(remGot)
	for i, g := range ds {
		if i >= len(out) {
			w.Violationf("C12:udp-out:invented-record", "far end decoded record #%d (%d bytes) but the application sent only %d datagrams", i, len(g), len(out))
			break
		}
		if !bytes.Equal(g, out[i]) {
			kind := "content"
			if len(g) != len(out[i]) {
				kind = "boundary"
			}
			w.Violationf("C12:udp-out:"+kind+"-mismatch", "record #%d: application sent %d bytes (id %d), far end decoded %d bytes (id %d), first difference at %d", i, len(out[i]), out[i][0], len(g), g[0], firstDiff(g, out[i]))
			break
		}
	}
	if rest != 0 && !t.writeFailed && r.returned() {
		w.Violationf("C12:udp-out:partial-record-at-clean-end", "the relay returned without any tunnel write failing but the far end holds %d stray bytes after %d records", rest, len(ds))
	}
	// (a relay that ends because the datagram side refused a write stops forwarding in
	// both directions; that is the fault's doing, not a loss in the fault-free sense)
	if appFirst && r.returned() && len(ds) < appSent && !t.writeFailed && local.writeFaults == 0 {
		w.Violationf("C12:udp-out:missing-record:app-closes-first", "application sent %d datagrams and then closed; far end decoded %d", appSent, len(ds))
	}

	// ---- non-triviality
	if t.term && (cutClass == "inside-prefix" || cutClass == "after-prefix" || cutClass == "inside-payload") {
		w.Nontrivial()
		w.Fault("tunnel.cut-inside-record." + endKind)
	} else if t.term && len(appGot) > 0 && len(ds) > 0 {
		w.Nontrivial()
		if t.cutAt >= 0 {
			w.Fault("tunnel.cut-at-boundary." + endKind)
		}
	}
	if len(ds) > 32 || len(appGot) > 32 {
		w.Probe("udp.more-than-32-datagrams")
	}
	if len(remGot) > 128<<10 {
		w.Probe("udp.out.crossed-128k")
	}
	if N > 256<<10 {
		w.Probe("udp.in.crossed-256k")
	}
	w.Probe("udp.end." + endKind)
	if remEOF {
		w.Probe("udp.far-end-saw-eof")
	}
	w.Probe("udp.cut." + cutClass)
	w.Probe("udp.local." + kindName)
	if t.rode {
		w.Probe("udp.tunnel.eof-with-last-chunk")
	}

	// ---- cleanup
	if adapter != nil {
		adapter.Close()
	}
	ua.Close()
	tb.Close()
	ub.Close()
	ta.Close()
	if r.mgr != nil {
		r.mgr.Close()
	}
	c12Await(w, w.Now()+time.Second, func() bool {
		for _, x := range tasks {
			if !x.Done() {
				return false
			}
		}
		return true
	})
}

func c12Bucket(n int) int {
	switch {
	case n == 0:
		return 0
	case n == 1:
		return 1
	case n <= 12:
		return 2
	case n <= 32:
		return 3
	}
	return 4
}

func c12Run(w *simrt.World, tier string) {
	w.SetCrashSentinel(c12Sentinel)
	udp := w.C.Intn(2, "mode.udp") == 1
	via := w.C.Intn(3, "mode.via-tunnel") == 2
	if udp {
		c12UDP(w, via)
	} else {
		c12TCP(w, via)
	}
}

func init() {
	Register(&Scenario{
		ID:    "C12",
		Level: "exploration",
		Rule: "each run draws a relay kind (TCP iocopy.Bidirectional or UDP iocopy.UDP; called directly or through a real tunnel.Tunnel/runDataCopy) and a per-run configuration. " +
			"TCP: two position-stamped payloads (0,1,small, around the 32K/64K buffers, up to 300K), write chunkings with pauses, per-end read segmentation law and buffer capacity, an end-of-stream script per side " +
			"(half-close and read on / close / reset after part of the payload / send head, wait for the other side's EOF, send the rest), a tunnel with or without half-close support, optional rate-limiting transformer, " +
			"optional slow transfer (chunks 1.5-21 s apart, below 4 minutes in total), relay-side endpoints that do or do not expose socket deadlines, optional transfer that stays active for >5 simulated minutes, optional tunnel cut (EOF or error, at a drawn byte offset, with or without data in the same Read, write side failing or not), and for each relay-side endpoint whether the natural end of its stream is reported together with the last chunk (n>0 with io.EOF, as TLS/QUIC streams do). " +
			"UDP: two datagram sequences (sizes 1,2,3,255,256,1200,1472,9000,32768,65507; 0-70 datagrams incl. >32 and bursts over 128/256 KiB), pauses longer than the flush timers, the far end's write chunking and read law, and the position at which the tunnel stream ends or fails, " +
			"drawn relative to a record (boundary, inside the 2-byte prefix, after the prefix, first payload byte, last payload byte missing, anywhere in the payload, clean end) or the application side closing first; optionally 1-3 consecutive writes to the datagram side fail (plain error, ECONNREFUSED or ENOBUFS as net.OpError) at a drawn position; the relay's datagram endpoint is a bare io.ReadWriteCloser, a socket-like endpoint whose read deadline interrupts a blocked Read, or the real mapping.UDPVirtualConn session of a UDPMappingAdapter fed through processPacket. " +
			"Scheduler interleavings of the copy goroutines, flush goroutine and the four peer tasks are drawn by the scheduler. " +
			"A run is non-trivial when (TCP) bytes were delivered to a side after that side had half-closed, or a reply was sent after the peer's EOF arrived through the relay, or a close/reset/cut fired in a run that carried data; " +
			"or a relay-side endpoint reported EOF in the same Read as its last bytes; or a slow transfer kept sending after the other side's half-close; (UDP) a write to the datagram side failed, or the tunnel stream ended strictly inside a record, or ended at a boundary after datagrams had crossed in both directions. distinct = distinct schedule hash among those.",
		Real: []string{"internal/utils/iocopy Bidirectional, UDP, NewReadWriteCloser/readWriteCloser, tryCloseWrite", "internal/client/tunnel Tunnel (Start, runDataCopy, Close, monitorTimeout), DefaultTunnelManager",
			"internal/stream/transform NoOpTransformer, RateLimitedTransformer", "internal/core/dispose",
			"internal/client/mapping UDPMappingAdapter.processPacket/getOrCreateSession/Accept/Close and UDPVirtualConn (Read, Write, writeLoop, SetReadDeadline, Close) in a third of the UDP runs"},
		Stub: []string{"local application socket and tunnel stream: simnet links (stream with half-close/reset/capacity; message link as the datagram socket)", "tunnel.ClientInterface (close notify counter)",
			"far end of the tunnel and the application: scripted harness peers", "net.UDPConn is replaced by the message link (sendmmsg path not reachable); under the UDPMappingAdapter the kernel socket (readLoop/ReadBatch, WriteTo) is a harness PacketConn"},
		Assumptions: []string{
			"'promptly' / 'once both directions have finished' = within 1 simulated second after the relay has been handed the end of the tunnel stream (UDP) or after both senders ended their write side / the tunnel was cut (TCP)",
			"completeness of a direction is demanded only when nothing legitimately interrupts it: no reset on either link, the receiver keeps reading until EOF, no injected tunnel failure on that direction",
			"pauses of about 2 minutes inside an active transfer are not an idle period that entitles a tunnel to be closed; neither are pauses of up to 21 s after one side has half-closed",
			"when a write to the datagram side fails, losing datagrams (or ending the relay) is acceptable; delivering anything that was not sent, or twice, or out of order is not",
			"datagrams are 1..65507 bytes (zero-length datagrams cannot be represented by the encoding and are not generated)",
			"links deliver every byte in order; a transport error loses nothing already handed to the relay (the cut is exact)",
		},
		Opt: func(tier string) simrt.Options {
			return simrt.Options{MaxSteps: 1500000}
		},
		Run: c12Run,
	})
}
