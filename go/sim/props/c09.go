package props

import (
	"context"
	"fmt"
	"math"
	"sort"
	"strings"
	"time"

	"github.com/anishathalye/porcupine"

	"tunnox-core/internal/cloud/models"
	"tunnox-core/internal/cloud/stats"
	"tunnox-core/internal/core/storage/hybrid"
	"tunnox-core/internal/core/storage/types"
	"tunnox-core/internal/packet"
	"tunnox-core/internal/protocol/session"
	"tunnox-core/internal/protocol/session/tunnel"
	"tunnox-core/verifsim/simrt"
	"tunnox-core/verifsim/simstore"
)

// C09 — a waiting tunnel is routable from any node until served or expired.
//
// Three modes per run (drawn):
//  A  a sequential history of register / lookup / remove / clock advance /
//     node-address operations issued from 2-3 nodes' real RoutingTables over one
//     shared backend (memory | redis | tiered), checked step by step against a
//     reference table written from the property text; optionally the same
//     history on all three backends (differential);
//  B  the same operations issued concurrently from one task per node,
//     interleaved at storage-operation and statement granularity, history
//     checked for linearizability (porcupine);
//  C  real SessionManagers (one per node): startSourceBridge /
//     runBridgeLifecycle on the source node, the polling lookupTunnelRouting
//     and direct lookups on every node, tunnels ending by timeout, close,
//     serve+close or node crash, optionally the same tunnel id re-opened on
//     another node.

// ---- generators ---------------------------------------------------------

// c09Str: hostile but valid UTF-8 (every field value reaches the server
// through a JSON decoder, which never yields invalid UTF-8).
func c09Str(c *simrt.Choice, label string) string {
	switch c.Intn(14, label) {
	case 0:
		return "plain-" + label
	case 1:
		return ""
	case 2:
		return "x"
	case 3:
		return "隧道-ü-😀-مرحبا"
	case 4:
		return "a\x00b\x00"
	case 5:
		return "line\u2028sep\u2029para\nnl\r\ttab"
	case 6:
		return `{"tunnel_id":"evil","source_node_id":"node-evil","expires_at":"2999-01-01T00:00:00Z"}`
	case 7:
		return `"quoted\" \\ back\slash`
	case 8:
		return "<script>&amp;'\"</script>"
	case 9:
		return strings.Repeat("A€", 65536/4) + "end" // 64 KiB
	case 10:
		return "null"
	case 11:
		return "tunnox:tunnel_waiting:other:addr"
	case 12:
		return "\ufffd\\ud800 \u007f\u0080"
	default:
		return fmt.Sprintf("v-%d", c.Intn(1000, label+".n"))
	}
}

var c09Ints = []int64{7, 0, 1, -1, math.MaxInt64, math.MinInt64, 1<<53 + 1, -(1 << 53) - 1, 10000001}
var c09Ports = []int{8080, 0, 65535, -1, math.MaxInt32, math.MaxInt64, math.MinInt64}

// c09want is the harness's own copy of what was registered.
type c09want struct {
	TunnelID, MappingID, SecretKey, SourceNodeID string
	SourceClientID, TargetClientID               int64
	TargetHost                                   string
	TargetPort                                   int
}

func c09GenRec(c *simrt.Choice) c09want {
	return c09want{
		MappingID:      c09Str(c, "rec.mapping"),
		SecretKey:      c09Str(c, "rec.secret"),
		SourceClientID: c09Ints[c.Intn(len(c09Ints), "rec.srcclient")],
		TargetClientID: c09Ints[c.Intn(len(c09Ints), "rec.dstclient")],
		TargetHost:     c09Str(c, "rec.host"),
		TargetPort:     c09Ports[c.Intn(len(c09Ports), "rec.port")],
	}
}

func (x c09want) state() *tunnel.WaitingState {
	return &tunnel.WaitingState{
		TunnelID: x.TunnelID, MappingID: x.MappingID, SecretKey: x.SecretKey, SourceNodeID: x.SourceNodeID,
		SourceClientID: x.SourceClientID, TargetClientID: x.TargetClientID, TargetHost: x.TargetHost, TargetPort: x.TargetPort,
		// garbage the implementation must overwrite
		CreatedAt: time.Unix(1, 0), ExpiresAt: time.Unix(2, 0),
	}
}

// diff names the first field of got that differs from what was registered.
func (x c09want) diff(g *tunnel.WaitingState) string {
	switch {
	case g.TunnelID != x.TunnelID:
		return "TunnelID"
	case g.MappingID != x.MappingID:
		return "MappingID"
	case g.SecretKey != x.SecretKey:
		return "SecretKey"
	case g.SourceNodeID != x.SourceNodeID:
		return "SourceNodeID"
	case g.SourceClientID != x.SourceClientID:
		return "SourceClientID"
	case g.TargetClientID != x.TargetClientID:
		return "TargetClientID"
	case g.TargetHost != x.TargetHost:
		return "TargetHost"
	case g.TargetPort != x.TargetPort:
		return "TargetPort"
	}
	return ""
}

func c09q(s string) string {
	if len(s) > 48 {
		return fmt.Sprintf("%q…(%dB)", s[:40], len(s))
	}
	return fmt.Sprintf("%q", s)
}

func (x c09want) String() string {
	return fmt.Sprintf("{id=%s map=%s key=%s src=%s sc=%d tc=%d host=%s port=%d}", c09q(x.TunnelID), c09q(x.MappingID), c09q(x.SecretKey),
		c09q(x.SourceNodeID), x.SourceClientID, x.TargetClientID, c09q(x.TargetHost), x.TargetPort)
}

func c09stateStr(g *tunnel.WaitingState) string {
	if g == nil {
		return "<nil>"
	}
	return fmt.Sprintf("{id=%s map=%s key=%s src=%s sc=%d tc=%d host=%s port=%d created=%s expires=%s}", c09q(g.TunnelID), c09q(g.MappingID), c09q(g.SecretKey),
		c09q(g.SourceNodeID), g.SourceClientID, g.TargetClientID, c09q(g.TargetHost), g.TargetPort, g.CreatedAt.Format(time.RFC3339Nano), g.ExpiresAt.Format(time.RFC3339Nano))
}

// ---- world ---------------------------------------------------------------

type c09node struct {
	id      string
	st      *simstore.Store // this node's handle on the backend that carries shared records
	local   *simstore.Store // tiered only: the node-local cache
	stor    types.Storage   // what the RoutingTable sits on
	rt      *tunnel.RoutingTable
	sm      *session.SessionManager
	crashed bool
	down    bool // SessionManager closed (graceful shutdown); the store stays reachable
}

type c09world struct {
	backend string
	nodes   []*c09node
	closers []func()
}

var c09Backends = []string{"memory", "redis", "tiered-redis", "tiered-memory"}

func c09Build(w *simrt.World, backend string, nodeIDs []string, ttl time.Duration) *c09world {
	cw := &c09world{backend: backend}
	var base *simstore.Store
	switch backend {
	case "memory", "tiered-memory":
		mem := simstore.NewMemory(w)
		cw.closers = append(cw.closers, func() { mem.Close() })
		base = simstore.New(w, "n0", mem)
	default:
		rd := simstore.NewRedis(w)
		cw.closers = append(cw.closers, rd.Close)
		base = simstore.New(w, "n0", rd.Storage)
		base.Sync = rd.Sync
	}
	for i, id := range nodeIDs {
		n := &c09node{id: id}
		if i == 0 {
			n.st = base
		} else {
			n.st = base.Handle(fmt.Sprintf("n%d", i))
		}
		n.stor = n.st
		if strings.HasPrefix(backend, "tiered") {
			lm := simstore.NewMemory(w)
			cw.closers = append(cw.closers, func() { lm.Close() })
			n.local = simstore.New(w, fmt.Sprintf("n%d.local", i), lm)
			hy := hybrid.NewWithSharedCache(w.Ctx, n.local, n.st, nil, hybrid.DefaultConfig())
			n.stor = hy
		}
		n.rt = tunnel.NewRoutingTable(n.stor, ttl)
		cw.nodes = append(cw.nodes, n)
	}
	return cw
}

func (cw *c09world) Close() {
	for _, n := range cw.nodes {
		if n.sm != nil {
			n.sm.Close()
		}
	}
	for i := len(cw.closers) - 1; i >= 0; i-- {
		cw.closers[i]()
	}
}

func c09NodeIDs(c *simrt.Choice, n int) []string {
	ids := make([]string, n)
	for i := range ids {
		ids[i] = fmt.Sprintf("node-%c", 'a'+i)
		if c.Intn(4, "nodeid.hostile") == 3 {
			ids[i] = c09Str(c, "nodeid") + fmt.Sprintf("~%d", i)
		}
	}
	return ids
}

func c09IsNone(err error) bool { return err == tunnel.ErrNotFound || err == tunnel.ErrExpired }

func c09EffTTL(ttl time.Duration) time.Duration {
	if ttl == 0 {
		return 30 * time.Second // the documented default waiting period
	}
	return ttl
}

const c09Edge = 2 * time.Millisecond // instants this close to an expiry are don't-care

func c09abs(d time.Duration) time.Duration {
	if d < 0 {
		return -d
	}
	return d
}

// ---- mode A: sequential history against a reference table -----------------

type c09op struct {
	kind string // reg lookup remove advance regaddr getaddr mutate
	node int
	tid  int
	rec  c09want
	d    time.Duration
	nid  int
	addr string
	fail bool
	late time.Duration // lookup only: first move the clock to this long before (after, if negative) the end of the record's waiting period
}

type c09ent struct {
	present bool
	maybe   bool // a removal failed in storage: the record may or may not be there
	want    c09want
	regAt   time.Time
	exp     time.Time
	alias   *tunnel.WaitingState // the struct the caller handed to Register
	mutated bool                 // the caller changed that struct after registering
	removed bool
	regNode int
}

// c09TTLs: waiting periods incl. ones that are not whole seconds (a backend that keeps its own
// lifetime for the record must honour the fraction) and one below a second. Index 0 is the production value.
var c09TTLs = []time.Duration{30 * time.Second, time.Second, 0, 2500 * time.Millisecond, 30400 * time.Millisecond, 1500 * time.Millisecond, 750 * time.Millisecond, 1999 * time.Millisecond}

// c09Lates: how long before (positive) or after (negative) the end of a record's waiting period a "late" lookup is placed
var c09Lates = []time.Duration{53 * time.Millisecond, 7 * time.Millisecond, 211 * time.Millisecond, 430 * time.Millisecond, 947 * time.Millisecond, -7 * time.Millisecond, -611 * time.Millisecond}

var c09Advances = []time.Duration{137 * time.Millisecond, 412 * time.Millisecond, 703 * time.Millisecond, 1301 * time.Millisecond, 9707 * time.Millisecond, 14903 * time.Millisecond, 31307 * time.Millisecond}

var c09Addrs = []string{"10.0.0.7:50052", "[fe80::1%eth0]:50052", "node-b.internal:50052", `{"addr":"1.2.3.4:1"}`, `"quoted":1`, "12345", "主机:50052", "a\x00b:1", "true"}

func c09GenPlan(c *simrt.Choice, nn, nslots int, faults, mutate bool) []c09op {
	n := 8 + c.Intn(28, "nops")
	var plan []c09op
	for i := 0; i < n; i++ {
		var o c09op
		o.node = c.Intn(nn, "op.node")
		o.tid = c.Intn(nslots, "op.tid")
		k := c.Intn(16, "op.kind")
		switch {
		case k <= 4:
			o.kind = "lookup"
		case k <= 8:
			o.kind = "reg"
			o.rec = c09GenRec(c)
		case k <= 10:
			o.kind = "remove"
		case k <= 12:
			o.kind = "advance"
			o.d = c09Advances[c.Intn(len(c09Advances), "op.advance")]
		case k == 13:
			o.kind = "regaddr"
			o.nid = c.Intn(nn, "op.nid")
			o.addr = c09Addrs[c.Intn(len(c09Addrs), "op.addr")]
		case k == 14:
			o.kind = "getaddr"
			o.nid = c.Intn(nn, "op.nid")
		default:
			o.kind = "lookup"
			if mutate {
				o.kind = "mutate"
			}
		}
		if faults && o.kind != "advance" && o.kind != "mutate" {
			o.fail = c.Chance(1, 6, "op.fail")
		}
		if o.kind == "lookup" && !o.fail {
			if l := c.Intn(3*len(c09Lates), "op.late"); l >= 2*len(c09Lates) {
				o.late = c09Lates[l-2*len(c09Lates)]
			}
		}
		plan = append(plan, o)
	}
	return plan
}

func (o c09op) String() string {
	f := ""
	if o.fail {
		f = "!fail"
	}
	switch o.kind {
	case "reg":
		return fmt.Sprintf("n%d.reg(t%d %s)%s", o.node, o.tid, o.rec, f)
	case "advance":
		return fmt.Sprintf("+%v", o.d)
	case "regaddr":
		return fmt.Sprintf("n%d.regaddr(N%d,%s)%s", o.node, o.nid, c09q(o.addr), f)
	case "getaddr":
		return fmt.Sprintf("n%d.getaddr(N%d)%s", o.node, o.nid, f)
	case "mutate":
		return fmt.Sprintf("caller-mutates-struct(t%d)", o.tid)
	}
	return fmt.Sprintf("n%d.%s(t%d)%s", o.node, o.kind, o.tid, f)
}

// c09RunPlan executes the plan on one world and checks every step against the
// reference table. It returns canonical outcomes (for the differential) and
// whether the run reached the interesting region.
func c09RunPlan(w *simrt.World, cw *c09world, plan []c09op, ids, nodeIDs []string, ttl time.Duration, hist *[]string) (out []string, ok bool) {
	be := cw.backend
	eff := c09EffTTL(ttl)
	model := map[int]*c09ent{}
	addrs := map[int]string{}
	start := time.Now()
	sawLive, sawAfter, sawCross := false, false, false
	note := func(s string) { *hist = append(*hist, s) }
	tail := func() string { return strings.Join(tailStr(*hist, 30), "\n") }
	for _, o := range plan {
		n := cw.nodes[o.node]
		id := ids[o.tid]
		arm := func() int {
			ops, _ := n.st.Ops()
			if o.fail {
				n.st.FailAt = ops + 1
			}
			return ops
		}
		fired := func(before int) bool {
			n.st.FailAt = 0
			ops, _ := n.st.Ops()
			return o.fail && ops > before
		}
		switch o.kind {
		case "advance":
			w.Sleep(o.d)
			note(o.String())
			out = append(out, "adv")
		case "reg":
			rec := o.rec
			rec.TunnelID = id
			rec.SourceNodeID = nodeIDs[o.node]
			st := rec.state()
			b := arm()
			now := time.Now()
			err := n.rt.RegisterWaitingTunnel(w.Ctx, st)
			f := fired(b)
			note(fmt.Sprintf("n%d.reg(t%d %s)%s → err=%v", o.node, o.tid, rec, map[bool]string{true: "!fail"}[o.fail], err))
			w.Probe("A.reg")
			switch {
			case id == "":
				if err == nil {
					w.Violationf("C09:register:empty-id-accepted:"+be, "RegisterWaitingTunnel accepted an empty tunnel id\n%s", tail())
					return out, false
				}
				out = append(out, "reg:rejected")
			case f:
				w.Probe("A.fault.reg")
				if err == nil {
					w.Violationf("C09:register:storage-error-swallowed:"+be, "the storage write failed but RegisterWaitingTunnel reported success: the caller believes the tunnel is routable\n%s", tail())
					return out, false
				}
				out = append(out, "reg:err")
			default:
				if err != nil {
					w.Violationf("C09:register:error-without-fault:"+be, "RegisterWaitingTunnel failed without any injected fault: %v\n%s", err, tail())
					return out, false
				}
				if e := model[o.tid]; e != nil && e.present && e.regNode != o.node {
					w.Probe("A.reregister-on-other-node")
					sawCross = true
				}
				model[o.tid] = &c09ent{present: true, want: rec, regAt: now, exp: now.Add(eff), alias: st, regNode: o.node}
				out = append(out, "reg:ok")
			}
		case "mutate":
			e := model[o.tid]
			note(o.String())
			out = append(out, "mutate")
			if e != nil && e.alias != nil {
				// the caller reuses / edits its own struct after the call returned
				e.alias.TargetHost = "caller-edited-after-register"
				e.alias.SourceNodeID = "caller-edited-node"
				e.alias.TargetPort = 1
				e.alias.ExpiresAt = e.alias.ExpiresAt.Add(100 * time.Hour)
				e.mutated = true
				w.Probe("A.caller-mutates")
			}
		case "remove":
			b := arm()
			err := n.rt.RemoveWaitingTunnel(w.Ctx, id)
			f := fired(b)
			note(fmt.Sprintf("%s → err=%v", o, err))
			w.Probe("A.remove")
			if e := model[o.tid]; e != nil {
				if f {
					w.Probe("A.fault.remove")
					if e.present {
						e.maybe = true
					}
				} else if id != "" {
					if e.present {
						sawAfter = true
					}
					e.present, e.maybe, e.removed = false, false, true
				}
			}
			out = append(out, "remove")
		case "lookup":
			if e := model[o.tid]; o.late != 0 && e != nil && e.present {
				// place this lookup in the last part of (or just after) the record's waiting period
				if d := e.exp.Add(-o.late).Sub(time.Now()); d > 0 {
					w.Sleep(d)
					note(fmt.Sprintf("+%v (to %v before the end of t%d's waiting period)", d, o.late, o.tid))
					if o.late > 0 {
						w.Probe("A.lookup.late-in-waiting-period")
					} else {
						w.Probe("A.lookup.just-after-waiting-period")
					}
				}
			}
			b := arm()
			now := time.Now()
			got, err := n.rt.LookupWaitingTunnel(w.Ctx, id)
			f := fired(b)
			note(fmt.Sprintf("%s → %s err=%v", o, c09stateStr(got), err))
			w.Probe("A.lookup")
			e := model[o.tid]
			if got != nil && err != nil {
				w.Violationf("C09:lookup:state-and-error:"+be, "LookupWaitingTunnel returned both a state and an error\n%s", tail())
				return out, false
			}
			if f {
				w.Probe("A.fault.lookup")
				if got != nil || err == nil {
					w.Violationf("C09:lookup:storage-error-turned-into-route:"+be, "the storage read failed but the lookup resolved to %s\n%s", c09stateStr(got), tail())
					return out, false
				}
				out = append(out, "lookup:err")
				break
			}
			if e != nil && (e.present || e.maybe) && c09abs(now.Sub(e.exp)) < c09Edge {
				out = append(out, "lookup:edge")
				break // boundary instant: don't care
			}
			live := e != nil && e.present && now.Before(e.exp)
			cls := "never-registered"
			if e != nil {
				switch {
				case e.removed && !e.present:
					cls = "removed"
				case !now.Before(e.exp):
					cls = "expired"
					sawAfter = true
				}
			}
			if got != nil {
				if !live {
					w.Violationf("C09:stale-route:"+cls+":"+be, "tunnel id %s resolves on node n%d to %s although it is %s (registered %v, waiting period %v, now %v)\n%s",
						c09q(id), o.node, c09stateStr(got), cls, c09since(start, e), eff, now.Sub(start), tail())
					return out, false
				}
				if d := e.want.diff(got); d != "" {
					sig := "C09:fidelity:" + d + ":" + be
					if e.mutated && (got.TargetHost == "caller-edited-after-register" || got.SourceNodeID == "caller-edited-node") {
						sig = "C09:aliasing:caller-struct-shared-with-store:" + be
					}
					w.Violationf(sig, "lookup on node n%d returned %s, registered was %s (first differing field %s; caller edited its own struct after Register returned: %v)\n%s",
						o.node, c09stateStr(got), e.want, d, e.mutated, tail())
					return out, false
				}
				if !got.CreatedAt.Equal(e.regAt) || !got.ExpiresAt.Equal(e.exp) {
					sig := "C09:fidelity:times:" + be
					if e.mutated && got.ExpiresAt.Equal(e.exp.Add(100*time.Hour)) {
						sig = "C09:aliasing:caller-struct-shared-with-store:" + be
					}
					w.Violationf(sig, "lookup returned created=%v expires=%v, expected created=%v expires=%v (registration instant + waiting period %v)\n%s",
						got.CreatedAt, got.ExpiresAt, e.regAt, e.exp, eff, tail())
					return out, false
				}
				if e.regNode != o.node {
					sawLive = true
					w.Probe("A.resolved-from-other-node")
				}
				// scribble on the result: must not reach the stored record
				got.TargetHost, got.SourceNodeID = "scribbled-by-reader", "scribbled"
				out = append(out, fmt.Sprintf("lookup:rec:%s@%v..%v", e.want, got.CreatedAt.Sub(start), got.ExpiresAt.Sub(start)))
			} else {
				if live && !e.maybe {
					c := "error"
					if c09IsNone(err) {
						c = "not-found"
					}
					w.Violationf("C09:unroutable:"+c+":"+be, "tunnel id %s is registered (at %v by n%d, waiting period %v, now %v) and not removed, but lookup on n%d answers %v\n%s",
						c09q(id), e.regAt.Sub(start), e.regNode, eff, now.Sub(start), o.node, err, tail())
					return out, false
				}
				if !live && !c09IsNone(err) && id != "" {
					w.Probe("A.lookup.absent-other-error")
				}
				out = append(out, "lookup:none")
			}
			w.State(fmt.Sprintf("A|%s|%s|%v", be, cls, got != nil))
		case "regaddr":
			b := arm()
			err := n.rt.RegisterNodeAddress(nodeIDs[o.nid], o.addr)
			f := fired(b)
			note(fmt.Sprintf("%s → err=%v", o, err))
			switch {
			case f:
				if err == nil {
					w.Violationf("C09:nodeaddr:storage-error-swallowed:"+be, "RegisterNodeAddress reported success although the write failed\n%s", tail())
					return out, false
				}
				out = append(out, "regaddr:err")
			case err != nil:
				w.Violationf("C09:nodeaddr:register-error-without-fault:"+be, "RegisterNodeAddress(%s,%s) failed: %v\n%s", c09q(nodeIDs[o.nid]), c09q(o.addr), err, tail())
				return out, false
			default:
				addrs[o.nid] = o.addr
				out = append(out, "regaddr:ok")
			}
		case "getaddr":
			b := arm()
			got, err := n.rt.GetNodeAddress(nodeIDs[o.nid])
			f := fired(b)
			note(fmt.Sprintf("%s → %s err=%v", o, c09q(got), err))
			w.Probe("A.getaddr")
			want, have := addrs[o.nid]
			switch {
			case f:
				if err == nil {
					w.Violationf("C09:nodeaddr:storage-error-turned-into-address:"+be, "GetNodeAddress answered %s although the read failed\n%s", c09q(got), tail())
					return out, false
				}
				out = append(out, "getaddr:err")
			case have && (err != nil || got != want):
				w.Violationf("C09:nodeaddr:mismatch:"+be, "GetNodeAddress(%s) on n%d = %s, err=%v; registered was %s\n%s", c09q(nodeIDs[o.nid]), o.node, c09q(got), err, c09q(want), tail())
				return out, false
			case !have && err == nil:
				w.Violationf("C09:nodeaddr:address-from-nowhere:"+be, "GetNodeAddress(%s) = %s but no address was ever registered\n%s", c09q(nodeIDs[o.nid]), c09q(got), tail())
				return out, false
			default:
				out = append(out, "getaddr:"+got)
			}
		}
	}
	return out, sawLive && (sawAfter || sawCross)
}

func c09since(start time.Time, e *c09ent) string {
	if e == nil {
		return "never"
	}
	return e.regAt.Sub(start).String()
}

func c09Slots(c *simrt.Choice, n int) []string {
	ids := make([]string, n)
	for i := range ids {
		ids[i] = fmt.Sprintf("%s#%d", c09Str(c, "tunnelid"), i)
	}
	if c.Intn(10, "tunnelid.empty") == 9 {
		ids[0] = ""
	}
	return ids
}

func c09Sequential(w *simrt.World) {
	c := w.C
	bsel := c.Intn(6, "backend")
	nn := 2 + c.Intn(2, "nodes")
	ttl := c09TTLs[c.Intn(len(c09TTLs), "ttl")]
	nslots := 1 + c.Intn(5, "tunnels")
	faults := c.Intn(3, "faults.on") == 2
	mutate := c.Intn(4, "caller.mutates") == 3
	nodeIDs := c09NodeIDs(c, nn)
	ids := c09Slots(c, nslots)
	var backends []string
	if bsel < 4 {
		backends = []string{c09Backends[bsel]}
	} else {
		backends = []string{"memory", "redis", "tiered-redis"}
		w.Probe("A.differential")
	}
	plan := c09GenPlan(c, nn, nslots, faults, mutate)
	var outs [][]string
	var hists [][]string
	nt := false
	for _, be := range backends {
		w.Probe("A.backend." + be)
		cw := c09Build(w, be, nodeIDs, ttl)
		var hist []string
		out, ok := c09RunPlan(w, cw, plan, ids, nodeIDs, ttl, &hist)
		cw.Close()
		if len(w.Res.Violations) > 0 {
			return
		}
		nt = nt || ok
		outs = append(outs, out)
		hists = append(hists, hist)
	}
	for i := 1; i < len(outs); i++ {
		for j := range outs[0] {
			if j < len(outs[i]) && outs[i][j] != outs[0][j] {
				w.Violationf("C09:diff:"+strings.SplitN(outs[0][j], ":", 2)[0], "the same history gives %s on %s but %s on %s at step %d (%s)\n-- %s:\n%s\n-- %s:\n%s",
					outs[0][j], backends[0], outs[i][j], backends[i], j, plan[j], backends[0], strings.Join(tailStr(hists[0][:min(j+1, len(hists[0]))], 15), "\n"),
					backends[i], strings.Join(tailStr(hists[i][:min(j+1, len(hists[i]))], 15), "\n"))
				return
			}
		}
	}
	if nt {
		w.Nontrivial()
	}
	w.Sample(fmt.Sprintf("A %v ttl=%v nodes=%d: %s", backends, ttl, nn, strings.Join(tailStr(hists[0], 12), " ; ")))
}

// ---- mode B: concurrent register / lookup / remove, linearizability --------

type c09cin struct {
	Kind string
	Tid  int
	Rec  string // canonical registered record
}

func c09Canon(x c09want) string { return x.String() }

func c09LinModel() porcupine.Model {
	return porcupine.Model{
		Partition: func(h []porcupine.Operation) [][]porcupine.Operation {
			m := map[int][]porcupine.Operation{}
			var ks []int
			for _, op := range h {
				k := op.Input.(c09cin).Tid
				if _, ok := m[k]; !ok {
					ks = append(ks, k)
				}
				m[k] = append(m[k], op)
			}
			sort.Ints(ks)
			var out [][]porcupine.Operation
			for _, k := range ks {
				out = append(out, m[k])
			}
			return out
		},
		Init: func() interface{} { return "" },
		Step: func(state, input, output interface{}) (bool, interface{}) {
			st, in, out := state.(string), input.(c09cin), output.(string)
			switch in.Kind {
			case "reg":
				return out == "ok", in.Rec
			case "remove":
				return true, ""
			default:
				if st == "" {
					return out == "none", st
				}
				return out == "rec:"+st, st
			}
		},
		Equal:             func(a, b interface{}) bool { return a.(string) == b.(string) },
		DescribeOperation: func(in, out interface{}) string { return fmt.Sprintf("%s(t%d)→%s", in.(c09cin).Kind, in.(c09cin).Tid, out.(string)) },
	}
}

func c09Concurrent(w *simrt.World) {
	c := w.C
	be := c09Backends[c.Intn(4, "backend")]
	nn := 2 + c.Intn(2, "nodes")
	nslots := 1 + c.Intn(2, "tunnels")
	per := 2 + c.Intn(4, "ops.per.node")
	ttl := c09TTLs[c.Intn(len(c09TTLs), "ttl")]
	eff := c09EffTTL(ttl)
	rounds := 1 + c.Intn(3, "rounds")
	nodeIDs := c09NodeIDs(c, nn)
	ids := c09Slots(c, nslots)
	if ids[0] == "" {
		ids[0] = "t#0"
	}
	type pop struct {
		kind string
		tid  int
		rec  c09want
	}
	uniq := 0
	genReg := func(node, tid int) pop {
		uniq++
		p := pop{kind: "reg", tid: tid, rec: c09GenRec(c)}
		p.rec.MappingID += fmt.Sprintf("/u%d", uniq)
		p.rec.TunnelID = ids[tid]
		p.rec.SourceNodeID = nodeIDs[node]
		return p
	}
	// Every round: what the store holds when the concurrent phase begins, the per-node plans, who does the closing lookups.
	//   plant 0: nothing new (round 0: an untouched store; later rounds: whatever the previous round left, lapsed)
	//   plant 1: every id registered by a drawn node, then the whole waiting period passes: lapsed records nobody has read yet
	//   plant 2: every id registered by a drawn node just before the phase (still waiting)
	type round struct {
		plant     int
		plantNode []int
		plantRec  []pop
		plans     [][]pop
		finalNode []int
	}
	var rs []round
	for r := 0; r < rounds; r++ {
		rd := round{plant: c.Intn(3, "round.plant"), plans: make([][]pop, nn)}
		for t := 0; t < nslots; t++ {
			pn := c.Intn(nn, "round.plant.node")
			rd.plantNode = append(rd.plantNode, pn)
			rd.plantRec = append(rd.plantRec, genReg(pn, t))
			rd.finalNode = append(rd.finalNode, c.Intn(nn, "round.final.node"))
		}
		for i := range rd.plans {
			for j := 0; j < per; j++ {
				tid := c.Intn(nslots, "op.tid")
				var p pop
				switch k := c.Intn(6, "op.kind"); {
				case k <= 2:
					p = pop{kind: "lookup", tid: tid}
				case k <= 4:
					p = genReg(i, tid)
				default:
					p = pop{kind: "remove", tid: tid}
				}
				rd.plans[i] = append(rd.plans[i], p)
			}
		}
		rs = append(rs, rd)
	}
	w.Probe("B.backend." + be)
	cw := c09Build(w, be, nodeIDs, ttl)
	defer cw.Close()
	bad := ""
	// one operation on one node, recorded for the linearizability check
	do := func(client, node int, p pop) porcupine.Operation {
		n := cw.nodes[node]
		w.Yield("c09.invoke")
		call := w.Stamp()
		in := c09cin{Kind: p.kind, Tid: p.tid}
		out := ""
		switch p.kind {
		case "reg":
			in.Rec = c09Canon(p.rec)
			if err := n.rt.RegisterWaitingTunnel(w.Ctx, p.rec.state()); err != nil {
				out = "err:" + err.Error()
			} else {
				out = "ok"
			}
		case "remove":
			n.rt.RemoveWaitingTunnel(w.Ctx, ids[p.tid])
			out = "ok"
		default:
			got, err := n.rt.LookupWaitingTunnel(w.Ctx, ids[p.tid])
			switch {
			case got != nil:
				out = "rec:" + c09Canon(c09want{got.TunnelID, got.MappingID, got.SecretKey, got.SourceNodeID, got.SourceClientID, got.TargetClientID, got.TargetHost, got.TargetPort})
				if got.ExpiresAt.Sub(got.CreatedAt) != eff {
					bad = fmt.Sprintf("lookup returned created=%v expires=%v: not one waiting period (%v) apart", got.CreatedAt, got.ExpiresAt, eff)
				}
			case c09IsNone(err):
				out = "none"
			default:
				out = "err:" + err.Error()
			}
		}
		w.Yield("c09.return")
		return porcupine.Operation{ClientId: client, Input: in, Call: call, Output: out, Return: w.Stamp()}
	}
	var sample []string
	for r, rd := range rs {
		startClass := "fresh-store"
		if r > 0 {
			// the previous round's records lapse; they are still physically in the backend until something reclaims them
			w.Sleep(eff + 307*time.Millisecond)
			startClass = "after-lapse"
		}
		var hist []porcupine.Operation
		switch rd.plant {
		case 1:
			for t := 0; t < nslots; t++ {
				do(nn, rd.plantNode[t], rd.plantRec[t])
			}
			w.Sleep(eff + 307*time.Millisecond)
			startClass = "after-lapse"
			w.Probe("B.round.planted-lapsed")
		case 2:
			for t := 0; t < nslots; t++ {
				hist = append(hist, do(nn, rd.plantNode[t], rd.plantRec[t]))
			}
			if startClass == "fresh-store" {
				startClass = "preregistered"
			}
			w.Probe("B.round.planted-live")
		}
		w.Probe("B.round." + startClass)
		t0 := time.Now()
		results := make([][]porcupine.Operation, nn)
		var tasks []*simrt.Task
		for i := 0; i < nn; i++ {
			i := i
			tasks = append(tasks, w.Spawn(fmt.Sprintf("node%d.r%d", i, r), func() {
				for _, p := range rd.plans[i] {
					results[i] = append(results[i], do(i, i, p))
				}
			}))
		}
		for _, t := range tasks {
			t.Wait()
		}
		for i := range results {
			hist = append(hist, results[i]...)
		}
		// closing lookups: after everything returned, the table must be in a state some sequential order explains
		for t := 0; t < nslots; t++ {
			hist = append(hist, do(nn, rd.finalNode[t], pop{kind: "lookup", tid: t}))
		}
		if bad != "" {
			w.Violationf("C09:fidelity:times:"+be, "%s", bad)
			return
		}
		if time.Since(t0) > 0 {
			w.Probe("B.round.clock-moved") // not expected: no operation takes simulated time
			continue
		}
		overlap := false
		for i := range hist {
			for j := range hist {
				if hist[i].ClientId != hist[j].ClientId && hist[i].Input.(c09cin).Tid == hist[j].Input.(c09cin).Tid &&
					hist[i].Call < hist[j].Return && hist[j].Call < hist[i].Return &&
					(hist[i].Input.(c09cin).Kind != "lookup" || hist[j].Input.(c09cin).Kind != "lookup") {
					overlap = true
				}
			}
		}
		if overlap {
			w.Nontrivial()
			w.Probe("B.overlap")
			if startClass == "after-lapse" {
				w.Probe("B.overlap.after-lapse")
			}
		}
		w.State(fmt.Sprintf("B|%s|%s|overlap=%v", be, startClass, overlap))
		sort.Slice(hist, func(i, j int) bool { return hist[i].Call < hist[j].Call })
		var lines []string
		for _, h := range hist {
			who := fmt.Sprintf("n%d", h.ClientId)
			if h.ClientId == nn {
				who = "seq"
			}
			lines = append(lines, fmt.Sprintf("%s [%d,%d] %s(t%d %s)→%s", who, h.Call, h.Return, h.Input.(c09cin).Kind, h.Input.(c09cin).Tid, h.Input.(c09cin).Rec, h.Output))
		}
		sample = append(sample, fmt.Sprintf("round %d (%s): %s", r, startClass, strings.Join(tailStr(lines, 8), " ; ")))
		if porcupine.CheckOperations(c09LinModel(), hist) {
			w.Probe("B.linearizable")
		} else {
			w.Violationf("C09:linearizability:"+startClass+":"+be, "round %d (store at the start of the round: %s; waiting period %v): the concurrent register/lookup/remove history from %d nodes plus the closing lookups has no sequential explanation (a lookup returned a record that was not the current one, a lapsed one, or missed a registered one):\n%s",
				r, startClass, eff, nn, strings.Join(lines, "\n"))
			return
		}
	}
	w.Sample(fmt.Sprintf("B %s nodes=%d ttl=%v rounds=%d: %s", be, nn, ttl, rounds, strings.Join(sample, " | ")))
}

// ---- mode C: real SessionManagers, bridge lifecycle, polling lookup --------

type c09cc struct{ m map[string]*models.PortMapping }

func (c *c09cc) GetPortMapping(id string) (*models.PortMapping, error) {
	if m, ok := c.m[id]; ok {
		cp := *m
		return &cp, nil
	}
	return nil, fmt.Errorf("mapping %q not found", id)
}
func (c *c09cc) UpdatePortMappingStats(string, *stats.TrafficStats) error           { return nil }
func (c *c09cc) GetClientPortMappings(int64) ([]*models.PortMapping, error)        { return nil, nil }
func (c *c09cc) TouchClient(int64)                                                  {}
func (c *c09cc) DisconnectClient(int64) error                                       { return nil }
func (c *c09cc) DisconnectClientIfMatch(int64, string, string) (bool, error)       { return false, nil }
func (c *c09cc) EnsureClientOnline(int64, string, string, string, string, string) error { return nil }

const (
	c09EndTimeout = iota
	c09EndClose
	c09EndServe
	c09EndCrash
	c09EndCloseDuringOpen // the source connection drops while startSourceBridge is still running
	c09EndShutdown        // the source node's SessionManager is closed (graceful shutdown)
)

var c09EndNames = []string{"timeout", "close", "serve+close", "crash", "close-during-open", "node-shutdown"}

type c09tun struct {
	idx        int
	id         string
	src        int
	mapID      string
	secret     string
	want       c09want
	startDelay time.Duration
	ending     int
	endDelay   time.Duration
	endDelay2  time.Duration
	dupOf      int
	// event log (simulated instants, zero = has not happened)
	regCall, regDone, endCall, ended, crashedAt time.Time
	rejected                                   bool
	delMayFail                                 bool
}

type c09look struct {
	node    int
	tun     int
	delay   time.Duration
	timeout time.Duration
	// results
	call, ret time.Time
	got       *tunnel.WaitingState
	err       error
	done      bool
}

const c09BridgeWait = 30 * time.Second // how long a source bridge waits for its target (documented behaviour)

func c09Lifecycle(w *simrt.World) {
	c := w.C
	w.SetCrashSentinel(simstore.Crash)
	be := c09Backends[c.Intn(4, "backend")]
	nn := 2 + c.Intn(2, "nodes")
	ttl := []time.Duration{30 * time.Second, 30 * time.Second, 0, time.Second, 2500 * time.Millisecond, 30400 * time.Millisecond, 1500 * time.Millisecond}[c.Intn(7, "ttl")]
	eff := c09EffTTL(ttl)
	nodeIDs := c09NodeIDs(c, nn)
	ntun := 1 + c.Intn(3, "tunnels")
	fault := []string{"none", "none", "none", "delete-fails", "get-fails"}[c.Intn(5, "fault.kind")]
	cc := &c09cc{m: map[string]*models.PortMapping{}}
	startDelays := []time.Duration{0, 31 * time.Millisecond, 123 * time.Millisecond, 707 * time.Millisecond, 4300 * time.Millisecond}
	// 0 = at the very instant the previous step returned: the end of the tunnel then races with whatever the open left running
	endDelays := []time.Duration{11 * time.Millisecond, 403 * time.Millisecond, 3100 * time.Millisecond, 12300 * time.Millisecond, 0, 0}
	var tuns []*c09tun
	for i := 0; i < ntun; i++ {
		t := &c09tun{idx: i, dupOf: -1}
		t.src = c.Intn(nn, "tun.src")
		t.id = fmt.Sprintf("%s#%d", c09Str(c, "tunnelid"), i)
		if i > 0 && c.Intn(3, "tun.dup") == 2 {
			// the same tunnel id is opened again through another node (ids are chosen by clients)
			t.dupOf = 0
			t.id = tuns[0].id
			t.src = (tuns[0].src + 1 + c.Intn(nn-1, "tun.dup.node")) % nn
		}
		rec := c09GenRec(c)
		t.mapID = fmt.Sprintf("%s/m%d", rec.MappingID, i)
		t.secret = rec.SecretKey
		cc.m[t.mapID] = &models.PortMapping{ID: t.mapID, ListenClientID: rec.SourceClientID, TargetClientID: rec.TargetClientID,
			TargetHost: rec.TargetHost, TargetPort: rec.TargetPort, SecretKey: rec.SecretKey, Protocol: "tcp"}
		t.want = c09want{TunnelID: t.id, MappingID: t.mapID, SecretKey: t.secret, SourceNodeID: nodeIDs[t.src],
			SourceClientID: rec.SourceClientID, TargetClientID: rec.TargetClientID, TargetHost: rec.TargetHost, TargetPort: rec.TargetPort}
		t.startDelay = startDelays[c.Intn(len(startDelays), "tun.start")]
		t.ending = c.Intn(6, "tun.ending")
		t.endDelay = endDelays[c.Intn(len(endDelays), "tun.end")]
		t.endDelay2 = endDelays[c.Intn(len(endDelays), "tun.end2")]
		t.delMayFail = fault == "delete-fails"
		tuns = append(tuns, t)
	}
	for _, t := range tuns {
		// the racing closer recognises "its" bridge by tunnel id within one node: with a second opener of the
		// same id on the same node it could close the other opener's bridge, so such a tunnel is closed by its
		// own task at the instant the open returns instead
		for _, u := range tuns {
			if u != t && u.id == t.id && u.src == t.src && t.ending == c09EndCloseDuringOpen {
				t.ending, t.endDelay = c09EndClose, 0
			}
		}
	}
	nlook := 1 + c.Intn(4, "lookers")
	lookDelays := []time.Duration{0, 23 * time.Millisecond, 97 * time.Millisecond, 509 * time.Millisecond, 2003 * time.Millisecond, 13007 * time.Millisecond, 35011 * time.Millisecond, 47003 * time.Millisecond}
	var looks []*c09look
	for i := 0; i < nlook; i++ {
		looks = append(looks, &c09look{node: c.Intn(nn, "look.node"), tun: c.Intn(ntun, "look.tun"),
			delay: lookDelays[c.Intn(len(lookDelays), "look.delay")], timeout: []time.Duration{10 * time.Second, 10 * time.Second, 1500 * time.Millisecond}[c.Intn(3, "look.timeout")]})
	}
	cpInstants := []time.Duration{5 * time.Millisecond, 61 * time.Millisecond, 457 * time.Millisecond, 1709 * time.Millisecond, 5303 * time.Millisecond, 11003 * time.Millisecond,
		20903 * time.Millisecond, 29101 * time.Millisecond, 31709 * time.Millisecond, 36007 * time.Millisecond, 44003 * time.Millisecond, 62003 * time.Millisecond}
	ncp := 2 + c.Intn(5, "checkpoints")
	cpSet := map[int]bool{}
	for i := 0; i < ncp; i++ {
		cpSet[c.Intn(len(cpInstants), "checkpoint.at")] = true
	}
	var cps []time.Duration
	for i := range cpInstants {
		if cpSet[i] {
			cps = append(cps, cpInstants[i])
		}
	}
	if l := c.Intn(8, "checkpoint.late"); l >= 4 {
		// one more checkpoint in the last part of the first tunnel's waiting period (it opens startDelay after the start)
		if at := tuns[0].startDelay + eff - c09Lates[l-4]; at > 0 {
			cps = append(cps, at)
			sort.Slice(cps, func(i, j int) bool { return cps[i] < cps[j] })
		}
	}

	// ---- world: one real SessionManager per node
	w.Probe("C.backend." + be)
	w.Probe("C.fault." + fault)
	cw := c09Build(w, be, nodeIDs, ttl)
	defer cw.Close()
	for i, n := range cw.nodes {
		n.sm = session.NewSessionManager(nil, w.Ctx)
		n.sm.SetCloudControl(cc)
		n.sm.SetNodeID(nodeIDs[i])
		n.sm.SetTunnelRoutingTable(n.rt)
		switch fault {
		case "delete-fails":
			n.st.Filter = func(op, key string) bool { return op == "Delete" }
			n.st.FailNum, n.st.FailDen = 1, 2
		case "get-fails":
			n.st.Filter = func(op, key string) bool { return op == "Get" }
			n.st.FailNum, n.st.FailDen = 1, 4
		}
	}
	start := time.Now()
	var log []string
	note := func(f string, a ...any) {
		log = append(log, fmt.Sprintf("%9v ", time.Since(start))+fmt.Sprintf(f, a...))
	}
	tail := func() string { return strings.Join(tailStr(log, 40), "\n") }

	// possibly(t, from, to): the record of t may legitimately be visible at some instant in [from,to]
	possibly := func(t *c09tun, from, to time.Time) (bool, string) {
		if t.regCall.IsZero() || t.regCall.After(to) {
			return false, "never-registered"
		}
		if t.rejected {
			return false, "never-registered"
		}
		reg := t.regDone
		if reg.IsZero() {
			reg = to
		}
		if !from.Before(reg.Add(eff).Add(c09Edge)) {
			return false, "expired"
		}
		if !t.ended.IsZero() && !t.delMayFail && !t.ended.After(from) {
			return false, "ended"
		}
		return true, ""
	}
	// definitely(t, at): t's source end is waiting and its waiting period has not lapsed
	definitely := func(t *c09tun, at time.Time) bool {
		if t.regDone.IsZero() || t.rejected || t.regDone.After(at) {
			return false
		}
		if !t.endCall.IsZero() && !t.endCall.After(at) {
			return false
		}
		if !t.crashedAt.IsZero() || cw.nodes[t.src].crashed {
			return false
		}
		return at.Before(t.regDone.Add(eff).Add(-c09Edge))
	}
	sameID := func(id string) []*c09tun {
		var l []*c09tun
		for _, t := range tuns {
			if t.id == id {
				l = append(l, t)
			}
		}
		return l
	}
	// judge one lookup result (direct or polled) observed between from and to
	resolvedElsewhere, sawAfterEnd, failed := false, false, false
	judge := func(kind string, node int, id string, got *tunnel.WaitingState, err error, from, to time.Time) bool {
		if failed {
			return false
		}
		cands := sameID(id)
		dupc := "single-opener"
		if len(cands) > 1 {
			dupc = "same-id-reopened-on-other-node"
		}
		if got != nil {
			var match *c09tun
			why := ""
			for _, t := range cands {
				if t.want.diff(got) == "" {
					if ok, y := possibly(t, from, to); ok {
						match = t
						break
					} else {
						why = y
					}
				}
			}
			if match == nil && why == "" {
				ref := cands[0]
				for _, t := range cands {
					if t.want.MappingID == got.MappingID {
						ref = t
					}
				}
				d := ref.want.diff(got)
				w.Violationf("C09:lifecycle-fidelity:"+d+":"+be, "%s lookup of %s on n%d returned %s; the tunnel was opened with %s (first differing field %s)\n%s",
					kind, c09q(id), node, c09stateStr(got), ref.want, d, tail())
				failed = true
				return false
			}
			if match == nil {
				w.Violationf("C09:stale-route:"+why+":"+dupc+":"+be, "%s lookup of %s on n%d at %v..%v resolves to %s although that tunnel is %s\n%s",
					kind, c09q(id), node, from.Sub(start), to.Sub(start), c09stateStr(got), why, tail())
				failed = true
				return false
			}
			if match.src != node {
				resolvedElsewhere = true
				w.Probe("C.resolved-from-other-node")
			}
			w.Probe("C." + kind + ".resolved")
			return true
		}
		if !c09IsNone(err) && fault == "get-fails" {
			w.Probe("C." + kind + ".storage-error")
			return true // a failed read is no information; it must only never resolve (checked above)
		}
		w.Probe("C." + kind + ".none")
		return true
	}

	// postEnd: the lifecycle of t is over; a late or replayed id must not resolve on any live node
	// (whatever the open or the end left running has had simulated time to finish)
	postEnd := func(t *c09tun) {
		t.ended = time.Now()
		sawAfterEnd = true
		note("tunnel %d lifecycle over", t.idx)
		for ni, m := range cw.nodes {
			if m.crashed || failed {
				continue
			}
			now := time.Now()
			got, err := m.rt.LookupWaitingTunnel(w.Ctx, t.id)
			if m.crashed {
				continue
			}
			note("n%d lookup right after the end of tunnel %d → %s err=%v", ni, t.idx, c09stateStr(got), err)
			w.Probe("C.post-end.lookup")
			if !judge("post-end", ni, t.id, got, err, now, now) {
				return
			}
		}
	}
	// ---- source tasks
	var tasks []*simrt.Task
	for _, t := range tuns {
		t := t
		tasks = append(tasks, w.Spawn(fmt.Sprintf("source%d", t.idx), func() {
			n := cw.nodes[t.src]
			w.Sleep(t.startDelay)
			w.Yield("c09.open")
			if n.crashed || n.down {
				return
			}
			var closer *simrt.Task
			prev := n.sm.BridgeForVerif(t.id) // a bridge of an earlier opener of the same id on this node is not ours
			if t.ending == c09EndCloseDuringOpen {
				// the source connection goes away as soon as the bridge exists, possibly before the open has returned
				closer = w.Spawn(fmt.Sprintf("closer%d", t.idx), func() {
					for i := 0; i < 300 && !t.rejected && t.regDone.IsZero(); i++ {
						w.Yield("c09.closer")
						if b := n.sm.BridgeForVerif(t.id); b != nil && b != prev {
							t.endCall = time.Now()
							note("n%d source of tunnel %d drops during the open: bridge closed", t.src, t.idx)
							w.Probe("C.closed-before-open-returned")
							b.Close()
							return
						}
					}
				})
			}
			t.regCall = time.Now()
			note("n%d opens tunnel %d id=%s ending=%s", t.src, t.idx, c09q(t.id), c09EndNames[t.ending])
			err := n.sm.StartSourceBridgeForVerif(&packet.TunnelOpenRequest{MappingID: t.mapID, TunnelID: t.id, SecretKey: t.secret}, nil, nil)
			t.regDone = time.Now()
			if err != nil {
				t.rejected = true
				note("n%d startSourceBridge(tunnel %d) rejected: %v", t.src, t.idx, err)
				return
			}
			br := n.sm.BridgeForVerif(t.id)
			if n.down {
				// the node was shut down while this open was in flight
				t.endCall = time.Now()
				w.Sleep(3 * time.Millisecond)
				if !n.crashed {
					postEnd(t)
				}
				return
			}
			// gone: the node crashed or shut down meanwhile; this tunnel's end has been recorded by that event
			gone := func() bool { return n.crashed || n.down || !t.ended.IsZero() }
			switch t.ending {
			case c09EndCloseDuringOpen:
				closer.Wait()
				if t.endCall.IsZero() {
					t.endCall = time.Now()
					note("n%d closes bridge of tunnel %d right after the open returned", t.src, t.idx)
					if br != nil {
						br.Close()
					}
				}
				w.Sleep(3 * time.Millisecond)
			case c09EndShutdown:
				w.Sleep(t.endDelay)
				if n.crashed || n.down {
					return
				}
				n.down = true
				now := time.Now()
				var mine []*c09tun
				for _, u := range tuns {
					if u.src == t.src && !u.regDone.IsZero() && !u.rejected && u.ended.IsZero() {
						if u.endCall.IsZero() || u.endCall.After(now) {
							u.endCall = now
						}
						mine = append(mine, u)
					}
				}
				note("n%d SHUTS DOWN (SessionManager.Close)", t.src)
				w.Probe("C.node-shutdown")
				n.sm.Close()
				w.Sleep(3 * time.Millisecond)
				for _, u := range mine {
					if u.ended.IsZero() && !n.crashed {
						postEnd(u)
					}
				}
				return
			case c09EndTimeout:
				t.endCall = t.regDone.Add(c09BridgeWait)
				w.Sleep(c09BridgeWait + 7*time.Millisecond)
			case c09EndClose:
				w.Sleep(t.endDelay)
				if gone() {
					return
				}
				t.endCall = time.Now()
				note("n%d closes bridge of tunnel %d (source went away)", t.src, t.idx)
				if br != nil {
					br.Close()
				}
				w.Sleep(3 * time.Millisecond)
			case c09EndServe:
				w.Sleep(t.endDelay)
				if gone() {
					return
				}
				t.endCall = time.Now()
				note("n%d tunnel %d served (target ready)", t.src, t.idx)
				if br != nil {
					br.NotifyTargetReady()
				}
				w.Sleep(t.endDelay2)
				if gone() {
					return
				}
				note("n%d tunnel %d finished", t.src, t.idx)
				if br != nil {
					br.Close()
				}
				w.Sleep(3 * time.Millisecond)
			case c09EndCrash:
				w.Sleep(t.endDelay)
				if !n.crashed && !n.down {
					n.crashed = true
					now := time.Now()
					for _, u := range tuns {
						if u.src == t.src && u.crashedAt.IsZero() {
							u.crashedAt = now
						}
					}
					n.st.Fence()
					if n.local != nil {
						n.local.Fence()
					}
					w.Fault("node.crash")
					note("n%d CRASHES", t.src)
				}
				return
			}
			if n.crashed || n.down || !t.ended.IsZero() {
				return
			}
			postEnd(t)
		}))
	}
	// ---- target-side polling lookups (the real lookupTunnelRouting)
	for i, l := range looks {
		i, l := i, l
		tasks = append(tasks, w.Spawn(fmt.Sprintf("target%d", i), func() {
			n := cw.nodes[l.node]
			w.Sleep(l.delay)
			w.Yield("c09.poll")
			if n.crashed || n.down {
				return
			}
			ctx, cancel := context.WithTimeout(w.Ctx, l.timeout)
			defer cancel()
			l.call = time.Now()
			l.got, l.err = n.sm.LookupTunnelRoutingForVerif(ctx, tuns[l.tun].id)
			l.ret = time.Now()
			l.done = true
			note("n%d poll(tunnel %d, timeout %v) started %v → %s err=%v", l.node, l.tun, l.timeout, l.call.Sub(start), c09stateStr(l.got), l.err)
		}))
	}
	// ---- checkpoints: direct lookups from every live node
	checkpoint := func(final bool) bool {
		now := time.Now()
		ids := map[string]bool{}
		for _, t := range tuns {
			ids[t.id] = true
		}
		var idl []string
		for id := range ids {
			idl = append(idl, id)
		}
		sort.Strings(idl)
		for _, id := range idl {
			for ni, n := range cw.nodes {
				if n.crashed {
					continue
				}
				got, err := n.rt.LookupWaitingTunnel(w.Ctx, id)
				if n.crashed {
					continue
				}
				note("n%d direct lookup %s → %s err=%v", ni, c09q(id), c09stateStr(got), err)
				if !judge("direct", ni, id, got, err, now, now) || failed {
					return false
				}
				cands := sameID(id)
				var waiting []*c09tun
				for _, t := range cands {
					if definitely(t, now) {
						waiting = append(waiting, t)
					}
				}
				st := "absent"
				if got != nil {
					st = "resolves"
				}
				w.State(fmt.Sprintf("C|%s|waiting=%d|%s|dups=%d", be, len(waiting), st, len(cands)))
				if got == nil && len(waiting) > 0 && (c09IsNone(err) || fault != "get-fails") {
					cls := "single-opener"
					if len(cands) > 1 {
						cls = "same-id-reopened-on-other-node"
					}
					ec := "error"
					if c09IsNone(err) {
						ec = "not-found"
					}
					t := waiting[0]
					w.Violationf("C09:unroutable:"+ec+":"+cls+":"+be, "tunnel %d (id %s) is waiting on n%d since %v (waiting period %v) but at %v node n%d cannot resolve it: %v\n%s",
						t.idx, c09q(id), t.src, t.regDone.Sub(start), eff, now.Sub(start), ni, err, tail())
					return false
				}
			}
		}
		return true
	}
	for _, at := range cps {
		if d := at - time.Since(start); d > 0 {
			w.Sleep(d)
		}
		w.Yield("c09.checkpoint")
		if !checkpoint(false) {
			return
		}
	}
	for _, t := range tasks {
		t.Wait()
	}
	if failed {
		return
	}
	// polled results
	for _, l := range looks {
		if !l.done {
			continue
		}
		t := tuns[l.tun]
		if !judge("poll", l.node, t.id, l.got, l.err, l.call, l.ret) {
			return
		}
		if l.got == nil && fault != "get-fails" && !cw.nodes[l.node].crashed {
			// liveness: a tunnel that was waiting for a good part of the polling window must have been found
			for _, u := range sameID(t.id) {
				if u.regDone.IsZero() || u.rejected || len(sameID(t.id)) > 1 {
					continue
				}
				lo, hi := u.regDone, u.regDone.Add(eff)
				if !u.endCall.IsZero() && u.endCall.Before(hi) {
					hi = u.endCall
				}
				if !u.crashedAt.IsZero() && u.crashedAt.Before(hi) {
					hi = u.crashedAt
				}
				if l.call.After(lo) {
					lo = l.call
				}
				if e := l.call.Add(l.timeout); e.Before(hi) {
					hi = e
				}
				if hi.Sub(lo) >= 500*time.Millisecond {
					w.Violationf("C09:poll:missed-waiting-tunnel:"+be, "the polling lookup on n%d (started %v, timeout %v) ended with %v although tunnel %d was waiting on n%d from %v to %v\n%s",
						l.node, l.call.Sub(start), l.timeout, l.err, u.idx, u.src, lo.Sub(start), hi.Sub(start), tail())
					return
				}
			}
		}
	}
	// ---- the tail: every tunnel is over (or its node died); after the longest waiting period nothing may resolve
	var last time.Time
	for _, t := range tuns {
		if x := t.regDone.Add(eff); x.After(last) {
			last = x
		}
	}
	if d := time.Until(last.Add(1009 * time.Millisecond)); d > 0 {
		w.Sleep(d)
	}
	for _, t := range tuns {
		t.delMayFail = false // the waiting period has lapsed: even a failed removal is covered by expiry
	}
	note("tail: all tunnels over and all waiting periods lapsed")
	if !checkpoint(true) {
		return
	}
	// a replayed tunnel id through the real polling path
	for ni, n := range cw.nodes {
		if n.crashed || n.down {
			continue
		}
		ctx, cancel := context.WithTimeout(w.Ctx, 700*time.Millisecond)
		from := time.Now()
		got, err := n.sm.LookupTunnelRoutingForVerif(ctx, tuns[0].id)
		cancel()
		note("n%d replayed poll → %s err=%v", ni, c09stateStr(got), err)
		if !judge("replay", ni, tuns[0].id, got, err, from, time.Now()) {
			return
		}
		break
	}
	if resolvedElsewhere && sawAfterEnd {
		w.Nontrivial()
	}
	var ds []string
	for _, t := range tuns {
		ds = append(ds, fmt.Sprintf("t%d@n%d %s dup=%d", t.idx, t.src, c09EndNames[t.ending], t.dupOf))
	}
	w.Sample(fmt.Sprintf("C %s ttl=%v nodes=%d fault=%s tunnels[%s] lookers=%d checkpoints=%v", be, ttl, nn, fault, strings.Join(ds, ", "), nlook, cps))
}

// ---- registration ---------------------------------------------------------

func init() {
	Register(&Scenario{
		ID:    "C09",
		Level: "exploration",
		Rule: "each run draws a mode. (A, 4/9) 2-3 nodes with real RoutingTables over one shared backend drawn from {memory, redis(miniredis), tiered hybrid with shared redis, tiered hybrid with shared memory, or the same plan on memory+redis+tiered compared outcome by outcome}; waiting period drawn from {30s, 1s, 0=default, 2.5s, 30.4s, 1.5s, 750ms, 1.999s} (not only whole seconds: every backend must carry the record for the whole period); 1-5 tunnel ids and all record fields from a hostile valid-UTF-8 generator (empty, 1 byte, 64 KiB, NUL, U+2028, JSON text, quotes/backslashes, key-like text) and int64/int extremes; a plan of 8-35 operations register / lookup / remove / clock advance (never within 2 ms of an expiry) / lookups placed 7-947 ms before or 7-611 ms after the end of the looked-up record's waiting period / RegisterNodeAddress / GetNodeAddress from drawn nodes, optionally storage failures on drawn operations and a caller that edits its own struct after Register returned; each lookup is compared field by field and instant by instant with a reference table (resolves iff registered, not removed, now < registration + waiting period). " +
			"(B, 2/9) 1-3 rounds on one world (backend and waiting period drawn as in A): before a round the store is drawn from {left as is, every id registered by a drawn node and the whole waiting period then passes so lapsed records lie unread in the backend, every id registered just before}; between rounds the whole waiting period passes (the previous round's records lapse in place); in a round one task per node issues 2-5 register/lookup/remove operations on 1-2 ids concurrently, interleaved at every lock, storage operation and statement of routing.go and of the backends, followed by one sequential closing lookup per id from a drawn node; each round's history (pre-registrations + concurrent operations + closing lookups, starting from 'nothing resolves') is checked for linearizability. " +
			"(C, 3/9) one real SessionManager per node with a stub mapping directory; 1-3 tunnels opened through the real startSourceBridge on drawn nodes at drawn instants (optionally the same tunnel id opened again through another node), ending by the 30 s bridge timeout, bridge close, target-ready then close, crash of the source node (its storage handle is fenced), a close issued by a second task as soon as the bridge exists (possibly before startSourceBridge has returned), or a graceful shutdown of the source node's SessionManager; the delay before an end is drawn from {0 = same simulated instant, so the end races at statement granularity with whatever the open left running, 11 ms, 403 ms, 3.1 s, 12.3 s}; 3 ms after every lifecycle end every live node looks the id up directly (must not resolve); 1-4 target-side calls of the real polling lookupTunnelRouting on drawn nodes at drawn instants; waiting period from {30s, default, 1s, 2.5s, 30.4s, 1.5s}; 1-6 checkpoints (drawn instants between 5 ms and 62 s, optionally one more 7-430 ms before the end of the first tunnel's waiting period) where every live node looks every id up directly; optional storage faults (deletes fail with probability 1/2, or reads fail with probability 1/4); in the tail, after all lifecycles ended and all waiting periods lapsed, no node may resolve any id, including through a replayed polling lookup. " +
			"Non-trivial: (A) a lookup from a node other than the registering one resolved AND the history contains a removal or expiry of a registered id or a re-registration from another node; (B) two operations of different nodes on the same id overlapped, at least one a write; (C) a lookup from a node other than the source node resolved AND at least one tunnel lifecycle ended before the run's tail. Distinct = distinct schedule hashes / abstract states (backend x waiting-count x resolves x duplicates; for B backend x state of the store at round start x overlap).",
		Real: []string{"internal/protocol/session/tunnel RoutingTable (Register/Lookup/RemoveWaitingTunnel, Register/GetNodeAddress)", "internal/protocol/session SessionManager.startSourceBridge, runBridgeLifecycle, lookupTunnelRouting, tunnel.Bridge (Start/Close/NotifyTargetReady)",
			"internal/core/storage/memory", "internal/core/storage/redis over go-redis", "internal/core/storage/hybrid (DefaultConfig, shared cache)", "miniredis (real command + TTL semantics) in the bubble"},
		Stub: []string{"CloudControlAPI: a map of PortMappings", "TCP between go-redis and Redis: net.Pipe; Redis TTL clock driven from the simulated clock", "source/target connections of the bridge: none (nil conn/stream; readiness is signalled by NotifyTargetReady)", "node crash: the node's storage handle is fenced and its tasks unwind at their next storage operation"},
		Assumptions: []string{"record field values are valid UTF-8 (they arrive through JSON decoders)", "instants within 2 ms of an expiry are never judged", "a storage failure means the operation did not reach the backend", "after a failed removal or a node crash the record may stay visible until its waiting period lapses (expiry is the backstop the design relies on)",
			"between 'target ready' and the end of the bridge the record may or may not resolve (the text only fixes 'while waiting' and 'after the end')", "when two openers use one tunnel id at once, resolving to either of them is accepted while both wait", "node addresses are non-empty"},
		Opt: func(tier string) simrt.Options { return simrt.Options{MaxSteps: 600000} },
		Run: c09Run,
	})
}

func c09Run(w *simrt.World, tier string) {
	switch m := w.C.Intn(9, "mode"); {
	case m <= 3:
		w.Probe("mode.A.sequential")
		c09Sequential(w)
	case m <= 5:
		w.Probe("mode.B.concurrent")
		c09Concurrent(w)
	default:
		w.Probe("mode.C.lifecycle")
		c09Lifecycle(w)
	}
}
