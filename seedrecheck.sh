#!/bin/sh
# seedrecheck.sh <name> [budget] [check-property]
# Re-runs the registered check against a scratch worktree of /repo with the kept seeded defect
# seeded/<name>/patch.diff applied, and updates caught_by_check/signatures in its meta.json.
set -u
NAME=$1; BUDGET=${2:-45}
D=${VERIF_DIR:-/verif}
P=${3:-$(python3 -c "import json;print(json.load(open('/verif/seeded/$NAME/meta.json'))['property'])")}
export GOFLAGS=-mod=mod GOPROXY=off
WT=/tmp/seedwt-$NAME
rm -rf "$WT"; git -C /repo worktree prune; git -C /repo worktree add --detach "$WT" HEAD >/dev/null 2>&1 || { echo "worktree failed"; exit 2; }
git -C "$WT" apply "/verif/seeded/$NAME/patch.diff" || git -C "$WT" apply -3 "/verif/seeded/$NAME/patch.diff" || { echo "patch does not apply"; git -C /repo worktree remove --force "$WT"; exit 3; }
(cd "$D" && VERIF_DIR="$D" VERIF_EVIDENCE_DIR=/tmp/seed-evidence VERIF_REPO="$WT" ./check $P --tier quick --budget $BUDGET > /tmp/seed-$NAME-check.log 2>&1); rc=$?
git -C /repo worktree remove --force "$WT"
caught=no; [ $rc = 1 ] && caught=yes; [ $rc = 2 ] && caught=harness-trouble
sigs=$(grep "signature:" /tmp/seed-$NAME-check.log | sed 's/.*signature: //' | sort -u | tr '\n' ' ')
if [ "$D" = /verif ]; then
python3 - "$NAME" "$caught" "$sigs" "$P" "$BUDGET" <<'PY'
import json,sys
name,caught,sigs,p,b=sys.argv[1:]
f=f'/verif/seeded/{name}/meta.json'; m=json.load(open(f))
m['caught_by_check']=caught; m['signatures']=sigs.split(); m['check_cmd']=f"./check {p} --tier quick --budget {b}"
json.dump(m,open(f,'w'),indent=1)
PY
fi
echo "$NAME caught=$caught sigs=$sigs"
