package props

import (
	"bufio"
	"bytes"
	"compress/gzip"
	"encoding/base64"
	"encoding/binary"
	"encoding/json"
	"errors"
	"fmt"
	"net"
	"net/http"
	"runtime"
	"runtime/metrics"
	"strconv"
	"strings"
	"sync"
	"time"

	"github.com/gorilla/websocket"

	"tunnox-core/internal/core/types"
	"tunnox-core/internal/packet"
	"tunnox-core/internal/protocol/adapter"
	"tunnox-core/internal/stream"
	"tunnox-core/internal/verifhook"
	"tunnox-core/verifsim/simnet"
	"tunnox-core/verifsim/simnode"
	"tunnox-core/verifsim/simrt"
	"tunnox-core/verifsim/simstore"
)

// C05 — hostile bytes cannot crash the server or make it allocate without bound.
//
// Three configurations of REAL code, one drawn per run:
//
//	decode   : stream.StreamProcessor.ReadPacket alone on the server end of a
//	           simnet link; a harness reader task calls it in a loop the way
//	           the adapter does and measures runtime.MemStats.TotalAlloc around
//	           every single call (exactly one task runs between two scheduler
//	           decisions, so the delta is that call's).
//	serve    : a fully wired server node (simnode, Commands=true, every handler
//	           set registered); the hostile peer writes RAW bytes on a simnet
//	           link served by the node's real BaseAdapter read loop ->
//	           ReadPacket -> SessionManager.HandlePacket -> handlers/executor.
//	dispatch : same node; every well-framed hostile packet is decoded by a real
//	           StreamProcessor and handed directly to SessionManager.HandlePacket
//	           on a fresh connection, observing the return value.
//
// The wire bytes are built by the harness by hand (type byte, 4-byte big-endian
// length, body; a heartbeat is the bare type byte) with the standard library's
// gzip, never with the repository's writer.
//
// Oracles (from the property text, not from the implementation):
//	(1) no panic in any task                         -> panic:<func> (automatic)
//	(2) finite stream => the reader ends: no spinning, not blocked for ever
//	(3) bytes allocated while decoding/dispatching one packet <= 8 x max body,
//	    live heap after the connection is gone <= baseline + 4 x max body
//	(4) HandlePacket on a fresh connection returns (error or nil) in bounded time

const (
	// c05MaxBody is the specification's "maximum packet body size" (property
	// anchors: "16MB cap on the declared body length").
	c05MaxBody = 16 << 20
	// c05AllocBound: the fixed bound tied to the maximum body size for one packet
	// (wire body + pooled copy + inflated body + parsed form, with slack).
	c05AllocBound = 8 * c05MaxBody
	// c05RetainBound: what may stay live after the connection has gone.
	c05RetainBound = 4 * c05MaxBody
	// c05TermBound: simulated time a server gets to notice the end of a finite
	// stream and finish (covers every per-packet handler timeout in sequence).
	c05TermBound = 45 * time.Minute
	// c05DispatchBound: simulated time for one HandlePacket call to return.
	c05DispatchBound = 10 * time.Minute
	// c05Stall: how long a stalling peer stays silent.
	c05Stall = 10 * time.Minute
)

func init() {
	Register(&Scenario{
		ID:    "C05",
		Level: "exploration",
		Rule: "each run draws a configuration (decode: ReadPacket alone / serve: raw bytes into the wired node's adapter read loop / dispatch: decoded packets handed to SessionManager.HandlePacket), " +
			"a hostile byte stream of 1-10 segments (hand-framed packets over all dispatcher types and random type/flag bytes with valid-shaped, wrong-typed, deeply nested, huge-number, null, truncated, non-UTF-8 or random JSON; " +
			"command packets over all command types; gzip-flagged bodies: valid, garbage, concatenated members, truncated trailer, bad CRC, 1-4 MiB of zeros and (1 run in 50) a bomb inflating to 24-80 MiB (256 MiB in thorough); " +
			"adversarial length fields 0/1/2^31/2^32-1/max-1/max/max+1/12*max with a short body; raw random bytes; floods of up to 800 empty five-byte packets; bit-flipped frames; 1 run in 8 carries bodies of 1-16 MiB), a truncation offset, " +
			"the transport segmentation law of the server's reads, how the stream ends (half-close, close, reset, 10 minute stall then close), the transport of the served connection (plain stream with up to 3 injected transient read timeouts, or in 1/3 of the serve runs the real WebSocket wrapper over a real gorilla connection: stream sent as split/merged binary messages mixed with text messages, pings, unsolicited pongs, mid-stream close frames and illegal frames; the peer does or does not answer the server's pings; ends with or without a close frame or goes silent past every transport timeout; in 1/12 of the WebSocket runs the peer finally sends ONE binary message of 16 (legal), 64 or 160 MiB (400 MiB in thorough) in 1-8 frames whose payload is synthesised inside the server's own link Read so that the peer side allocates nothing), pauses between segments, optionally a legitimate second client, a first-connect by the hostile peer, and storage errors (k-th operation or 1/8 of operations fail). " +
			"1 decode run in 32 is a cost probe instead (thousands of minimal packets - heartbeats, empty packets, one-byte bodies - in one or four WebSocket messages or a plain stream, at n and 8n bytes; the bulk byte moves of the two decodes are compared). Non-trivial: the real decoder/dispatcher actually consumed at least one segment that is not a well-formed request (the server read past its first byte, or HandlePacket was called with it), or the server consumed an illegal/unexpected WebSocket frame, or a deaf WebSocket peer stayed silent past the transport timeouts; distinct = distinct schedule hashes of such runs.",
		Real: []string{"internal/stream StreamProcessor.ReadPacket (+buffer pool)", "internal/stream/compression GzipReader", "internal/protocol/adapter BaseAdapter.handleConnection/connectionReadLoop", "internal/protocol/adapter wsServerConn (read deadline, pong handler, ping loop) over github.com/gorilla/websocket",
			"internal/protocol/session SessionManager.HandlePacket, handshake/tunnel/command/DNS/SOCKS5/traffic handlers", "internal/command CommandExecutor + registry", "internal/app/server auth, tunnel, connection-code, config, mapping, HTTP-domain command handlers", "internal/cloud services on the memory storage backend"},
		Stub: []string{"transport: simnet link whose server end counts Reads issued after the end of the stream", "peer: harness writing hand-built bytes", "storage faults: simstore wrapper"},
		Assumptions: []string{
			"maximum packet body size is 16 MiB (property anchors); 'fixed bound tied to it' is taken as 8x per decoded packet and 4x retained",
			"sync.Pool is modelled by a per-run free list that is never emptied by GC, so up to 2 large pooled buffers per run are tolerated by the retention bound",
			"a oneway/ignored packet may legitimately produce neither an error nor a reply; only crashing, not returning, or over-allocating is flagged for HandlePacket",
			"live heap is measured as HeapAlloc after two forced GCs (more exact than HeapInuse)",
			"work is measured as bytes moved in bulk by repository code (copy and append(x, y...) of byte slices/strings, counted by the instrumented build): linear budget 64 per transport byte + 1 MiB per connection, and an 8x larger input of the same shape may move at most 16x as much",
			"more than 16 failed Reads in a row at one simulated instant without a byte delivered is a retry storm (a retry after a timeout must be able to block again)",
			"a server that issues more than 16 further Reads after a Read returned EOF/reset/closed is spinning; a task that takes more than ~200k+60/byte scheduler steps without ever blocking is spinning (the second detector needs a fair scheduler and is inactive under a minimised all-zero choice stream)",
		},
		Opt: func(tier string) simrt.Options { return simrt.Options{MaxSteps: 6000000, MaxIdle: 96 * time.Hour} },
		Run: c05Run,
	})
}

// ---------------------------------------------------------------- generator

type c05seg struct {
	b       []byte
	desc    string
	hostile bool // not a well-formed request of a type the dispatcher knows
	framed  bool // a complete frame (usable in dispatch mode)
	big     bool
	bomb    bool
}

type c05gen struct {
	c       *simrt.Choice
	tier    string
	ids     []int64
	bigLeft int
	bomb    bool // a bomb may still be emitted in this run
}

var c05BaseTypes = []byte{0x01, 0x20, 0x10, 0x11, 0x03, 0x02, 0x21, 0x22, 0x23, 0x24}

var c05Keys = []string{"client_id", "token", "version", "protocol", "connection_type", "challenge_response", "mapping_id", "tunnel_id", "secret_key", "resume_token",
	"target_host", "target_port", "target_network", "target_client_id", "domain", "qtype", "query_id", "dns_server", "raw_query", "bytes_sent", "bytes_received", "connections",
	"timestamp", "request_id", "status_code", "headers", "body", "error", "success", "code", "subdomain", "base_domain", "full_domain", "target_url", "target_address",
	"listen_address", "activation_ttl", "mapping_ttl", "description", "ips", "data", "payload", "notify_id", "type", "raw_answer", "reason", "limit", "mapping_name"}

var c05HandshakeKeys = []string{"client_id", "token", "version", "protocol", "connection_type", "challenge_response"}
var c05TunnelKeys = []string{"mapping_id", "tunnel_id", "secret_key", "resume_token", "target_host", "target_port", "target_network"}

func c05CmdKeys(ct int) []string {
	switch {
	case ct == 90:
		return []string{"tunnel_id", "mapping_id", "target_client_id", "target_host", "target_port", "protocol"}
	case ct == 120:
		return []string{"domain", "qtype", "target_client_id", "success", "ips", "error"}
	case ct == 121:
		return []string{"query_id", "target_client_id", "dns_server", "raw_query", "raw_answer", "success"}
	case ct == 110:
		return []string{"mapping_id", "bytes_sent", "bytes_received", "connections", "timestamp"}
	case ct == 81:
		return []string{"request_id", "status_code", "headers", "body", "error"}
	case ct >= 70 && ct <= 76:
		return []string{"code", "mapping_id", "target_address", "activation_ttl", "mapping_ttl", "description", "listen_address", "type", "direction"}
	case ct >= 82 && ct <= 87:
		return []string{"subdomain", "base_domain", "full_domain", "target_url", "mapping_id", "description", "target_host", "target_port"}
	}
	return c05Keys
}

func (g *c05gen) id() int64 {
	c := g.c
	switch c.Intn(8, "id.kind") {
	case 0:
		if len(g.ids) > 0 {
			return g.ids[c.Intn(len(g.ids), "id.known")]
		}
		return 0
	case 1:
		return 0
	case 2:
		return -1
	case 3:
		return int64(10000000 + c.Intn(90000000, "id.8digit"))
	case 4:
		return 1 << 31
	case 5:
		return 1<<63 - 1
	case 6:
		return -1 << 63
	}
	return int64(c.Intn(1000, "id.small"))
}

func c05Q(s string) string {
	b, _ := json.Marshal(s)
	return string(b)
}

func (g *c05gen) str() string {
	c := g.c
	switch c.Intn(14, "str.kind") {
	case 0:
		return "control"
	case 1:
		return ""
	case 2:
		return "tunnel"
	case 3:
		return "new-client"
	case 4:
		return "3"
	case 5:
		return "tcp"
	case 6:
		return "pm_" + strconv.Itoa(c.Intn(100, "str.n"))
	case 7:
		return "../../etc/passwd\x00"
	case 8:
		return strings.Repeat("A", 1+c.Intn(70000, "str.long"))
	case 9:
		return "日本語‮�"
	case 10:
		return base64.StdEncoding.EncodeToString(bytes.Repeat([]byte{0xab}, c.Intn(600, "str.b64")))
	case 11:
		return "abc.tunnox.net:80:80"
	case 12:
		return "[::1]:53"
	}
	return strconv.FormatInt(g.id(), 10)
}

// value writes one JSON value.
func (g *c05gen) value(sb *strings.Builder, depth int) {
	c := g.c
	k := c.Intn(12, "val.kind")
	if depth > 3 && (k == 5 || k == 6) {
		k = 0
	}
	switch k {
	case 0:
		sb.WriteString(strconv.FormatInt(g.id(), 10))
	case 1, 2:
		sb.WriteString(c05Q(g.str()))
	case 3:
		sb.WriteString([]string{"true", "false"}[c.Intn(2, "val.bool")])
	case 4:
		sb.WriteString("null")
	case 5:
		sb.WriteByte('[')
		n := c.Intn(4, "val.arr")
		for i := 0; i < n; i++ {
			if i > 0 {
				sb.WriteByte(',')
			}
			g.value(sb, depth+1)
		}
		sb.WriteByte(']')
	case 6:
		sb.WriteString(g.object(c05Keys, depth+1))
	case 7:
		sb.WriteString([]string{"1e400", "-1e400", "1.5", "9223372036854775808", "-9223372036854775809", "0.0000000000000000000000001", "1E+2", strings.Repeat("9", 400)}[c.Intn(8, "val.num")])
	case 8:
		sb.WriteString(c05Q(strconv.FormatInt(g.id(), 10)))
	case 9:
		sb.WriteString(`"\ud800\u0000\t"`)
	case 10:
		sb.WriteString(strconv.Itoa(c.Intn(70000, "val.int")))
	default:
		sb.WriteString(`{"":{"":[]}}`)
	}
}

// plausible writes a value of the type the key usually has.
func (g *c05gen) plausible(sb *strings.Builder, key string) {
	c := g.c
	switch {
	case strings.HasSuffix(key, "client_id"):
		sb.WriteString(strconv.FormatInt(g.id(), 10))
	case key == "target_port" || key == "qtype" || strings.HasSuffix(key, "_ttl") || strings.HasPrefix(key, "bytes_") || key == "timestamp" || key == "connections" || key == "status_code" || key == "limit":
		sb.WriteString(strconv.Itoa([]int{0, 1, 80, 65535, 65536, -1, 2147483647}[c.Intn(7, "pl.int")]))
	case key == "success":
		sb.WriteString("true")
	case key == "raw_query" || key == "raw_answer" || key == "body":
		sb.WriteString(c05Q(base64.StdEncoding.EncodeToString(bytes.Repeat([]byte{1, 0}, c.Intn(300, "pl.raw")))))
	case key == "headers":
		sb.WriteString(`{"Host":"a.tunnox.net","X":"y"}`)
	case key == "ips":
		sb.WriteString(`["1.2.3.4","::1"]`)
	default:
		sb.WriteString(c05Q(g.str()))
	}
}

func (g *c05gen) object(keys []string, depth int) string {
	c := g.c
	var sb strings.Builder
	sb.WriteByte('{')
	n := c.Intn(7, "obj.n")
	for i := 0; i < n; i++ {
		if i > 0 {
			sb.WriteByte(',')
		}
		var key string
		if c.Intn(5, "obj.anykey") == 4 {
			key = c05Keys[c.Intn(len(c05Keys), "obj.key")]
		} else {
			key = keys[c.Intn(len(keys), "obj.key")]
		}
		if c.Intn(16, "obj.case") == 15 {
			key = strings.ToUpper(key)
		}
		sb.WriteString(c05Q(key))
		sb.WriteByte(':')
		if c.Intn(3, "obj.plausible") != 2 {
			g.plausible(&sb, key)
		} else {
			g.value(&sb, depth)
		}
	}
	sb.WriteByte('}')
	return sb.String()
}

// hostileJSON returns a body that is not the expected object.
func (g *c05gen) hostileJSON() (string, string) {
	c := g.c
	switch c.Intn(12, "hostile.kind") {
	case 0:
		return "null", "null"
	case 1:
		n := []int{100, 9999, 10001, 100000}[c.Intn(4, "hostile.depth")]
		s := strings.Repeat("[", n)
		if c.Intn(2, "hostile.closed") == 1 {
			s += strings.Repeat("]", n)
		}
		return s, fmt.Sprintf("nest[%d]", n)
	case 2:
		n := []int{100, 9999, 10001, 50000}[c.Intn(4, "hostile.depth")]
		return strings.Repeat(`{"a":`, n) + "1" + strings.Repeat("}", n), fmt.Sprintf("nest{%d}", n)
	case 3:
		return `{"client_id":1e400,"target_port":` + strings.Repeat("9", 5000) + `}`, "huge-number"
	case 4:
		return `{"client_id":"7","token":5,"version":[],"protocol":{},"connection_type":false,"mapping_id":1,"tunnel_id":null,"target_port":"80","target_client_id":"x"}`, "wrong-types"
	case 5:
		return []string{"", "{", `"`, `{"client_id":`, "[", `{"a"`, "tru"}[c.Intn(7, "hostile.trunc")], "truncated"
	case 6:
		return "{\"token\":\"\xff\xfe\xc0\x80\",\"mapping_id\":\"\xed\xa0\x80\"}", "bad-utf8"
	case 7:
		return `{"token":"a","token":"b","TOKEN":"c","client_id":1,"client_id":2,"Client_ID":3}`, "dup-keys"
	case 8:
		b := make([]byte, 1+c.Intn(200, "hostile.rand"))
		c.Bytes(b, "hostile.bytes")
		return string(b), "random-bytes"
	case 9:
		return []string{"[]", `""`, "0", "true", "[1,2,3]", `"x"`, "-0", "{}"}[c.Intn(8, "hostile.scalar")], "scalar"
	case 10:
		return `{"token":"` + strings.Repeat("Z", 1<<10+c.Intn(1<<20, "hostile.long")) + `"}`, "long-string"
	}
	var sb strings.Builder
	g.value(&sb, 0)
	return sb.String(), "any-value"
}

// body returns a JSON body for an object with the given keys; hostile says
// whether it deviates from a plain object.
func (g *c05gen) body(keys []string) (string, string, bool) {
	if g.c.Intn(3, "body.hostile") == 2 {
		s, d := g.hostileJSON()
		return s, d, true
	}
	return g.object(keys, 0), "object", false
}

func (g *c05gen) cmdType() int {
	c := g.c
	switch c.Intn(6, "cmd.class") {
	case 0:
		return []int{50, 11, 90, 120, 121, 110, 81, 70, 72, 74, 75, 76, 85, 87, 35, 36, 102, 60}[c.Intn(18, "cmd.known")]
	case 1:
		return c.Intn(256, "cmd.any")
	}
	return 10 + c.Intn(115, "cmd.range")
}

// command returns the JSON of a CommandPacket (no json tags: Go field names).
func (g *c05gen) command() (string, string, bool) {
	c := g.c
	ct := g.cmdType()
	body, bdesc, hostile := g.body(c05CmdKeys(ct))
	id := []string{"cmd-1", "", "x", strings.Repeat("i", 300)}[c.Intn(4, "cmd.id")]
	desc := fmt.Sprintf("cmd%d(%s)", ct, bdesc)
	switch c.Intn(10, "cmd.shape") {
	case 7:
		return fmt.Sprintf(`{"CommandType":%s,"CommandId":"a","CommandBody":%s}`, []string{"256", "-1", `"50"`, "1.5", "null"}[c.Intn(5, "cmd.badtype")], c05Q(body)), desc + "/bad-type", true
	case 8:
		if json.Valid([]byte(body)) {
			return fmt.Sprintf(`{"CommandType":%d,"CommandId":%s,"CommandBody":%s}`, ct, c05Q(id), body), desc + "/body-not-string", true
		}
	case 9:
		s, d := g.hostileJSON()
		return s, "cmd:" + d, true
	}
	return fmt.Sprintf(`{"CommandType":%d,"CommandId":%s,"Token":%s,"SenderId":%s,"ReceiverId":%s,"CommandBody":%s}`,
		ct, c05Q(id), c05Q(g.str()), c05Q(strconv.FormatInt(g.id(), 10)), c05Q(strconv.FormatInt(g.id(), 10)), c05Q(body)), desc, hostile
}

func c05Frame(t byte, body []byte) []byte {
	if t&0x3F == byte(packet.Heartbeat) {
		return []byte{t}
	}
	out := make([]byte, 5+len(body))
	out[0] = t
	binary.BigEndian.PutUint32(out[1:5], uint32(len(body)))
	copy(out[5:], body)
	return out
}

// bodyFor returns a body for base type t.
func (g *c05gen) bodyFor(t byte) ([]byte, string, bool) {
	switch t & 0x3F {
	case 0x01:
		s, d, h := g.body(c05HandshakeKeys)
		return []byte(s), "handshake(" + d + ")", h
	case 0x20:
		s, d, h := g.body(c05TunnelKeys)
		return []byte(s), "tunnel-open(" + d + ")", h
	case 0x10, 0x11:
		s, d, h := g.command()
		return []byte(s), fmt.Sprintf("%#x:%s", t&0x3F, d), h
	case 0x03:
		return nil, "heartbeat", false
	}
	s, d, _ := g.body(c05Keys)
	return []byte(s), fmt.Sprintf("type%#x(%s)", t, d), true
}

var (
	c05zipMu    sync.Mutex
	c05zipCache = map[int][]byte{}
)

// c05Zeros returns a gzip member inflating to n zero bytes (a pure function of
// n, cached per process because compressing 80 MiB costs a noticeable time).
func c05Zeros(n int) []byte {
	c05zipMu.Lock()
	defer c05zipMu.Unlock()
	if b, ok := c05zipCache[n]; ok {
		return b
	}
	var buf bytes.Buffer
	zw, _ := gzip.NewWriterLevel(&buf, gzip.BestCompression)
	chunk := make([]byte, 1<<20)
	for left := n; left > 0; {
		k := len(chunk)
		if k > left {
			k = left
		}
		zw.Write(chunk[:k])
		left -= k
	}
	zw.Close()
	c05zipCache[n] = buf.Bytes()
	return c05zipCache[n]
}

func c05Gzip(p []byte) []byte {
	var buf bytes.Buffer
	zw := gzip.NewWriter(&buf)
	zw.Write(p)
	zw.Close()
	return buf.Bytes()
}

// gzipSeg builds a compressed-flag packet.
func (g *c05gen) gzipSeg() c05seg {
	c := g.c
	t := c05BaseTypes[c.Intn(4, "gz.type")] | byte(packet.Compressed)
	plain, pdesc, hostile := g.bodyFor(t &^ byte(packet.Compressed))
	if t&0x3F == 0x03 {
		t = 0x01 | byte(packet.Compressed)
	}
	k := c.Intn(9, "gz.kind")
	if k == 8 && !g.bomb {
		k = 0
	}
	if k == 7 && g.bigLeft <= 0 {
		k = 1
	}
	seg := c05seg{framed: true, hostile: true}
	switch k {
	case 0, 1:
		seg.b = c05Frame(t, c05Gzip(plain))
		seg.desc = fmt.Sprintf("gz[%s]", pdesc)
		seg.hostile = hostile
	case 2:
		seg.b = c05Frame(t, plain)
		seg.desc = fmt.Sprintf("gzflag-not-gzip[%s]", pdesc)
	case 3:
		seg.b = c05Frame(t, append(c05Gzip(plain), c05Gzip([]byte(` {"x":1}`))...))
		seg.desc = fmt.Sprintf("gz-two-members[%s]", pdesc)
	case 4:
		z := c05Gzip(plain)
		cut := 1 + c.Intn(8, "gz.cut")
		seg.b = c05Frame(t, z[:len(z)-cut])
		seg.desc = fmt.Sprintf("gz-truncated-trailer-%d[%s]", cut, pdesc)
	case 5:
		z := c05Gzip(plain)
		z[len(z)-6] ^= 0x55
		seg.b = c05Frame(t, z)
		seg.desc = fmt.Sprintf("gz-bad-crc[%s]", pdesc)
	case 6:
		z := c05Gzip(plain)
		if len(z) > 12 {
			z[10+c.Intn(len(z)-10, "gz.flip")] ^= byte(1 << c.Intn(8, "gz.bit"))
		}
		seg.b = c05Frame(t, z)
		seg.desc = fmt.Sprintf("gz-corrupt-deflate[%s]", pdesc)
	case 7:
		n := (1 + c.Intn(4, "gz.zeros")) << 20
		g.bigLeft--
		seg.big = true
		seg.b = c05Frame(t, c05Zeros(n))
		seg.desc = fmt.Sprintf("gz-zeros-%dMiB(t=%#x)", n>>20, t)
	default:
		sizes := []int{24 << 20, 80 << 20}
		if g.tier == "thorough" {
			sizes = append(sizes, 256<<20)
		}
		n := sizes[c.Intn(len(sizes), "gz.bomb")]
		g.bomb = false
		seg.bomb = true
		z := c05Zeros(n)
		if c.Intn(3, "gz.bomb.members") == 2 {
			z = append(append([]byte(nil), z...), c05Zeros(1<<20)...)
		}
		seg.b = c05Frame(t, z)
		seg.desc = fmt.Sprintf("gz-bomb-%dMiB-from-%dKiB(t=%#x)", n>>20, len(z)>>10, t)
	}
	return seg
}

func (g *c05gen) seg(direct bool) c05seg {
	c := g.c
	k := c.Intn(14, "seg.kind")
	if direct && (k == 9 || k == 10) {
		k = 6
	}
	if g.bomb && c.Intn(3, "seg.bombnow") == 2 {
		k = 8
	}
	switch {
	case k <= 5: // well-framed packet of a type the dispatcher knows
		t := c05BaseTypes[c.Intn(5, "seg.type")]
		b, d, h := g.bodyFor(t)
		return c05seg{b: c05Frame(t, b), desc: d, hostile: h, framed: true}
	case k == 6: // any base type, any flag bits
		t := c05BaseTypes[c.Intn(len(c05BaseTypes), "seg.type")]
		if c.Intn(2, "seg.anytype") == 1 {
			t = byte(c.Intn(256, "seg.typebyte"))
		} else if c.Intn(4, "seg.enc") == 3 {
			t |= byte(packet.Encrypted)
		}
		b, d, _ := g.bodyFor(t &^ byte(packet.Compressed))
		if t&byte(packet.Compressed) != 0 && c.Intn(2, "seg.zip") == 0 {
			b = c05Gzip(b)
			d = "gz[" + d + "]"
		}
		return c05seg{b: c05Frame(t, b), desc: fmt.Sprintf("t=%#x %s", t, d), hostile: true, framed: true}
	case k == 7 || k == 8:
		return g.gzipSeg()
	case k == 9: // adversarial length field, short body
		t := c05BaseTypes[c.Intn(4, "seg.type")]
		if c.Intn(3, "seg.zflag") == 2 {
			t |= byte(packet.Compressed)
		}
		lens := []uint32{0, 1, 1 << 31, 1<<32 - 1, c05MaxBody + 1, 70000, 12 * c05MaxBody, c05MaxBody, c05MaxBody - 1, 1 << 20}
		n := 7
		if g.bigLeft > 0 {
			n = len(lens)
		}
		l := lens[c.Intn(n, "seg.len")]
		big := l >= 1<<20 && l <= c05MaxBody
		if big {
			g.bigLeft--
		}
		tail := make([]byte, c.Intn(24, "seg.tail"))
		c.Bytes(tail, "seg.tailbytes")
		b := make([]byte, 5, 5+len(tail))
		b[0] = t
		binary.BigEndian.PutUint32(b[1:], l)
		return c05seg{b: append(b, tail...), desc: fmt.Sprintf("len-field=%d(t=%#x)+%dB", l, t, len(tail)), hostile: true, big: big}
	case k == 10: // raw random bytes, or a flood of the smallest possible packets
		if c.Intn(4, "seg.flood") == 3 {
			n := 5 * (1 + c.Intn(800, "seg.floodn"))
			return c05seg{b: make([]byte, n), desc: fmt.Sprintf("zeros[%d]", n), hostile: true}
		}
		b := make([]byte, 1+c.Intn(64, "seg.rawn"))
		c.Bytes(b, "seg.raw")
		return c05seg{b: b, desc: fmt.Sprintf("raw[%d]", len(b)), hostile: true}
	case k == 11: // bit flips in a valid frame
		t := c05BaseTypes[c.Intn(4, "seg.type")]
		body, d, _ := g.bodyFor(t)
		b := c05Frame(t, body)
		flips := 1 + c.Intn(3, "seg.flips")
		for i := 0; i < flips; i++ {
			pos := c.Intn(len(b), "seg.flippos")
			if c.Intn(2, "seg.fliphdr") == 1 && len(b) >= 5 {
				pos = c.Intn(5, "seg.flippos")
			}
			bit := c.Intn(8, "seg.flipbit")
			if pos >= 1 && pos <= 2 && g.bigLeft <= 0 {
				continue // would declare >= 64 KiB..GiB; only with big budget
			}
			b[pos] ^= 1 << bit
		}
		declared := uint32(0)
		if len(b) >= 5 {
			declared = binary.BigEndian.Uint32(b[1:5])
		}
		big := declared >= 1<<20 && declared <= c05MaxBody
		if big {
			g.bigLeft--
		}
		return c05seg{b: b, desc: "bitflip(" + d + ")", hostile: true, framed: !direct || declared == uint32(len(b)-5), big: big}
	case k == 12 && g.bigLeft > 0: // large plain body
		g.bigLeft--
		t := []byte{0x22, 0x01, 0x10, 0x20}[c.Intn(4, "seg.bigtype")]
		n := []int{1 << 20, 4<<20 + 3, c05MaxBody - 5, c05MaxBody}[c.Intn(4, "seg.bigsize")]
		var body []byte
		switch t {
		case 0x01, 0x20:
			body = []byte(`{"token":"` + strings.Repeat("a", n-12) + `"}`)
		case 0x10:
			body = []byte(`{"CommandType":50,"CommandBody":"` + strings.Repeat("b", n-35) + `"}`)
		default:
			body = bytes.Repeat([]byte{0xA5}, n)
		}
		return c05seg{b: c05Frame(t, body), desc: fmt.Sprintf("big-body(t=%#x,%d)", t, len(body)), hostile: true, framed: true, big: true}
	}
	// well-formed first-connect style handshake / heartbeat
	if c.Intn(3, "seg.hb") == 2 {
		return c05seg{b: []byte{0x03}, desc: "heartbeat", framed: true}
	}
	return c05seg{b: c05Frame(0x01, []byte(`{"client_id":0,"token":"new-client","version":"3","protocol":"tcp","connection_type":"control"}`)), desc: "first-connect", framed: true}
}

// ---------------------------------------------------------------- helpers

// c05SpinLimit: Reads a server may still issue on its transport after a Read
// already returned the end of the stream (EOF, reset, closed) before the
// harness calls it a spin. Independent of the scheduler, so it also holds
// under a minimised (all-zero) choice stream.
const c05SpinLimit = 16

type c05crashT struct{ s string }

var c05Sentinel = &c05crashT{"c05: spinning reader unwound by the harness"}

// c05RetryLimit: failed Reads in a row at one and the same simulated instant
// (no byte delivered, no time passed) before the harness calls it a retry storm.
// A server that retries after a read timeout is fine as long as every retry
// can block again; a transport that keeps failing immediately makes a
// "continue on timeout" loop spin.
const c05RetryLimit = 16

// c05timeout is the transient read timeout the harness injects (fault net.timeout).
type c05timeout struct{}

func (c05timeout) Error() string   { return "c05: injected i/o timeout" }
func (c05timeout) Timeout() bool   { return true }
func (c05timeout) Temporary() bool { return true }

// c05mon observes every Read the server issues on its transport object.
type c05mon struct {
	w         *simrt.World
	layer     string
	term      error
	post      int
	spun      bool
	delivered int64 // bytes handed to the server so far
	reads     int
	moved0    int64 // verifhook.BytesMoved() when the connection was created

	errAt     time.Duration
	errStreak int
	lastErr   error

	// injected transient timeouts: read index -> how many times in a row
	timeouts map[int]int

	// allocation sampled at every Read the server issues: a packet needs at
	// least one Read, so whatever is allocated between two consecutive Reads
	// belongs to the decoding and dispatching of at most one packet.
	lastAlloc uint64
	lastOff   int64
	maxDelta  uint64
	maxFrom   int64 // bytes the server had consumed when the worst interval began
	maxTo     int64
}

// Work oracle ("never spins ... on a finite stream", measured without a clock):
// the bytes the repository code moves in bulk (copy / append of byte slices,
// counted by the instrumented build: verifhook.BytesMoved) must stay linear in
// the bytes that crossed the connection. A memmove is a single statement: it
// shows neither in scheduler steps nor in the allocator, but a decoder whose
// cost per Read grows with what is still buffered turns one cheap message
// into minutes of CPU.
const (
	// c05MoveFactor x bytes on the wire + c05MoveSlack: linear budget. The
	// unchanged tree moves at most ~16 bytes per wire byte (typically <= 4).
	c05MoveFactor = 64
	c05MoveSlack  = 1 << 20
)

// c05WorkCheck compares what was moved since the connection was created with
// the bytes read from and written to its transport (io).
func c05WorkCheck(w *simrt.World, c *c05mon, io int64, what string) bool {
	moved := verifhook.BytesMoved() - c.moved0
	if io < 1 {
		io = 1
	}
	ratio := moved / io
	bucket := ">64"
	for _, b := range []int64{4, 16, 64} {
		if ratio <= b {
			bucket = fmt.Sprintf("<=%d", b)
			break
		}
	}
	w.Probe("work." + c.layer + ".moved/byte" + bucket)
	if moved <= c05MoveFactor*io+c05MoveSlack {
		return false
	}
	w.Violationf("C05:work:budget:"+c.layer, "the server moved %d bytes in bulk (copy/append) for a connection that carried %d bytes in total (read + written): %d per byte, budget %d per byte + %d KiB. Work per byte that grows with the amount buffered makes one finite stream cost quadratic CPU.\n%s",
		moved, io, ratio, c05MoveFactor, c05MoveSlack>>10, what)
	return true
}

// sample closes the current inter-Read interval.
func (c *c05mon) sample() {
	now := c05TotalAlloc()
	off := c.delivered
	if c.lastAlloc != 0 && now > c.lastAlloc {
		if d := now - c.lastAlloc; d > c.maxDelta {
			c.maxDelta, c.maxFrom, c.maxTo = d, c.lastOff, off
		}
	}
	c.lastAlloc, c.lastOff = now, off
}

func (c *c05mon) read(p []byte, inner func([]byte) (int, error)) (int, error) {
	c.reads++
	c.sample()
	if c.term != nil {
		c.post++
		if c.post > c05SpinLimit {
			c.spun = true
			c.w.Violationf("C05:termination:spin:"+c.layer+":read-after-end", "the server issued %d more Reads on the transport after a Read had already returned %q (read %d bytes so far): it loops on a finished stream", c.post, c.term.Error(), c.delivered)
			panic(c05Sentinel)
		}
	}
	var n int
	var err error
	if k := c.timeouts[c.reads]; k > 0 {
		c.timeouts[c.reads] = 0
		if k > 1 {
			c.timeouts[c.reads+1] = k - 1
		}
		c.w.Fault("net.timeout")
		err = c05timeout{}
	} else {
		n, err = inner(p)
	}
	c.delivered += int64(n)
	if err == nil || n > 0 {
		c.errStreak = 0
		return n, err
	}
	if te, ok := err.(interface{ Timeout() bool }); !ok || !te.Timeout() {
		if c.term == nil {
			c.term = err
		}
	}
	now := c.w.Now()
	if c.errStreak > 0 && now == c.errAt {
		c.errStreak++
	} else {
		c.errStreak = 1
	}
	c.errAt, c.lastErr = now, err
	if c.errStreak > c05RetryLimit {
		c.spun = true
		c.w.Violationf("C05:termination:spin:"+c.layer+":retry-without-progress", "%d Reads in a row failed at the same simulated instant (%v) without delivering a byte, the last with %q: the server retries a transport that can only fail again (read %d bytes so far)", c.errStreak, now, err.Error(), c.delivered)
		panic(c05Sentinel)
	}
	return n, err
}

// c05conn is the server end of a plain stream link.
type c05conn struct {
	*simnet.Conn
	c05mon
}

func (c *c05conn) Read(p []byte) (int, error) { return c.read(p, c.Conn.Read) }

// c05wsconn is the server's WebSocket connection object (the real
// wsServerConn over a real gorilla connection over a simnet link).
type c05wsconn struct {
	net.Conn
	c05mon
}

func (c *c05wsconn) Read(p []byte) (int, error) { return c.read(p, c.Conn.Read) }

// c05Connect is simnode.Node.Connect with the server end wrapped in c05conn.
func c05Connect(w *simrt.World, node *simnode.Node, name, addr string, cfg simnet.LinkConfig, layer string, timeouts map[int]int) (*simnode.Client, *c05conn) {
	cfg.NameA = name
	cfg.NameB = name + "@" + node.ID
	cfg.AddrA = addr
	a, b := simnet.NewLink(w, cfg)
	sw := &c05conn{Conn: b, c05mon: c05mon{w: w, layer: layer, timeouts: timeouts, moved0: verifhook.BytesMoved()}}
	node.Adapter.Serve(sw)
	cl := &simnode.Client{W: w, Name: name, Conn: a, Srv: b}
	cl.SP = stream.NewStreamProcessor(a, a, w.Ctx)
	return cl, sw
}

// c05ConnID is the server-side id of the connection served on sw ("" once forgotten).
func c05ConnID(node *simnode.Node, sw net.Conn) string {
	for _, sc := range node.SM.ListConnections() {
		if sc.RawConn != nil && sc.RawConn == sw {
			return sc.ID
		}
	}
	return ""
}

// c05TotalAlloc is the cumulative number of heap bytes allocated by the
// process (runtime/metrics: no stop-the-world, so it can be sampled at every
// transport Read; small-object counts may lag by a few spans, far below the
// bound's resolution).
func c05TotalAlloc() uint64 {
	s := []metrics.Sample{{Name: "/gc/heap/allocs:bytes"}}
	metrics.Read(s)
	if s[0].Value.Kind() != metrics.KindUint64 {
		var m runtime.MemStats
		runtime.ReadMemStats(&m)
		return m.TotalAlloc
	}
	return s[0].Value.Uint64()
}

func c05Live() uint64 {
	runtime.GC()
	runtime.GC()
	var m runtime.MemStats
	runtime.ReadMemStats(&m)
	return m.HeapAlloc
}

// c05OthersRunnable reports whether any task other than the caller is parked
// at a scheduling point and could be picked (not blocked, not waiting for a lock).
func c05OthersRunnable(w *simrt.World, self string) bool {
	for _, t := range w.LiveTasks() {
		if t.ID == self {
			continue
		}
		if strings.HasPrefix(t.Site, "blocked-after:") || strings.HasPrefix(t.Site, "lock-wait:") {
			continue
		}
		return true
	}
	return false
}

// c05Await lets the other tasks run until cond holds. It returns "ok",
// "timeout" (maxSim of simulated time passed with everybody else blocked) or
// "spin" (other tasks took more than spinBudget scheduler steps without the
// simulated clock having a chance to move, i.e. without ever blocking).
// It must be called from the task named self.
func c05Await(w *simrt.World, self string, cond func() bool, maxSim time.Duration, spinBudget int) string {
	t0 := w.Now()
	quantum := 50 * time.Millisecond
	others := 0
	streak := 0
	hog := 0
	for !cond() {
		s0 := w.Steps()
		w.Yield("c05.watch")
		d := w.Steps() - s0
		if d > 1 {
			others += d - 1
			streak = 0
			if others > spinBudget {
				return "spin"
			}
			continue
		}
		// nobody else was picked: either everybody is blocked or the scheduler
		// kept the CPU with this task; look (not on every iteration: it is O(tasks))
		streak++
		if streak%4 != 1 {
			continue
		}
		if c05OthersRunnable(w, self) {
			// The scheduler keeps re-picking this task although others could run
			// (sticky scheduling; always, when a minimised/replayed choice stream
			// has degenerated to zeros). Never loop on that: block on the clock
			// so that only the others are candidates.
			if hog++; hog >= 64 {
				hog = 0
				w.Sleep(time.Millisecond)
			}
			continue
		}
		hog = 0
		if cond() {
			break
		}
		if w.Now()-t0 > maxSim {
			return "timeout"
		}
		w.Sleep(quantum)
		if quantum < 30*time.Second {
			quantum *= 2
		}
		others, streak = 0, 0
	}
	return "ok"
}

func c05ErrClass(err error) string {
	s := err.Error()
	for _, k := range []string{"exceeds maximum", "decompress", "unmarshal", "encryption", "reset", "closed", "EOF", "timeout"} {
		if strings.Contains(s, k) {
			return strings.ReplaceAll(k, " ", "-")
		}
	}
	return "other"
}

// c05BodyClass names the kind of packet that starts at stream offset off.
func c05BodyClass(streamBytes []byte, off int64) string {
	if off < 0 || off >= int64(len(streamBytes)) {
		return "plain-body"
	}
	if packet.Type(streamBytes[off]).IsCompressed() {
		return "gzip-body"
	}
	return "plain-body"
}

type c05plan struct {
	segs    []c05seg
	bytes   []byte  // concatenation, after truncation
	starts  []int64 // start offset of each segment in bytes
	cut     bool
	law     simnet.Law
	cuts    []int64
	end     int // 0 half-close 1 close 2 reset 3 stall-then-close
	anyBig  bool
	anyBomb bool
}

func (p *c05plan) segAt(off int64) int {
	idx := -1
	for i, s := range p.starts {
		if s <= off {
			idx = i
		}
	}
	return idx
}

func c05Plan(w *simrt.World, g *c05gen, direct bool) *c05plan {
	c := w.C
	p := &c05plan{}
	n := 1 + c.Biased(10, "nsegs")
	var descs []string
	for i := 0; i < n; i++ {
		s := g.seg(direct)
		p.starts = append(p.starts, int64(len(p.bytes)))
		p.bytes = append(p.bytes, s.b...)
		p.segs = append(p.segs, s)
		p.anyBig = p.anyBig || s.big
		p.anyBomb = p.anyBomb || s.bomb
		d := s.desc
		if len(d) > 90 {
			d = d[:90] + "…"
		}
		descs = append(descs, d)
	}
	if !direct && c.Intn(4, "truncate") == 3 && len(p.bytes) > 1 {
		at := 1 + c.Intn(len(p.bytes)-1, "truncate.at")
		p.bytes = p.bytes[:at]
		p.cut = true
		descs = append(descs, fmt.Sprintf("TRUNCATED@%d", at))
	}
	p.law = simnet.Law(c.Intn(6, "net.law"))
	total := len(p.bytes)
	if total > 32<<10 && (p.law == simnet.LawOne || p.law == simnet.LawSmall || p.law == simnet.LawMixed) {
		p.law = simnet.LawMTU
	}
	if p.law == simnet.LawCuts {
		k := 1 + c.Intn(5, "cuts.n")
		for i := 0; i < k; i++ {
			// cut inside a segment header or anywhere
			si := c.Intn(len(p.starts), "cuts.seg")
			off := p.starts[si] + int64(1+c.Intn(6, "cuts.hdr"))
			if c.Intn(3, "cuts.any") == 2 {
				off = int64(1 + c.Intn(total+1, "cuts.off"))
			}
			p.cuts = append(p.cuts, off)
		}
		sortInt64(p.cuts)
	}
	p.end = c.Intn(4, "end")
	w.Sample(fmt.Sprintf("law=%s end=%s bytes=%d segs=%s", simnet.LawNames[p.law], []string{"half-close", "close", "reset", "stall"}[p.end], total, strings.Join(descs, " | ")))
	for _, s := range p.segs {
		k := s.desc
		if i := strings.IndexAny(k, "([ "); i > 0 {
			k = k[:i]
		}
		w.State("seg:" + k)
	}
	return p
}

// ---------------------------------------------------------------- run

func c05Run(w *simrt.World, tier string) {
	c := w.C
	mode := c.Intn(4, "mode") // 0,1 decode; 2 serve; 3 dispatch
	g := &c05gen{c: c, tier: tier}
	g.bomb = c.Intn(50, "bomb") == 49
	if c.Intn(8, "big") == 7 {
		g.bigLeft = 2
	}
	switch mode {
	case 0, 1:
		if c.Intn(32, "cost.probe") == 31 {
			c05Cost(w)
			return
		}
		c05Decode(w, g)
	case 2:
		c05Node(w, g, false)
	default:
		c05Node(w, g, true)
	}
}

// c05Cost is the cost probe: the same input shape at two sizes (n and 8n bytes)
// on two fresh connections, decoded by the real ReadPacket over the real
// transport object; the bulk byte moves of the two decodes are compared.
// Shape = the densest legal traffic: thousands of minimal packets coalesced
// into few large transport messages (one-byte heartbeats, empty five-byte
// packets, one-byte-body packets). Linear decoding moves ~8x as much for 8x
// the bytes; anything whose cost per Read depends on what is still buffered
// moves ~64x. The decode loops run with scheduling suppressed (cost does not
// depend on interleaving, and 70 000 packets would cost millions of steps).
func c05Cost(w *simrt.World) {
	c := w.C
	shape := c.Intn(3, "cost.shape")
	transport := c.Intn(3, "cost.transport") // 0 websocket, one message; 1 websocket, four messages; 2 plain stream
	n := []int{8 << 10, 4 << 10, 12 << 10}[c.Intn(3, "cost.n")]
	bufSize := []int{64 << 10, 4096, 1024}[c.Intn(3, "cost.wsbuf")]
	unit := [][]byte{{0x03}, {0x00, 0, 0, 0, 0}, {0x22, 0, 0, 0, 1, 0x7f}}[shape]
	shapeName := []string{"heartbeats", "empty-packets", "one-byte-bodies"}[shape]
	trName := []string{"ws-1msg", "ws-4msg", "stream"}[transport]
	w.Sample(fmt.Sprintf("cost probe: %s over %s, %d and %d bytes", shapeName, trName, n, 8*n))
	w.State("cost/" + shapeName + "/" + trName)
	w.Probe("mode.cost-probe")
	var moved, pkts [2]int64
	for k, size := range []int{n, 8 * n} {
		data := bytes.Repeat(unit, size/len(unit))
		var rd net.Conn
		var closers []func()
		if transport == 2 {
			a, b := simnet.NewLink(w, simnet.LinkConfig{NameA: fmt.Sprintf("peer%d", k), NameB: fmt.Sprintf("srv%d", k)})
			if _, err := a.Write(data); err != nil {
				w.Violationf("C05:harness", "cost probe write: %v", err)
				return
			}
			a.CloseWrite()
			rd = b
			closers = append(closers, func() { a.Close(); b.Close() })
		} else {
			cli, srv, a, b, err := c05WSPair(w, simnet.LinkConfig{NameA: fmt.Sprintf("wspeer%d", k), NameB: fmt.Sprintf("wssrv%d", k), AddrA: "10.6.6.6:6666"}, bufSize)
			if err != nil {
				w.Violationf("C05:harness", "cost probe websocket handshake: %v", err)
				return
			}
			msgs := 1
			if transport == 1 {
				msgs = 4
			}
			for i := 0; i < msgs; i++ {
				if err := cli.WriteMessage(websocket.BinaryMessage, data[i*len(data)/msgs:(i+1)*len(data)/msgs]); err != nil {
					w.Violationf("C05:harness", "cost probe websocket write: %v", err)
					return
				}
			}
			cli.WriteControl(websocket.CloseMessage, websocket.FormatCloseMessage(websocket.CloseNormalClosure, ""), time.Now().Add(time.Second))
			a.CloseWrite()
			rd = adapter.NewWSServerConnForVerif(srv, "10.6.6.6:6666")
			closers = append(closers, func() { rd.Close(); a.Close(); b.Close() })
		}
		sp := stream.NewStreamProcessor(rd, rd, w.Ctx)
		m0 := verifhook.BytesMoved()
		w.Quiet(func() {
			for {
				if _, _, err := sp.ReadPacket(); err != nil {
					return
				}
				pkts[k]++
				if pkts[k] > int64(size) {
					return
				}
			}
		})
		moved[k] = verifhook.BytesMoved() - m0
		sp.Close()
		for _, f := range closers {
			f()
		}
		if want := int64(size / len(unit)); pkts[k] != want {
			w.Violationf("C05:decode:cost-probe-count", "%d %s (%d bytes, %s) were sent, ReadPacket decoded %d packets before its first error", want, shapeName, size, trName, pkts[k])
			return
		}
		if moved[k] > c05MoveFactor*int64(size)+c05MoveSlack {
			w.Violationf("C05:work:budget:cost-"+trName, "decoding %d bytes of %s (%d packets, %s) made the server move %d bytes in bulk (copy/append): %d per input byte, budget %d per byte + %d KiB",
				size, shapeName, pkts[k], trName, moved[k], moved[k]/int64(size), c05MoveFactor, c05MoveSlack>>10)
		}
	}
	w.Nontrivial()
	small := moved[0]
	if small < int64(n) {
		small = int64(n)
	}
	if moved[1] > 16*small+c05MoveSlack {
		w.Violationf("C05:work:super-linear:cost-"+trName, "%s over %s: decoding %d bytes moved %d bytes in bulk, decoding 8x as many (%d) moved %d = %dx as much (linear: 8x, tolerated: 16x + %d KiB): the cost per byte grows with the size of the message",
			shapeName, trName, n, moved[0], 8*n, moved[1], moved[1]/small, c05MoveSlack>>10)
	}
}

// c05Decode: ReadPacket alone.
func c05Decode(w *simrt.World, g *c05gen) {
	p := c05Plan(w, g, false)
	heavy := p.anyBig || p.anyBomb
	w.State(fmt.Sprintf("decode/%s/end%d/cut%v", simnet.LawNames[p.law], p.end, p.cut))
	var base uint64
	if heavy {
		base = c05Live()
	}
	a, b := simnet.NewLink(w, simnet.LinkConfig{NameA: "peer", NameB: "srv", LawAB: p.law, CutsAB: p.cuts})
	w.SetCrashSentinel(c05Sentinel)
	bw := &c05conn{Conn: b, c05mon: c05mon{w: w, layer: "decode", moved0: verifhook.BytesMoved()}}
	rsp := stream.NewStreamProcessor(bw, bw, w.Ctx)
	if _, err := a.Write(p.bytes); err != nil {
		w.Violationf("C05:harness", "peer write failed: %v", err)
		return
	}
	switch p.end {
	case 0:
		a.CloseWrite()
	case 1:
		a.Close()
		// a closed peer discards nothing already written in simnet; the server still drains it
	case 2:
		// reset is injected after the reader has started (below)
	}
	total := int64(len(p.bytes))
	npk, nerr := 0, 0
	var lastErr error
	hostileSeen := false
	rt := w.Spawn("reader", func() {
		for {
			off := b.BytesRead()
			m0 := c05TotalAlloc()
			pkt, nb, err := rsp.ReadPacket()
			delta := c05TotalAlloc() - m0
			after := b.BytesRead()
			if i := p.segAt(off); i >= 0 && p.segs[i].hostile && after > off {
				hostileSeen = true
			}
			if delta > c05AllocBound {
				w.Violationf("C05:alloc:decode:"+c05BodyClass(p.bytes, off), "one ReadPacket call allocated %d MiB (bound %d MiB = 8 x max body) for the packet at stream offset %d (%d wire bytes consumed, err=%v)\nsegment: %s",
					delta>>20, c05AllocBound>>20, off, after-off, err, c05SegDesc(p, off))
			}
			if delta > 1<<20 {
				w.Probe("decode.alloc>1MiB")
			}
			if err != nil {
				nerr++
				lastErr = err
				w.Probe("decode.err." + c05ErrClass(err))
				break
			}
			npk++
			w.Probe("decode.ok")
			if pkt == nil {
				w.Violationf("C05:decode:nil-packet-nil-error", "ReadPacket returned (nil, %d, nil) at offset %d", nb, off)
				break
			}
			if after == off {
				w.Violationf("C05:decode:no-progress", "ReadPacket returned a packet (type %#x) without consuming any byte at offset %d", byte(pkt.PacketType), off)
				break
			}
			if int64(npk) > total+1 {
				break
			}
		}
		b.Close()
	})
	if p.end == 2 {
		w.Yield("c05.before-reset")
		a.Reset()
		w.Fault("net.reset")
	}
	if p.cut {
		w.Fault("net.truncated")
	}
	budget := 200000 + 60*len(p.bytes) // steps other tasks may take without blocking
	if budget > 2500000 {
		budget = 2500000
	}
	if p.end == 3 {
		w.Fault("net.stall")
		r := c05Await(w, "main", rt.Done, c05Stall, budget)
		switch r {
		case "spin":
			w.Violationf("C05:termination:spin:decode:stall", "the reader took more than %d scheduler steps on a stalled stream without ever blocking (read %d of %d bytes, %d packets)", budget, b.BytesRead(), total, npk)
			a.Close()
			b.Close()
			return
		case "timeout":
			w.Probe("decode.stall.reader-waits")
		}
		a.Close()
	}
	r := c05Await(w, "main", rt.Done, c05TermBound, budget)
	if w.Free() {
		a.Close()
		b.Close()
		return // run cut by the step cap
	}
	if bw.spun {
		a.Close()
		b.Close()
		return
	}
	if r != "ok" {
		cls := map[string]string{"spin": "spin", "timeout": "blocked"}[r]
		w.Violationf("C05:termination:"+cls+":decode", "finite stream of %d bytes (%s): the ReadPacket loop did not end (%s); read %d bytes, %d packets, last error %v",
			total, []string{"half-close", "close", "reset", "stall+close"}[p.end], r, b.BytesRead(), npk, lastErr)
		a.Close()
		b.Close()
		w.Settle(3)
		return
	}
	if nerr == 0 {
		w.Violationf("C05:termination:no-error-at-end", "the reader loop ended without an error although the stream is finite")
	}
	if hostileSeen {
		w.Nontrivial()
	}
	rsp.Close()
	c05WorkCheck(w, &bw.c05mon, b.BytesRead(), w.Res.Sample)
	if heavy {
		p.bytes = nil
		for i := range p.segs {
			p.segs[i].b = nil
		}
		live := c05Live()
		if live > base+c05RetainBound {
			w.Violationf("C05:retained:decode", "after the connection was closed and two GCs, the live heap is %d MiB above the baseline (bound %d MiB)", (live-base)>>20, c05RetainBound>>20)
		}
		w.Probe("retention.checked")
	}
}

func c05SegDesc(p *c05plan, off int64) string {
	i := p.segAt(off)
	if i < 0 {
		return "?"
	}
	return fmt.Sprintf("#%d %s (segment starts at %d)", i, p.segs[i].desc, p.starts[i])
}

// c05Node: the wired node, raw bytes (direct=false) or direct dispatch.
func c05Node(w *simrt.World, g *c05gen, direct bool) {
	c := w.C
	withLegit := c.Intn(2, "legit") == 1
	preAuth := c.Intn(4, "hostile.first-connect") == 3
	storeFault := c.Intn(4, "store.fault")
	failK := 1 + c.Intn(40, "store.failk")
	layer := "serve"
	if direct {
		layer = "dispatch"
	}
	// transport of the hostile connection: plain stream, or the real WebSocket
	// wrapper over a real gorilla connection (its own deadlines, pings, errors)
	ws := !direct && c.Intn(3, "transport") == 2
	// rare probe: one WebSocket message far larger than any packet may be
	giant := ws && c.Intn(12, "ws.giant") == 11
	// transient read timeouts injected into the stream transport
	var timeouts map[int]int
	if !direct && !ws {
		for k := c.Intn(4, "net.timeouts"); k > 0; k-- {
			if timeouts == nil {
				timeouts = map[int]int{}
			}
			timeouts[1+c.Intn(40, "net.timeout.at")] = 1 + c.Intn(3, "net.timeout.repeat")
		}
	}

	mem := simstore.NewMemory(w)
	st := simstore.New(w, "n1", mem)
	var node *simnode.Node
	var err error
	w.Quiet(func() { node, err = simnode.New(w, st, simnode.Config{NodeID: "n1", Commands: true}) })
	if err != nil {
		w.Violationf("C05:harness", "node wiring failed: %v", err)
		return
	}
	defer node.Close()

	if withLegit {
		lc := node.Connect("legit", "10.1.0.1:4000", simnet.LinkConfig{})
		if resp, ok := lc.Register("control"); ok && resp.Success {
			g.ids = append(g.ids, resp.ClientID)
			w.Probe("legit.registered")
		}
		defer lc.Close()
	}
	w.Yield("c05.plan")
	p := c05Plan(w, g, direct)
	if ws && p.anyBig {
		// Bodies of 1-16 MiB go over the plain stream only: as a WebSocket message
		// they make the harness peer itself (frame masking, thousands of appends
		// to the link buffer) allocate several times the body inside the very
		// interval the oracle attributes to the server.
		ws, giant = false, false
	}
	heavy := p.anyBig || p.anyBomb || giant
	w.State(fmt.Sprintf("%s/%s/end%d/legit%v/pre%v/sf%d", layer, simnet.LawNames[p.law], p.end, withLegit, preAuth, storeFault))
	var base uint64
	if heavy {
		base = c05Live()
	}

	w.SetCrashSentinel(c05Sentinel)
	armStoreFault := func() {
		switch storeFault {
		case 2:
			ops, _ := st.Ops()
			st.FailAt = ops + failK
		case 3:
			st.FailNum, st.FailDen = 1, 8
		}
	}
	budget := 250000 + 60*len(p.bytes)
	if budget > 2500000 {
		budget = 2500000
	}
	if ws {
		seen, ok := c05ServeWS(w, node, p, budget, armStoreFault, giant, g.tier)
		if !ok {
			return
		}
		if seen {
			w.Nontrivial()
		}
		c05Retention(w, node, p, heavy, base, "serve-ws", budget)
		return
	}
	cl, sw := c05Connect(w, node, "hostile", "10.6.6.6:6666", simnet.LinkConfig{LawAB: p.law, CutsAB: p.cuts}, layer, timeouts)
	if preAuth {
		if resp, ok := cl.Register("control"); ok && resp.Success {
			g.ids = append(g.ids, resp.ClientID)
			w.Probe("hostile.first-connect.ok")
		}
	}
	armStoreFault()
	hostileSeen := false
	srvClosed := func() bool { return cl.Srv.Closed() }

	if direct {
		// wait until the adapter has accepted the transport
		connID := ""
		c05Await(w, "main", func() bool { connID = c05ConnID(node, sw); return connID != "" }, time.Minute, budget)
		if connID == "" {
			w.Violationf("C05:harness", "the adapter never registered the connection")
			return
		}
		for i, s := range p.segs {
			if !s.framed {
				continue
			}
			dsp := stream.NewStreamProcessor(bytes.NewReader(s.b), nil, w.Ctx)
			m0 := c05TotalAlloc()
			pkt, _, derr := dsp.ReadPacket()
			delta := c05TotalAlloc() - m0
			if delta > c05AllocBound {
				w.Violationf("C05:alloc:decode:"+c05BodyClass(s.b, 0), "one ReadPacket call allocated %d MiB (bound %d MiB) for segment #%d %s", delta>>20, c05AllocBound>>20, i, s.desc)
			}
			dsp.Close()
			if derr != nil {
				w.Probe("dispatch.undecodable." + c05ErrClass(derr))
				continue
			}
			var herr error
			returned := false
			m0 = c05TotalAlloc()
			ht := w.Spawn(fmt.Sprintf("dispatch-%d", i), func() {
				herr = node.SM.HandlePacket(&types.StreamPacket{ConnectionID: connID, Packet: pkt, Timestamp: time.Now()})
				returned = true
			})
			before := cl.Srv.BytesWritten()
			r := c05Await(w, "main", ht.Done, c05DispatchBound, budget)
			delta = c05TotalAlloc() - m0
			if w.Free() {
				return
			}
			if s.hostile {
				hostileSeen = true
			}
			if r != "ok" || !returned {
				if ht.Done() && !returned {
					w.Probe("dispatch.panicked")
					continue // the panic itself is reported by the runtime as panic:<func>
				}
				cls := map[string]string{"spin": "spin", "timeout": "no-return"}[r]
				w.Violationf("C05:dispatch:"+cls+":"+c05TypeClass(pkt), "HandlePacket did not return (%s) for segment #%d %s", r, i, s.desc)
				return
			}
			if delta > c05AllocBound {
				w.Violationf("C05:alloc:dispatch:"+c05TypeClass(pkt), "handling one packet allocated %d MiB (bound %d MiB): segment #%d %s", delta>>20, c05AllocBound>>20, i, s.desc)
			}
			switch {
			case herr != nil:
				w.Probe("dispatch.error")
			case cl.Srv.BytesWritten() > before:
				w.Probe("dispatch.reply")
			default:
				w.Probe("dispatch.silent-ok")
			}
			if c05ConnID(node, sw) == "" {
				w.Probe("dispatch.connection-dropped")
				break
			}
		}
		cl.Close()
	} else {
		// serve: raw bytes, segment by segment, with pauses
		sent := int64(0)
		for i, s := range p.segs {
			lo, hi := p.starts[i], p.starts[i]+int64(len(s.b))
			if hi > int64(len(p.bytes)) {
				hi = int64(len(p.bytes))
			}
			if lo >= hi {
				break
			}
			m0 := c05TotalAlloc()
			if _, werr := cl.Conn.Write(p.bytes[lo:hi]); werr != nil {
				w.Probe("serve.server-closed-early")
				break
			}
			sent = hi
			gap := []time.Duration{0, time.Millisecond, 0, 7 * time.Second, 0, 41 * time.Second}[w.Draw(6, "gap")]
			// let the server work on it until it blocks (waiting for more bytes, a timer, or gone)
			consumed := func() bool { return srvClosed() }
			r := c05Await(w, "main", consumed, gap, budget)
			delta := c05TotalAlloc() - m0
			if cl.Srv.BytesRead() > lo && s.hostile {
				hostileSeen = true
			}
			if r == "spin" {
				w.Violationf("C05:termination:spin:serve", "after segment #%d %s the server tasks took more than %d scheduler steps without ever blocking (server read %d of %d bytes sent)", i, s.desc, budget, cl.Srv.BytesRead(), sent)
				cl.Conn.Close()
				cl.Srv.Close() // break the loop, or it would spin for ever once the run has ended
				return
			}
			if w.Free() {
				return // the run was cut (step cap): nothing measured from here on means anything
			}
			if c05ServeAlloc(w, p, &sw.c05mon, i) {
				cl.Conn.Close()
				return
			}
			if delta > 1<<20 {
				w.Probe("serve.alloc>1MiB")
			}
			if srvClosed() {
				w.Probe("serve.server-closed-early")
				break
			}
		}
		if p.cut {
			w.Fault("net.truncated")
		}
		switch p.end {
		case 0:
			cl.Conn.CloseWrite()
		case 1:
			cl.Conn.Close()
		case 2:
			cl.Conn.Reset()
			w.Fault("net.reset")
		case 3:
			w.Fault("net.stall")
			if r := c05Await(w, "main", srvClosed, c05Stall, budget); r == "spin" {
				w.Violationf("C05:termination:spin:serve:stall", "server tasks never blocked while the peer stalled (server read %d of %d bytes)", cl.Srv.BytesRead(), sent)
				cl.Conn.Close()
				cl.Srv.Close()
				return
			} else if r == "ok" {
				w.Probe("serve.stall.server-closed")
			} else {
				w.Probe("serve.stall.server-waits")
			}
			cl.Conn.Close()
		}
		r := c05Await(w, "main", srvClosed, c05TermBound, budget)
		if w.Free() {
			return
		}
		sw.sample()
		if c05ServeAlloc(w, p, &sw.c05mon, len(p.segs)-1) {
			cl.Conn.Close()
			return
		}
		if r != "ok" {
			cls := map[string]string{"spin": "spin", "timeout": "blocked"}[r]
			w.Violationf("C05:termination:"+cls+":serve", "finite stream (%d bytes sent, server read %d, end=%s): the adapter's read loop did not end and close the connection within %v (%s); connection still registered=%v",
				sent, cl.Srv.BytesRead(), []string{"half-close", "close", "reset", "stall+close"}[p.end], c05TermBound, r, c05ConnID(node, sw) != "")
			cl.Conn.Close()
			cl.Srv.Close()
			return
		}
		w.Probe("serve.terminated")
		c05WorkCheck(w, &sw.c05mon, cl.Srv.BytesRead()+cl.Srv.BytesWritten(), w.Res.Sample)
	}
	if hostileSeen {
		w.Nontrivial()
	}
	c05Retention(w, node, p, heavy, base, layer, budget)
}

// c05Retention: the live heap after the connection and the node are gone.
func c05Retention(w *simrt.World, node *simnode.Node, p *c05plan, heavy bool, base uint64, layer string, budget int) {
	if !heavy || w.Free() {
		return
	}
	// let spawned handler tasks finish, then drop everything this run holds
	c05Await(w, "main", func() bool { return false }, 2*time.Minute, budget)
	node.Close()
	w.Settle(3)
	p.bytes = nil
	for i := range p.segs {
		p.segs[i].b = nil
	}
	live := c05Live()
	if live > base+c05RetainBound {
		w.Violationf("C05:retained:"+layer, "after the connection was closed, the node shut down and two GCs, the live heap is %d MiB above the baseline (bound %d MiB)", (live-base)>>20, c05RetainBound>>20)
	}
	w.Probe("retention.checked")
}

// c05WSGarbage: byte sequences that are not legal client frames (mask key 0).
var c05WSGarbage = [][]byte{
	{0x82, 0x05, 'h', 'e', 'l', 'l', 'o'},                        // unmasked data frame
	{0xF2, 0x80, 0, 0, 0, 0},                                     // reserved bits set
	{0x83, 0x80, 0, 0, 0, 0},                                     // reserved opcode
	{0x80, 0x80, 0, 0, 0, 0},                                     // continuation without a start
	{0x89, 0xFE, 0x00, 0x80, 0, 0, 0, 0},                         // control frame longer than 125
	{0x82, 0xFF, 0x80, 0, 0, 0, 0, 0, 0, 0, 0, 0, 0, 0},          // 64-bit length with the top bit
	{0x82, 0xFF, 0, 0, 0x01, 0, 0, 0, 0, 0, 0, 0, 0, 0, 1, 2, 3}, // 1 TiB declared, three bytes sent
	{0x02, 0x81, 0, 0, 0, 0, 'x', 0x82, 0x81, 0, 0, 0, 0, 'y'},   // new message inside a fragmented one
	{0x88, 0x81, 0, 0, 0, 0, 'x'},                                // close frame with a 1-byte payload
	{0x09, 0x80, 0, 0, 0, 0},                                     // fragmented control frame
	{'G', 'E', 'T', ' ', '/', ' ', 'H', 'T', 'T', 'P', '/', '1', '.', '1', '\r', '\n', '\r', '\n'}, // a second HTTP request
}

// c05part is a piece of synthetic inbound traffic: literal bytes or n times one byte.
type c05part struct {
	lit  []byte
	fill byte
	n    int64
}

// c05feed is the server's end of the link under a WebSocket connection. Once
// armed, and once the server has consumed the link up to offset at, its Reads
// are served from parts: bytes that a peer could have sent, produced in place
// without any buffer on the peer's or the link's side.
type c05feed struct {
	*simnet.Conn
	w     *simrt.World
	at    int64
	parts []c05part
	fed   int64
}

func (f *c05feed) arm(at int64, parts []c05part) { f.at, f.parts = at, parts }

func (f *c05feed) drained() bool { return f.at > 0 && len(f.parts) == 0 }

func (f *c05feed) Read(p []byte) (int, error) {
	if f.at == 0 || len(f.parts) == 0 || len(p) == 0 || f.Conn.BytesRead() < f.at {
		return f.Conn.Read(p)
	}
	f.w.Yield("net.read:feed")
	if f.Conn.Closed() {
		return 0, net.ErrClosed
	}
	pt := &f.parts[0]
	n := 0
	if pt.lit != nil {
		n = copy(p, pt.lit)
		pt.lit = pt.lit[n:]
		if len(pt.lit) == 0 {
			f.parts = f.parts[1:]
		}
	} else {
		n = len(p)
		if int64(n) > pt.n {
			n = int(pt.n)
		}
		p[0] = pt.fill
		for i := 1; i < n; i *= 2 {
			copy(p[i:n], p[:i])
		}
		pt.n -= int64(n)
		if pt.n == 0 {
			f.parts = f.parts[1:]
		}
	}
	f.fed += int64(n)
	return n, nil
}

type c05hijack struct {
	conn net.Conn
	brw  *bufio.ReadWriter
	h    http.Header
}

func (h *c05hijack) Header() http.Header         { return h.h }
func (h *c05hijack) Write(p []byte) (int, error) { return h.brw.Write(p) }
func (h *c05hijack) WriteHeader(int)             {}
func (h *c05hijack) Hijack() (net.Conn, *bufio.ReadWriter, error) {
	return h.conn, h.brw, nil
}

// c05WSPair is simws.Pair with the server end of the link wrapped in c05feed:
// a real gorilla client dials through the link, the real Upgrader answers.
func c05WSPair(w *simrt.World, cfg simnet.LinkConfig, bufSize int) (cli, srv *websocket.Conn, a *simnet.Conn, fb *c05feed, err error) {
	a, b := simnet.NewLink(w, cfg)
	fb = &c05feed{Conn: b, w: w}
	var srvErr error
	st := w.Spawn("ws-upgrade-"+cfg.NameB, func() {
		br := bufio.NewReader(fb)
		req, e := http.ReadRequest(br)
		if e != nil {
			srvErr = e
			return
		}
		rw := &c05hijack{conn: fb, brw: bufio.NewReadWriter(br, bufio.NewWriter(fb)), h: http.Header{}}
		up := websocket.Upgrader{ReadBufferSize: bufSize, WriteBufferSize: bufSize, CheckOrigin: func(*http.Request) bool { return true }}
		srv, srvErr = up.Upgrade(rw, req, nil)
	})
	d := websocket.Dialer{
		NetDial:          func(network, addr string) (net.Conn, error) { return a, nil },
		HandshakeTimeout: 20 * time.Second,
		ReadBufferSize:   bufSize,
		WriteBufferSize:  bufSize,
	}
	cli, _, err = d.Dial("ws://sim.invalid/_tunnox", nil)
	st.Wait()
	if err == nil {
		err = srvErr
	}
	if err == nil && (cli == nil || srv == nil) {
		err = errors.New("c05: websocket handshake produced no connection")
	}
	return
}

type c05wsop struct {
	kind, split, garbage, code int
}

// c05ServeWS: the hostile peer speaks WebSocket. The server side is the real
// wsServerConn (read deadline armed by pongs, ping loop, error mapping) over a
// real gorilla connection, served by the node's real adapter read loop. The
// peer sends the stream as binary messages (split, merged), mixes in text
// messages, pings, unsolicited pongs, close frames and illegal frames, may or
// may not answer the server's pings, and ends the connection in several ways
// or just goes silent.
func c05ServeWS(w *simrt.World, node *simnode.Node, p *c05plan, budget int, arm func(), giant bool, tier string) (hostileSeen bool, ok bool) {
	c := w.C
	const layer = "serve-ws"
	bufSize := []int{64 << 10, 4096, 1024}[c.Intn(3, "ws.bufsize")]
	law := []simnet.Law{simnet.LawAll, simnet.LawMTU, simnet.LawMixed}[c.Intn(3, "ws.law")]
	if len(p.bytes) > 32<<10 && law == simnet.LawMixed {
		law = simnet.LawMTU
	}
	pump := c.Intn(2, "ws.pump") == 1 // the peer reads, so its library answers pings
	goodbye := c.Intn(2, "ws.goodbye") == 1
	ops := make([]c05wsop, len(p.segs))
	for i := range ops {
		ops[i] = c05wsop{kind: c.Intn(12, "ws.op"), split: 1 + c.Intn(4, "ws.split"), garbage: c.Intn(len(c05WSGarbage), "ws.garbage"), code: c.Intn(6, "ws.code")}
	}
	giantSize, giantFrags := int64(0), 1
	if giant {
		sizes := []int64{64 << 20, 160 << 20, c05MaxBody} // the last one is legal: exactly one maximum body
		if tier == "thorough" {
			sizes = append(sizes, 400<<20)
		}
		giantSize = sizes[c.Intn(len(sizes), "ws.giant.size")]
		giantFrags = []int{1, 1, 3, 8}[c.Intn(4, "ws.giant.frags")]
	}
	w.State(fmt.Sprintf("serve-ws/%s/end%d/pump%v/buf%d/giant%d", simnet.LawNames[law], p.end, pump, bufSize, giantSize>>20))
	w.Probe("transport.websocket")

	cli, srv, a, b, err := c05WSPair(w, simnet.LinkConfig{NameA: "hostile-ws", NameB: "hostile-ws@" + node.ID, AddrA: "10.6.6.6:6666", LawAB: law}, bufSize)
	if err != nil {
		w.Violationf("C05:harness", "websocket handshake over the simulated link failed: %v", err)
		return false, false
	}
	sw := &c05wsconn{Conn: adapter.NewWSServerConnForVerif(srv, "10.6.6.6:6666"), c05mon: c05mon{w: w, layer: layer, moved0: verifhook.BytesMoved()}}
	node.Adapter.Serve(sw)
	arm()
	srvClosed := func() bool { return b.Conn.Closed() }
	defer a.Close()
	if pump {
		w.Spawn("ws-pump", func() {
			for {
				if _, _, err := cli.ReadMessage(); err != nil {
					return
				}
			}
		})
	}
	fail := func() {
		a.Close()
		b.Close()
	}
	sent := int64(0)
	var carry []byte
	carryFrom := int64(0)
loop:
	for i, s := range p.segs {
		lo, hi := p.starts[i], p.starts[i]+int64(len(s.b))
		if hi > int64(len(p.bytes)) {
			hi = int64(len(p.bytes))
		}
		if lo >= hi {
			break
		}
		seg := p.bytes[lo:hi]
		op := ops[i]
		rawBefore := b.Conn.BytesRead()
		wsHostile := false
		var werr error
		sendBin := func(data []byte) {
			n := op.split
			if n > len(data) {
				n = 1
			}
			for k := 0; k < n && werr == nil; k++ {
				werr = cli.WriteMessage(websocket.BinaryMessage, data[k*len(data)/n:(k+1)*len(data)/n])
			}
		}
		if len(carry) > 0 {
			seg = append(carry, seg...)
			lo = carryFrom
			carry = nil
		}
		switch op.kind {
		case 6:
			werr = cli.WriteControl(websocket.PingMessage, []byte("are-you-there"), time.Now().Add(time.Second))
			sendBin(seg)
		case 7:
			werr = cli.WriteControl(websocket.PongMessage, []byte("unsolicited"), time.Now().Add(time.Second))
			sendBin(seg)
		case 8:
			t := seg
			if len(t) > 4096 {
				t = t[:4096]
			}
			werr = cli.WriteMessage(websocket.TextMessage, t)
			wsHostile = true
			w.Probe("ws.text-message")
		case 9:
			_, werr = a.Write(c05WSGarbage[op.garbage])
			wsHostile = true
			w.Probe("ws.illegal-frame")
		case 10:
			code := []int{websocket.CloseNormalClosure, websocket.CloseGoingAway, websocket.CloseProtocolError, 4000, websocket.CloseAbnormalClosure, websocket.CloseMessageTooBig}[op.code]
			werr = cli.WriteControl(websocket.CloseMessage, websocket.FormatCloseMessage(code, "bye"), time.Now().Add(time.Second))
			if werr == nil {
				sendBin(seg) // data after the close frame
			}
			wsHostile = true
			w.Probe("ws.close-frame-midstream")
		case 11:
			if i+1 < len(p.segs) && len(seg) < 1<<20 {
				carry, carryFrom = append([]byte(nil), seg...), lo
				continue
			}
			sendBin(seg)
		default:
			sendBin(seg)
		}
		if werr != nil {
			w.Probe("serve-ws.server-closed-early")
			break
		}
		sent = hi
		gap := []time.Duration{0, time.Millisecond, 0, 7 * time.Second, 0, 41 * time.Second}[w.Draw(6, "gap")]
		r := c05Await(w, "main", srvClosed, gap, budget)
		if w.Free() {
			return false, false
		}
		if (s.hostile && sw.delivered > lo) || (wsHostile && b.Conn.BytesRead() > rawBefore) {
			hostileSeen = true
		}
		if sw.spun {
			fail()
			return hostileSeen, false
		}
		if r == "spin" {
			w.Violationf("C05:termination:spin:"+layer, "after segment #%d %s the server tasks took more than %d scheduler steps without ever blocking (server consumed %d of %d stream bytes sent)", i, s.desc, budget, sw.delivered, sent)
			fail()
			return hostileSeen, false
		}
		if c05ServeAlloc(w, p, &sw.c05mon, i) {
			fail()
			return hostileSeen, false
		}
		if srvClosed() {
			w.Probe("serve-ws.server-closed-early")
			break loop
		}
		if op.kind == 9 {
			break // nothing sensible can follow an illegal frame
		}
	}
	if giant && !srvClosed() {
		// One binary message declaring giantSize bytes, in giantFrags frames. Only
		// the first frame header travels over the link (it wakes the server's
		// Read); everything after it is synthesised inside the server's own Read
		// on the link (c05feed), so the peer side allocates nothing: what the
		// process allocates between two Reads of the server is the server's.
		per := giantSize / int64(giantFrags)
		hdr := func(first, last bool, n int64) []byte {
			b0 := byte(0x00)
			if first {
				b0 = 0x02 // binary
			}
			if last {
				b0 |= 0x80 // FIN
			}
			h := []byte{b0, 0x80 | 127, 0, 0, 0, 0, 0, 0, 0, 0, 0, 0, 0, 0} // masked, 64-bit length, mask key 0
			binary.BigEndian.PutUint64(h[2:10], uint64(n))
			return h
		}
		var parts []c05part
		for k := 0; k < giantFrags; k++ {
			if k > 0 {
				parts = append(parts, c05part{lit: hdr(false, k == giantFrags-1, per)})
			}
			parts = append(parts, c05part{fill: 0xA5, n: per})
		}
		first := hdr(true, giantFrags == 1, per)
		before := sw.maxDelta
		b.arm(a.BytesWritten()+int64(len(first)), parts)
		w.Fault("ws.giant-message")
		if _, werr := a.Write(first); werr == nil {
			r := c05Await(w, "main", func() bool { return srvClosed() || b.drained() }, 2*time.Minute, budget)
			if w.Free() {
				return false, false
			}
			if b.fed > 0 {
				hostileSeen = true
			}
			if sw.spun {
				fail()
				return hostileSeen, false
			}
			if r == "spin" {
				w.Violationf("C05:termination:spin:"+layer+":ws-message", "server tasks never blocked while reading one %d MiB WebSocket message (%d of its bytes consumed from the transport)", giantSize>>20, b.fed)
				fail()
				return hostileSeen, false
			}
			// let the server finish with what it buffered (next Read closes the interval)
			c05Await(w, "main", srvClosed, 5*time.Second, budget)
			if w.Free() {
				return false, false
			}
			sw.sample()
			if sw.maxDelta > c05AllocBound && sw.maxDelta > before {
				w.Violationf("C05:alloc:"+layer+":ws-message", "an unauthenticated peer sent ONE binary WebSocket message declaring %d MiB in %d frame(s) (each frame header: masked, 64-bit length; payload 0xA5...); the server took %d MiB of it from the transport and between two consecutive Reads on its connection object the process allocated %d MiB (bound %d MiB = 8 x max body); the harness peer allocates nothing while the payload flows",
					giantSize>>20, giantFrags, b.fed>>20, sw.maxDelta>>20, c05AllocBound>>20)
				fail()
				return hostileSeen, false
			}
			if b.fed < giantSize {
				w.Probe("ws.giant.refused-early")
			} else {
				w.Probe("ws.giant.buffered-whole")
			}
		}
	}
	if p.cut {
		w.Fault("net.truncated")
	}
	endName := []string{"half-close", "close", "reset", "silent"}[p.end]
	switch p.end {
	case 0:
		if goodbye {
			cli.WriteControl(websocket.CloseMessage, websocket.FormatCloseMessage(websocket.CloseNormalClosure, ""), time.Now().Add(time.Second))
		}
		a.CloseWrite()
	case 1:
		if goodbye {
			cli.WriteControl(websocket.CloseMessage, websocket.FormatCloseMessage(websocket.CloseGoingAway, ""), time.Now().Add(time.Second))
		}
		a.Close()
	case 2:
		a.Reset()
		w.Fault("net.reset")
	case 3:
		// the peer goes silent (and, without the pump, deaf: it answers no ping)
		w.Fault("net.stall")
		r := c05Await(w, "main", srvClosed, c05Stall, budget)
		if w.Free() {
			return false, false
		}
		if sw.spun {
			fail()
			return hostileSeen, false
		}
		switch r {
		case "spin":
			w.Violationf("C05:termination:spin:"+layer+":stall", "server tasks never blocked while the WebSocket peer was silent (pump=%v; server consumed %d stream bytes)", pump, sw.delivered)
			fail()
			return hostileSeen, false
		case "ok":
			w.Probe("serve-ws.silent.server-closed")
		default:
			w.Probe("serve-ws.silent.server-waits")
		}
		if !pump {
			hostileSeen = true // an idle, deaf peer aged past every transport-level timeout
		}
		a.Close()
	}
	r := c05Await(w, "main", srvClosed, c05TermBound, budget)
	if w.Free() {
		return false, false
	}
	if sw.spun {
		fail()
		return hostileSeen, false
	}
	sw.sample()
	if c05ServeAlloc(w, p, &sw.c05mon, len(p.segs)-1) {
		fail()
		return hostileSeen, false
	}
	if r != "ok" {
		cls := map[string]string{"spin": "spin", "timeout": "blocked"}[r]
		w.Violationf("C05:termination:"+cls+":"+layer, "finite WebSocket stream (%d stream bytes sent, server consumed %d, end=%s, pump=%v): the adapter's read loop did not end and close the connection within %v (%s); connection still registered=%v",
			sent, sw.delivered, endName, pump, c05TermBound, r, c05ConnID(node, sw) != "")
		fail()
		return hostileSeen, false
	}
	w.Probe("serve-ws.terminated")
	c05WorkCheck(w, &sw.c05mon, b.Conn.BytesRead()+b.fed+b.Conn.BytesWritten(), w.Res.Sample)
	return hostileSeen, true
}

// c05ServeAlloc checks the serve-layer allocation oracle: the most that was
// allocated between two consecutive transport Reads of the server (= while it
// decoded and dispatched at most one packet). The windows between two harness
// writes are NOT the yardstick: one window may cover thousands of tiny packets
// (and as many scheduler steps of harness bookkeeping).
func c05ServeAlloc(w *simrt.World, p *c05plan, sw *c05mon, upto int) bool {
	if sw.maxDelta <= c05AllocBound {
		return false
	}
	w.Violationf("C05:alloc:"+sw.layer+":"+c05WindowClass(p, upto), "between two consecutive Reads on the transport (server had consumed %d, then %d bytes of the stream; at most one packet is decoded and dispatched in between) the process allocated %d MiB (bound %d MiB = 8 x max body)\nbytes %d.. fall into segment %s",
		sw.maxFrom, sw.maxTo, sw.maxDelta>>20, c05AllocBound>>20, sw.maxFrom, c05SegDesc(p, sw.maxFrom))
	return true
}

func c05TypeClass(p *packet.TransferPacket) string {
	t := p.PacketType
	switch {
	case t.IsJsonCommand():
		return "json-command"
	case t.IsCommandResp():
		return "command-resp"
	case t&0x3F == packet.Handshake:
		return "handshake"
	case t&0x3F == packet.TunnelOpen:
		return "tunnel-open"
	case t.IsHeartbeat():
		return "heartbeat"
	}
	return "other-type"
}

// c05WindowClass: the body class of the segments up to and including i that
// can still be in the server's queue.
func c05WindowClass(p *c05plan, i int) string {
	for j := 0; j <= i && j < len(p.segs); j++ {
		if p.segs[j].bomb || (len(p.segs[j].b) > 0 && packet.Type(p.segs[j].b[0]).IsCompressed()) {
			return "gzip-body"
		}
	}
	return "plain-body"
}
