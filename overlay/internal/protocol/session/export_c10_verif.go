//go:build verif

package session

// RunBidirectionalForwardForVerif exposes the unexported half-close aware
// forwarding helper (cross_node_forward_helper.go) to the C10 scenario. It
// adds no behaviour.
func RunBidirectionalForwardForVerif(cfg *BidirectionalForwardConfig) {
	runBidirectionalForward(cfg)
}
