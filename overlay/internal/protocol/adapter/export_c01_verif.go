//go:build verif

package adapter

import (
	"net"

	"github.com/gorilla/websocket"
)

// NewWSServerConnForVerif wraps an established server-side WebSocket connection exactly as the
// WebSocket adapter does after an upgrade.
func NewWSServerConnForVerif(conn *websocket.Conn, remoteAddr string) net.Conn {
	return newWSServerConn(conn, remoteAddr)
}

// NewWSClientConnForVerif wraps an established client-side WebSocket connection exactly as the
// WebSocket adapter's Dial does.
func NewWSClientConnForVerif(conn *websocket.Conn) net.Conn {
	return newWSClientConn(conn)
}
