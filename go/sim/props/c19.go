package props

import (
	"encoding/json"
	"fmt"
	"math"
	"sort"
	"strings"
	"time"

	"tunnox-core/internal/app/server"
	"tunnox-core/internal/cloud/managers"
	"tunnox-core/internal/cloud/models"
	"tunnox-core/internal/cloud/repos"
	"tunnox-core/internal/command"
	"tunnox-core/internal/core/storage/hybrid"
	"tunnox-core/internal/core/storage/types"
	"tunnox-core/internal/httpservice"
	"tunnox-core/internal/httpservice/modules/domainproxy"
	"tunnox-core/internal/packet"
	"tunnox-core/verifsim/simrt"
	"tunnox-core/verifsim/simstore"
)

// C19 — a public domain routes only to its single rightful owner.
//
// World: 1-2 server nodes. Each node has the real HTTPDomainMappingRepository
// over the storage stack the server really builds (hybrid storage over
// memory / redis / persistent tier, see app/server/storage.go) or over a raw
// shared backend, the real repository adapter, the real create / delete /
// list command handlers, the real legacy DomainRegistry and the real
// DomainProxyModule.lookupMapping with all three lookup sources wired.
// Actors (2-4 tasks acting for 2-4 client identities) run create / delete /
// lookup / deactivate / list / cleanup operations on 1-2 overlapping names in
// 1-3 phases separated by clock jumps.
//
// Oracle: a history check written from the property text only. The harness
// records every operation with call/return stamps and what the client was
// told; it never looks into the store.

const c19Base = "tunnox.net"

var c19Subs = []string{"app", "web"}

var c19Modes = []string{"hybrid-mem", "hybrid-mem-json", "hybrid-redis", "hybrid-remote-redis", "raw-memory", "raw-redis"}

// ---- recorded history --------------------------------------------------

type c19create struct {
	actor  string
	client int64
	node   int
	sub    string // subdomain exactly as the client spelled it
	stored string // full domain exactly as the server's create response spelled it ("" if none)
	name   string // canonical (lower-case) full domain
	thost  string
	tport  int
	ttl    int
	legacy bool

	call, ret   int64
	callT, retT time.Duration
	done        bool // the call returned to the client
	ok          bool
	injected    bool // failed with an injected storage error (outcome indeterminate)
	id          string
	errText     string

	expLo, expHi time.Duration // definitely live before expLo, definitely expired after expHi

	deactCall, deactRet int64
	deactOK             bool
}

func (x *c19create) indet() bool { return !x.done || x.injected }

type c19delete struct {
	actor     string
	client    int64
	node      int
	id        string
	legacy    bool
	call, ret int64
	callT     time.Duration
	done, ok  bool
	injected  bool
	errText   string
	why       string
}

type c19lookup struct {
	actor     string
	node      int
	host      string
	call, ret int64
	callT     time.Duration
	done      bool
	found     bool
	client    int64
	thost     string
	tport     int
	id        string
	errText   string
}

// ---- world -------------------------------------------------------------

type c19cloud struct {
	managers.CloudControlAPI // only GetPortMappingByDomain is ever called by lookupMapping
	pm                       *repos.PortMappingRepo
}

func (c *c19cloud) GetPortMappingByDomain(d string) (*models.PortMapping, error) {
	return c.pm.GetPortMappingByDomain(d)
}

type c19node struct {
	ix       int
	stores   []*simstore.Store
	repo     *repos.HTTPDomainMappingRepository
	create   *command.HTTPDomainCreateHandler
	del      *command.HTTPDomainDeleteHandler
	list     *command.HTTPDomainListHandler
	registry *httpservice.DomainRegistry
	proxy    *domainproxy.DomainProxyModule
	pm       *repos.PortMappingRepo
	down     bool
}

type c19world struct {
	w       *simrt.World
	mode    string
	nodes   []*c19node
	rd      *simstore.Redis
	persist *simstore.Persist
	wall0   time.Time

	creates []*c19create
	deletes []*c19delete
	lookups []*c19lookup
	// call stamps of cleanup-expired operations (they may delete mappings of any name)
	cleanupCalls []int64
	hist         []string
	uniq    int
	faulty  bool // a fault mode is armed in this run
	// read-fault mode: the store whose readFaultAt-th counted read fails (its log names the key)
	readFaultStore *simstore.Store
	readFaultAt    int
}

func (cw *c19world) logf(format string, a ...any) {
	cw.hist = append(cw.hist, fmt.Sprintf(format, a...))
}

func (cw *c19world) build(mode string, nnodes int) {
	w := cw.w
	needRedis := mode == "hybrid-redis" || mode == "hybrid-remote-redis" || mode == "raw-redis"
	if needRedis {
		cw.rd = simstore.NewRedis(w)
	}
	if mode == "hybrid-mem-json" || mode == "hybrid-remote-redis" {
		cw.persist = simstore.NewPersist(w, "db")
	}
	var sharedMem types.Storage
	if mode == "raw-memory" {
		sharedMem = simstore.NewMemory(w)
	}
	for i := 0; i < nnodes; i++ {
		n := &c19node{ix: i}
		nm := fmt.Sprintf("n%d", i+1)
		var st types.Storage
		switch mode {
		case "hybrid-mem", "hybrid-mem-json":
			// createMemoryStorage / createPersistentStorage: memory cache, no shared cache
			cache := simstore.New(w, nm+".cache", simstore.NewMemory(w))
			n.stores = []*simstore.Store{cache}
			cfg := hybrid.DefaultConfig()
			cfg.EnablePersistent = cw.persist != nil
			var p types.PersistentStorage
			if cw.persist != nil {
				p = cw.persist
			}
			st = hybrid.NewWithSharedCache(w.Ctx, cache, nil, p, cfg)
		case "hybrid-redis":
			// createRedisStorage: one Redis is both the cache and the shared cache
			cache := simstore.New(w, nm+".redis", cw.rd.Storage)
			cache.Sync = cw.rd.Sync
			n.stores = []*simstore.Store{cache}
			cfg := hybrid.DefaultConfig()
			cfg.EnablePersistent = false
			st = hybrid.NewWithSharedCache(w.Ctx, cache, cache, nil, cfg)
		case "hybrid-remote-redis":
			// createRemoteStorage with redis: node-local memory cache, shared Redis, shared persistent tier
			cache := simstore.New(w, nm+".cache", simstore.NewMemory(w))
			shared := simstore.New(w, nm+".redis", cw.rd.Storage)
			shared.Sync = cw.rd.Sync
			n.stores = []*simstore.Store{shared, cache}
			cfg := hybrid.DefaultConfig()
			cfg.EnablePersistent = true
			st = hybrid.NewWithSharedCache(w.Ctx, cache, shared, cw.persist, cfg)
		case "raw-memory":
			s := simstore.New(w, nm+".mem", sharedMem)
			n.stores = []*simstore.Store{s}
			st = s
		case "raw-redis":
			s := simstore.New(w, nm+".redis", cw.rd.Storage)
			s.Sync = cw.rd.Sync
			n.stores = []*simstore.Store{s}
			st = s
		}
		base := repos.NewRepository(st)
		n.repo = repos.NewHTTPDomainMappingRepository(base, []string{c19Base})
		ad := server.NewHTTPDomainRepositoryAdapter(n.repo)
		n.create = command.NewHTTPDomainCreateHandler(ad, ad)
		n.del = command.NewHTTPDomainDeleteHandler(ad)
		n.list = command.NewHTTPDomainListHandler(ad)
		n.registry = httpservice.NewDomainRegistry([]string{c19Base})
		n.pm = repos.NewPortMappingRepo(base)
		n.proxy = domainproxy.NewDomainProxyModule(w.Ctx, &httpservice.DomainProxyModuleConfig{Enabled: true, BaseDomains: []string{c19Base}, RequestTimeout: 30 * time.Second})
		n.proxy.SetDependencies(&httpservice.ModuleDependencies{
			HTTPDomainMappingRepo: n.repo,
			DomainRegistry:        n.registry,
			CloudControl:          &c19cloud{pm: n.pm},
		})
		cw.nodes = append(cw.nodes, n)
	}
}

// crashGuard is deferred around every operation on a node: when the
// operation is being unwound by a simulated crash, the whole node goes down.
func (cw *c19world) crashGuard(n *c19node, done *bool) {
	if *done {
		return
	}
	cw.logf("n%d CRASHED during the operation started last by this actor", n.ix+1)
	n.down = true
	for _, s := range n.stores {
		s.Fence()
	}
}

func (cw *c19world) nodeUp(n *c19node) bool {
	if n.down {
		return false
	}
	for _, s := range n.stores {
		if s.Fenced() {
			n.down = true
			for _, t := range n.stores {
				t.Fence()
			}
			return false
		}
	}
	return true
}

// ---- operations --------------------------------------------------------

func (cw *c19world) doCreate(actor string, client int64, n *c19node, sub string, ttl int) {
	w := cw.w
	cw.uniq++
	x := &c19create{actor: actor, client: client, node: n.ix, sub: sub, name: strings.ToLower(sub) + "." + c19Base,
		thost: fmt.Sprintf("10.%d.0.%d", client%100, cw.uniq), tport: 3000 + cw.uniq, ttl: ttl,
		expLo: math.MaxInt64, expHi: math.MaxInt64}
	cw.creates = append(cw.creates, x)
	body, _ := json.Marshal(packet.HTTPDomainCreateRequest{TargetURL: fmt.Sprintf("http://%s:%d", x.thost, x.tport), Subdomain: sub, BaseDomain: c19Base, MappingTTL: ttl})
	defer cw.crashGuard(n, &x.done)
	w.Yield("c19.create.call")
	x.call, x.callT = w.Stamp(), w.Now()
	resp, err := n.create.Handle(&command.CommandContext{ConnectionID: "conn-" + actor, ClientID: client, RequestBody: string(body), Context: w.Ctx})
	w.Yield("c19.create.ret")
	x.ret, x.retT = w.Stamp(), w.Now()
	x.done = true
	var r packet.HTTPDomainCreateResponse
	if err != nil || resp == nil {
		x.errText = fmt.Sprint(err)
	} else if jerr := json.Unmarshal([]byte(resp.Data), &r); jerr != nil {
		x.errText = "bad response: " + jerr.Error()
	} else {
		x.ok = resp.Success && r.Success
		x.id = r.MappingID
		x.stored = r.FullDomain
		x.errText = r.Error
		if x.ok && x.id == "" {
			w.Violationf("C19:create:success-without-id", "create %s by client %d answered success without a mapping id", x.name, client)
		}
		if x.ok && strings.ToLower(r.FullDomain) != x.name {
			w.Violationf("C19:create:wrong-domain-in-response", "create %s answered full domain %q", x.name, r.FullDomain)
		}
		if x.ok {
			if ttl > 0 {
				x.expLo = x.callT + time.Duration(ttl)*time.Second - 5*time.Second
				x.expHi = x.retT + time.Duration(ttl)*time.Second + 5*time.Second
			} else if r.ExpiresAt != "" {
				if t, perr := time.Parse(time.RFC3339, r.ExpiresAt); perr == nil {
					off := t.Sub(cw.wall0)
					x.expLo, x.expHi = off-5*time.Second, off+5*time.Second
				}
			}
		}
	}
	x.injected = !x.ok && strings.Contains(x.errText, "injected")
	cw.logf("%s@n%d create %s(%q) c%d ttl=%d -> ok=%v id=%s %s", actor, n.ix+1, x.name, sub, client, ttl, x.ok, x.id, c19short(x.errText))
}

func c19short(s string) string {
	if len(s) > 70 {
		return s[:70] + "…"
	}
	return s
}

func (cw *c19world) doDelete(actor string, client int64, n *c19node, id, why string) {
	w := cw.w
	d := &c19delete{actor: actor, client: client, node: n.ix, id: id, why: why}
	cw.deletes = append(cw.deletes, d)
	body, _ := json.Marshal(packet.HTTPDomainDeleteRequest{MappingID: id})
	defer cw.crashGuard(n, &d.done)
	w.Yield("c19.delete.call")
	d.call, d.callT = w.Stamp(), w.Now()
	resp, err := n.del.Handle(&command.CommandContext{ConnectionID: "conn-" + actor, ClientID: client, RequestBody: string(body), Context: w.Ctx})
	w.Yield("c19.delete.ret")
	d.ret = w.Stamp()
	d.done = true
	var r packet.HTTPDomainDeleteResponse
	if err != nil || resp == nil {
		d.errText = fmt.Sprint(err)
	} else if jerr := json.Unmarshal([]byte(resp.Data), &r); jerr != nil {
		d.errText = "bad response: " + jerr.Error()
	} else {
		d.ok = resp.Success && r.Success
		d.errText = r.Error
	}
	d.injected = !d.ok && strings.Contains(d.errText, "injected")
	cw.logf("%s@n%d delete %s c%d (%s) -> ok=%v %s", actor, n.ix+1, id, client, why, d.ok, c19short(d.errText))
}

func (cw *c19world) doLookup(actor string, n *c19node, host string) *c19lookup {
	w := cw.w
	l := &c19lookup{actor: actor, node: n.ix, host: host}
	cw.lookups = append(cw.lookups, l)
	defer cw.crashGuard(n, &l.done)
	w.Yield("c19.lookup.call")
	l.call, l.callT = w.Stamp(), w.Now()
	m, err := n.proxy.LookupMappingForVerif(host)
	w.Yield("c19.lookup.ret")
	l.ret = w.Stamp()
	l.done = true
	if err == nil && m != nil {
		l.found = true
		l.client, l.thost, l.tport, l.id = m.TargetClientID, m.TargetHost, m.TargetPort, m.ID
	} else {
		l.errText = fmt.Sprint(err)
	}
	if l.found {
		cw.logf("%s@n%d lookup %q -> c%d %s:%d (%s)", actor, n.ix+1, host, l.client, l.thost, l.tport, l.id)
	} else {
		cw.logf("%s@n%d lookup %q -> reject %s", actor, n.ix+1, host, c19short(l.errText))
	}
	return l
}

// doDeactivate: the owner (through an administrative path, the repository's
// documented UpdateMapping contract) sets the mapping inactive.
func (cw *c19world) doDeactivate(actor string, n *c19node, x *c19create) {
	w := cw.w
	done := false
	defer cw.crashGuard(n, &done)
	w.Yield("c19.deact.call")
	call := w.Stamp()
	m, err := n.repo.GetMapping(w.Ctx, x.id)
	if err == nil {
		if m.ClientID != x.client || strings.ToLower(m.FullDomain) != x.name {
			// the record behind the owner's id is someone else's: the owner's console would refuse to edit it
			err = fmt.Errorf("record %s belongs to client %d domain %s", x.id, m.ClientID, m.FullDomain)
		} else {
			m.Status = repos.HTTPDomainMappingStatusInactive
			err = n.repo.UpdateMapping(w.Ctx, m)
		}
	}
	w.Yield("c19.deact.ret")
	done = true
	if x.deactRet == 0 || !x.deactOK {
		x.deactCall, x.deactRet, x.deactOK = call, w.Stamp(), err == nil
	}
	cw.logf("%s@n%d deactivate %s (%s) -> %v", actor, n.ix+1, x.id, x.name, err)
}

func (cw *c19world) doList(actor string, client int64, n *c19node) {
	w := cw.w
	done := false
	defer cw.crashGuard(n, &done)
	w.Yield("c19.list.call")
	resp, _ := n.list.Handle(&command.CommandContext{ConnectionID: "conn-" + actor, ClientID: client, RequestBody: "{}", Context: w.Ctx})
	done = true
	ok := resp != nil && resp.Success
	cw.logf("%s@n%d list c%d -> ok=%v", actor, n.ix+1, client, ok)
}

func (cw *c19world) doCleanup(actor string, n *c19node) {
	w := cw.w
	done := false
	defer cw.crashGuard(n, &done)
	w.Yield("c19.cleanup.call")
	cw.cleanupCalls = append(cw.cleanupCalls, w.Stamp())
	k, err := n.repo.CleanupExpiredMappings(w.Ctx)
	done = true
	cw.logf("%s@n%d cleanup-expired -> %d %v", actor, n.ix+1, k, err)
}

// legacy path: what the management API does for an HTTP port mapping
// (handlers_mapping.go): availability check against the node's registry,
// store the PortMapping, register it in the node's registry.
func (cw *c19world) doLegacyCreate(actor string, client int64, n *c19node, sub string) {
	w := cw.w
	cw.uniq++
	x := &c19create{actor: actor, client: client, node: n.ix, sub: sub, name: strings.ToLower(sub) + "." + c19Base,
		thost: fmt.Sprintf("10.%d.9.%d", client%100, cw.uniq), tport: 3000 + cw.uniq, legacy: true,
		id: fmt.Sprintf("pm_%d", cw.uniq), expLo: math.MaxInt64, expHi: math.MaxInt64}
	cw.creates = append(cw.creates, x)
	defer cw.crashGuard(n, &x.done)
	w.Yield("c19.lcreate.call")
	x.call, x.callT = w.Stamp(), w.Now()
	var err error
	if !n.registry.IsSubdomainAvailable(sub, c19Base) {
		err = fmt.Errorf("subdomain already in use")
	} else {
		pm := &models.PortMapping{ID: x.id, TargetClientID: client, ListenClientID: 0, Protocol: models.ProtocolHTTP,
			TargetHost: x.thost, TargetPort: x.tport, HTTPSubdomain: sub, HTTPBaseDomain: c19Base, Status: models.MappingStatusActive}
		if err = n.pm.CreatePortMapping(pm); err == nil {
			if err = n.registry.Register(pm); err != nil {
				_ = n.pm.DeletePortMapping(pm.ID)
			}
		}
	}
	w.Yield("c19.lcreate.ret")
	x.ret, x.retT = w.Stamp(), w.Now()
	x.done = true
	x.ok = err == nil
	if err != nil {
		x.errText = err.Error()
		x.injected = strings.Contains(x.errText, "injected")
	}
	cw.logf("%s@n%d legacy-create %s c%d -> ok=%v id=%s %s", actor, n.ix+1, x.name, client, x.ok, x.id, c19short(x.errText))
}

func (cw *c19world) doLegacyDelete(actor string, n *c19node, x *c19create) {
	w := cw.w
	d := &c19delete{actor: actor, client: x.client, node: n.ix, id: x.id, legacy: true, why: "legacy"}
	cw.deletes = append(cw.deletes, d)
	defer cw.crashGuard(n, &d.done)
	w.Yield("c19.ldelete.call")
	d.call, d.callT = w.Stamp(), w.Now()
	err := n.pm.DeletePortMapping(x.id)
	if err == nil {
		n.registry.UnregisterByMappingID(x.id)
	}
	w.Yield("c19.ldelete.ret")
	d.ret = w.Stamp()
	d.done = true
	d.ok = err == nil
	if err != nil {
		d.errText = err.Error()
		d.injected = strings.Contains(d.errText, "injected")
	}
	cw.logf("%s@n%d legacy-delete %s -> ok=%v %s", actor, n.ix+1, x.id, d.ok, c19short(d.errText))
}

// ---- reference normalisation of a Host header (RFC 9110 / RFC 3986) -----

// c19norm returns the registered name a Host header designates, or false if
// the header does not designate a registered name at all.
func c19norm(host string) (string, bool) {
	h := host
	if h == "" || strings.HasPrefix(h, "[") {
		return "", false // empty or IP-literal
	}
	if strings.Count(h, ":") > 1 {
		return "", false // unbracketed IPv6 or garbage
	}
	if i := strings.LastIndex(h, ":"); i >= 0 {
		for _, c := range h[i+1:] {
			if c < '0' || c > '9' {
				return "", false
			}
		}
		h = h[:i]
	}
	h = strings.ToLower(h)
	h = strings.TrimSuffix(h, ".")
	if h == "" || strings.ContainsAny(h, " /[]") {
		return "", false
	}
	return h, true
}

var c19SpellNames = []string{"bare", "port80", "port8443", "upper", "mixed", "trailing-dot", "trailing-dot-port", "ipv6-literal-port", "ipv6-bare", "empty", "only-port", "two-ports", "empty-port"}

func c19spell(k int, name string) string {
	switch k {
	case 1:
		return name + ":80"
	case 2:
		return name + ":8443"
	case 3:
		return strings.ToUpper(name)
	case 4:
		return strings.ToUpper(name[:1]) + name[1:] + ":80"
	case 5:
		return name + "."
	case 6:
		return name + ".:80"
	case 7:
		return "[::1]:80"
	case 8:
		return "::1"
	case 9:
		return ""
	case 10:
		return ":8080"
	case 11:
		return name + ":80:81"
	case 12:
		return name + ":"
	}
	return name
}

// ---- plan ---------------------------------------------------------------

type c19op struct {
	kind    string
	node    int
	nameIx  int
	caseVar bool
	ttl     int
	sel     int
	spell   int
}

// the last gap / ttl let a mapping outlive any lifetime some auxiliary key (index, list, counter) may have been given
var c19Gaps = []time.Duration{1300 * time.Millisecond, 61*time.Minute + 7*time.Millisecond, 25*time.Hour + 11*time.Millisecond, 8*24*time.Hour + 13*time.Millisecond, 33*24*time.Hour + 19*time.Millisecond}
var c19TTLs = []int{0, 90, 7200, 30 * 3600, 90 * 24 * 3600}

func init() {
	Register(&Scenario{
		ID:    "C19",
		Level: "exploration",
		Rule: "each run draws a storage stack (hybrid storage exactly as app/server/storage.go builds it: memory-only, memory+persistent tier, redis as cache+shared cache, node-local memory + shared redis + shared persistent tier; or a raw shared memory/redis backend), 1-2 nodes, 2-4 actor tasks acting for 2-4 client identities (two actors may be the same client on different nodes), 1-2 names, 1-3 phases separated by a clock jump drawn from {1.3s, 61min, 25h, 8d, 33d} (never on an expiry instant), per actor and phase 1-4 operations drawn from create (ttl in {server default, 90s, 2h, 30h, 90d}, optionally a case-variant spelling of the subdomain), delete (own latest / someone else's / own already deleted id), lookup (13 Host spellings: bare, ports, upper/mixed case, trailing dot, IPv6 literals, empty, only-port, two ports), deactivate, list, cleanup-expired and, in legacy runs, management-style creation/deletion of a legacy HTTP port mapping; optionally one fault: the k-th http_domain write on one node's store fails, or the k-th http_domain read fails, or (two nodes on a shared backend) the node crashes right before its k-th write. After every phase each node resolves every name once more (quiescent sweep). " +
			"All operations are interleaved at statement granularity inside the anchored files. A run is non-trivial when two operations of different actors on one name overlapped in time, or a name changed hands (a create succeeded after a successful delete), or a lookup ran against a name whose mapping had been deleted/deactivated/expired, or a fault fired; distinct = distinct schedule hash among those.",
		Real: []string{"internal/cloud/repos HTTPDomainMappingRepository (create/delete/update/lookup/cleanup)", "internal/app/server HTTPDomainRepositoryAdapter", "internal/command HTTPDomainCreate/Delete/List handlers", "internal/httpservice DomainRegistry", "internal/httpservice/modules/domainproxy lookupMapping + extractDomain (via export overlay)", "internal/cloud/repos PortMappingRepo.GetPortMappingByDomain/CreatePortMapping/DeletePortMapping (third lookup source)", "internal/core/storage/hybrid with the default prefix configuration", "internal/core/storage/memory and redis backends (redis over miniredis in the bubble)"},
		Stub: []string{"CloudControlAPI: only GetPortMappingByDomain, delegating to the real PortMappingRepo on the node's storage", "management API create/delete of a legacy HTTP port mapping: the three effects of handlers_mapping.go (registry availability check, repo create, registry register / repo delete, registry unregister) are performed by the harness", "persistent tier: simstore.Persist map", "transport and session layer: handlers are invoked directly with an authenticated CommandContext"},
		Assumptions: []string{"domain names are compared case-insensitively (RFC 4343); a Host header designates a registered name after removing one :port, lower-casing and removing one trailing dot; IP literals, empty hosts and hosts with two colons designate none", "rejecting a request is always allowed by the property; only positive routing answers are judged", "an expired but undeleted mapping may or may not still block the name (don't care)", "the expiry instant the client is told (requested ttl, or the expires_at of the response for the server default) is the reference, with a 5 s don't-care band", "when two successful creates of one run were handed the same mapping id, or a name's index answers with the id of another name's mapping, every consequence is filed under the class reused-mapping-ids (one signature per oracle) so that this root cause does not hide the others; a fired fault is part of the class (suffix after-storage-fault) except for the legacy/case-variant classes", "two successful claims of one name with no delete or cleanup request for any mapping of that name before the second one are filed as claim-lost-without-any-delete (never under the stale-delete or reused-id classes, which cannot free an index without a delete)", "an operation that failed with an injected storage error or was cut by a crash has an indeterminate outcome; liveness clauses (a free name can be claimed, the owner can delete) are checked only in runs without an armed fault"},
		Opt:         func(tier string) simrt.Options { return simrt.Options{MaxSteps: 600000} },
		Run:         c19Run,
	})
}

func c19Run(w *simrt.World, tier string) {
	c := w.C
	cw := &c19world{w: w}
	cw.wall0 = time.Now().Add(-w.Now())

	// ---- swarm configuration (all draws before any task is spawned)
	modeIx := c.Intn(len(c19Modes), "store.mode")
	cw.mode = c19Modes[modeIx]
	nnodes := 1 + c.Intn(2, "nodes")
	if cw.mode == "hybrid-mem" || cw.mode == "hybrid-mem-json" {
		nnodes = 1 // nothing is shared between two such nodes
	}
	nclients := 2 + c.Intn(3, "nclients")
	nactors := 2 + c.Intn(3, "nactors")
	nnames := 1 + c.Intn(2, "nnames")
	nphases := 1 + c.Intn(3, "nphases")
	caseRuns := c.Intn(6, "swarm.case-variant") == 5
	legacy := c.Intn(5, "swarm.legacy") == 4
	lookupHeavy := c.Intn(3, "swarm.lookup-heavy") == 2
	actorClient := make([]int64, nactors)
	actorNode := make([]int, nactors)
	for i := range actorClient {
		actorClient[i] = int64(101 + c.Intn(nclients, "actor.client"))
		actorNode[i] = c.Intn(nnodes, "actor.node")
	}
	gaps := make([]time.Duration, nphases)
	for p := range gaps {
		gaps[p] = c19Gaps[c.Intn(len(c19Gaps), "phase.gap")]
	}
	kinds := []string{"create", "create", "create", "delete", "delete", "delete", "lookup", "lookup", "lookup", "deact", "list", "cleanup"}
	if lookupHeavy {
		kinds = append(kinds, "lookup", "lookup", "lookup", "lookup")
	}
	if legacy {
		kinds = append(kinds, "lcreate", "lcreate", "ldelete")
	}
	plan := make([][][]c19op, nphases)
	total := 0
	for p := 0; p < nphases; p++ {
		plan[p] = make([][]c19op, nactors)
		for a := 0; a < nactors; a++ {
			k := 1 + c.Intn(4, "ops.per.actor")
			for j := 0; j < k && total < 24; j++ {
				op := c19op{kind: kinds[c.Intn(len(kinds), "op.kind")], nameIx: c.Intn(nnames, "op.name")}
				op.node = actorNode[a]
				if c.Intn(4, "op.other-node") == 3 {
					op.node = c.Intn(nnodes, "op.node")
				}
				switch op.kind {
				case "create":
					op.ttl = c19TTLs[c.Intn(len(c19TTLs), "create.ttl")]
					op.caseVar = caseRuns && c.Intn(2, "create.case") == 1
				case "delete":
					op.sel = c.Intn(3, "delete.sel")
				case "lookup":
					op.spell = c.Intn(len(c19SpellNames), "lookup.spell")
				}
				plan[p][a] = append(plan[p][a], op)
				total++
			}
		}
	}
	// fault
	faultMode := c.Intn(5, "fault.mode") // 0 none, 1 none, 2 fail one write, 3 crash, 4 fail one read
	faultKRead := 1 + c.Intn(60, "fault.k.read")
	faultNode := c.Intn(nnodes, "fault.node")
	faultStore := c.Intn(2, "fault.store")
	faultK := 1 + c.Intn(16, "fault.k")
	faultPersist := c.Intn(3, "fault.persist") == 2

	cw.build(cw.mode, nnodes)
	w.SetCrashSentinel(simstore.Crash)
	isHTTPDomain := func(op, key string) bool { return strings.HasPrefix(key, "tunnox:http_domain:") }
	faultDesc := "none"
	switch faultMode {
	case 2:
		cw.faulty = true
		if faultPersist && cw.persist != nil {
			cw.persist.FailAt = faultK
			faultDesc = fmt.Sprintf("persist op #%d fails", faultK)
		} else {
			n := cw.nodes[faultNode]
			s := n.stores[faultStore%len(n.stores)]
			s.Filter, s.CountWritesOnly, s.FailAt = isHTTPDomain, true, faultK
			faultDesc = fmt.Sprintf("%s write #%d fails", s.Name, faultK)
		}
	case 4:
		// one read of an http_domain key fails (timeout / connection reset of the cache tier)
		cw.faulty = true
		n := cw.nodes[faultNode]
		st := n.stores[faultStore%len(n.stores)]
		st.Filter = func(op, key string) bool {
			return isHTTPDomain(op, key) && (op == "Get" || op == "Exists" || op == "GetList")
		}
		st.FailAt = faultKRead
		st.KeepLog = true
		cw.readFaultStore, cw.readFaultAt = st, faultKRead
		faultDesc = fmt.Sprintf("%s read #%d fails", st.Name, faultKRead)
	case 3:
		shared := cw.mode == "raw-memory" || cw.mode == "raw-redis" || cw.mode == "hybrid-redis"
		// (legacy runs included: simrt recognises a simulated crash that x/sync/singleflight re-panics
		// from PortMappingRepo reads by the CrashMarker in its text)
		if nnodes == 2 && shared {
			cw.faulty = true
			s := cw.nodes[faultNode].stores[0]
			s.Filter, s.CountWritesOnly, s.CrashAt = isHTTPDomain, true, faultK
			faultDesc = fmt.Sprintf("node %s crashes before write #%d", s.Name, faultK)
		}
	}
	w.Probe("mode." + cw.mode)
	w.Probe(fmt.Sprintf("nodes.%d", nnodes))
	if legacy {
		w.Probe("swarm.legacy")
	}
	if caseRuns {
		w.Probe("swarm.case-variant")
	}

	// ---- phases
	for p := 0; p < nphases; p++ {
		var tasks []*simrt.Task
		for a := 0; a < nactors; a++ {
			ops := plan[p][a]
			if len(ops) == 0 {
				continue
			}
			actor := fmt.Sprintf("p%d.a%d", p, a)
			client := actorClient[a]
			tasks = append(tasks, w.Spawn(actor, func() {
				for _, op := range ops {
					cw.exec(actor, client, op)
				}
			}))
		}
		for _, t := range tasks {
			t.Wait()
		}
		// quiescent sweep: every node resolves every name
		sweep := w.Spawn(fmt.Sprintf("p%d.sweep", p), func() {
			for _, n := range cw.nodes {
				for i := 0; i < nnames; i++ {
					if cw.nodeUp(n) {
						cw.doLookup(fmt.Sprintf("p%d.sweep", p), n, c19Subs[i]+"."+c19Base)
					}
				}
			}
		})
		sweep.Wait()
		w.State(cw.stateKey(nnames))
		if p+1 < nphases {
			cw.logf("+%v", gaps[p])
			w.Sleep(gaps[p])
			if cw.rd != nil {
				cw.rd.Sync()
			}
		}
	}

	cw.judge(nnames)
	w.Sample(fmt.Sprintf("store=%s nodes=%d actors=%d clients=%d names=%d phases=%d legacy=%v case=%v fault=%s :: %s",
		cw.mode, nnodes, nactors, nclients, nnames, nphases, legacy, caseRuns, faultDesc, strings.Join(tailStr(cw.hist, 40), " ; ")))
	if cw.rd != nil {
		cw.rd.Close()
	}
}

func (cw *c19world) exec(actor string, client int64, op c19op) {
	w := cw.w
	n := cw.nodes[op.node]
	if !cw.nodeUp(n) {
		w.Probe("op.skipped.node-down")
		return
	}
	sub := c19Subs[op.nameIx]
	name := sub + "." + c19Base
	w.Probe("op." + op.kind)
	switch op.kind {
	case "create":
		if op.caseVar {
			sub = strings.ToUpper(sub[:1]) + sub[1:]
		}
		cw.doCreate(actor, client, n, sub, op.ttl)
	case "delete":
		var target *c19create
		why := ""
		switch op.sel {
		case 1: // someone else's latest mapping of this name
			for _, x := range cw.creates {
				if x.name == name && x.ok && !x.legacy && x.client != client {
					target, why = x, "foreign"
				}
			}
		case 2: // an id this client has already deleted
			for _, x := range cw.creates {
				if x.name == name && x.ok && !x.legacy && x.client == client && cw.deleteAttempted(x) {
					target, why = x, "again"
				}
			}
		}
		if target == nil {
			for _, x := range cw.creates {
				if x.name == name && x.ok && !x.legacy && x.client == client {
					target, why = x, "own"
				}
			}
		}
		if target == nil {
			w.Probe("op.skipped.nothing-to-delete")
			return
		}
		cw.doDelete(actor, client, n, target.id, why)
	case "lookup":
		w.Probe("spell." + c19SpellNames[op.spell])
		cw.doLookup(actor, n, c19spell(op.spell, name))
	case "deact":
		var target *c19create
		for _, x := range cw.creates {
			if x.name == name && x.ok && !x.legacy && x.client == client {
				target = x
			}
		}
		if target == nil {
			w.Probe("op.skipped.nothing-to-deactivate")
			return
		}
		cw.doDeactivate(actor, n, target)
	case "list":
		cw.doList(actor, client, n)
	case "cleanup":
		cw.doCleanup(actor, n)
	case "lcreate":
		cw.doLegacyCreate(actor, client, n, sub)
	case "ldelete":
		var target *c19create
		for _, x := range cw.creates {
			if x.name == name && x.ok && x.legacy {
				target = x
			}
		}
		if target == nil {
			w.Probe("op.skipped.nothing-to-delete")
			return
		}
		cw.doLegacyDelete(actor, n, target)
	}
}

func (cw *c19world) deleteAttempted(x *c19create) bool {
	for _, d := range cw.deletes {
		if d.id == x.id && d.client == x.client && d.legacy == x.legacy {
			return true
		}
	}
	return false
}

// ---- history predicates --------------------------------------------------

// ownDeletes lists the deletes of x's id issued by x's owner after x was created.
func (cw *c19world) ownDeletes(x *c19create) []*c19delete {
	var out []*c19delete
	for _, d := range cw.deletes {
		// normally the owner learns the id when the create returns; if ids are reused a delete of
		// the same id by the same client may also overlap the create
		if d.id == x.id && d.client == x.client && d.legacy == x.legacy && (!d.done || d.ret > x.call) {
			out = append(out, d)
		}
	}
	return out
}

// releasedDefinitely: an owner's delete of x, invoked after x's create had returned, answered success before stamp.
func (cw *c19world) releasedDefinitely(x *c19create, stamp int64) bool {
	for _, d := range cw.ownDeletes(x) {
		if d.done && d.ok && d.ret < stamp && d.call > x.ret {
			return true
		}
	}
	return false
}

// releasedPossibly: an owner's delete of x that may have taken effect was invoked before stamp.
func (cw *c19world) releasedPossibly(x *c19create, stamp int64) bool {
	for _, d := range cw.ownDeletes(x) {
		if d.call < stamp && (!d.done || d.ok || d.injected) {
			return true
		}
	}
	return false
}

// failedRead names the kind of key whose read was failed by the injected read fault ("" if none fired):
// part of the class of a violation that depends on which answer was lost.
func (cw *c19world) failedRead() string {
	if cw.readFaultStore == nil {
		return ""
	}
	for _, o := range cw.readFaultStore.Log {
		if o.N == cw.readFaultAt {
			kind := "other-key-read-failed"
			switch {
			case strings.HasPrefix(o.Key, repos.KeyPrefixHTTPDomainIndex):
				kind = "index-read-failed"
			case strings.HasPrefix(o.Key, repos.KeyPrefixHTTPDomainMapping):
				kind = "record-read-failed"
			}
			if cw.mode == "hybrid-mem" || cw.mode == "hybrid-redis" {
				kind += ":cache-only-hybrid"
			}
			return kind
		}
	}
	return ""
}

// deleteActivity: some delete (by anyone, whatever its outcome) of an id handed out for this name, or a
// cleanup of expired mappings, was invoked before stamp.
func (cw *c19world) deleteActivity(name string, stamp int64) bool {
	for _, c := range cw.cleanupCalls {
		if c < stamp {
			return true
		}
	}
	for _, d := range cw.deletes {
		if d.call >= stamp {
			continue
		}
		for _, x := range cw.creates {
			if x.name == name && x.id != "" && x.id == d.id && x.legacy == d.legacy {
				return true
			}
		}
	}
	return false
}

func (cw *c19world) dupIDs() bool {
	for i, x := range cw.creates {
		if !x.ok || x.legacy {
			continue
		}
		for _, y := range cw.creates[i+1:] {
			if y.ok && !y.legacy && y.id == x.id {
				return true
			}
		}
	}
	return false
}

func c19overlap(c1, r1, c2, r2 int64) bool { return c1 < r2 && c2 < r1 }

func (cw *c19world) stateKey(nnames int) string {
	var parts []string
	for i := 0; i < nnames; i++ {
		name := c19Subs[i] + "." + c19Base
		oks, live, leg := 0, 0, 0
		for _, x := range cw.creates {
			if x.name != name || !x.ok {
				continue
			}
			oks++
			if x.legacy {
				leg++
			}
			if !cw.releasedPossibly(x, math.MaxInt64) {
				live++
			}
		}
		routed := "rej"
		for _, l := range cw.lookups {
			if nm, ok := c19norm(l.host); ok && nm == name && l.found {
				routed = "route"
			}
		}
		if oks > 3 {
			oks = 3
		}
		parts = append(parts, fmt.Sprintf("ok%d.live%d.leg%d.%s", oks, live, leg, routed))
	}
	return cw.mode + "/" + strings.Join(parts, "|")
}

// ---- the oracle -----------------------------------------------------------

func (cw *c19world) judge(nnames int) {
	w := cw.w
	reused := cw.dupIDs()
	if reused {
		w.Probe("history.reused-mapping-ids")
	}
	// sig builds a stable signature; when two successful creates of this run were handed the same
	// mapping id every consequence is filed under that root cause (one class per oracle).
	sig := func(oracle, kind, detail string) string {
		// (legacy-source and case-variant classes have a cause of their own and keep their class)
		independent := strings.Contains(detail, "legacy") || strings.Contains(detail, "case-variant") || strings.Contains(detail, "one-registry")
		// reusing an id overwrites a record but never frees a name's index, so it cannot explain a lost claim either
		if reused && !independent && !strings.HasPrefix(detail, "claim-lost") {
			return "C19:" + oracle + ":" + kind + ":reused-mapping-ids"
		}
		s := "C19:" + oracle + ":" + kind
		if detail != "" {
			s += ":" + detail
		}
		// a fired fault is part of the class, except where the cause is plainly independent of it
		if len(w.Res.Faults) > 0 && !independent {
			s += ":after-storage-fault"
		}
		return s
	}
	tail := strings.Join(tailStr(cw.hist, 45), "\n")
	nontrivial := false
	for _, v := range w.Res.Faults {
		if v > 0 {
			nontrivial = true
		}
	}

	byName := map[string][]*c19create{}
	var names []string
	for _, x := range cw.creates {
		if _, ok := byName[x.name]; !ok {
			names = append(names, x.name)
		}
		byName[x.name] = append(byName[x.name], x)
	}
	sort.Strings(names)

	// overlap of operations of different actors on one name
	type iv struct {
		actor     string
		name      string
		call, ret int64
	}
	var ivs []iv
	for _, x := range cw.creates {
		r := x.ret
		if !x.done {
			r = math.MaxInt64
		}
		ivs = append(ivs, iv{x.actor, x.name, x.call, r})
	}
	idName := map[string]string{}
	for _, x := range cw.creates {
		if x.ok {
			idName[x.id] = x.name
		}
	}
	for _, d := range cw.deletes {
		r := d.ret
		if !d.done {
			r = math.MaxInt64
		}
		ivs = append(ivs, iv{d.actor, idName[d.id], d.call, r})
	}
	for _, l := range cw.lookups {
		if nm, ok := c19norm(l.host); ok && l.done && !strings.Contains(l.actor, "sweep") {
			ivs = append(ivs, iv{l.actor, nm, l.call, l.ret})
		}
	}
overlapScan:
	for i := range ivs {
		for j := i + 1; j < len(ivs); j++ {
			if ivs[i].actor != ivs[j].actor && ivs[i].name != "" && ivs[i].name == ivs[j].name && c19overlap(ivs[i].call, ivs[i].ret, ivs[j].call, ivs[j].ret) {
				nontrivial = true
				w.Probe("history.overlap-on-one-name")
				break overlapScan
			}
		}
	}

	// (1) at most one owner per name
	for _, name := range names {
		xs := byName[name]
		var oks []*c19create
		for _, x := range xs {
			if x.ok {
				oks = append(oks, x)
			}
		}
		sort.Slice(oks, func(i, j int) bool { return oks[i].ret < oks[j].ret })
		for i, x := range oks {
			for _, y := range oks[i+1:] {
				if cw.releasedDefinitely(x, y.call) {
					nontrivial = true
					w.Probe("history.name-changed-hands")
				}
				if cw.releasedPossibly(x, y.ret) || y.retT > x.expLo {
					continue
				}
				class := "sequential"
				if c19overlap(x.call, x.ret, y.call, y.ret) {
					class = "concurrent"
				}
				if !cw.deleteActivity(name, y.ret) {
					// nobody had asked to delete (or clean up) any mapping of this name before the second claim
					// succeeded: the first owner's claim was destroyed by something that is not a delete at all
					// (e.g. a read path with a repairing side effect). Stale or repeated deletes cannot explain it.
					class = "claim-lost-without-any-delete"
				}
				switch {
				case x.legacy && y.legacy && x.node == y.node:
					// (registries are node-local: two legacy owners admitted by two nodes are the known
					// legacy-twice class, but one node's registry must never admit a second owner)
					class = "one-registry-admitted-two-owners"
				case x.legacy && y.legacy:
					class = "legacy-twice"
				case x.legacy:
					class = "repository-claim-over-legacy-owner"
				case y.legacy:
					class = "legacy-claim-over-repository-owner"
				case x.sub != y.sub && x.stored != y.stored:
					// the server itself answered two differently spelled full domains: it keeps the two
					// spellings as two names. When it folds both requests to one stored name the spelling
					// is incidental and the pair is classified like any other (concurrent / sequential).
					class = "case-variant-spellings"
				}
				w.Violationf(sig("owner", "two-owners", class),
					"name %s: create by client %d (id %s, returned at stamp %d) and create by client %d (id %s, returned at stamp %d) both succeeded although the first mapping was neither deleted by its owner nor expired in between\n%s",
					name, x.client, x.id, x.ret, y.client, y.id, y.ret, tail)
			}
		}
	}

	// (2) a positive routing answer names a mapping that may own the name at that time
	for _, l := range cw.lookups {
		if !l.done || !l.found {
			continue
		}
		src := ""
		if strings.HasPrefix(l.id, "pm_") {
			src = "legacy-source"
		}
		name, valid := c19norm(l.host)
		if !valid {
			w.Violationf(sig("route", "host-designates-no-name", src), "Host %q designates no registered name but was routed to client %d %s:%d\n%s", l.host, l.client, l.thost, l.tport, tail)
			continue
		}
		var cands []*c19create
		var same *c19create
		for _, x := range cw.creates {
			if x.client == l.client && x.thost == l.thost && x.tport == l.tport {
				same = x
				if x.name == name && x.call < l.ret && (x.ok || x.indet()) {
					cands = append(cands, x)
				}
			}
		}
		if len(cands) == 0 {
			class, forced := "unknown-target", ""
			switch {
			case same != nil && same.name != name:
				class = "mapping-of-another-name"
				idOfThisName := false
				for _, x := range byName[name] {
					if x.ok && x.id == l.id {
						idOfThisName = true
					}
				}
				if idOfThisName || (same.ok && same.id == l.id) {
					// the name's index holds an id under which another name's mapping is stored: one id was
					// issued to two creates (the other one may have been cut by a crash, so the run-level
					// test above cannot see it)
					forced = "C19:route:mapping-of-another-name:reused-mapping-ids"
				}
			case same != nil && same.name == name && !same.ok:
				class = "refused-create-routes"
			}
			sg := sig("route", class, src)
			if forced != "" {
				sg = forced
			}
			w.Violationf(sg, "node %d routed Host %q (name %s) to client %d %s:%d (mapping %s), which is not a mapping created for that name\n%s",
				l.node+1, l.host, name, l.client, l.thost, l.tport, l.id, tail)
			continue
		}
		okc := false
		reason := ""
		for _, x := range cands {
			switch {
			case cw.releasedDefinitely(x, l.call):
				reason = "after-owner-delete"
			case x.deactOK && x.deactRet < l.call:
				reason = "inactive"
			case l.callT > x.expHi:
				reason = "expired"
			default:
				okc = true
			}
		}
		if okc {
			w.Probe("lookup.routed-to-owner")
			// agreement of the lookup sources: the answer came from a legacy source although an earlier
			// claimant of the name, a repository mapping of someone else, was live throughout: it had been
			// created before this lookup and the very same mapping is routed again by a later lookup.
			// (The legacy mapping is the later claimant: admitting it is the known two-owners defect, but
			// requests must still never reach it while the rightful owner's mapping is there.)
			if src != "" {
				first := cands[0]
				for _, x := range cands {
					if x.call < first.call {
						first = x
					}
				}
				for _, x := range byName[name] {
					if x.legacy || !x.ok || x.ret >= first.call || x.ret >= l.call || (x.client == l.client && x.thost == l.thost && x.tport == l.tport) {
						continue
					}
					for _, l2 := range cw.lookups {
						if l2.done && l2.found && l2.call > l.ret && l2.client == x.client && l2.thost == x.thost && l2.tport == x.tport {
							if nm2, ok2 := c19norm(l2.host); ok2 && nm2 == name {
								sg := sig("sources", "later-legacy-claimant-answered-while-repository-owner-live", "")
								if fr := cw.failedRead(); fr != "" && !reused {
									// which read was lost decides which layer turned an error into "unknown name"
									sg = "C19:sources:later-legacy-claimant-answered-while-repository-owner-live:" + fr
								}
								w.Violationf(sg,
									"node %d routed Host %q (name %s) to the legacy mapping %s of client %d although the repository mapping %s of client %d owned the name first, existed before the lookup and is routed again afterwards (node %d, Host %q)\n%s",
									l.node+1, l.host, name, l.id, l.client, x.id, x.client, l2.node+1, l2.host, tail)
							}
						}
					}
				}
			}
			continue
		}
		w.Violationf(sig("route", reason, src), "node %d routed Host %q (name %s) to client %d %s:%d (mapping %s) although that mapping was %s before the lookup started\n%s",
			l.node+1, l.host, name, l.client, l.thost, l.tport, l.id, reason, tail)
	}
	// lookups against names whose mapping was deleted / deactivated / expired count as interesting
	for _, l := range cw.lookups {
		name, valid := c19norm(l.host)
		if !valid || !l.done {
			continue
		}
		for _, x := range byName[name] {
			if x.ok && x.ret < l.call && (cw.releasedDefinitely(x, l.call) || (x.deactOK && x.deactRet < l.call) || l.callT > x.expHi) {
				nontrivial = true
				w.Probe("lookup.after-release")
				if !l.found {
					w.Probe("lookup.rejected-after-release")
				}
				break
			}
		}
	}

	// (3) only the owner can delete: a fresh, undeleted mapping of another client
	for _, d := range cw.deletes {
		if !d.done || !d.ok || d.legacy {
			continue
		}
		own := false
		var victim *c19create
		for _, x := range cw.creates {
			if x.legacy || x.id != d.id {
				continue
			}
			if x.client == d.client && (x.ok || x.indet()) {
				own = true
			}
			if x.client != d.client && x.ok && x.ret < d.call && !cw.releasedPossibly(x, d.ret) && d.callT-x.retT < time.Minute {
				victim = x
			}
		}
		if !own && victim != nil {
			w.Violationf(sig("delete", "foreign-delete-accepted", ""), "client %d deleted mapping %s of client %d (name %s) and was answered success\n%s", d.client, d.id, victim.client, victim.name, tail)
		}
	}

	// liveness clauses: only in runs without an armed fault
	if cw.faulty {
		if nontrivial {
			w.Nontrivial()
		}
		return
	}
	// (4) a free name is claimable (never owned, or released by its owner's successful delete)
	for _, y := range cw.creates {
		if y.legacy || !y.done || y.ok {
			continue
		}
		justified := false
		prior, overlapping, aged := false, false, false
		for _, x := range byName[y.name] {
			if x == y {
				continue
			}
			if x.ok && x.ret < y.call {
				prior = true
				for _, d := range cw.ownDeletes(x) {
					// classification only: the mapping lived through a long clock jump before its owner deleted it
					if d.done && d.ok && d.callT-x.retT > 30*time.Minute {
						aged = true
					}
				}
			}
			if c19overlap(x.call, x.ret, y.call, y.ret) {
				overlapping = true
			}
			if (x.ok || x.indet()) && x.call < y.ret && !cw.releasedDefinitely(x, y.call) {
				justified = true
			}
		}
		if justified {
			w.Probe("create.refused-name-owned")
			continue
		}
		class := "never-owned"
		if prior {
			class = "after-owner-delete"
			if aged {
				class = "after-owner-delete-of-aged-mapping"
			}
		} else if overlapping {
			class = "concurrent-claims-all-refused"
		}
		w.Violationf(sig("claim", "free-name-refused", class), "create of %s by client %d was refused (%s) although no mapping owned the name: every earlier owner had been deleted by its owner before the call\n%s", y.name, y.client, y.errText, tail)
	}
	// (5) the owner can delete its live mapping
	for _, d := range cw.deletes {
		if !d.done || d.ok || d.legacy {
			continue
		}
		for _, x := range cw.creates {
			if x.legacy || x.id != d.id || x.client != d.client || !x.ok || x.ret > d.call {
				continue
			}
			first := true
			for _, e := range cw.ownDeletes(x) {
				if e != d && e.call < d.ret {
					first = false
				}
			}
			if first && d.callT < x.expLo {
				w.Violationf(sig("delete", "owner-refused", ""), "client %d could not delete its own live mapping %s (%s): %s\n%s", d.client, d.id, x.name, d.errText, tail)
			}
		}
	}
	if nontrivial {
		w.Nontrivial()
	}
}
