#!/usr/bin/env python3
"""Regenerates MANIFEST.json from the table below (claimed properties) and properties.jsonl."""
import json
CLAIMED = {
 # id: (level category, design_ref, text, note, technique)
 "C01": ("exploration", "DESIGN.md §4 C01",
         "Seeded search over packet sequences x transport segmentation laws x writer/reader interleavings with the real StreamProcessor on both ends of a simulated link; oracle is sequence equality with the generator's list plus consumed-byte accounting. Sampling, not proof.",
         "trusts the simnet stream/message Read contracts as models of TCP/QUIC/KCP/WebSocket; bodies up to 16 MiB only in the thorough tier",
         "deterministic simulation: seeded scheduler + simulated transport with segmentation faults, reference-list oracle"),
 "C03": ("exploration", "DESIGN.md §4 C03",
         "Seeded search over handshake histories (first-connect, phase-1/phase-2 with valid, stale, foreign-key, replayed and garbage responses, control/tunnel type, several connections and addresses, bans, blacklisting, credential expiry) against a fully wired real server node on the simulated network and clock; after every reply the server-side authentication state and the by-client lookup are compared with a reference state machine that computes HMACs with the standard library.",
         "bans caused by earlier failures are read from the real protector (C18 judges them); credential expiry is induced by moving the stored ExpiresAt into the past through the real repository",
         "deterministic simulation: wired node on simulated transport/clock, scripted multi-connection protocol histories, reference state machine oracle"),
 "C13": ("exploration", "DESIGN.md §4 C13",
         "Seeded histories of all storage operations with TTLs and simulated clock advances: real memory backend vs a reference map written from the interface contract; real memory vs real Redis backend (miniredis in the bubble over net.Pipe) on the shapes the repositories use; concurrent clients interleaved at statement granularity inside the memory backend, histories checked for linearizability with porcupine.",
         "miniredis stands in for a Redis server (real command semantics incl. Lua); lifetimes chosen by a backend for implicitly created keys are not compared; expiry-boundary instants are never generated",
         "deterministic simulation: seeded scheduler at statement granularity + simulated clock; reference-model and cross-backend differential oracles; porcupine linearizability check"),
}

DS="deterministic simulation: seeded scheduler over instrumented yield points, simulated clock/network/storage with fault injection; "
CLAIMED.update({
 "C06": ("exploration", "DESIGN.md §4 C06",
   "Concurrent activate/revoke/expire histories on one or two connection codes through the real conncode.Service, repositories and PortMappingService on 1-2 nodes over one shared simulated store (memory or Redis); interleavings at storage-operation granularity, sampled single storage-write failures and node crashes between two durable operations; oracle over call results and the final store: at most one successful activation and one mapping per code, only while valid, right target/listener, nothing left after a failed activation.",
   "fault positions are sampled per run, not enumerated from a pilot; tiered backend not used here",
   DS+"storage-operation interleavings + write-failure/crash injection, conservation oracle over results and final store"),
 "C09": ("exploration", "DESIGN.md §4 C09",
   "Real RoutingTable instances on 2-3 nodes over memory / Redis (miniredis) / tiered backends with hostile record fields and waiting periods crossed by the simulated clock (reference table + cross-backend differential), concurrent register/lookup/remove checked with porcupine, and the real startSourceBridge/runBridgeLifecycle/lookupTunnelRouting lifecycle with storage faults and source-node crashes: a waiting tunnel resolves to exactly what was registered from every node and never after it ended or lapsed.",
   "cross-node forwarding over real TCP (TunnelConnectionManager) is not simulated",
   DS+"reference-table, differential and porcupine oracles over register/lookup/remove/expire histories"),
 "C10": ("exploration", "DESIGN.md §4 C10",
   "Frame codec and runBidirectionalForward over simulated links inside the bubble (every encoded frame decodes to itself under every chunking; half-close forwarding delivers everything); FrameStream over a real loopback TCP pair with a harness-owned wire in lock-step outside the bubble (prefix/complete/EOF, foreign and unknown frames, truncation at every offset class); decoder allocation bound on hostile byte strings.",
   "FrameStream/Conn are typed *net.TCPConn, so that half runs on real loopback sockets in lock-step (kernel in the path, no timers in the code); pool and listener accept loop are not exercised",
   DS+"plus lock-step driver over loopback TCP for the *net.TCPConn-typed stream; prefix/completeness oracle"),
 "C12": ("exploration", "DESIGN.md §4 C12",
   "Real iocopy.Bidirectional, iocopy.UDP and client tunnel.Tunnel between simulated application and tunnel endpoints: position-stamped payloads and datagram sequences, all chunkings, every order of half-close/close/reset, tunnel cuts at every class of offset relative to the length-prefixed records (inside prefix, after prefix, inside payload, at boundary), rate-limit transformer, long-lived tunnels on the simulated clock; oracles: prefix/complete delivery both ways, reverse direction survives half-close, datagram boundaries/content/order, the relay returns within a bounded simulated time after the tunnel ended.",
   "real *net.UDPConn / UDPVirtualConn and the sendmmsg batch path are replaced by a message-preserving simulated endpoint",
   DS+"cut-offset fault sampling on the tunnel stream; prefix and bounded-termination oracles"),
 "C14": ("exploration", "DESIGN.md §4 C14",
   "Real hybrid.Storage over gate-controlled tier doubles (node-local cache, shared cache, persistent map) in the topologies the server factory wires, 2-4 clients on 1-2 nodes issuing Set/Get/Delete/Exists and list append/remove per key-prefix category; every tier operation and the asynchronous cache write-back are scheduling points; single tier failures; oracles: per-key register linearizability (no value older than one already overwritten), list membership = appended - removed, placement per category read off the doubles.",
   "the cluster cache is a second memory backend (not Redis); fault position is drawn from the first operations of a run rather than enumerated",
   DS+"tier-operation interleavings incl. async write-back, tier-fault injection; linearizability/list-conservation/placement oracles"),
 "C18": ("exploration", "DESIGN.md §4 C18",
   "Real BruteForceProtector, IPManager (on a simulated store) and RateLimiter with their cleanup tickers and asynchronous unban/removal goroutines on the simulated clock; 2-3 caller tasks replay per-address timelines of failures, successes, gate checks, manual bans, blacklist/whitelist changes and registrations with gaps placed around window/ban/cleanup periods; reference timeline oracle: must-refuse within a ban, forever after the permanent threshold, never below the threshold; blacklisted always refused; admissions bounded by burst + rate*t.",
   "the gate order of ServerAuthHandler.HandleHandshake is re-enacted by the harness on the real components (C03 drives the real handler)",
   DS+"statement-level interleavings with async cleanup paths; reference-timeline oracle"),
 "C20": ("exploration", "DESIGN.md §4 C20",
   "Real socks5.Listener handshake/handleConnection and the SocksAdapter negotiation read from a simulated stream fed by a scripted application: structured and mutated RFC 1928/1929 messages under every segmentation law, pipelined or reply-paced, truncated at a drawn offset then EOF/reset/silence; oracle: an independent reference parser written from the RFC (decision, command, host, port, reply bytes, bytes consumed, trailing bytes intact, verdict timing). The UDP-associate header parse/build differential has no schedule in it and runs as labelled pure input enumeration.",
   "the UDP header half is a pure function of its input (reported as pure_input_runs); the claim rests on the negotiation half",
   DS+"segmentation/truncation faults on the stream; RFC reference-parser differential oracle"),
})

CLAIMED.update({
 "C07": ("exploration", "DESIGN.md §4 C07",
   "A real wired node (SessionManager, client registry, connection lifecycle, stale sweep on its real ticker, BaseAdapter read loops) with an approve-all auth double; 5-25 operations over 2-3 client ids and up to 6 simulated transports (connect, handshake, re-handshake as another id, duplicate login, kick, heartbeat, silence past the heartbeat timeout, server-side close, client EOF, control-connection cap 0-3), sequentially with settled checks after every step or with 2-3 concurrent actors under statement-level interleavings; oracle: every by-client lookup is nil or a registered, authenticated, open connection of that client; closed/evicted transports are returned by no lookup and are really closed; all counts return to zero.",
   "a nil answer for a live client is allowed by the text and not flagged; settled checks are confirmed one simulated second later to avoid observing an eviction in progress",
   DS+"operation histories + concurrent actors; registry well-formedness and conservation oracle"),
 "C15": ("exploration", "DESIGN.md §4 C15",
   "2-3 IDManager/StorageIDGenerator instances and NodeIDAllocator contenders (= nodes) on one shared simulated store in four flavours (memory SetNX, Redis SetNX, tiered, a store without CASStore) with a low-entropy crypto/rand.Reader so that nearly every candidate collides and the retry and exhaustion paths run in every run; concurrent Generate/Release/allocate/heartbeat with storage-operation interleavings, store outages and lease expiry on the simulated clock; oracle: live-interval overlap check on returned ids, pre-existing markers never handed out, exhaustion fails cleanly within its attempt bound.",
   "UUID-based ids (connection/tunnel/instance ids) rest on entropy and are only smoke-checked under the full-entropy reader",
   DS+"collision-amplified randomness seam; live-interval uniqueness oracle"),
 "C16": ("exploration", "DESIGN.md §4 C16",
   "One real component per run (dispose Dispose/ResourceBase/ManagerBase/ResourceManager, StreamProcessor with a blocked reader, memory storage, client tunnel.Tunnel with its manager, server tunnel.Bridge mid-transfer) with counting callbacks; 2-5 closer tasks and the component's own completion paths (peer EOF, idle timeout on the simulated clock, peer notification, context cancellation) interleaved at atomic/lock/statement granularity, then late user operations; oracle: every clean handler, close callback, traffic report and unregister ran exactly once, no task panicked, late operations fail cleanly, and after close nothing the component started is still alive.",
   "SessionManager and hybrid.Storage shutdown are not covered; timers are observed through the goroutines they wake",
   DS+"closer/completion-path interleavings; exactly-once counters, panic and goroutine-leak oracles"),
})

CLAIMED.update({
 "C02": ("exploration", "DESIGN.md §4 C02",
   "A real tunnel.Bridge (3/4 of runs: component level with the default StreamProcessor wiring; 1/4: attached through the wired node's TunnelOpen path) between two simulated ends streaming position-stamped payloads with drawn write/read plans, link segmentation and back-pressure, BandwidthLimit from 1 KiB/s to 10 MiB/s on the simulated clock, target attach before/after Start, graceful or early close/reset/half-close; oracles: per-chunk prefix check in both directions (replayed/skipped/corrupt/extra), completeness when no end closed early, the peer observes closure and the server forgets bridge, routing record and transports within a bound, byte counters, loose pacing bound.",
   "source re-attach, cross-node forwarding and the quota path are not driven; half-close is treated as close",
   DS+"copy-direction/attach/close interleavings; position-stamp prefix, completeness and bounded-closure oracles"),
 "C04": ("exploration", "DESIGN.md §4 C04",
   "A wired real node with listener L, target T, stranger S and a never-authenticated connection U; per run one cell of identity x credential (mapping id, right/wrong secret, foreign mapping, garbage resume token, nothing) x mapping state (active, revoked, expired, inactive, deleted, unknown) x tunnel state at arrival (none, bridge waiting/served, foreign bridge, waiting record of another node, local record without bridge), with a legitimate L/T pair streaming position-stamped bytes as background, store-read faults and a race with the legitimate target; oracle: an entitlement function written from the property text decides per request whether a success ack, an attachment (read off the bridge) or any victim byte on that connection is allowed; refused requests must get a failure ack.",
   "no real second node: the cross-node cell is a waiting record of another node plus an unreachable peer address, so TargetReady is not observed; the cell 'authenticated target with an empty mapping secret' is a deliberate don't-care",
   DS+"cell enumeration by seeded sampling with background victim stream; entitlement-function oracle"),
 "C05": ("exploration", "DESIGN.md §4 C05",
   "Hostile byte streams (random, mutated valid packets, adversarial length fields incl. max±1/2^31/2^32-1, all type/flag bytes, gzip members with extreme expansion, concatenated/truncated members, hostile JSON) fed under every segmentation law, truncated at drawn offsets then EOF/reset/stall, into (a) StreamProcessor.ReadPacket alone, (b) the wired node's real adapter read loop before authentication, (c) SessionManager.HandlePacket on fresh connections; oracles: no panic in any task, the read loop terminates after a finite stream (Read-after-end counter, bounded steps), TotalAlloc per decode/serve stays within 8 x the maximum body size, retention after close.",
   "allocation is measured with runtime.ReadMemStats in a serialised world (exactly one task runs between two scheduler decisions); bombs are capped at 80 MiB inflated (256 MiB thorough) and rare",
   DS+"segmentation/truncation faults; panic, termination and allocation-bound oracles"),
 "C08": ("exploration", "DESIGN.md §4 C08",
   "2-3 wired real nodes over one shared backend in the three shapes the server wires (memory, Redis via miniredis, tiered with local cache + shared Redis + persistent map); one scripted client connects, authenticates, heartbeats every 10-30 s for up to 30 simulated minutes, moves between nodes before/after the old node notices, closes, opens tunnel-type connections, or its node crashes; record lifetimes 30 s / 5 min; single store-write failures; oracle: on every surviving node both indexes (connection-state store FindClientNode and client runtime state) must name the most recent successful control handshake whose connection is still open, and not-connected after the last close.",
   "one client at a time; SendCommandToClient is observed only up to its FindClientNode call (the next step needs the real TCP pool)",
   DS+"multi-node histories with storage-operation interleavings, node crash and store faults; reference-location oracle"),
 "C11": ("exploration", "DESIGN.md §4 C11",
   "A wired real node with every handler set registered; connections U0/U1 (never authenticated), A, B, S send every command type the live registry reports plus the special-cased types (SOCKS5 tunnel request, DNS resolve/query and their responses, traffic report, HTTP proxy response, notifications) with honest or forged identity fields against objects owned by A, by B, shared or nonexistent; handler goroutines, one injected store error and sender-closes-after-send are scheduled; oracle: snapshot diff of the whole store and of every other client's inbox around each command: nothing changes or is delivered for unauthenticated senders, changed or disclosed objects have the sender's connection identity as a party, answers are accepted only from the client they were asked of.",
   "reaching an unrelated authenticated client through DNS forwarding is not flagged (not clearly forbidden by the text); get_base_domains and gen_subdomain are treated as public",
   DS+"command x identity x ownership cells; store/inbox snapshot-diff oracle"),
 "C17": ("exploration", "DESIGN.md §4 C17",
   "Five admission points, one per run: SessionManager.CreateConnection (MaxConnections), ClientRegistry.Register (control cap, evict-oldest), TunnelRegistry.Register (control that stays clean), BaseMappingHandler per-mapping MaxConnections, and the per-client quotas on active codes and mappings over a shared simulated store with 1-2 nodes; limits 0 (unlimited), 1, 2, 3, 10 with occupancy preset to limit-1/-2 and 2-6 racing admissions and releases at map/atomic/statement or storage-operation granularity, single store errors; oracle: a harness-side occupancy counter and the component's own counters never exceed the limit, limit 0 admits everything, a refused request leaves state unchanged.",
   "quotas are exercised on the memory backend only; limit 0 is not drawn for the two store quotas (not documented as unlimited)",
   DS+"racing admissions at the boundary; occupancy-invariant oracle"),
 "C19": ("exploration", "DESIGN.md §4 C19",
   "1-2 nodes each with the real HTTPDomainMappingRepository (memory / hybrid-memory / hybrid-Redis backends), the real create/delete/list command handlers, the legacy DomainRegistry and DomainProxyModule.lookupMapping; 2-4 clients create/delete/look up overlapping names concurrently (same name on different nodes, create-delete-create by someone else, double delete, deactivate, expiry and counter lifetime via clock advance, Host spellings with ports, case, IPv6 literals), single store-write failures and node crashes between index claim and record write; oracle: an interval-based reference owner per name: at most one active reachable mapping per name, lookups return the reference owner's client/target or an error, only the owner's delete succeeds and frees the name, inactive/expired never route.",
   "the management (legacy) create/delete path is re-enacted by the harness on the real registry and repository; any rejected lookup is accepted",
   DS+"storage-operation interleavings, write-failure and crash injection; interval reference-owner oracle"),
})

# Additions made while strengthening the scenarios against seeded defects (appended to the claim text).
ROUND2 = {
 "C01": "Later additions: a third of the runs add a concurrent keep-alive writer on the same processor (oracle: the decoded sequence is a merge of both writers' sequences), a fifth of the small bodies take the rate-limited chunked write path, and a sixth of the runs go through the product's real WebSocket wrappers (adapter.wsServerConn, adapter.wsClientConn, client/transport.WebSocketStreamConn) on a real gorilla/websocket pair over a simulated byte link, with a peer that frames natively or re-frames the byte stream into messages that split headers and coalesce packets.",
 "C02": "Later additions: transports whose Read returns data together with an error (last bytes with EOF, transient timeouts with data), a relay world (1/4 of runs) in which each end is an application behind a real iocopy.Bidirectional client relay with or without half-close support, and slow producers.",
 "C03": "Later additions: phase-2 messages naming an unregistered id answered under a real client's key, and a sixth of the phase-2 messages handled while the node's storage operations fail (an invalid proof must still never be accepted).",
 "C04": "Later additions: a revoke/deactivate/delete racing an in-flight legitimate open (pure interleaving, a failed write of the mapping record, or a stalled store operation) followed by a canary open; every TunnelOpenRequest invitation the server sends to any client is checked against the named mapping's target, grant and secret.",
 "C05": "Later additions: a third of the serve runs use a real WebSocket connection (gorilla pair over the simulated link, real wsServerConn with ping loop and read deadline) carrying split/merged binary messages, text, ping/pong, close and eleven kinds of illegal frame, silent peers, and one giant message whose payload is synthesised inside the server's own Read; a retry-storm oracle (more than 16 failed Reads at one simulated instant without a byte) and transient read timeouts on the plain stream.",
 "C06": "Later additions: 2-4 concurrent code generation requests with a replayable random source (codes pairwise distinct, each stored record still names its requester's target), and a clause that a mapping first written after its code's deadline must not survive.",
 "C07": "Later additions: a login timed to the very sweep instant that finds the connection silent, and a clause that a connection whose latest handshake made it a control connection and which the control registry no longer holds must have its transport closed.",
 "C08": "Later additions: handshake-then-close (three close variants) and handshake-then-failover with no pause after the reply and an optional slow store round trip inside the login.",
 "C09": "Later additions: concurrent rounds that start from lapsed but physically present leftovers (or from still-waiting records), closing sequential lookups, per-round porcupine check from the empty table with the start class in the signature.",
 "C10": "Later additions: another connection's frames decoded between the stream's partial reads (pooled-buffer aliasing in both directions), local readers that return the last bytes together with EOF, per-node traffic counter configurations.",
 "C11": "Later additions: a target client on a congested link so that forged answers arrive while the server is still writing the request, and mappings whose listen or target client is 0 (client id 0 is never a party).",
 "C12": "Later additions: paces of seconds between chunks (beyond any fixed drain timer) with endpoints that expose socket deadlines, and faults on the relay's datagram-side writes (plain error, ECONNREFUSED, ENOBUFS) with a subsequence oracle afterwards.",
 "C13": "Later additions: a second, Redis-flavoured reference (an emptied list is no key) so that a divergence on an emptied list is attributed to that recorded difference only when Redis answers exactly what this reference expects.",
 "C14": "Later additions: keys at the boundaries of the configured prefix families (extended, truncated, separator-less, embedded) and twenty further key families that occur in the code base.",
 "C15": "Later additions: a single slow failing renewal on one holder's store connection and a prober node allocating and releasing every 4-11 s; overlaps are attributed with a per-node log of Delete intervals.",
 "C16": "Later additions: connections attached to a bridge after an earlier Close followed by the lifecycle's last Close (every connection ever handed over is closed exactly once, blocked peers are released), and resource disposals that take simulated time against drawn DisposeWithTimeout timeouts.",
 "C17": "Later additions: admitted mapping connections that end abnormally through the real TunnelManager (peer notification, fatal error, CloseTunnel, racing closers) between registration and start, with a clause that the handler's own count equals the connections really open whenever nothing is in flight.",
 "C19": "Later additions: mappings and clock gaps longer than a month, read faults on the domain index/record, a source-agreement clause (a later legacy claimant must not answer while the repository owner is live), a separate class for two owners admitted by one registry.",
}
for _i, _t in ROUND2.items():
    c = CLAIMED[_i]
    CLAIMED[_i] = (c[0], c[1], c[2] + " " + _t, c[3], c[4])
_c = CLAIMED["C01"]
CLAIMED["C01"] = (_c[0], _c[1], _c[2], "trusts the simnet stream/message Read contracts as models of TCP/QUIC/KCP (WebSocket additionally runs on the real gorilla stack); 16 MiB bodies are rare in the quick tier (a twelfth of the largest size class) and more frequent in thorough", _c[4])


ROUND3 = {
 "C02": "Third round: an end whose transport dies with a permanent, non-temporary time-out error (QUIC idle timeout), and reads that return (0, nil) sprinkled through the transfer by the hundred.",
 "C03": "Third round: a node restart on the same storage (connections gone, client records and permanent blacklist entries survive).",
 "C04": "Third round: requests arriving 7 ms to 2.3 s after a mapping's ExpiresAt on both validation paths, a canary open right after every revoke/deactivate/delete/expiry, and two tenants' source opens carrying the same fresh tunnel id concurrently.",
 "C05": "Third round: a work budget on every connection (bytes moved in bulk by repository code, counted by the instrumenter, must stay linear in the transport bytes) and a cost probe that decodes the same dense shape at n and 8n bytes.",
 "C07": "Third round: TunnelOpen on a (control) connection with an approve-all tunnel handler (the server takes the connection out of the control registry; no lookup may return it after it closes).",
 "C09": "Third round: waiting periods with fractional seconds and lookups aimed at the last fraction of a record's period (and just after it) on every backend.",
 "C10": "Third round: a pooled connection reused by a second tunnel behind the first stream's frames (second consumer: FrameStream or raw ReadFrame), and the real listener handleConnection/handleTargetReady/runBridgeForward path with a real bridge on loopback, idle for 3.5 or 6 s of real time in at most three runs per worker.",
 "C11": "Third round: twin requests (same command, same object, different identities) overlapping inside one storage read, and transports that re-handshake as another registered client before sending further commands.",
 "C13": "Third round: hash operations (with lifetimes) in the Redis differential, attributed through the Redis-flavoured reference, and a third of the concurrent-linearizability runs on the Redis backend (scalar and counter keys).",
 "C15": "Third round: replies lost after the store processed a claim (including a claim on an occupied slot) and requests lost before it, slow claim answers of 3-7 s.",
 "C16": "Third round: every join of closers is bounded in simulated time (a Close that never returns is a violation), and a seventh component: the real client BaseMappingHandler with notifications racing tunnel start-up.",
 "C20": "Third round: sequences of 2-12 datagrams to related destination groups (same DST.ADDR bytes under two address types, prefixes, byte-swapped ports, edge lengths) parsed on ONE relay object and compared with a fresh relay.",
}
for _i, _t in ROUND3.items():
    c = CLAIMED[_i]
    CLAIMED[_i] = (c[0], c[1], c[2] + " " + _t, c[3], c[4])
_c = CLAIMED["C20"]
CLAIMED["C20"] = (_c[0], _c[1], _c[2], "the single-datagram UDP header differential is a pure function of its input (reported as pure_input_runs); the claim rests on the negotiation half and on the datagram-sequence and relay worlds", _c[4])
_c = CLAIMED["C10"]
CLAIMED["C10"] = (_c[0], _c[1], _c[2], _c[3] + "; the loopback half uses real seconds for its two long-idle cases (the only real-time waits in the harness)", _c[4])

props=[json.loads(l) for l in open('/verif/properties.jsonl')]
checks=[]
na=[]
for p in props:
    i=p['id']
    if i in CLAIMED:
        cat,ref,text,note,tech=CLAIMED[i]
        checks.append({
          "property_id": i,
          "quick_cmd": f"./check {i} --tier quick",
          "thorough_cmd": f"./check {i} --tier thorough",
          "evidence_file": f"/verif/evidence/{i}.json",
          "replay_cmd_template": f"./check {i} --replay {{path}}",
          "engine": "detsim",
          "level_claimed": {"category": cat, "text": text, "design_ref": ref},
          "level_note": note,
          "technique": tech,
        })
    else:
        na.append({"property_id": i, "reason": "no check registered yet: the simulation scenario for this property is still being built (see DESIGN.md §7 order of work); not a judgement that the technique cannot apply"})
m={
 "version": 1,
 "setup_cmd": "./setup.sh",
 "hooks": {
   "guard": "verif",
   "enable": "checks copy /repo's working tree to a scratch dir, add /verif/overlay (files tagged //go:build verif), run the AST instrumenter (/verif/go/instr) on the copy and build the harness with -tags verif under go1.26.8; nothing guarded is committed to /repo",
   "baseline_off_cmd": "cd /repo && GOFLAGS=-mod=mod go test -json -vet=off -count=1 -timeout 25m ./...",
   "source_commits": [],
   "add_only": True
 },
 "engines": [{"name": "detsim", "path": "/verif/go", "serves_properties": sorted(CLAIMED), "kind_free_text": "deterministic simulation with fault injection: testing/synctest fake clock, seeded scheduler over AST-inserted yield/lock/go hooks, simulated network and storage, choice-stream replay and minimisation"}],
 "checks": checks,
 "not_applicable": na,
 "notes": "All checks: ./check <ID> --tier quick|thorough [--seed N]; VERIF_SEED is honoured. Exit 0 held / 1 VIOLATION / 2 build or harness trouble. known_findings.json lists recorded and fixed defects."
}
json.dump(m,open('/verif/MANIFEST.json','w'),indent=1)
print("claimed",len(checks),"not_applicable",len(na))
