#!/bin/sh
# Builds everything from files on disk, offline: driver, instrumenter, std under go1.26.8 and the harness for the current /repo tree.
set -e
cd /verif
export GOFLAGS=-mod=mod GOPROXY=off GOSUMDB=off GOTOOLCHAIN=local
GO=/opt/veriftools/go1.26.8/bin/go
mkdir -p bin evidence replays
(cd go/drive && $GO build -o /verif/bin/drive .)
(cd go/instr && $GO build -o /verif/bin/verifinstr .)
./bin/drive --build-only
