package props

import (
	"encoding/json"
	"errors"
	"fmt"
	"runtime"
	"sort"
	"strings"
	"sync"
	"time"

	"github.com/anishathalye/porcupine"

	"tunnox-core/internal/core/storage/hybrid"
	"tunnox-core/internal/core/storage/types"
	"tunnox-core/verifsim/simrt"
	"tunnox-core/verifsim/simstore"
)

// C14 — the tiered store never serves stale data or loses list updates.
//
// World: 1-2 real hybrid.Storage instances ("nodes") over tier doubles whose
// every operation is a scheduling point, a fault point and a log entry:
// a cache tier per node (real memory backend), an optional cluster-wide cache
// tier (a second real memory backend standing in for Redis) and a
// cluster-wide persistent tier (map double). The asynchronous cache
// write-back goroutine of hybrid.Get is an ordinary scheduled task.
//
// Three modes per run: "register" (Set/Get/Delete/Exists on 1-2 keys,
// linearizability per key), "list" (AppendToList/RemoveFromList/GetList with
// unique members, membership oracle) and "aux" (Incr/SetNX/hash/SetExpiration
// tier routing, sequential).

// ---------------------------------------------------------------- tier doubles

type c14ev struct {
	stamp int64
	tier  string // "n1.local", "shared", "persist"
	class string // "cache" | "persist"
	op    string // Set Get Delete Exists Evict
	key   string
	val   string // canonical value written / read
	found bool   // Get/Exists: key present
	err   bool   // the tier returned an error other than not-found
	opid  int64  // call stamp of the facade operation whose own goroutine did this; 0 = a background goroutine (cache fill)
}

type c14log struct {
	w          *simrt.World
	mu         sync.Mutex
	ev         []c14ev
	faultStamp int64               // stamp of the injected tier failure, 0 = none fired
	cur        map[uint64]int64    // goroutine id -> facade operation it is executing
	outs       map[int64][2]string // facade operation -> {kind, what it reported to its caller}
}

func (l *c14log) reported(opid int64, kind, out string) {
	l.mu.Lock()
	if l.outs == nil {
		l.outs = map[int64][2]string{}
	}
	l.outs[opid] = [2]string{kind, out}
	l.mu.Unlock()
}

// c14goid returns the id of the calling goroutine (only used to tell an operation's own tier
// calls from those of goroutines it spawned).
func c14goid() uint64 {
	var buf [64]byte
	n := runtime.Stack(buf[:], false)
	var id uint64
	for _, ch := range buf[10:n] {
		if ch < '0' || ch > '9' {
			break
		}
		id = id*10 + uint64(ch-'0')
	}
	return id
}

func (l *c14log) begin(opid int64) {
	l.mu.Lock()
	if l.cur == nil {
		l.cur = map[uint64]int64{}
	}
	l.cur[c14goid()] = opid
	l.mu.Unlock()
}

func (l *c14log) end() {
	l.mu.Lock()
	delete(l.cur, c14goid())
	l.mu.Unlock()
}

func (l *c14log) add(tier, class, op, key, val string, found bool, err error) {
	l.mu.Lock()
	defer l.mu.Unlock()
	e := c14ev{stamp: l.w.Stamp(), tier: tier, class: class, op: op, key: key, val: val, found: found, opid: l.cur[c14goid()]}
	if err != nil && !errors.Is(err, types.ErrKeyNotFound) {
		e.err = true
		if errors.Is(err, simstore.ErrInjected) && l.faultStamp == 0 {
			l.faultStamp = e.stamp
		}
	}
	l.ev = append(l.ev, e)
}

func (l *c14log) forKey(key string) []string {
	l.mu.Lock()
	defer l.mu.Unlock()
	var out []string
	for _, e := range l.ev {
		if e.key != key {
			continue
		}
		s := fmt.Sprintf("@%d %s.%s", e.stamp, e.tier, e.op)
		switch e.op {
		case "Set":
			s += "(" + e.val + ")"
		case "Get":
			if e.found {
				s += "→" + e.val
			} else {
				s += "→notfound"
			}
		case "Exists":
			s += fmt.Sprintf("→%v", e.found)
		}
		if e.err {
			s += " ERROR"
		}
		out = append(out, s)
	}
	return out
}

func c14canon(v any) string {
	switch x := v.(type) {
	case nil:
		return "<nil>"
	case string:
		if strings.HasPrefix(x, "[") {
			var l []any
			if json.Unmarshal([]byte(x), &l) == nil {
				return c14canon(l) // a list as the serialising tiers hand it back
			}
		}
		return x
	case []any:
		s := make([]string, len(x))
		for i, e := range x {
			s[i] = c14canon(e)
		}
		return "[" + strings.Join(s, ",") + "]"
	default:
		return fmt.Sprint(x)
	}
}

// c14cache is a cache tier: a simstore handle plus logging of the four basic operations.
type c14cache struct {
	*simstore.Store
	lg   *c14log
	tier string
	// serialise: the tier is the Redis stand-in; like the Redis backend it keeps non-string values as
	// JSON text, so nothing it hands out shares memory with what it was given.
	serialise bool
}

func (c *c14cache) Set(k string, v any, ttl time.Duration) error {
	stored := v
	if _, isStr := v.(string); c.serialise && !isStr {
		// the Redis backend stores json.Marshal(value) and hands back the string
		if b, jerr := json.Marshal(v); jerr == nil {
			stored = string(b)
		}
	}
	err := c.Store.Set(k, stored, ttl)
	c.lg.add(c.tier, "cache", "Set", k, c14canon(v), false, err)
	return err
}
func (c *c14cache) Get(k string) (any, error) {
	v, err := c.Store.Get(k)
	c.lg.add(c.tier, "cache", "Get", k, c14canon(v), err == nil, err)
	return v, err
}
func (c *c14cache) Delete(k string) error {
	err := c.Store.Delete(k)
	c.lg.add(c.tier, "cache", "Delete", k, "", false, err)
	return err
}
func (c *c14cache) Exists(k string) (bool, error) {
	b, err := c.Store.Exists(k)
	c.lg.add(c.tier, "cache", "Exists", k, "", b, err)
	return b, err
}

// c14persist is the persistent tier with logging.
type c14persist struct {
	*simstore.Persist
	lg *c14log
	// serialise: the tier keeps a private serialised copy of non-string values (remote gRPC storage,
	// database); otherwise it keeps the very value it was handed (the JSON-file tier keeps it in a map
	// until the next save), so slices are shared with whoever else holds them.
	serialise bool
}

func (p *c14persist) Set(k string, v any) error {
	stored := v
	if _, isStr := v.(string); p.serialise && !isStr {
		if b, jerr := json.Marshal(v); jerr == nil {
			stored = string(b)
		}
	}
	err := p.Persist.Set(k, stored)
	p.lg.add("persist", "persist", "Set", k, c14canon(v), false, err)
	return err
}
func (p *c14persist) Get(k string) (any, error) {
	v, err := p.Persist.Get(k)
	p.lg.add("persist", "persist", "Get", k, c14canon(v), err == nil, err)
	return v, err
}
func (p *c14persist) Delete(k string) error {
	err := p.Persist.Delete(k)
	p.lg.add("persist", "persist", "Delete", k, "", false, err)
	return err
}
func (p *c14persist) Exists(k string) (bool, error) {
	b, err := p.Persist.Exists(k)
	p.lg.add("persist", "persist", "Exists", k, "", b, err)
	return b, err
}

var _ types.CacheStorage = (*c14cache)(nil)
var _ types.PersistentStorage = (*c14persist)(nil)

// ---------------------------------------------------------------- world

type c14node struct {
	idx          int
	name         string
	local        *c14cache     // tier handed to hybrid as "cache"
	localBackend types.Storage // what is behind it
	shared       *c14cache     // tier handed to hybrid as "sharedCache" (nil = none)
	h            *hybrid.Storage
}

type c14env struct {
	w             *simrt.World
	lg            *c14log
	topo          string
	nodes         []*c14node
	sharedBackend types.Storage // cluster-wide cache backend, nil = none
	localIsShared bool          // the "cache" tier of every node is the cluster-wide backend (redis mode)
	persist       *c14persist   // nil = persistence disabled
	faultPlanned  bool
	cfg           *hybrid.Config
	ttlDefault    time.Duration
	ttlPersist    time.Duration
	ttlShared     time.Duration
	closers       []func()
}

var c14cats = []string{"persistent", "sharedpersistent", "shared", "runtime"}

// c14tables: the routing specification = the prefix tables of the configuration in force.
func c14tables(cfg *hybrid.Config) map[string][]string {
	return map[string][]string{
		"persistent":       cfg.PersistentPrefixes,
		"sharedpersistent": cfg.SharedPersistentPrefixes,
		"shared":           cfg.SharedPrefixes,
		"runtime":          hybrid.RuntimePrefixes,
	}
}

// c14categoryOf classifies a key by the tables alone; "" when it matches none or several.
func c14categoryOf(cfg *hybrid.Config, key string) string {
	found := ""
	for _, cat := range []string{"persistent", "sharedpersistent", "shared"} {
		for _, p := range c14tables(cfg)[cat] {
			if strings.HasPrefix(key, p) {
				if found != "" && found != cat {
					return ""
				}
				found = cat
			}
		}
	}
	if found == "" {
		return "runtime"
	}
	return found
}

func c14newCfg(e *c14env) *hybrid.Config {
	cfg := hybrid.DefaultConfig()
	cfg.DefaultCacheTTL = e.ttlDefault
	cfg.PersistentCacheTTL = e.ttlPersist
	cfg.SharedCacheTTL = e.ttlShared
	cfg.EnablePersistent = e.persist != nil
	return cfg
}

// c14build draws the topology and builds the nodes.
func c14build(w *simrt.World, wantNodes int, faults bool) *c14env {
	c := w.C
	e := &c14env{w: w, lg: &c14log{w: w}}
	def := hybrid.DefaultConfig()
	e.ttlDefault = []time.Duration{def.DefaultCacheTTL, 10 * time.Minute}[c.Intn(2, "ttl.default")]
	e.ttlPersist = []time.Duration{def.PersistentCacheTTL, 5 * time.Minute, 200 * time.Millisecond}[c.Intn(3, "ttl.persist")]
	e.ttlShared = []time.Duration{def.SharedCacheTTL, 3 * time.Minute, 200 * time.Millisecond}[c.Intn(3, "ttl.shared")]
	topo := c.Intn(4, "topo")
	persistOn := true
	nn := 1
	switch topo {
	case 0: // one process: memory cache + local persistent file
		e.topo = "standalone"
		persistOn = c.Intn(4, "persist.off") != 3
	case 1, 3: // cluster with remote storage: node-local memory cache + cluster cache + cluster persistent
		e.topo = "cluster-localcache"
		nn = 1 + c.Intn(2, "nodes")
	case 2: // cluster in redis mode: the cluster cache is also every node's "cache"
		e.topo = "cluster-sharedcache"
		nn = 1 + c.Intn(2, "nodes")
		persistOn = c.Intn(3, "persist.off") != 2
		e.localIsShared = true
	}
	if wantNodes > nn && e.topo != "standalone" {
		nn = wantNodes
	}
	if persistOn {
		e.persist = &c14persist{Persist: simstore.NewPersist(w, "db"), lg: e.lg, serialise: c.Intn(2, "persist.serialises") == 1 || e.topo != "standalone"}
		if e.persist.serialise {
			w.Probe("persist.serialising")
		} else {
			w.Probe("persist.keeps-reference")
		}
	}
	if e.topo != "standalone" {
		m := simstore.NewMemory(w)
		e.sharedBackend = m
		e.closers = append(e.closers, func() { m.Close() })
	}
	for i := 0; i < nn; i++ {
		n := &c14node{idx: i, name: fmt.Sprintf("n%d", i+1)}
		if e.sharedBackend != nil {
			n.shared = &c14cache{Store: simstore.New(w, n.name+".shared", e.sharedBackend), lg: e.lg, tier: n.name + ".shared", serialise: true}
		}
		if e.localIsShared {
			n.local = n.shared
			n.localBackend = e.sharedBackend
		} else {
			m := simstore.NewMemory(w)
			e.closers = append(e.closers, func() { m.Close() })
			n.localBackend = m
			n.local = &c14cache{Store: simstore.New(w, n.name+".local", m), lg: e.lg, tier: n.name + ".local"}
		}
		cfg := c14newCfg(e)
		var sc types.CacheStorage
		if n.shared != nil {
			sc = n.shared
		}
		var ps types.PersistentStorage
		if e.persist != nil {
			ps = e.persist
		}
		n.h = hybrid.NewWithSharedCache(w.Ctx, n.local, sc, ps, cfg)
		e.nodes = append(e.nodes, n)
	}
	e.cfg = c14newCfg(e)
	// single tier failure: one operation of one tier handle fails
	if faults && c.Intn(3, "fault.on") == 2 {
		var tiers []string
		for _, n := range e.nodes {
			if !e.localIsShared {
				tiers = append(tiers, n.name+".local")
			}
			if n.shared != nil {
				tiers = append(tiers, n.name+".shared")
			}
		}
		if e.persist != nil {
			tiers = append(tiers, "persist")
		}
		e.faultPlanned = true
		t := tiers[c.Intn(len(tiers), "fault.tier")]
		k := 1 + c.Biased(14, "fault.k")
		if t == "persist" {
			e.persist.FailAt = k
		} else {
			for _, n := range e.nodes {
				if n.local.tier == t {
					n.local.FailAt = k
				} else if n.shared != nil && n.shared.tier == t {
					n.shared.FailAt = k
				}
			}
		}
		w.Probe("fault.planned." + strings.TrimLeft(t, "n12."))
	}
	w.Probe("topo." + e.topo)
	return e
}

func (e *c14env) close() {
	for _, n := range e.nodes {
		n.h.Close()
	}
	for _, f := range e.closers {
		f()
	}
}

// backed: the category keeps its data in the persistent tier (the caches are only caches).
func (e *c14env) backed(cat string) bool {
	return e.persist != nil && (cat == "persistent" || cat == "sharedpersistent")
}

// clusterWide: every node must see the key.
func (e *c14env) clusterWide(cat string) bool {
	switch cat {
	case "runtime":
		return e.localIsShared // redis mode: even runtime keys live in the cluster cache
	case "persistent":
		return e.persist != nil || e.localIsShared
	default:
		return e.sharedBackend != nil
	}
}

// cacheIsNodeLocal: the cache tier used for this category is private to a node.
func (e *c14env) cacheIsNodeLocal(cat string) bool {
	if e.localIsShared || len(e.nodes) < 2 {
		return false
	}
	return cat == "persistent" || cat == "runtime"
}

// evictable: the cache tier holding the key is the cluster cache (Redis), which may drop any key at any time, and the data is backed.
func (e *c14env) evictable(cat string) bool {
	if !e.backed(cat) || e.sharedBackend == nil {
		return false
	}
	return cat == "sharedpersistent" || e.localIsShared
}

func (e *c14env) evict(key string) {
	e.w.Yield("c14.evict")
	e.sharedBackend.Delete(key)
	e.lg.add("shared", "cache", "Evict", key, "", false, nil)
}

func (e *c14env) maxTTL() time.Duration {
	m := e.ttlDefault
	if e.ttlPersist > m {
		m = e.ttlPersist
	}
	if e.ttlShared > m {
		m = e.ttlShared
	}
	return m
}

// lateWriteback: the tier log shows a cache fill with a value that had been read from the persistent tier
// while a different write to the same key happened in between (the asynchronous write-back landed late).
func (e *c14env) lateWriteback(key, val string, before int64) bool {
	e.lg.mu.Lock()
	defer e.lg.mu.Unlock()
	ev := e.lg.ev
	for i := range ev {
		if ev[i].key != key || ev[i].class != "persist" || ev[i].op != "Get" || !ev[i].found {
			continue
		}
		x := ev[i].val
		if val != "" && x != val {
			continue
		}
		// the fill of the cache with x is unordered against a concurrent Delete / different Set: the
		// overwriting half of that write may come before the fill (stale value re-installed after the
		// write returned) or after it (the fill lands between the cache half and the persistent half
		// of the write)
		inter, fill := false, false
		for j := i + 1; j < len(ev) && ev[j].stamp < before; j++ {
			if ev[j].key != key || ev[j].err {
				continue
			}
			if ev[j].op == "Delete" || (ev[j].op == "Set" && ev[j].val != x) {
				inter = true
			}
			if ev[j].class == "cache" && ev[j].op == "Set" && ev[j].val == x {
				fill = true
			}
		}
		if inter && fill {
			return true
		}
	}
	return false
}

// c14mechanisms lists, in order of precedence, the known mechanisms that the tier-operation log shows
// for key before stamp T (the instant the history of the register became non-linearizable):
//
//	late-writeback        a cache fill from the persistent tier (a cache Set done by a background goroutine)
//	                      raced a write: a different Set/Delete reached a tier between the fill's source read
//	                      and the fill, or the fill landed between the two tier halves of such a write;
//	                      and the filled value was afterwards served from that cache
//	other-node-cache      the key's cache is private to a node and an operation on another node wrote the key
//	<fault class>         the injected tier failure fired on this key
//	concurrent-writes     two writes reached the persistent tier and the cache tier in opposite orders
//	persistent-tier-ahead-of-cache-during-set
//	                      a read fell through to the persistent tier and saw the value of a Set whose
//	                      cache half had not happened yet, and after that the cache still served the previous value
//	cache-ttl-expiry      a cache entry disappeared without a Delete (expired) inside the window
//
// staleVal, when known, restricts late-writeback to fills carrying that value. rnode is the node of the
// read that completed the anomaly.
func (e *c14env) c14mechanisms(key, cat string, hs []c14h, T int64, staleVal string, rnode int) []string {
	e.lg.mu.Lock()
	var ev []c14ev
	for _, x := range e.lg.ev {
		if x.key == key && x.stamp < T {
			ev = append(ev, x)
		}
	}
	e.lg.mu.Unlock()
	var out []string
	valOf := map[int64]string{} // client write op -> value it writes ("" = delete)
	isWrite := map[int64]bool{}
	for i := range hs {
		if hs[i].op.Kind == "Set" || hs[i].op.Kind == "Delete" {
			isWrite[hs[i].call] = hs[i].client != "seed"
			valOf[hs[i].call] = hs[i].op.Val
		}
	}
	// late-writeback
	// handles of the cluster cache share one backend; a private cache is its own tier
	ctier := func(t string) string {
		if strings.HasSuffix(t, ".local") {
			return t
		}
		return "shared"
	}
	lateFor := func(only string) bool {
		late := false
		for fi, f := range ev {
			if f.class != "cache" || f.op != "Set" || f.opid != 0 || f.err || (only != "" && f.val != only) {
				continue
			}
			// the filled value must have been served from that cache afterwards, else the fill is harmless
			served := false
			for _, h := range ev[fi+1:] {
				if h.class != "cache" || h.err || ctier(h.tier) != ctier(f.tier) {
					continue
				}
				if (h.op == "Set" && h.val != f.val) || h.op == "Delete" || h.op == "Evict" {
					break // replaced before anybody read it
				}
				if (h.op == "Get" && h.found && h.val == f.val) || (h.op == "Exists" && h.found) {
					served = true
					break
				}
			}
			if !served {
				continue
			}
			var src int64
			for _, g := range ev[:fi] {
				if g.class == "persist" && g.op == "Get" && g.found && g.val == f.val {
					src = g.stamp
				}
			}
			span := map[int64][2]int64{} // write op -> first/last tier event
			for _, x := range ev {
				if !isWrite[x.opid] || valOf[x.opid] == f.val || x.err {
					continue
				}
				if x.op != "Set" && x.op != "Delete" {
					continue
				}
				if x.stamp > src && x.stamp < f.stamp {
					late = true // a different write reached a tier between the fill's source read and the fill
				}
				sp, ok := span[x.opid]
				if !ok {
					sp = [2]int64{x.stamp, x.stamp}
				}
				if x.stamp < sp[0] {
					sp[0] = x.stamp
				}
				if x.stamp > sp[1] {
					sp[1] = x.stamp
				}
				span[x.opid] = sp
			}
			for _, sp := range span {
				if sp[0] < f.stamp && f.stamp < sp[1] {
					late = true // the fill landed between the tier halves of a different write
				}
			}
		}
		return late
	}
	_ = staleVal
	if lateFor("") {
		out = append(out, "late-writeback")
	}
	// a write that told its caller it had succeeded although one of its tier operations failed outranks
	// the topology-level explanation below; other outcomes of the fault keep their place after it
	fc := ""
	if e.faultHit(key, T) {
		fc = e.faultClass()
		if strings.HasSuffix(fc, ":reported-success") || fc == "cache-write-error-swallowed" {
			out = append(out, fc)
			fc = ""
		}
	}
	// other-node-cache
	if e.cacheIsNodeLocal(cat) {
		_ = rnode
		foreign := false
		for i := range hs {
			if !c14isWrite(hs[i].op.Kind) || hs[i].client == "seed" || hs[i].call >= T {
				continue
			}
			for j := range hs {
				if hs[j].client != "seed" && hs[j].call < T && hs[j].op.Node != hs[i].op.Node {
					foreign = true // a node other than the writer's took part: its private cache is not told
				}
			}
		}
		if foreign {
			out = append(out, "other-node-cache")
		}
	}
	// injected fault
	if fc != "" {
		out = append(out, fc)
	}
	// concurrent-writes: per write op the stamp at which it reached the persistent tier and its cache tier
	type reach struct {
		p, c  int64
		ctier string
	}
	rs := map[int64]*reach{}
	var ids []int64
	for _, x := range ev {
		if !isWrite[x.opid] || x.err || (x.op != "Set" && x.op != "Delete") {
			continue
		}
		r := rs[x.opid]
		if r == nil {
			r = &reach{}
			rs[x.opid] = r
			ids = append(ids, x.opid)
		}
		if x.class == "persist" {
			r.p = x.stamp
		} else {
			r.c, r.ctier = x.stamp, x.tier
		}
	}
	crossed := false
	for i, a := range ids {
		for _, b := range ids[i+1:] {
			ra, rb := rs[a], rs[b]
			if ra.p == 0 || rb.p == 0 || ra.c == 0 || rb.c == 0 {
				continue
			}
			if e.cacheIsNodeLocal(cat) && ra.ctier != rb.ctier {
				continue // different private caches: that is other-node-cache
			}
			if (ra.p < rb.p) != (ra.c < rb.c) {
				crossed = true
			}
		}
	}
	if crossed {
		out = append(out, "concurrent-writes")
	}
	// persistent-tier-ahead-of-cache-during-set
	ahead := false
	for _, id := range ids {
		r := rs[id]
		if r.p == 0 || valOf[id] == "" {
			continue
		}
		for _, g := range ev {
			if !(g.class == "persist" && g.op == "Get" && g.found && g.val == valOf[id] && g.opid != id && g.stamp > r.p && (r.c == 0 || g.stamp < r.c)) {
				continue
			}
			// ... and after that, still before the Set's cache half, the cache served the previous value
			for _, h := range ev {
				if h.class == "cache" && h.op == "Get" && h.found && h.val != valOf[id] && h.stamp > g.stamp && (r.c == 0 || h.stamp < r.c) {
					ahead = true
				}
			}
		}
	}
	if ahead {
		out = append(out, "persistent-tier-ahead-of-cache-during-set")
	}
	// cache-ttl-expiry
	last := map[string]string{} // cache tier -> last effective mutation
	expired := false
	for _, x := range ev {
		if x.class != "cache" || x.err {
			continue
		}
		switch x.op {
		case "Set", "Delete", "Evict":
			last[ctier(x.tier)] = x.op
		case "Get", "Exists":
			if !x.found && last[ctier(x.tier)] == "Set" {
				expired = true
			}
		}
	}
	if expired {
		// an expiry only reveals that the tiers disagree; it is named when nothing explains why they do
		out = append(out, "cache-ttl-expiry")
	}
	return out
}

// c14anomalyStamp returns the return stamp of the operation that makes the register history
// non-linearizable: the smallest T such that the operations invoked up to T (those not returned by
// T count as pending: writes may still take effect, reads are dropped) cannot be linearized.
func c14anomalyStamp(hs []c14h) (int64, *c14h) {
	var rets []int64
	var maxStamp int64
	for _, h := range hs {
		if h.out != "err" {
			rets = append(rets, h.ret)
		}
		if h.ret > maxStamp {
			maxStamp = h.ret
		}
	}
	sort.Slice(rets, func(i, j int) bool { return rets[i] < rets[j] })
	for _, T := range rets {
		var ops []porcupine.Operation
		var at *c14h
		for i := range hs {
			h := &hs[i]
			if h.call > T {
				continue
			}
			pending := h.ret > T || h.out == "err"
			if pending && !c14isWrite(h.op.Kind) {
				continue
			}
			ret := h.ret
			if pending {
				ret = maxStamp + 1 + int64(i)
			}
			if h.ret == T {
				at = h
			}
			ops = append(ops, porcupine.Operation{ClientId: i, Input: h.op, Call: h.call, Output: h.out, Return: ret})
		}
		if !porcupine.CheckOperations(c14RegModel(), ops) {
			return T, at
		}
	}
	return maxStamp + 1, nil
}

// faultClass names the injected failure that fired: which tier class and which operation.
func (e *c14env) faultClass() string {
	e.lg.mu.Lock()
	defer e.lg.mu.Unlock()
	for _, ev := range e.lg.ev {
		if ev.stamp != e.lg.faultStamp {
			continue
		}
		// what the facade operation during which the tier failed told its caller is part of the class:
		// a failure that was reported leaves the caller knowing the operation may not have happened; one
		// that was answered as if nothing had failed does not
		outcome := "in-background-fill"
		if ko, ok := e.lg.outs[ev.opid]; ok {
			outcome = "reported-success"
			if ko[1] == "err" {
				outcome = "reported-error"
			}
		} else if ev.opid != 0 {
			outcome = "outside-facade-operation"
		}
		if ko, ok := e.lg.outs[ev.opid]; ok && outcome == "reported-success" && (ko[0] == "Get" || ko[0] == "Exists" || ko[0] == "GetList") &&
			ko[1] != "notfound" && ko[1] != "false" && ko[1] != "l:[]" {
			outcome = "answered-from-other-tier" // a read that still produced a value: nothing was masked
		}
		ko := e.lg.outs[ev.opid]
		isRead := ko[0] == "Get" || ko[0] == "Exists" || ko[0] == "GetList"
		switch {
		case ev.class == "cache" && (ev.op == "Get" || ev.op == "Exists") && outcome == "reported-success" && isRead:
			// the read answered not-found / false / empty although the cache read had failed
			return "cache-read-error-masked-as-absent:" + ev.op
		case ev.class == "cache" && ev.op == "Set" && outcome == "reported-success":
			return "cache-write-error-swallowed"
		}
		return "tier-fault-" + ev.class + "-" + ev.op + ":" + outcome
	}
	return "tier-fault"
}

// faultHit: the injected failure fired on this key before the given stamp.
func (e *c14env) faultHit(key string, before int64) bool {
	e.lg.mu.Lock()
	defer e.lg.mu.Unlock()
	if e.lg.faultStamp == 0 || e.lg.faultStamp >= before {
		return false
	}
	for _, ev := range e.lg.ev {
		if ev.stamp == e.lg.faultStamp {
			return ev.key == key
		}
	}
	return false
}

// fillBetween: some cache tier was filled with val for key at a stamp in (after, before).
func (e *c14env) fillBetween(key, val string, after, before int64) bool {
	e.lg.mu.Lock()
	defer e.lg.mu.Unlock()
	for _, ev := range e.lg.ev {
		if ev.key == key && ev.class == "cache" && ev.op == "Set" && !ev.err && ev.val == val && ev.stamp > after && ev.stamp < before {
			return true
		}
	}
	return false
}

// writebacks counts cache fills that follow a persistent-tier hit with the same value.
func (e *c14env) writebacks() int {
	e.lg.mu.Lock()
	defer e.lg.mu.Unlock()
	n := 0
	ev := e.lg.ev
	for i := range ev {
		if ev[i].class != "persist" || ev[i].op != "Get" || !ev[i].found {
			continue
		}
		for j := i + 1; j < len(ev); j++ {
			if ev[j].key == ev[i].key && ev[j].class == "cache" && ev[j].op == "Set" && ev[j].val == ev[i].val {
				n++
				break
			}
		}
	}
	return n
}

type c14key struct {
	key string
	cat string
}

// Key families that occur in the code base (constants and repositories) besides the configured ones. Many
// of their names extend or resemble a configured family name (tunnox:mapping_connections: vs
// tunnox:mapping:, tunnox:nodes:list vs tunnox:node:). Their class is whatever the prefix tables say.
var c14RealFamilies = []string{"tunnox:mapping_connections:", "tunnox:client_connections:", "tunnox:clients:list", "tunnox:nodes:list",
	"tunnox:users:list", "tunnox:user_clients:", "tunnox:http_domain:mappings:list", "tunnox:index:user:clients:", "tunnox:index:client:mappings:",
	"tunnox:persist:node:", "tunnox:persist:user:", "tunnox:persist:users:list", "tunnox:security:ip:blacklist:", "tunnox:auth:", "tunnox:cleanup:",
	"tunnox:connection:", "tunnox:health:check", "tunnox:runtime:node:clients:", "tunnox:runtime:session:", "tunnox:temp:authcode:code:"}

// c14boundaryKey derives from a configured prefix a key at the boundary of the family: its name extends
// the family name without being a segment of it (with or without a separator of its own), is a
// truncation of it, or carries it in the middle.
func c14boundaryKey(p string, variant int, suffix string) string {
	stem := strings.TrimSuffix(p, ":")
	switch variant {
	case 1:
		return stem + "_connections:" + suffix
	case 2:
		return stem + "s:" + suffix
	case 3:
		return stem + suffix
	case 4:
		return "zz:" + p + suffix
	case 5:
		if len(stem) > 1 {
			return stem[:len(stem)-1] + ":" + suffix
		}
	}
	return p + suffix
}

// c14drawKey draws one key for (preferably) category cat: mostly a key inside a configured family of
// that category, sometimes a boundary key derived from such a family or a key of another real family.
// The category returned is the one the prefix tables give the key (plain string-prefix membership).
func c14drawKey(e *c14env, cat, label, suffix string) c14key {
	c := e.w.C
	tab := c14tables(e.cfg)[cat]
	p := tab[c.Intn(len(tab), label+".prefix")]
	key := p + suffix
	variant := 0
	switch c.Intn(10, label+".variant") {
	case 7:
		variant = 1 + c.Intn(2, label+".boundary")
		key = c14boundaryKey(p, variant, suffix)
	case 8:
		variant = 3 + c.Intn(3, label+".boundary")
		key = c14boundaryKey(p, variant, suffix)
	case 9:
		variant = 6
		key = c14RealFamilies[c.Intn(len(c14RealFamilies), label+".real")] + suffix
	}
	got := c14categoryOf(e.cfg, key)
	if got == "" || (variant == 0 && got != cat) {
		e.w.Probe("ambiguous-prefix")
		variant = 0
		key = tab[0] + suffix
		got = cat
	}
	if variant != 0 {
		e.w.Probe(fmt.Sprintf("key.boundary-variant.%d", variant))
		if got != cat {
			e.w.Probe("key.boundary-outside-family." + cat + "-to-" + got)
		}
	}
	return c14key{key: key, cat: got}
}

// c14pickKeys draws n keys, by preference of distinct categories.
func c14pickKeys(e *c14env, n int, label string) []c14key {
	c := e.w.C
	var out []c14key
	base := c.Intn(len(c14cats), label+".cat")
	for i := 0; i < n; i++ {
		cat := c14cats[(base+i)%len(c14cats)]
		k := c14drawKey(e, cat, label, "x"+fmt.Sprint(i+1))
		out = append(out, k)
	}
	return out
}

// ---------------------------------------------------------------- history

type c14op struct {
	Kind string // Set Get Delete Exists Append Remove GetList Evict Nap
	Key  string
	Cat  string
	Reg  string // register identity (key, or node|key for node-local categories)
	Val  string
	TTL  time.Duration
	Node int
}

func (o c14op) String() string {
	s := fmt.Sprintf("n%d.%s(%s", o.Node+1, o.Kind, o.Key)
	switch o.Kind {
	case "Set":
		s += fmt.Sprintf(",%s,ttl=%v", o.Val, o.TTL)
	case "Append", "Remove":
		s += "," + o.Val
	}
	return s + ")"
}

type c14h struct {
	client string
	op     c14op
	call   int64
	ret    int64
	out    string // ok | err | notfound | v:<x> | true | false | l:[...]
	list   []string
	raw    []any // the very slice GetList handed to the caller
}

func (h c14h) String() string {
	return fmt.Sprintf("%-6s [%d,%d] %s → %s", h.client, h.call, h.ret, h.op, h.out)
}

func (e *c14env) regOf(cat, key string, node int) string {
	if !e.clusterWide(cat) && len(e.nodes) > 1 {
		return fmt.Sprintf("n%d|%s", node+1, key)
	}
	return key
}

// exec performs one facade operation and returns its history record.
func (e *c14env) exec(client string, o c14op) c14h {
	w := e.w
	h := e.nodes[o.Node].h
	w.Yield("c14.invoke")
	rec := c14h{client: client, op: o, call: w.Stamp()}
	e.lg.begin(rec.call)
	defer e.lg.end()
	switch o.Kind {
	case "Set":
		if err := h.Set(o.Key, o.Val, o.TTL); err != nil {
			rec.out = "err"
		} else {
			rec.out = "ok"
		}
	case "Delete":
		if err := h.Delete(o.Key); err != nil {
			rec.out = "err"
		} else {
			rec.out = "ok"
		}
	case "Get":
		v, err := h.Get(o.Key)
		switch {
		case err == nil:
			rec.out = "v:" + c14canon(v)
		case errors.Is(err, types.ErrKeyNotFound):
			rec.out = "notfound"
		default:
			rec.out = "err"
		}
	case "Exists":
		b, err := h.Exists(o.Key)
		if err != nil {
			rec.out = "err"
		} else {
			rec.out = fmt.Sprint(b)
		}
	case "Append":
		if err := h.AppendToList(o.Key, o.Val); err != nil {
			rec.out = "err"
		} else {
			rec.out = "ok"
		}
	case "Remove":
		err := h.RemoveFromList(o.Key, o.Val)
		switch {
		case err == nil:
			rec.out = "ok"
		case errors.Is(err, types.ErrKeyNotFound):
			rec.out = "notfound"
		default:
			rec.out = "err"
		}
	case "GetList":
		l, err := h.GetList(o.Key)
		switch {
		case err == nil || errors.Is(err, types.ErrKeyNotFound):
			rec.raw = l
			for _, m := range l {
				rec.list = append(rec.list, c14canon(m))
			}
			rec.out = "l:[" + strings.Join(rec.list, ",") + "]"
		default:
			rec.out = "err"
		}
	case "Evict":
		e.evict(o.Key)
		rec.out = "-"
	case "Nap":
		w.Sleep(331 * time.Millisecond)
		rec.out = "-"
	}
	e.lg.reported(rec.call, o.Kind, rec.out)
	w.Yield("c14.return")
	rec.ret = w.Stamp()
	return rec
}

// ---------------------------------------------------------------- scenario

func init() {
	Register(&Scenario{
		ID:    "C14",
		Level: "exploration",
		Rule: "each run draws a topology (standalone: memory cache + persistent; cluster with node-local caches + cluster cache + cluster persistent; cluster whose cluster cache is also every node's cache; persistence on/off; 1-2 nodes; cache TTLs), " +
			"optionally one failing tier operation (tier and position drawn; in such runs the clients take turns so that only the write-back goroutine is concurrent), 1-2 keys (category drawn; 7 in 10 inside a family of the prefix tables of DefaultConfig()/RuntimePrefixes, else a boundary key derived from such a family - family name extended without a segment boundary, truncated, embedded - or a key of another family that occurs in the code base; the expected category of every key is plain string-prefix membership in the tables), an initial state (absent / only in the persistent tier as after a restart / written through the facade) and a mode: " +
			"register (2-4 clients x 2-6 of Set(unique value)/Get/Delete/Exists, Redis-style eviction of backed keys, naps across short cache TTLs; tail reads on every node after quiescence and again after all cache TTLs), " +
			"list (AppendToList(unique member)/RemoveFromList(own member)/GetList; members present, absent, not duplicated at every read, and every returned list re-inspected at the end of the run), aux (Incr/SetNX/SetHash/SetExpiration on node A, observed from node B). " +
			"Every tier operation and the asynchronous write-back are scheduling points. Non-trivial: two client operations on one register overlapped with at least one being a write, or a write-back was launched, or the injected tier failure fired, or a key written on one node was read on the other (aux: always when 2 nodes). distinct = distinct schedule hashes among those.",
		Real: []string{"internal/core/storage/hybrid Storage (Set/Get/Delete/Exists/SetList/GetList/AppendToList/RemoveFromList/Incr/SetNX/SetHash/GetHash/SetExpiration, category routing, write-back goroutine)", "hybrid.DefaultConfig prefix tables", "internal/core/storage/memory as cache backends"},
		Stub: []string{"persistent tier: simstore.Persist map double shared by the nodes; in cluster topologies (remote gRPC storage) it keeps a serialised private copy of every non-string value, in the standalone topology it is drawn whether it does or keeps the very value it was handed (the JSON-file tier holds it in a map until the next save)", "Redis cluster cache: second memory backend with one handle per node that, like the Redis backend, stores non-string values as JSON text and hands back the string", "process restart: key pre-seeded in the persistent tier with cold caches"},
		Assumptions: []string{
			"the persistent tier and the cluster cache are each linearizable on their own",
			"a Redis cluster cache may drop any key at any time (maxmemory eviction/restart); node-local memory caches only lose keys by TTL",
			"an operation that returned an error may or may not have taken effect",
			"runtime-category keys are per node: each node is its own register",
			"GetList of a missing key may answer not-found or an empty list",
			"list members are appended exactly once (unique): a read that shows a member twice shows a value nobody wrote",
			"the list a GetList handed to its caller is that read's answer and is re-inspected at the end of the run: it must still read the same",
			"instants exactly on a TTL boundary are never generated (naps are multiples of 331ms, TTLs are not)",
			"a key belongs to a configured family iff the configured prefix string, exactly as written in the table, is a prefix of the key; every other key is runtime",
			"the tier class of the key families listed in c14ClusterFamilies/c14DurableFamilies/c14VolatileFamilies is part of the specification (pinned from config.go's documentation of what each family is for); all other prefixes are taken from DefaultConfig() at run time",
		},
		Opt: func(tier string) simrt.Options { return simrt.Options{MaxSteps: 400000} },
		Run: c14Run,
	})
}

// Key families whose tier class the rest of the code base depends on (cross-node lookups by
// session/route/conn-code/domain code, durable configuration, secrets that must stay in memory).
// They pin the routing specification independently of the prefix tables, so that an edit of the
// tables that moves a family to another class is noticed.
var c14ClusterFamilies = []string{"tunnox:conn_state:", "tunnox:client_conn:", "tunnox:tunnel_waiting:", "tunnox:node:", "tunnox:runtime:conncode:",
	"tunnox:index:conncode:target:", "tunnox:id:", "tunnox:runtime:client:state:", "tunnox:http_domain:index:", "tunnox:http_domain:next_id",
	"tunnox:client_mappings:", "tunnox:port_mapping:", "tunnox:http_domain:mapping:", "tunnox:http_domain:client:"}
var c14DurableFamilies = []string{"tunnox:user:", "tunnox:persist:client:config:", "tunnox:persist:mapping:", "tunnox:client_mappings:", "tunnox:port_mapping:", "tunnox:http_domain:mapping:"}
var c14VolatileFamilies = []string{"tunnox:session:", "tunnox:jwt:", "tunnox:route:", "tunnox:temp:", "tunnox:conn_state:", "tunnox:tunnel_waiting:", "tunnox:runtime:conncode:"}

func c14Routing(w *simrt.World) {
	cfg := hybrid.DefaultConfig()
	for _, f := range c14ClusterFamilies {
		if cat := c14categoryOf(cfg, f+"1"); cat != "shared" && cat != "sharedpersistent" {
			w.Violationf("C14:routing:cluster-key-family-not-shared", "keys %s* are looked up across nodes but the default prefix tables class them as %q", f, cat)
		}
	}
	for _, f := range c14DurableFamilies {
		if cat := c14categoryOf(cfg, f+"1"); cat != "persistent" && cat != "sharedpersistent" {
			w.Violationf("C14:routing:durable-key-family-not-persistent", "keys %s* hold durable configuration but the default prefix tables class them as %q", f, cat)
		}
	}
	for _, f := range c14VolatileFamilies {
		if cat := c14categoryOf(cfg, f+"1"); cat != "runtime" && cat != "shared" {
			w.Violationf("C14:routing:volatile-key-family-persisted", "keys %s* are runtime-only but the default prefix tables class them as %q", f, cat)
		}
	}
}

func c14Run(w *simrt.World, tier string) {
	c14Routing(w)
	mode := w.C.Intn(5, "mode")
	switch {
	case mode <= 1 || mode == 4:
		c14Register(w, false)
	case mode == 2:
		c14Register(w, true)
	default:
		c14Aux(w)
	}
}

// ---- register and list modes -------------------------------------------

func c14Register(w *simrt.World, listMode bool) {
	c := w.C
	e := c14build(w, 0, true)
	defer e.close()
	modeName := "register"
	if listMode {
		modeName = "list"
	}
	w.Probe("mode." + modeName)
	nk := 1 + c.Intn(4, "nkeys")/3 // mostly one key
	keys := c14pickKeys(e, nk, "key")
	allBacked := true
	for _, k := range keys {
		if !e.backed(k.cat) {
			allBacked = false
		}
	}
	uniq := 0
	var hist []c14h
	// initial state
	var initDesc []string
	for _, k := range keys {
		ini := c.Intn(3, "init")
		if ini == 1 && !e.backed(k.cat) {
			ini = 2
		}
		switch ini {
		case 0:
			initDesc = append(initDesc, "absent")
		case 1: // persisted by an earlier process life, caches cold
			if listMode {
				if c.Intn(2, "init.json") == 1 {
					e.persist.Persist.Data[k.key] = `["s1","s2"]`
				} else {
					e.persist.Persist.Data[k.key] = []any{"s1", "s2"}
				}
				for _, m := range []string{"s1", "s2"} {
					hist = append(hist, c14h{client: "seed", op: c14op{Kind: "Append", Key: k.key, Cat: k.cat, Reg: k.key, Val: m, Node: 0}, out: "ok"})
				}
			} else {
				e.persist.Persist.Data[k.key] = "seed"
				hist = append(hist, c14h{client: "seed", op: c14op{Kind: "Set", Key: k.key, Cat: k.cat, Reg: k.key, Val: "seed", Node: 0}, out: "ok"})
			}
			initDesc = append(initDesc, "cold-persisted")
		case 2: // written through the facade on node 1
			if listMode {
				for _, m := range []string{"s1", "s2"} {
					hist = append(hist, e.exec("init", c14op{Kind: "Append", Key: k.key, Cat: k.cat, Reg: e.regOf(k.cat, k.key, 0), Val: m, Node: 0}))
				}
			} else {
				hist = append(hist, e.exec("init", c14op{Kind: "Set", Key: k.key, Cat: k.cat, Reg: e.regOf(k.cat, k.key, 0), Val: "w0", Node: 0}))
			}
			initDesc = append(initDesc, "warm")
		}
	}
	// plans
	nclients := 2 + c.Intn(3, "nclients")
	per := 2 + c.Intn(5, "ops.per.client")
	plans := make([][]c14op, nclients)
	for ci := 0; ci < nclients; ci++ {
		node := 0
		if len(e.nodes) > 1 {
			node = c.Intn(len(e.nodes), "client.node")
		}
		var own []string // members this client appended and did not remove yet (per key 0)
		for j := 0; j < per; j++ {
			k := keys[c.Intn(len(keys), "op.key")]
			o := c14op{Key: k.key, Cat: k.cat, Node: node, Reg: e.regOf(k.cat, k.key, node)}
			var kinds []string
			if listMode {
				kinds = []string{"Append", "GetList", "Append", "Remove", "GetList"}
			} else {
				kinds = []string{"Get", "Set", "Delete", "Get", "Set", "Exists"}
			}
			if e.evictable(k.cat) {
				kinds = append(kinds, "Evict")
			}
			if allBacked {
				kinds = append(kinds, "Nap")
			}
			o.Kind = kinds[c.Intn(len(kinds), "op.kind")]
			switch o.Kind {
			case "Set":
				uniq++
				o.Val = fmt.Sprintf("v%d", uniq)
				ttls := []time.Duration{0, 0, time.Hour}
				if allBacked {
					ttls = append(ttls, 150*time.Millisecond)
				}
				o.TTL = ttls[c.Intn(len(ttls), "set.ttl")]
			case "Append":
				uniq++
				o.Val = fmt.Sprintf("m%d", uniq)
				if k.key == keys[0].key {
					own = append(own, o.Val)
				}
			case "Remove":
				if len(own) > 0 && k.key == keys[0].key {
					i := c.Intn(len(own), "remove.which")
					o.Val = own[i]
					own = append(own[:i:i], own[i+1:]...)
				} else {
					o.Kind = "GetList"
				}
			}
			plans[ci] = append(plans[ci], o)
		}
	}
	w.State(fmt.Sprintf("%s/%s/%s/n%d/p%v/%s", modeName, e.topo, keys[0].cat, len(e.nodes), e.persist != nil, initDesc[0]))

	results := make([][]c14h, nclients)
	var tasks []*simrt.Task
	for ci := 0; ci < nclients; ci++ {
		ci := ci
		var prev *simrt.Task
		if e.faultPlanned && ci > 0 {
			// fault runs: clients take turns, so that an anomaly is attributable to the failure
			// (or to the asynchronous write-back), not to client concurrency
			prev = tasks[ci-1]
		}
		tasks = append(tasks, w.Spawn(fmt.Sprintf("client%d", ci), func() {
			if prev != nil {
				prev.Wait()
			}
			for _, o := range plans[ci] {
				results[ci] = append(results[ci], e.exec(fmt.Sprintf("c%d", ci), o))
			}
		}))
	}
	for _, t := range tasks {
		t.Wait()
	}
	for ci := range results {
		hist = append(hist, results[ci]...)
	}
	// quiescence: let every write-back task finish, then read on every node;
	// for backed keys read once more after every cache entry has expired.
	w.Sleep(time.Millisecond)
	tail := func(name string) {
		for _, k := range keys {
			for _, n := range e.nodes {
				kind := "Get"
				if listMode {
					kind = "GetList"
				}
				hist = append(hist, e.exec(name, c14op{Kind: kind, Key: k.key, Cat: k.cat, Node: n.idx, Reg: e.regOf(k.cat, k.key, n.idx)}))
			}
		}
	}
	tail("tail")
	if allBacked && c.Intn(2, "tail.expire") == 0 {
		w.Sleep(e.maxTTL() + 7*time.Millisecond)
		tail("tail2")
		w.Probe("tail.after-cache-expiry")
	}

	// ---- evidence
	overlap, xnode := false, false
	for i := range hist {
		for j := range hist {
			a, b := hist[i], hist[j]
			if i == j || a.op.Reg != b.op.Reg || a.client == b.client || a.client == "seed" || b.client == "seed" {
				continue
			}
			if a.call < b.ret && b.call < a.ret && (c14isWrite(a.op.Kind) || c14isWrite(b.op.Kind)) {
				overlap = true
			}
			if c14isWrite(a.op.Kind) && !c14isWrite(b.op.Kind) && a.op.Node != b.op.Node && a.ret < b.call && b.client[0] == 'c' {
				xnode = true
			}
		}
	}
	wb := e.writebacks()
	if overlap {
		w.Probe("overlap.write-vs-op")
	}
	if wb > 0 {
		w.Probe("writeback.launched")
	}
	if xnode {
		w.Probe("cross-node.read-after-write")
	}
	if e.lg.faultStamp != 0 {
		w.Probe("fault.fired")
	}
	if overlap || wb > 0 || xnode || e.lg.faultStamp != 0 {
		w.Nontrivial()
	}
	for _, k := range keys {
		w.Probe("cat." + k.cat)
	}
	var s []string
	for _, h := range hist {
		s = append(s, h.client+":"+h.op.String()+"→"+h.out)
	}
	w.Sample(fmt.Sprintf("%s topo=%s nodes=%d persist=%v init=%v fault@%d :: %s", modeName, e.topo, len(e.nodes), e.persist != nil, initDesc, e.lg.faultStamp, strings.Join(tailStr(s, 24), " ; ")))

	// ---- oracles
	if listMode {
		c14ListOracle(e, keys, hist)
	} else {
		c14RegisterOracle(e, keys, hist)
	}
	c14Placement(e, keys, hist, listMode)
}

func c14isWrite(kind string) bool {
	switch kind {
	case "Set", "Delete", "Append", "Remove":
		return true
	}
	return false
}

// ---- register oracle: linearizability per register ------------------------

func c14RegModel() porcupine.Model {
	return porcupine.Model{
		Init: func() interface{} { return "" },
		Step: func(state, input, output interface{}) (bool, interface{}) {
			st := state.(string)
			o := input.(c14op)
			out := output.(string)
			switch o.Kind {
			case "Set":
				return true, o.Val
			case "Delete":
				return true, ""
			case "Get":
				if out == "notfound" {
					return st == "", st
				}
				return st != "" && out == "v:"+st, st
			case "Exists":
				return (out == "true") == (st != ""), st
			}
			return true, st
		},
		Equal: func(a, b interface{}) bool { return a.(string) == b.(string) },
	}
}

func c14RegisterOracle(e *c14env, keys []c14key, hist []c14h) {
	w := e.w
	// partition by register
	regs := map[string][]c14h{}
	var names []string
	for _, h := range hist {
		switch h.op.Kind {
		case "Set", "Delete", "Get", "Exists":
		default:
			continue
		}
		if _, ok := regs[h.op.Reg]; !ok {
			names = append(names, h.op.Reg)
		}
		regs[h.op.Reg] = append(regs[h.op.Reg], h)
	}
	sort.Strings(names)
	for _, reg := range names {
		hs := regs[reg]
		var maxStamp int64
		for _, h := range hs {
			if h.ret > maxStamp {
				maxStamp = h.ret
			}
		}
		var ops []porcupine.Operation
		for i, h := range hs {
			if h.out == "err" && !c14isWrite(h.op.Kind) {
				continue // a failed read says nothing
			}
			ret := h.ret
			if h.out == "err" {
				ret = maxStamp + 1 + int64(i) // may take effect at any later time, or never be observed
			}
			ops = append(ops, porcupine.Operation{ClientId: i, Input: h.op, Call: h.call, Output: h.out, Return: ret})
		}
		// porcupine wants client ids below the number of operations and one op at a time per client: use one id per operation
		if porcupine.CheckOperations(c14RegModel(), ops) {
			w.Probe("register.linearizable")
			continue
		}
		cat := hs[0].op.Cat
		key := hs[0].op.Key
		pattern, cause, why := c14ClassifyRegister(e, hs)
		var lines []string
		sorted := append([]c14h(nil), hs...)
		sort.SliceStable(sorted, func(i, j int) bool { return sorted[i].call < sorted[j].call })
		for _, h := range sorted {
			lines = append(lines, h.String())
		}
		if pattern == "phantom-value" {
			cause = pattern
		}
		w.Violationf(fmt.Sprintf("C14:register:%s:%s", cat, cause),
			"register %s (category %s, topology %s, %d node(s), persistence %v) is not linearizable [%s]: %s\nhistory [call,return]:\n%s\ntier operations on the key:\n%s",
			reg, cat, e.topo, len(e.nodes), e.persist != nil, pattern, why, strings.Join(lines, "\n"), strings.Join(e.lg.forKey(key), "\n"))
	}
}

// c14ClassifyRegister names the kind of anomaly in a non-linearizable register history.
func c14ClassifyRegister(e *c14env, hs []c14h) (pattern, cause, why string) {
	setOf := map[string]*c14h{}
	var writes, reads []*c14h
	for i := range hs {
		h := &hs[i]
		switch h.op.Kind {
		case "Set":
			setOf[h.op.Val] = h
			if h.out == "ok" {
				writes = append(writes, h)
			}
		case "Delete":
			if h.out == "ok" {
				writes = append(writes, h)
			}
		case "Get", "Exists":
			if h.out != "err" {
				reads = append(reads, h)
			}
		}
	}
	sort.SliceStable(reads, func(i, j int) bool { return reads[i].call < reads[j].call })
	T, at := c14anomalyStamp(hs)
	mechs := ""
	defer func() {
		if mechs != "" {
			why += "; " + mechs
		}
	}()
	attribute := func(r *c14h, sup *c14h, staleRead bool) string {
		_ = sup
		_ = staleRead
		val := ""
		rnode := r.op.Node
		if at != nil {
			rnode = at.op.Node
			if strings.HasPrefix(at.out, "v:") {
				val = at.out[2:] // the value returned by the read that completes the anomaly: fills carrying it matter most
			}
		}
		ms := e.c14mechanisms(r.op.Key, r.op.Cat, hs, T, val, rnode)
		mechs = fmt.Sprintf("the history first becomes non-linearizable when %v returns; mechanisms present in the tier log before @%d: %v", at, T, ms)
		if len(ms) == 0 {
			return "unattributed"
		}
		return ms[0]
	}
	// 1. a read returned a value although a later write (begun after that value's write had returned) had completed before the read began
	for _, r := range reads {
		if !strings.HasPrefix(r.out, "v:") {
			continue
		}
		x := r.out[2:]
		sx := setOf[x]
		if sx == nil {
			return "phantom-value", "unattributed", fmt.Sprintf("%s returned a value nobody wrote", r)
		}
		for _, wr := range writes {
			if wr != sx && sx.ret < wr.call && wr.ret < r.call {
				p := "stale-after-set"
				if wr.op.Kind == "Delete" {
					p = "resurrected-after-delete"
				}
				return p, attribute(r, wr, true), fmt.Sprintf("%s returned the value of %s although %s had completed before the read began", r, sx, wr)
			}
		}
	}
	// 2. exists=true / not-found contradicting completed writes
	for _, r := range reads {
		if r.out == "true" {
			for _, d := range writes {
				if d.op.Kind != "Delete" || !(d.ret < r.call) {
					continue
				}
				all := true
				for _, s := range setOf {
					if s.call < r.ret && !(s.ret < d.call) {
						all = false // a Set that may follow the Delete and precede the read
					}
				}
				if all {
					return "resurrected-after-delete", attribute(r, d, false), fmt.Sprintf("%s answered true although %s had completed and every Set precedes it", r, d)
				}
			}
		}
		if r.out == "notfound" || r.out == "false" {
			for _, s := range writes {
				if s.op.Kind != "Set" || !(s.ret < r.call) {
					continue
				}
				justified := false
				for i := range hs {
					d := &hs[i]
					if d.op.Kind == "Delete" && d.call < r.ret && !(d.ret < s.call) {
						justified = true
					}
				}
				if !justified {
					return "lost-write", attribute(r, nil, false), fmt.Sprintf("%s found nothing although %s had completed and no Delete follows it", r, s)
				}
			}
		}
	}
	// 2b. new-old inversion: a read returned y after an earlier read had already returned x, although y's
	// write had returned before x's write began (y is older); x's write may still be in flight, which is
	// why rule 1 does not see it
	for i, r1 := range reads {
		if !strings.HasPrefix(r1.out, "v:") {
			continue
		}
		sx := setOf[r1.out[2:]]
		if sx == nil {
			continue
		}
		for _, r2 := range reads[i+1:] {
			if !(r1.ret < r2.call) || !strings.HasPrefix(r2.out, "v:") || r2.out == r1.out {
				continue
			}
			sy := setOf[r2.out[2:]]
			if sy == nil || !(sy.ret < sx.call) {
				continue
			}
			return "old-value-after-newer-was-read", attribute(r2, sx, true),
				fmt.Sprintf("%s returned the value of %s after %s had already returned the value of the later %s", r2, sy, r1, sx)
		}
	}
	// 2c. absent-then-old inversion: a read found nothing although y had been written before it began (so a
	// Delete, possibly still in flight, had taken effect), and a later read returns y again
	for i, r1 := range reads {
		if c14readClass(r1.out) != "absent" {
			continue
		}
		for _, r2 := range reads[i+1:] {
			if !(r1.ret < r2.call) || c14readClass(r2.out) == "absent" {
				continue
			}
			var sy *c14h
			if strings.HasPrefix(r2.out, "v:") {
				sy = setOf[r2.out[2:]]
				if sy == nil || !(sy.ret < r1.call) {
					continue
				}
			} else { // Exists=true: every Set that could precede it had returned before the first read began
				old := true
				for _, s := range setOf {
					if s.call < r2.ret && !(s.ret < r1.call) {
						old = false
					}
				}
				if !old {
					continue
				}
			}
			var del *c14h
			for j := range hs {
				d := &hs[j]
				if d.op.Kind == "Delete" && d.call < r1.ret && (sy == nil || sy.ret < d.call) && (del == nil || d.call > del.call) {
					del = d
				}
			}
			return "deleted-value-back-after-absence-was-read", attribute(r2, del, sy != nil),
				fmt.Sprintf("%s answered %s after %s had already found the key absent and no Set can lie in between", r2, r2.out, r1)
		}
	}
	// 3. two reads with no write in between disagree
	for i, r1 := range reads {
		for _, r2 := range reads[i+1:] {
			if !(r1.ret < r2.call) || c14readClass(r1.out) == c14readClass(r2.out) {
				continue
			}
			quiet := true
			for j := range hs {
				wr := &hs[j]
				if c14isWrite(wr.op.Kind) && (wr.out == "err" || wr.ret > r1.call) {
					quiet = false
				}
			}
			if quiet {
				return "value-flips-without-write", attribute(r2, nil, false), fmt.Sprintf("%s and then %s disagree although every write had completed before the first of them began", r1, r2)
			}
		}
	}
	if len(reads) == 0 {
		return "other", "unattributed", "no reads"
	}
	last := reads[len(reads)-1]
	return "other", attribute(last, nil, false), "no simple stale-read pattern; see history"
}

func c14readClass(out string) string {
	switch out {
	case "notfound", "false":
		return "absent"
	case "true":
		return "present"
	}
	return out
}

// ---- list oracle --------------------------------------------------------------

func c14ListOracle(e *c14env, keys []c14key, hist []c14h) {
	w := e.w
	regs := map[string][]c14h{}
	var names []string
	for _, h := range hist {
		switch h.op.Kind {
		case "Append", "Remove", "GetList":
		default:
			continue
		}
		if _, ok := regs[h.op.Reg]; !ok {
			names = append(names, h.op.Reg)
		}
		regs[h.op.Reg] = append(regs[h.op.Reg], h)
	}
	sort.Strings(names)
	for _, reg := range names {
		hs := regs[reg]
		appendOf := map[string]*c14h{}
		removeOf := map[string]*c14h{}
		var muts []*c14h
		for i := range hs {
			h := &hs[i]
			switch h.op.Kind {
			case "Append":
				appendOf[h.op.Val] = h
				muts = append(muts, h)
			case "Remove":
				removeOf[h.op.Val] = h
				muts = append(muts, h)
			}
		}
		var members []string
		for m := range appendOf {
			members = append(members, m)
		}
		sort.Strings(members)
		concurrent := func(a *c14h) bool {
			for _, b := range muts {
				if a != b && b.client != "seed" && a.client != "seed" && a.call < b.ret && b.call < a.ret {
					return true
				}
			}
			return false
		}
		attribute := func(victim *c14h, r *c14h) string {
			foreign := r.op.Node != victim.op.Node
			for _, m := range muts {
				if m.client != "seed" && m.op.Node != victim.op.Node {
					foreign = true
				}
			}
			switch {
			case concurrent(victim):
				return "concurrent-read-modify-write"
			case e.lateWriteback(r.op.Key, "", r.ret):
				return "late-writeback"
			case e.cacheIsNodeLocal(r.op.Cat) && foreign:
				return "other-node-cache"
			case e.faultHit(r.op.Key, r.ret):
				return e.faultClass()
			}
			return "sequential-unattributed"
		}
		snapCause := ""
		report := func(class string, victim, r *c14h, why string) {
			var lines []string
			sorted := append([]c14h(nil), hs...)
			sort.SliceStable(sorted, func(i, j int) bool { return sorted[i].call < sorted[j].call })
			for _, h := range sorted {
				lines = append(lines, h.String())
			}
			sig := fmt.Sprintf("C14:list:%s:%s", r.op.Cat, class)
			if class == "member-lost" || class == "removed-member-back" {
				sig = fmt.Sprintf("C14:list:%s:lost-update:%s", r.op.Cat, attribute(victim, r))
			}
			if class == "returned-list-changed-under-caller" {
				sig += ":" + snapCause
			}
			if class == "duplicate-member" {
				when := "no-failure"
				for _, m := range muts {
					if m.out == "err" && m.ret < r.ret {
						when = "after-failed-update"
					}
				}
				sig = fmt.Sprintf("C14:list:%s:duplicate-member:%s", r.op.Cat, when)
			}
			w.Violationf(sig,
				"list %s (category %s, topology %s, %d node(s), persistence %v) [%s]: %s\nhistory [call,return]:\n%s\ntier operations on the key:\n%s",
				reg, r.op.Cat, e.topo, len(e.nodes), e.persist != nil, class, why, strings.Join(lines, "\n"), strings.Join(e.lg.forKey(r.op.Key), "\n"))
		}
		ok := true
	reads:
		for i := range hs {
			r := &hs[i]
			if r.op.Kind != "GetList" || r.out == "err" {
				continue
			}
			in := map[string]int{}
			for _, m := range r.list {
				in[m]++
			}
			for _, m := range members {
				a := appendOf[m]
				rm := removeOf[m]
				if a.out == "ok" && a.ret < r.call && (rm == nil || !(rm.call < r.ret)) && in[m] == 0 {
					report("member-lost", a, r, fmt.Sprintf("%s does not contain %s although %s had completed before the read began and nobody removed it", r, m, a))
					ok = false
					break reads
				}
				if in[m] > 0 && rm != nil && rm.out == "ok" && rm.ret < r.call {
					report("removed-member-back", rm, r, fmt.Sprintf("%s contains %s although %s had completed before the read began", r, m, rm))
					ok = false
					break reads
				}
				if in[m] > 0 && !(a.call < r.ret) {
					report("member-before-append", a, r, fmt.Sprintf("%s contains %s before its append began", r, m))
					ok = false
					break reads
				}
			}
			for _, m := range r.list {
				if appendOf[m] == nil {
					report("phantom-member", r, r, fmt.Sprintf("%s contains %s which nobody appended", r, m))
					ok = false
					break reads
				}
				if in[m] > 1 {
					// every member is appended exactly once: a list holding it twice is a value nobody wrote
					report("duplicate-member", r, r, fmt.Sprintf("%s contains %s %d times although it was appended once", r, m, in[m]))
					ok = false
					break reads
				}
			}
		}
		// a list that a read handed to its caller is that read's answer: it must not change afterwards
		for i := range hs {
			r := &hs[i]
			if r.op.Kind != "GetList" || r.raw == nil {
				continue
			}
			var now []string
			for _, m := range r.raw {
				now = append(now, c14canon(m))
			}
			if strings.Join(now, ",") != strings.Join(r.list, ",") {
				snapCause = "sequential"
				foreign := false
				for _, m := range muts {
					if m.client != "seed" && m.op.Node != r.op.Node {
						foreign = true
					}
					if concurrent(m) {
						snapCause = "concurrent-read-modify-write" // some update worked on a stale base
					}
				}
				if snapCause == "sequential" {
					switch {
					case e.lateWriteback(r.op.Key, "", 1<<62):
						snapCause = "late-writeback"
					case e.cacheIsNodeLocal(r.op.Cat) && foreign:
						snapCause = "other-node-cache"
					case e.faultHit(r.op.Key, 1<<62):
						snapCause = e.faultClass()
					}
				}
				report("returned-list-changed-under-caller", r, r, fmt.Sprintf("the list returned by %s reads [%s] at the end of the run", r, strings.Join(now, ",")))
				ok = false
				break
			}
		}
		if ok {
			w.Probe("list.consistent")
		}
	}
}

// ---- placement oracle: which tier class holds what after the run ------------------

func (e *c14env) backendHas(b types.Storage, key string) bool {
	ok, _ := b.Exists(key)
	return ok
}

func c14Placement(e *c14env, keys []c14key, hist []c14h, listMode bool) {
	w := e.w
	var snap map[string]any
	if e.persist != nil {
		snap = e.persist.Snapshot()
	}
	for _, k := range keys {
		_, inPersist := snap[k.key]
		switch k.cat {
		case "runtime":
			if inPersist {
				w.Violationf("C14:placement:runtime:reached-persistent-tier", "runtime key %s is in the persistent tier\n%s", k.key, strings.Join(e.lg.forKey(k.key), "\n"))
			}
			if e.sharedBackend != nil && !e.localIsShared && e.backendHas(e.sharedBackend, k.key) {
				w.Violationf("C14:placement:runtime:reached-cluster-cache", "runtime key %s is in the cluster cache\n%s", k.key, strings.Join(e.lg.forKey(k.key), "\n"))
			}
		case "shared":
			if inPersist {
				w.Violationf("C14:placement:shared:reached-persistent-tier", "shared (non-persistent) key %s is in the persistent tier\n%s", k.key, strings.Join(e.lg.forKey(k.key), "\n"))
			}
		}
		if listMode || !e.backed(k.cat) || e.lg.faultStamp != 0 {
			continue
		}
		// backed register whose last write is unambiguous: the persistent tier must hold exactly that
		var last *c14h
		amb := false
		for i := range hist {
			h := &hist[i]
			if h.op.Key != k.key || (h.op.Kind != "Set" && h.op.Kind != "Delete") {
				continue
			}
			if h.out != "ok" {
				amb = true
			}
			if last == nil || h.call > last.call {
				last = h
			}
		}
		if last == nil || amb {
			continue
		}
		for i := range hist {
			h := &hist[i]
			if h != last && h.op.Key == k.key && (h.op.Kind == "Set" || h.op.Kind == "Delete") && !(h.ret < last.call) {
				amb = true
			}
		}
		if amb {
			continue
		}
		got, have := snap[k.key]
		want := last.op.Val
		if (last.op.Kind == "Delete" && have) || (last.op.Kind == "Set" && (!have || c14canon(got) != want)) {
			w.Violationf("C14:placement:"+k.cat+":persistent-tier-diverged", "after %s (which began after every other write had returned) the persistent tier holds %v (present=%v)\n%s", last, got, have, strings.Join(e.lg.forKey(k.key), "\n"))
		}
		w.Probe("placement.final-checked")
	}
}

// ---- aux mode: counters, SetNX, hashes, SetExpiration follow the key's tier class ----

func c14Aux(w *simrt.World) {
	c := w.C
	e := c14build(w, 1+c.Intn(2, "aux.nodes"), false)
	defer e.close()
	w.Probe("mode.aux")
	a := e.nodes[0]
	b := e.nodes[len(e.nodes)-1]
	if len(e.nodes) > 1 {
		w.Nontrivial()
	}
	steps := 1 + c.Intn(4, "aux.steps")
	var desc []string
	for i := 0; i < steps; i++ {
		kind := []string{"incr", "setnx", "hash", "setexp"}[c.Intn(4, "aux.kind")]
		dk := c14drawKey(e, c14cats[c.Intn(len(c14cats), "aux.cat")], "aux", fmt.Sprintf("a%d", i))
		key, cat := dk.key, dk.cat
		wide := e.clusterWide(cat) && cat != "persistent" && a != b
		desc = append(desc, kind+":"+cat)
		w.Probe("aux." + kind + "." + cat)
		w.State(fmt.Sprintf("aux/%s/%s/%s/n%d", kind, cat, e.topo, len(e.nodes)))
		mark := len(e.lg.ev)
		trace := func() string {
			var s []string
			for _, ev := range e.lg.ev[mark:] {
				s = append(s, fmt.Sprintf("%s.%s(%s)", ev.tier, ev.op, ev.key))
			}
			return "basic tier operations seen: " + strings.Join(s, " ")
		}
		switch kind {
		case "incr":
			n1, err1 := a.h.Incr(key)
			if err1 != nil {
				continue
			}
			if wide {
				n2, err2 := b.h.Incr(key)
				if err2 == nil && n2 != n1+1 {
					w.Violationf("C14:placement:"+cat+":incr-not-shared-across-nodes", "Incr(%s) answered %d on %s and then %d on %s (topology %s); a cluster-wide counter must continue at %d", key, n1, a.name, n2, b.name, e.topo, n1+1)
				}
			}
			if cat == "shared" || cat == "sharedpersistent" {
				if _, err := a.h.Get(key); errors.Is(err, types.ErrKeyNotFound) {
					w.Violationf("C14:placement:"+cat+":incr-written-to-other-tier-than-read", "Incr(%s) answered %d on %s but Get(%s) on the same node finds nothing (topology %s): the counter was written to a tier the key is not read from", key, n1, a.name, key, e.topo)
				}
			}
		case "setnx":
			ttl := []time.Duration{0, time.Hour}[c.Intn(2, "aux.ttl")]
			ok1, err1 := a.h.SetNX(key, "x1", ttl)
			if err1 != nil || !ok1 {
				if err1 == nil {
					w.Violationf("C14:placement:"+cat+":setnx-refused-on-fresh-key", "SetNX(%s) on a fresh key answered false", key)
				}
				continue
			}
			if wide {
				ok2, err2 := b.h.SetNX(key, "x2", ttl)
				if err2 == nil && ok2 {
					w.Violationf("C14:placement:"+cat+":setnx-not-exclusive-across-nodes", "SetNX(%s) succeeded on %s and again on %s (topology %s)", key, a.name, b.name, e.topo)
				}
			}
			if cat != "runtime" {
				rd := a
				if wide {
					rd = b
				}
				v, err := rd.h.Get(key)
				if errors.Is(err, types.ErrKeyNotFound) {
					w.Violationf("C14:placement:"+cat+":setnx-written-to-other-tier-than-read", "SetNX(%s,x1) succeeded on %s but Get on %s finds nothing (topology %s); %s", key, a.name, rd.name, e.topo, trace())
				} else if err == nil && c14canon(v) != "x1" && c14canon(v) != "x2" {
					w.Violationf("C14:placement:"+cat+":setnx-value-mismatch", "SetNX(%s,x1) then Get answered %v", key, v)
				}
			}
		case "hash":
			if err := a.h.SetHash(key, "f", "hv"); err != nil {
				continue
			}
			rd := a
			if wide {
				rd = b
			}
			v, err := rd.h.GetHash(key, "f")
			if err != nil || c14canon(v) != "hv" {
				sig := "hash-unreadable-on-writer-node"
				if rd != a {
					sig = "hash-not-shared-across-nodes"
				}
				w.Violationf("C14:placement:"+cat+":"+sig, "SetHash(%s,f) on %s, GetHash on %s answered %v, %v (topology %s)", key, a.name, rd.name, v, err, e.topo)
			}
		case "setexp":
			if err := a.h.Set(key, "ev", 0); err != nil {
				continue
			}
			err := a.h.SetExpiration(key, 90*time.Millisecond)
			if err != nil {
				if errors.Is(err, types.ErrKeyNotFound) {
					w.Violationf("C14:placement:"+cat+":setexpiration-looks-in-other-tier-than-written", "Set(%s) succeeded on %s, SetExpiration on the same node answers key-not-found (topology %s); %s", key, a.name, e.topo, trace())
				}
				continue
			}
			if !e.backed(cat) {
				w.Sleep(331 * time.Millisecond)
				rd := a
				if wide {
					rd = b
				}
				if v, err := rd.h.Get(key); err == nil {
					w.Violationf("C14:placement:"+cat+":setexpiration-ineffective", "SetExpiration(%s,90ms) succeeded, 331ms later Get on %s still answers %v (topology %s)", key, rd.name, v, e.topo)
				}
			}
		}
		// tier class after the step
		if e.persist != nil {
			snap := e.persist.Snapshot()
			var pk []string
			for k := range snap {
				pk = append(pk, k)
			}
			sort.Strings(pk)
			for _, k := range pk {
				if kc := c14categoryOf(e.cfg, k); strings.HasPrefix(k, key) && (kc == "runtime" || kc == "shared") {
					w.Violationf("C14:placement:"+kc+":reached-persistent-tier", "%s key %s is in the persistent tier after %s", kc, k, kind)
				}
			}
		}
		if cat == "runtime" && e.sharedBackend != nil && !e.localIsShared {
			if e.backendHas(e.sharedBackend, key) || e.backendHas(e.sharedBackend, key+":f") {
				w.Violationf("C14:placement:runtime:reached-cluster-cache", "runtime key %s is in the cluster cache after %s", key, kind)
			}
		}
	}
	w.Sample(fmt.Sprintf("aux topo=%s nodes=%d persist=%v steps=%v fault@%d", e.topo, len(e.nodes), e.persist != nil, desc, e.lg.faultStamp))
}
