// Package props holds one simulation scenario (workload + fault space +
// oracle) per property.
package props

import (
	"sort"

	"tunnox-core/verifsim/simrt"
)

// Scenario is the unit the worker runs many times with different choices.
type Scenario struct {
	ID    string
	Level string // exploration | fault_enumeration
	Rule  string // how cases are generated and what makes one non-trivial/distinct
	Real  []string
	Stub  []string
	Assumptions []string
	// Opt returns the per-run bounds for a tier.
	Opt func(tier string) simrt.Options
	// Run is the body of the root task.
	Run func(w *simrt.World, tier string)
	// NoBubbleRun, when set, is run (outside any bubble, no scheduler) for a
	// share of the iterations: pure-input differential checks labelled as such.
	Pure func(c *simrt.Choice, res *simrt.Result, tier string)
	// PureShare is the share (in percent) of iterations given to Pure.
	PureShare int
}

var registry = map[string]*Scenario{}

// Register adds a scenario.
func Register(s *Scenario) { registry[s.ID] = s }

// Get returns a scenario by property id.
func Get(id string) *Scenario { return registry[id] }

// IDs lists registered property ids.
func IDs() []string {
	var ids []string
	for id := range registry {
		ids = append(ids, id)
	}
	sort.Strings(ids)
	return ids
}
