#!/usr/bin/env python3
"""Regenerates the per-property '**As built (CNN).**' paragraphs of DESIGN.md from MANIFEST.json."""
import json,re
m=json.load(open('/verif/MANIFEST.json'))
by={c['property_id']:c for c in m['checks']}
out=[]
n=0
for line in open('/verif/DESIGN.md'):
    mm=re.match(r'\*\*As built \((C\d\d)\)\.\*\*', line)
    if mm and mm.group(1) in by:
        c=by[mm.group(1)]
        line=f"**As built ({mm.group(1)}).** {c['level_claimed']['text']} *Limits:* {c['level_note']}. Findings and seeded defects: §8.\n"
        n+=1
    out.append(line)
open('/verif/DESIGN.md','w').write(''.join(out))
print("paragraphs regenerated:",n)
