package props

import (
	"bytes"
	"context"
	"encoding/binary"
	"errors"
	"fmt"
	"io"
	"net"
	"os"
	"runtime"
	"strings"
	"sync"
	"sync/atomic"
	"time"

	"tunnox-core/internal/protocol/session"
	"tunnox-core/internal/verifhook"
	"tunnox-core/internal/protocol/session/crossnode"
	"tunnox-core/verifsim/simnet"
	"tunnox-core/verifsim/simrt"
)

// C10 — cross-node frames carry tunnel bytes faithfully and reject bad input.
//
// Three worlds, one drawn per run:
//
//   codec   (bubble)  real WriteFrameToWriter on one end of a simnet link, real
//                     ReadFrameFromReader on the other, writer and reader are
//                     separate tasks; the byte string ends with a drawn tail
//                     (nothing, a cut header, an oversize length, a cut payload,
//                     garbage). Oracle: an independent 21-byte-header parser run
//                     over the recorded wire.
//   forward (bubble)  two real runBidirectionalForward instances (node1, node2)
//                     joined by a simnet link that carries frames; four
//                     application tasks write/half-close/read. Oracle: byte
//                     equality per direction, EOF, termination, counters.
//   stream  (Pure, outside any bubble, real loopback TCP because FrameStream
//                     is typed *net.TCPConn) FrameStream A writes to a socket
//                     whose peer is the harness; the harness re-sends the
//                     recorded wire to FrameStream B's socket in seeded chunks,
//                     injects frames of other tunnels / other types between A's
//                     frames, optionally cuts the wire, then closes.
//   decoder (Pure)    arbitrary byte strings through ReadFrameFromReader with
//                     the heap growth of every call measured.
//
// All limits below come from the property text ("[tunnelID:16][type:1][len:4
// BE], payload <= 64KB"), not from the implementation's constants.

const (
	c10Limit = 64 * 1024
	c10Hdr   = 16 + 1 + 4
	// wire values of the frame types named by the property text
	c10TData  byte = 0x01
	c10TClose byte = 0x03
	c10TEOF   byte = 0x09
)

// frame types that exist in the protocol and are not tunnel data / eof / close
var c10OtherKnownTypes = []byte{0x02, 0x04, 0x05, 0x06, 0x07, 0x08, 0x10, 0x11}

// frame types the protocol does not define
var c10UnknownTypes = []byte{0x00, 0x0a, 0x0f, 0x12, 0x7f, 0x80, 0xff}

type c10frame struct {
	id     [16]byte
	typ    byte
	data   []byte
	origin string // "A": written by the stream under test; otherwise the injection kind
}

// c10RefID is the property's wire form of a tunnel-id string: its first 16
// bytes, zero padded.
func c10RefID(s string) (id [16]byte) {
	copy(id[:], s)
	return
}

func c10RefEncode(dst []byte, f c10frame) []byte {
	dst = append(dst, f.id[:]...)
	dst = append(dst, f.typ)
	var l [4]byte
	binary.BigEndian.PutUint32(l[:], uint32(len(f.data)))
	dst = append(dst, l[:]...)
	return append(dst, f.data...)
}

// c10RefParse is the reference decoder: it returns the complete valid frames
// at the front of b, the offset where it stopped and why.
func c10RefParse(b []byte) (frames []c10frame, off int, end string) {
	for {
		if off == len(b) {
			return frames, off, "clean"
		}
		if len(b)-off < c10Hdr {
			return frames, off, "cut-in-header"
		}
		var f c10frame
		copy(f.id[:], b[off:off+16])
		f.typ = b[off+16]
		n := binary.BigEndian.Uint32(b[off+17 : off+21])
		if n > c10Limit {
			return frames, off, "oversize"
		}
		if len(b)-off-c10Hdr < int(n) {
			return frames, off, "cut-in-payload"
		}
		f.data = b[off+c10Hdr : off+c10Hdr+int(n)]
		frames = append(frames, f)
		off += c10Hdr + int(n)
	}
}

func c10Pattern(n int, salt byte) []byte {
	b := make([]byte, n)
	for i := range b {
		b[i] = byte(i) ^ byte(i>>8)*31 ^ byte(i>>16)*17 ^ salt
	}
	return b
}

// c10IDStrings draws the tunnel-id string of the stream under test and the id
// of another tunnel multiplexed on the same connection. The two strings are
// always different.
func c10IDStrings(c *simrt.Choice) (own, foreign, class string) {
	switch c.Intn(6, "id.class") {
	case 0:
		// what client/mapping generateTunnelID produces: <proto>-tunnel-<unix nanos>-<local port>
		base := int64(1759017600000000000)
		a := base + int64(c.Intn(1000000000, "id.nanos"))
		b := a + 1 + int64(c.Intn(1000000000, "id.nanos2"))
		return fmt.Sprintf("tcp-tunnel-%d-%d", a, 8080), fmt.Sprintf("tcp-tunnel-%d-%d", b, 8080+c.Intn(3, "id.port")), "mapping-handler"
	case 1:
		// what idgen's UUID generator produces: tun_ + hex
		h := make([]byte, 16)
		c.Bytes(h, "id.uuid")
		g := append([]byte(nil), h...)
		g[0] ^= 0x5a
		return fmt.Sprintf("tun_%x", h), fmt.Sprintf("tun_%x", g), "uuid"
	case 2:
		return "t1", "t2", "short"
	case 3:
		return "abcdefghijklmnop", "abcdefghijklmnoq", "exactly-16"
	case 4:
		return "ab\x00cd", "ab\x00ce", "embedded-nul"
	default:
		return "abcdefghijklmnopX", "abcdefghijklmnopY", "17-bytes"
	}
}

func c10FrameSize(c *simrt.Choice) int {
	switch c.Intn(10, "size.class") {
	case 0:
		return 1 + c.Intn(5, "size")
	case 1:
		return 0
	case 2:
		return 1
	case 3:
		return 6 + c.Intn(250, "size")
	case 4:
		return c10Limit - 3 + c.Intn(7, "size") // around the limit, above it must be refused
	case 5:
		return 256 + c.Intn(8192, "size")
	case 6:
		return c10Limit
	case 7:
		return c10Limit + 1 + c.Intn(140000, "size")
	case 8:
		return 20 + c.Intn(32768, "size")
	default:
		return c.Intn(64, "size")
	}
}

func init() {
	Register(&Scenario{
		ID:    "C10",
		Level: "exploration",
		Rule: "each run draws one of four worlds. codec (bubble): 1-10 frames (tunnel-id strings of 6 classes incl. >16 bytes and embedded NUL, all defined and 7 undefined type bytes, payload 0,1,limit-3..limit+3, >limit) " +
			"encoded by the real writer onto a simnet link (6 segmentation laws incl. cut sets aimed at header offsets, 5 buffer capacities) followed by a drawn tail (none, cut header, oversize length, cut payload, garbage), decoded by the real reader in a concurrent task; " +
			"non-trivial when a Read was cut inside a header/payload, frames coalesced, the tail was not empty or a write was refused. " +
			"forward (bubble): two real runBidirectionalForward instances joined by a frame-carrying simnet link, two applications each with a writer task (0-6 chunks up to 70000 bytes, then half-close) and a reader task, laws/capacities drawn per link; " +
			"the local connection given to each forwarder is drawn among half-close capable / Close only / plain ReadWriter + LocalConnCloser, its Read either reports EOF separately or together with the last bytes, traffic counters are configured both/none/one, and every application chunk is preceded by a drawn pause (0 ms - 2 h of simulated time) so that either direction may end first and tunnels live long; non-trivial when both directions carried bytes. " +
			"stream (outside the bubble, loopback TCP): FrameStream A performs 0-6 writes (0,1,small,limit-1,limit,limit+1,2*limit,2*limit+1,200K,1M) and ends with CloseWrite/Close/nothing/write-after-close; the harness replays A's wire to FrameStream B in seeded chunks, " +
			"inserting foreign-tunnel data/EOF/Close frames, own-tunnel frames of undefined and non-data types and empty data frames at drawn frame boundaries, in 1/4 of the runs cuts the wire (inside a header, right after a header, inside a payload, at a boundary), otherwise closes the connection after the last frame or (half of the runs that end with an EOF/Close frame) keeps it open; B reads with a drawn buffer policy (1 B - 128 KiB); " +
			"in 1/3 of the runs one or two further writers (FrameStreams of other tunnels, raw WriteFrame callers) write on A's connection concurrently, interleaved at every instrumented yield/lock point by a seeded cooperative scheduler (their frames replace the injected ones); in 3/4 of the runs B first writes and/or CloseWrite/Close-s its own direction (checked on the wire) before it reads; in half of the runs frames of another connection (1 B - 64 KiB) are decoded with ReadFrameFromReader between B's Reads and their payloads are re-checked at the end; the wire fault may also be a header announcing more than the limit; " +
			"non-trivial when a write was split, a frame was injected, writers were concurrent, B had closed its write side, the read buffer was smaller than a frame or the wire was cut/corrupt. " +
			"after tunnel A's own EOF/Close a second tunnel may reuse both connections (half of the eligible runs): written through a second FrameStream on A's connection right behind A's frames, read on B's connection by a second FrameStream or by plain ReadFrame. " +
			"bridge (outside the bubble, loopback TCP, 1/6 of the pure runs): the real CrossNodeListener.handleConnection -> handleTargetReady -> runBridgeForward with a real TunnelBridge; the harness is target node and source application and moves 1-8 chunks (1 B - 200 KiB) in drawn directions in lock-step, then both sides half-close in drawn order (one more chunk must still pass the other way); at most 3 runs per worker process keep the tunnel idle for 3.5 or 6 real seconds first. " +
			"decoder (outside the bubble): arbitrary/mutated byte strings through the real decoder behind a seeded chunking reader with heap growth measured per call; non-trivial when the input was not a clean frame sequence. distinct = distinct schedule hash (bubble) or draw vector (pure) among the non-trivial runs.",
		Real: []string{"crossnode.WriteFrameToWriter", "crossnode.ReadFrameFromReader", "crossnode.TunnelIDFromString/TunnelIDToString", "crossnode.FrameStream Read/Write/CloseWrite/Close over crossnode.Conn and *net.TCPConn (WriteFrame/ReadFrame)", "session.runBidirectionalForward + CountingReadWriter", "session.CrossNodeListener.handleConnection/handleTargetReady/runBridgeForward + tunnel.Bridge source forwarder"},
		Stub: []string{"codec/forward worlds: transport is a simnet link", "forward world: the RemoteConn given to runBidirectionalForward is a harness frame stream (real codec functions, harness read/write/half-close state) because FrameStream only accepts *net.TCPConn", "stream world: kernel loopback TCP with the harness as the wire between two socket pairs; the peer node is the harness", "bridge world: the SessionManager is only its bridge and closed-tunnel tables (overlay NewBridgeTableForVerif), the accept loop is replaced by a harness-made loopback pair; crossnode pool and the HTTP/DNS/command handlers are not started"},
		Assumptions: []string{"the frame layout and the 64 KiB payload limit are taken from the property text", "a connection that ends exactly at a frame boundary without an EOF/Close frame may be reported as end-of-stream (don't-care)", "after a tunnel's own EOF/Close frame only frames of other tunnels follow on the connection", "real-socket paths have no fake clock: the bridge world observes tunnel lifetimes of at most ~7 real seconds and spends at most 3 long idle periods per worker process (later draws of a long idle period run without it, also while a finding is minimised)", "the stream world's observable history (bytes and errors returned by Read/Write) does not depend on kernel timing because one Read returns bytes of exactly one frame; real time is used only for 8 s socket deadlines", "end-of-stream propagation from the cross-node stream to the local connection of runBidirectionalForward is not part of the property text (applications half-close independently of what they read)"},
		Opt: func(tier string) simrt.Options {
			return simrt.Options{MaxSteps: 3000000}
		},
		Run:       c10Run,
		Pure:      c10Pure,
		PureShare: 45,
	})
}

func c10Run(w *simrt.World, tier string) {
	if w.C.Intn(3, "world") == 2 {
		c10RunForward(w)
		return
	}
	c10RunCodec(w)
}

// ------------------------------------------------------------------ codec

type c10tee struct {
	c   *simnet.Conn
	rec *bytes.Buffer
}

func (t *c10tee) Write(p []byte) (int, error) {
	n, err := t.c.Write(p)
	t.rec.Write(p[:n])
	return n, err
}

type c10plan struct {
	idStr string
	typ   byte
	data  []byte
}

func c10Tail(c *simrt.Choice) (tail []byte, kind string) {
	switch c.Intn(6, "tail") {
	case 0:
		return nil, "none"
	case 1:
		t := make([]byte, 1+c.Intn(c10Hdr-1, "tail.len"))
		c.Bytes(t, "tail.bytes")
		return t, "cut-header"
	case 2:
		h := make([]byte, c10Hdr)
		c.Bytes(h[:17], "tail.bytes")
		l := []uint32{c10Limit + 1, 2 * c10Limit, 0x7fffffff, 0x80000000, 0xffffffff, 0x01000000}[c.Intn(6, "tail.len")]
		binary.BigEndian.PutUint32(h[17:], l)
		return append(h, make([]byte, c.Intn(40, "tail.extra"))...), "oversize-length"
	case 3:
		h := make([]byte, c10Hdr)
		c.Bytes(h[:17], "tail.bytes")
		l := 1 + c.Intn(c10Limit, "tail.len")
		binary.BigEndian.PutUint32(h[17:], uint32(l))
		k := []int{0, 1, l - 1, l / 2}[c.Intn(4, "tail.have")]
		if k >= l {
			k = l - 1
		}
		return append(h, c10Pattern(k, 9)...), "cut-payload"
	case 4:
		t := make([]byte, c10Hdr+c.Intn(100, "tail.len"))
		c.Bytes(t, "tail.bytes")
		return t, "garbage"
	default:
		h := make([]byte, c10Hdr) // a complete empty frame of an undefined type, then a cut header
		h[16] = c10UnknownTypes[c.Intn(len(c10UnknownTypes), "tail.type")]
		return append(h, 1, 2, 3), "empty-frame+cut-header"
	}
}

func c10RunCodec(w *simrt.World) {
	c := w.C
	cfg := simnet.LinkConfig{NameA: "enc", NameB: "dec"}
	cfg.LawAB = simnet.Law(c.Intn(6, "net.law"))
	cfg.Capacity = []int{0, 1 << 16, 4096, 64, 7}[c.Intn(5, "net.cap")]
	own, foreign, idClass := c10IDStrings(c)
	n := 1 + c.Biased(10, "nframes")
	var plan []c10plan
	total := 0
	var starts []int64
	pos := int64(0)
	for i := 0; i < n; i++ {
		var p c10plan
		p.idStr = own
		if c.Intn(3, "frame.id") == 2 {
			p.idStr = foreign
		}
		switch c.Intn(4, "frame.typeclass") {
		case 0:
			p.typ = c10TData
		case 1:
			p.typ = []byte{c10TEOF, c10TClose}[c.Intn(2, "frame.type")]
		case 2:
			p.typ = c10OtherKnownTypes[c.Intn(len(c10OtherKnownTypes), "frame.type")]
		default:
			p.typ = c10UnknownTypes[c.Intn(len(c10UnknownTypes), "frame.type")]
		}
		sz := c10FrameSize(c)
		if total > 400000 && sz > 300 {
			sz = 17
		}
		p.data = c10Pattern(sz, byte(i*37+1))
		if sz <= c10Limit {
			total += sz
			starts = append(starts, pos)
			pos += int64(c10Hdr + sz)
		}
		plan = append(plan, p)
	}
	tail, tailKind := c10Tail(c)
	if total > 96<<10 && (cfg.LawAB == simnet.LawOne || cfg.LawAB == simnet.LawSmall || (cfg.Capacity > 0 && cfg.Capacity < 4096)) {
		cfg.LawAB = simnet.LawMixed
		if cfg.Capacity > 0 && cfg.Capacity < 4096 {
			cfg.Capacity = 4096
		}
	}
	if cfg.LawAB == simnet.LawCuts {
		k := 1 + c.Intn(6, "cuts.n")
		for i := 0; i < k; i++ {
			var off int64
			if len(starts) > 0 && c.Intn(3, "cuts.kind") != 2 {
				off = starts[c.Intn(len(starts), "cuts.frame")] + int64(1+c.Intn(c10Hdr+2, "cuts.hdr"))
			} else {
				off = int64(1 + c.Intn(int(pos)+len(tail)+1, "cuts.any"))
			}
			cfg.CutsAB = append(cfg.CutsAB, off)
		}
		sortInt64(cfg.CutsAB)
	}
	var desc []string
	for _, p := range plan {
		desc = append(desc, fmt.Sprintf("{id=%q t=%#x len=%d}", p.idStr, p.typ, len(p.data)))
	}
	w.Sample(fmt.Sprintf("world=codec law=%s cap=%d cuts=%v ids=%s frames=%s tail=%s(%dB)", simnet.LawNames[cfg.LawAB], cfg.Capacity, cfg.CutsAB, idClass, strings.Join(desc, " "), tailKind, len(tail)))
	w.State(fmt.Sprintf("codec/%s/cap%d/%s/%s", simnet.LawNames[cfg.LawAB], cfg.Capacity, idClass, tailKind))
	w.Probe("world.codec")

	a, b := simnet.NewLink(w, cfg)
	var wire bytes.Buffer
	tee := &c10tee{c: a, rec: &wire}
	var accepted []c10frame
	refused := 0
	wt := w.Spawn("encoder", func() {
		for _, p := range plan {
			id, err := crossnode.TunnelIDFromString(p.idStr)
			if err != nil || id != c10RefID(p.idStr) {
				w.Violationf("C10:tunnel-id:wire-form", "TunnelIDFromString(%q) = %x, %v; the wire form is the first 16 bytes zero padded: %x", p.idStr, id, err, c10RefID(p.idStr))
				return
			}
			before := wire.Len()
			err = crossnode.WriteFrameToWriter(tee, id, p.typ, p.data)
			wrote := wire.Len() - before
			if len(p.data) > c10Limit {
				if err == nil {
					w.Violationf("C10:codec:writer-accepted-oversize", "WriteFrameToWriter accepted a %d byte payload (limit %d)", len(p.data), c10Limit)
					return
				}
				if wrote != 0 {
					w.Violationf("C10:codec:writer-partial", "refused %d byte payload after writing %d bytes", len(p.data), wrote)
					return
				}
				refused++
				continue
			}
			if err != nil && b.Closed() {
				w.Probe("codec.writer.peer-closed")
				return
			}
			if err != nil {
				w.Violationf("C10:codec:writer-refused-valid", "WriteFrameToWriter(len=%d type=%#x): %v", len(p.data), p.typ, err)
				return
			}
			accepted = append(accepted, c10frame{id: c10RefID(p.idStr), typ: p.typ, data: p.data})
		}
		if len(tail) > 0 {
			tee.Write(tail)
		}
		a.CloseWrite()
	})
	var got []c10frame
	var rerr error
	rt := w.Spawn("decoder", func() {
		for {
			id, typ, data, err := crossnode.ReadFrameFromReader(b)
			if err != nil {
				rerr = err
				b.Close()
				return
			}
			got = append(got, c10frame{id: id, typ: typ, data: data})
			if len(got) > len(plan)+8 {
				rerr = fmt.Errorf("harness: decoder produced more than %d frames", len(plan)+8)
				b.Close()
				return
			}
		}
	})
	wt.Wait()
	rt.Wait()
	if len(w.Res.Violations) > 0 {
		return
	}

	seg := ":whole"
	if cfg.LawAB != simnet.LawAll || cfg.Capacity != 0 {
		seg = ":segmented"
	}
	// 1. the encoder's bytes are the property's layout
	// (the tail is written by the harness; it may be cut short when the
	// decoder has already rejected its beginning and closed)
	var want []byte
	for _, f := range accepted {
		want = c10RefEncode(want, f)
	}
	rec := wire.Bytes()
	if len(rec) < len(want) || !bytes.Equal(rec[:len(want)], want) || !bytes.HasPrefix(tail, rec[len(want):]) {
		w.Violationf("C10:codec:encoding", "encoder produced %d bytes for %d frames, layout [id:16][type:1][len:4 BE][payload] gives %d bytes; first difference at %d", wire.Len(), len(accepted), len(want), firstDiff(rec, want))
		return
	}
	// 2. the decoder agrees with the reference parser on the same bytes
	exp, _, end := c10RefParse(wire.Bytes())
	for i := range exp {
		if i >= len(got) {
			w.Violationf("C10:decoder:missing-frame"+seg, "reference parser finds %d frames (then %s); decoder returned %d frames and then: %v", len(exp), end, len(got), rerr)
			return
		}
		g := got[i]
		if g.id != exp[i].id {
			w.Violationf("C10:codec:roundtrip:tunnel-id"+seg, "frame %d: id %x decoded as %x", i, exp[i].id, g.id)
			return
		}
		if g.typ != exp[i].typ {
			w.Violationf("C10:codec:roundtrip:type"+seg, "frame %d: type %#x decoded as %#x", i, exp[i].typ, g.typ)
			return
		}
		if len(g.data) > c10Limit {
			w.Violationf("C10:decoder:payload-over-limit", "frame %d: decoder returned %d payload bytes", i, len(g.data))
			return
		}
		if !bytes.Equal(g.data, exp[i].data) {
			w.Violationf("C10:codec:roundtrip:payload"+seg, "frame %d (len %d): decoded payload len %d, first difference at %d", i, len(exp[i].data), len(g.data), firstDiff(g.data, exp[i].data))
			return
		}
	}
	if len(got) > len(exp) {
		w.Violationf("C10:decoder:frame-from-bad-input:"+end, "reference parser finds %d frames then %s; decoder returned %d frames (extra: type %#x len %d)", len(exp), end, len(got), got[len(exp)].typ, len(got[len(exp)].data))
		return
	}
	if rerr == nil {
		w.Violationf("C10:decoder:no-error:"+end, "input ended (%s) but the decoder returned neither a frame nor an error", end)
		return
	}
	w.Probe("codec.end." + end)
	if rerr == io.EOF {
		w.Probe("codec.err.bare-eof." + end)
	}
	// non-triviality
	if refused > 0 {
		w.Probe("codec.writer.refused-oversize")
	}
	minReads := 0
	for _, f := range exp {
		minReads++
		if len(f.data) > 0 {
			minReads++
		}
	}
	if b.Reads() > minReads {
		w.Probe("codec.read.cut-inside-frame")
	}
	if b.Reads() > minReads || (len(exp) > 1 && b.Reads() < len(exp)) || len(tail) > 0 || refused > 0 {
		w.Nontrivial()
	}
	if len(tail) > 0 {
		w.Fault("codec.bad-tail." + tailKind)
	}
}

// ---------------------------------------------------------------- forward

// c10simStream is the harness stand-in for FrameStream on a simulated
// connection (FrameStream itself only takes *net.TCPConn and is exercised in
// the stream world). It uses the real codec functions.
type c10simStream struct {
	w      *simrt.World
	conn   *simnet.Conn
	id     [16]byte
	buf    []byte
	rEOF   bool
	wEOF   bool
	locked atomic.Bool
	closes int
}

func (s *c10simStream) lock() {
	for spins := 0; !s.locked.CompareAndSwap(false, true); spins++ {
		if s.w.Free() || spins > 100000 {
			// draining, or the caller cannot park (inside once.Do): never spin forever
			runtime.Gosched()
			if s.conn.Closed() || spins > 200000 {
				if spins > 200000 {
					s.w.Violationf("C10:harness:simstream-lock", "stand-in stream lock never became free")
				}
				return
			}
			continue
		}
		s.w.Yield("simstream.lockwait")
	}
}
func (s *c10simStream) unlock() { s.locked.Store(false) }

func (s *c10simStream) Read(p []byte) (int, error) {
	if s.rEOF {
		return 0, io.EOF
	}
	if len(s.buf) > 0 {
		n := copy(p, s.buf)
		s.buf = s.buf[n:]
		return n, nil
	}
	for {
		id, typ, data, err := crossnode.ReadFrameFromReader(s.conn)
		if err != nil {
			return 0, err
		}
		if id != s.id {
			continue
		}
		switch typ {
		case c10TData:
			if len(data) == 0 {
				continue
			}
			n := copy(p, data)
			s.buf = data[n:]
			return n, nil
		case c10TEOF, c10TClose:
			s.rEOF = true
			return 0, io.EOF
		}
	}
}

func (s *c10simStream) Write(p []byte) (int, error) {
	s.lock()
	defer s.unlock()
	if s.wEOF {
		return 0, io.ErrClosedPipe
	}
	done := 0
	for done < len(p) {
		k := len(p) - done
		if k > c10Limit {
			k = c10Limit
		}
		if err := crossnode.WriteFrameToWriter(s.conn, s.id, c10TData, p[done:done+k]); err != nil {
			return done, err
		}
		done += k
	}
	return done, nil
}

func (s *c10simStream) end(typ byte) error {
	if s.wEOF {
		// FrameStream: a second close waits for the first and is then a no-op
		return nil
	}
	s.lock()
	defer s.unlock()
	if s.wEOF {
		return nil
	}
	s.wEOF = true
	return crossnode.WriteFrameToWriter(s.conn, s.id, typ, nil)
}
func (s *c10simStream) CloseWrite() error { return s.end(c10TEOF) }
func (s *c10simStream) Close() error      { s.closes++; return s.end(c10TClose) }

// local connection shapes handed to runBidirectionalForward: not every local
// connection can half-close (net.Pipe, stream wrappers), some are closed
// through LocalConnCloser only; and readers differ in how they report the end
// (io.Reader allows the last bytes to come together with io.EOF, as
// decompressing/decrypting readers and http bodies do).
var c10LocalKinds = []string{"halfcloser", "closer-only", "ext-closer"}
var c10ReadStyles = []string{"plain", "data-with-eof"}

func c10StyledRead(cn *simnet.Conn, style int, p []byte) (int, error) {
	n, err := cn.Read(p)
	if style == 1 && err == nil && n > 0 && cn.PeerClosedWrite() && cn.Pending() == 0 {
		return n, io.EOF
	}
	return n, err
}

type c10full struct {
	c     *simnet.Conn
	style int
}

func (x c10full) Read(p []byte) (int, error)  { return c10StyledRead(x.c, x.style, p) }
func (x c10full) Write(p []byte) (int, error) { return x.c.Write(p) }
func (x c10full) Close() error                { return x.c.Close() }
func (x c10full) CloseWrite() error           { return x.c.CloseWrite() }

type c10rwc struct {
	c     *simnet.Conn
	style int
}

func (x c10rwc) Read(p []byte) (int, error)  { return c10StyledRead(x.c, x.style, p) }
func (x c10rwc) Write(p []byte) (int, error) { return x.c.Write(p) }
func (x c10rwc) Close() error                { return x.c.Close() }

type c10rw struct {
	c     *simnet.Conn
	style int
}

func (x c10rw) Read(p []byte) (int, error)  { return c10StyledRead(x.c, x.style, p) }
func (x c10rw) Write(p []byte) (int, error) { return x.c.Write(p) }

func c10Local(kind, style int, cn *simnet.Conn) (io.ReadWriter, io.Closer) {
	switch kind {
	case 1:
		return c10rwc{cn, style}, nil
	case 2:
		return c10rw{cn, style}, cn
	}
	if style == 0 {
		return cn, nil
	}
	return c10full{cn, style}, nil
}

type c10app struct {
	name   string
	conn   *simnet.Conn
	chunks [][]byte
	delays []time.Duration
	sent   []byte
	recv   []byte
	rerr   error
	werr   error
}

func c10RunForward(w *simrt.World) {
	c := w.C
	own, _, idClass := c10IDStrings(c)
	mk := func(name string) (chunks [][]byte, delays []time.Duration, total int) {
		n := c.Biased(7, name+".chunks")
		for i := 0; i < n; i++ {
			// pacing: lets one direction finish (and half-close) while the other still has bytes to send
			delays = append(delays, []time.Duration{0, 0, time.Millisecond, 50 * time.Millisecond, 700 * time.Millisecond, 5 * time.Second, 3 * time.Minute, 2 * time.Hour}[c.Intn(8, name+".delay")])
			var sz int
			switch c.Intn(6, name+".size.class") {
			case 0:
				sz = 1 + c.Intn(300, name+".size")
			case 1:
				sz = 0
			case 2:
				sz = 32*1024 - 2 + c.Intn(5, name+".size") // io.Copy's buffer
			case 3:
				sz = c10Limit - 2 + c.Intn(5, name+".size")
			case 4:
				sz = 1 + c.Intn(70000, name+".size")
			default:
				sz = 1 + c.Intn(4000, name+".size")
			}
			if total+sz > 200000 {
				sz = 5
			}
			chunks = append(chunks, c10Pattern(sz, byte(len(name)*16+i)))
			total += sz
		}
		return
	}
	ch1, dl1, t1 := mk("app1")
	ch2, dl2, t2 := mk("app2")
	lk1, lk2 := c.Intn(len(c10LocalKinds), "n1.localkind"), c.Intn(len(c10LocalKinds), "n2.localkind")
	rs1, rs2 := c.Intn(len(c10ReadStyles), "n1.readstyle"), c.Intn(len(c10ReadStyles), "n2.readstyle")
	// traffic counters are optional in the forwarder's configuration: 0 both, 1 none, 2 upload only, 3 download only
	cm1, cm2 := c.Intn(4, "n1.counters"), c.Intn(4, "n2.counters")
	link := func(nameA, nameB string) simnet.LinkConfig {
		cfg := simnet.LinkConfig{NameA: nameA, NameB: nameB}
		laws := []simnet.Law{simnet.LawAll, simnet.LawMixed, simnet.LawMTU, simnet.LawSmall, simnet.LawOne}
		cfg.LawAB = laws[c.Intn(len(laws), nameA+".lawAB")]
		cfg.LawBA = laws[c.Intn(len(laws), nameA+".lawBA")]
		cfg.Capacity = []int{0, 1 << 16, 4096, 64}[c.Intn(4, nameA+".cap")]
		if t1+t2 > 24<<10 {
			if cfg.LawAB == simnet.LawSmall || cfg.LawAB == simnet.LawOne {
				cfg.LawAB = simnet.LawMixed
			}
			if cfg.LawBA == simnet.LawSmall || cfg.LawBA == simnet.LawOne {
				cfg.LawBA = simnet.LawMixed
			}
			if cfg.Capacity == 64 {
				cfg.Capacity = 4096
			}
		}
		return cfg
	}
	cfg1, cfgX, cfg2 := link("app1", "n1.local"), link("n1.remote", "n2.remote"), link("n2.local", "app2")
	w.Sample(fmt.Sprintf("world=forward id=%s local conns %s/%s readers %s/%s counters %d/%d delays %v/%v app1 sends %d B in %d chunks, app2 sends %d B in %d chunks; links app1-n1 %s/%s cap%d, n1-n2 %s/%s cap%d, n2-app2 %s/%s cap%d", idClass, c10LocalKinds[lk1], c10LocalKinds[lk2], c10ReadStyles[rs1], c10ReadStyles[rs2], cm1, cm2, dl1, dl2, t1, len(ch1), t2, len(ch2),
		simnet.LawNames[cfg1.LawAB], simnet.LawNames[cfg1.LawBA], cfg1.Capacity, simnet.LawNames[cfgX.LawAB], simnet.LawNames[cfgX.LawBA], cfgX.Capacity, simnet.LawNames[cfg2.LawAB], simnet.LawNames[cfg2.LawBA], cfg2.Capacity))
	w.State(fmt.Sprintf("forward/%v/%v/x=%s,%s,cap%d/local=%s,%s/read=%s,%s/counters=%d,%d", t1 > 0, t2 > 0, simnet.LawNames[cfgX.LawAB], simnet.LawNames[cfgX.LawBA], cfgX.Capacity, c10LocalKinds[lk1], c10LocalKinds[lk2], c10ReadStyles[rs1], c10ReadStyles[rs2], cm1, cm2))
	w.Probe("world.forward")

	a1, l1 := simnet.NewLink(w, cfg1)
	x1, x2 := simnet.NewLink(w, cfgX)
	l2, a2 := simnet.NewLink(w, cfg2)
	id := c10RefID(own)
	s1 := &c10simStream{w: w, conn: x1, id: id}
	s2 := &c10simStream{w: w, conn: x2, id: id}
	var up1, down1, up2, down2 atomic.Int64
	n1 := w.Spawn("node1", func() {
		lc, closer := c10Local(lk1, rs1, l1)
		cfg := &session.BidirectionalForwardConfig{TunnelID: own, LogPrefix: "n1", LocalConn: lc, LocalConnCloser: closer, RemoteConn: s1}
		if cm1 == 0 || cm1 == 2 {
			cfg.BytesSentCounter = &up1
		}
		if cm1 == 0 || cm1 == 3 {
			cfg.BytesReceivedCounter = &down1
		}
		session.RunBidirectionalForwardForVerif(cfg)
	})
	n2 := w.Spawn("node2", func() {
		lc, closer := c10Local(lk2, rs2, l2)
		cfg := &session.BidirectionalForwardConfig{TunnelID: own, LogPrefix: "n2", LocalConn: lc, LocalConnCloser: closer, RemoteConn: s2}
		if cm2 == 0 || cm2 == 2 {
			cfg.BytesSentCounter = &up2
		}
		if cm2 == 0 || cm2 == 3 {
			cfg.BytesReceivedCounter = &down2
		}
		session.RunBidirectionalForwardForVerif(cfg)
	})
	apps := []*c10app{{name: "app1", conn: a1, chunks: ch1, delays: dl1}, {name: "app2", conn: a2, chunks: ch2, delays: dl2}}
	kindOf := map[string]string{"app1": c10LocalKinds[lk1], "app2": c10LocalKinds[lk2]}
	styleOf := map[string]string{"app1": "", "app2": ""}
	if rs1 != 0 {
		styleOf["app1"] = ":local-reader-" + c10ReadStyles[rs1]
	}
	if rs2 != 0 {
		styleOf["app2"] = ":local-reader-" + c10ReadStyles[rs2]
	}
	var tasks []*simrt.Task
	for _, ap := range apps {
		ap := ap
		tasks = append(tasks, w.Spawn(ap.name+".writer", func() {
			for i, ch := range ap.chunks {
				w.Sleep(ap.delays[i])
				n, err := ap.conn.Write(ch)
				ap.sent = append(ap.sent, ch[:n]...)
				if err != nil {
					ap.werr = err
					return
				}
			}
			ap.conn.CloseWrite()
		}))
		tasks = append(tasks, w.Spawn(ap.name+".reader", func() {
			buf := make([]byte, 16<<10)
			for {
				n, err := ap.conn.Read(buf)
				ap.recv = append(ap.recv, buf[:n]...)
				if err != nil {
					ap.rerr = err
					return
				}
			}
		}))
	}
	tasks = append(tasks, n1, n2)
	// The applications pace themselves (up to hours of simulated time: a tunnel
	// is long-lived and nothing may cap its lifetime); 30 simulated seconds after
	// the last planned pause everything that can happen has happened.
	var longest time.Duration
	for _, dl := range [][]time.Duration{dl1, dl2} {
		var sum time.Duration
		for _, d := range dl {
			sum += d
		}
		if sum > longest {
			longest = sum
		}
	}
	if longest >= 5*time.Second {
		w.Probe("forward.long-lived-tunnel")
	}
	w.Sleep(longest + 30*time.Second)
	var stuck []string
	for i, t := range tasks {
		if !t.Done() {
			stuck = append(stuck, []string{"app1.writer", "app1.reader", "app2.writer", "app2.reader", "node1", "node2"}[i])
		}
	}
	if len(stuck) > 0 {
		var live []string
		for _, ti := range w.LiveTasks() {
			live = append(live, ti.ID+"@"+ti.Site)
		}
		w.Violationf("C10:forward:no-termination", "both applications wrote everything and half-closed, nothing is in flight, but these tasks never finished: %v (live: %v)", stuck, live)
	}
	for _, cn := range []*simnet.Conn{a1, l1, x1, x2, l2, a2} {
		if !cn.Closed() {
			cn.Close()
		}
	}
	for _, t := range tasks {
		t.Wait()
	}
	if len(stuck) > 0 {
		return
	}
	check := func(from, to *c10app, dir string) bool {
		if from.werr != nil {
			w.Violationf("C10:forward:local-write-failed:"+kindOf[from.name], "%s: the application's write to its local connection (forwarder side: %s) failed after %d bytes although it had not closed: %v; the peer had received %d bytes and then %v", from.name, kindOf[from.name], len(from.sent), from.werr, len(to.recv), to.rerr)
			return false
		}
		if !bytes.Equal(to.recv, from.sent) {
			cls := "corrupt"
			if len(to.recv) < len(from.sent) && bytes.Equal(to.recv, from.sent[:len(to.recv)]) {
				cls = "incomplete"
			}
			w.Violationf("C10:forward:data-"+cls+styleOf[from.name], "%s: %s wrote %d bytes and half-closed (its forwarder reads the local connection in %q style), %s received %d bytes (first difference at %d), then %v", dir, from.name, len(from.sent), strings.TrimPrefix(styleOf[from.name], ":local-reader-"), to.name, len(to.recv), firstDiff(to.recv, from.sent), to.rerr)
			return false
		}
		if to.rerr != io.EOF {
			w.Violationf("C10:forward:no-eof", "%s: %s received all %d bytes but then %v instead of end-of-stream", dir, to.name, len(to.recv), to.rerr)
			return false
		}
		return true
	}
	if !check(apps[0], apps[1], "app1->app2") || !check(apps[1], apps[0], "app2->app1") {
		return
	}
	// a configured counter equals the bytes forwarded in its direction; an unconfigured one is never touched
	cnt := func(mode int, up, down *atomic.Int64, wantUp, wantDown int) bool {
		if mode == 1 || mode == 3 {
			wantUp = 0
		}
		if mode == 1 || mode == 2 {
			wantDown = 0
		}
		return up.Load() == int64(wantUp) && down.Load() == int64(wantDown)
	}
	if !cnt(cm1, &up1, &down1, t1, t2) || !cnt(cm2, &up2, &down2, t2, t1) {
		w.Violationf("C10:forward:counters", "app1 sent %d, app2 sent %d; node1 (counter mode %d) counted up=%d down=%d, node2 (mode %d) counted up=%d down=%d", t1, t2, cm1, up1.Load(), down1.Load(), cm2, up2.Load(), down2.Load())
	}
	if s1.closes == 0 || s2.closes == 0 {
		w.Probe("forward.remote-close-not-called")
	}
	if t1 > 0 && t2 > 0 {
		w.Nontrivial()
	}
	if t1 > c10Limit || t2 > c10Limit {
		w.Probe("forward.more-than-one-frame")
	}
}

// ------------------------------------------------------------------- pure

// Real-time patience on loopback sockets. A wait only ever times out on a
// defective tree; after a few such timeouts in one worker process further
// waits are cut short so that minimising a finding does not take hours. A
// fresh process (every replay) starts with full patience again.
var c10TimeoutsSeen atomic.Int32

func c10Patience(d time.Duration) time.Duration {
	if c10TimeoutsSeen.Load() >= 4 {
		return 500 * time.Millisecond
	}
	return d
}

func c10Viol(res *simrt.Result, sig, format string, a ...any) {
	if strings.Contains(sig, "starved") || strings.Contains(sig, ":hang") || strings.Contains(sig, "no-eof-after-terminal-frame") || strings.Contains(sig, "not-delivered") || strings.Contains(sig, "never-returns") {
		c10TimeoutsSeen.Add(1)
	}
	for _, v := range res.Violations {
		if v.Sig == sig {
			return
		}
	}
	res.Violations = append(res.Violations, simrt.Violation{Sig: sig, Detail: fmt.Sprintf(format, a...)})
}

func c10Pure(c *simrt.Choice, res *simrt.Result, tier string) {
	defer func() {
		if r := recover(); r != nil {
			buf := make([]byte, 8<<10)
			buf = buf[:runtime.Stack(buf, false)]
			c10Viol(res, "C10:panic", "panic outside the bubble: %v\n%s", r, buf)
		}
	}()
	switch w := c.Intn(12, "pure.world"); {
	case w >= 10:
		c10PureBridge(c, res)
	case w >= 7:
		c10PureDecoder(c, res)
	default:
		c10PureStream(c, res)
	}
}

// c10chunkReader hands out its bytes in seeded chunk sizes.
type c10chunkReader struct {
	b      []byte
	off    int
	sizes  []int
	i      int
	reads  int
	maxAsk int
}

func (r *c10chunkReader) Read(p []byte) (int, error) {
	if len(p) > r.maxAsk {
		r.maxAsk = len(p)
	}
	if r.off >= len(r.b) {
		return 0, io.EOF
	}
	n := r.sizes[r.i%len(r.sizes)]
	r.i++
	if n > len(p) {
		n = len(p)
	}
	if n > len(r.b)-r.off {
		n = len(r.b) - r.off
	}
	copy(p, r.b[r.off:r.off+n])
	r.off += n
	r.reads++
	return n, nil
}

func c10PureDecoder(c *simrt.Choice, res *simrt.Result) {
	res.Probes["world.decoder"]++
	var input []byte
	nvalid := c.Biased(5, "dec.valid")
	for i := 0; i < nvalid; i++ {
		f := c10frame{typ: byte(c.Intn(256, "dec.type"))}
		c.Bytes(f.id[:], "dec.id")
		sz := c10FrameSize(c)
		if sz > c10Limit {
			sz = c10Limit
		}
		f.data = c10Pattern(sz, byte(i+3))
		input = c10RefEncode(input, f)
	}
	tail, tailKind := c10Tail(c)
	input = append(input, tail...)
	mutated := false
	if len(input) > 0 && c.Chance(1, 3, "dec.mutate") {
		k := 1 + c.Intn(4, "dec.mutations")
		for i := 0; i < k; i++ {
			input[c.Intn(len(input), "dec.mut.off")] ^= byte(1 << c.Intn(8, "dec.mut.bit"))
		}
		mutated = true
	}
	sizes := make([]int, 1+c.Intn(4, "dec.chunks"))
	for i := range sizes {
		sizes[i] = []int{1 << 20, 1, 2, 7, 20, 21, 22, 1460, 4096}[c.Intn(9, "dec.chunk")]
	}
	if len(input) > 64<<10 {
		for i := range sizes {
			if sizes[i] < 20 {
				sizes[i] = 1460
			}
		}
	}
	res.Sample = fmt.Sprintf("world=decoder valid=%d tail=%s mutated=%v input=%dB chunks=%v", nvalid, tailKind, mutated, len(input), sizes)
	res.States[fmt.Sprintf("decoder/%s/%v", tailKind, mutated)]++
	exp, _, end := c10RefParse(input)
	if end != "clean" || mutated {
		res.Nontrivial = true
		res.Faults["decoder.bad-input."+end]++
	}
	decode := func(measure bool) (got []c10frame, rerr error, worst uint64) {
		rd := &c10chunkReader{b: input, sizes: sizes}
		var m0, m1 runtime.MemStats
		for {
			if measure {
				runtime.ReadMemStats(&m0)
			}
			id, typ, data, err := crossnode.ReadFrameFromReader(rd)
			if measure {
				runtime.ReadMemStats(&m1)
				if d := m1.TotalAlloc - m0.TotalAlloc; d > worst {
					worst = d
				}
			}
			if err != nil {
				return got, err, worst
			}
			got = append(got, c10frame{id: id, typ: typ, data: data})
			if len(got) > len(exp)+4 {
				return got, fmt.Errorf("harness: too many frames"), worst
			}
		}
	}
	got, rerr, worst := decode(true)
	const slack = 8 << 10
	if worst > c10Limit+c10Hdr+slack {
		// heap growth is process wide: confirm on a second, identical decode
		_, _, again := decode(true)
		if again > c10Limit+c10Hdr+slack {
			c10Viol(res, "C10:decoder:alloc-over-limit:"+end, "one ReadFrameFromReader call allocated %d and %d bytes on two identical decodes (limit %d + header); input ends %s", worst, again, c10Limit, end)
			return
		}
	}
	for i := range exp {
		if i >= len(got) {
			c10Viol(res, "C10:decoder:missing-frame:pure", "reference parser finds %d frames (then %s); decoder returned %d and then %v", len(exp), end, len(got), rerr)
			return
		}
		if got[i].id != exp[i].id || got[i].typ != exp[i].typ || !bytes.Equal(got[i].data, exp[i].data) {
			c10Viol(res, "C10:decoder:frame-mismatch:pure", "frame %d: want id=%x type=%#x len=%d, got id=%x type=%#x len=%d", i, exp[i].id, exp[i].typ, len(exp[i].data), got[i].id, got[i].typ, len(got[i].data))
			return
		}
	}
	if len(got) > len(exp) {
		g := got[len(exp)]
		if len(g.data) > c10Limit {
			c10Viol(res, "C10:decoder:payload-over-limit", "decoder returned a %d byte payload", len(g.data))
			return
		}
		c10Viol(res, "C10:decoder:frame-from-bad-input:"+end, "reference parser finds %d frames then %s; decoder returned an extra frame type=%#x len=%d", len(exp), end, g.typ, len(g.data))
		return
	}
	if rerr == nil {
		c10Viol(res, "C10:decoder:no-error:"+end, "decoder returned neither frame nor error")
	}
	res.Probes["decoder.end."+end]++
}

// ------------------------------------------------- cooperative scheduler
//
// FrameStream needs a real *net.TCPConn, so it cannot run inside the bubble.
// To still explore interleavings of several writers on one connection
// deterministically, the stream world installs this small verifhook runtime
// for the writing phase: the registered tasks run one at a time and hand the
// baton back at every instrumented yield/lock point; which task continues is
// drawn from the choice stream. Socket writes never block for long because a
// harness goroutine drains the peer socket all the time.

type c10coopTask struct {
	name      string
	fn        func()
	gate      chan struct{}
	done      bool
	lockWait  bool
	waitEpoch uint64
	suppress  int
	panicked  string
}

type c10coop struct {
	c     *simrt.Choice
	mu    sync.Mutex
	byG   map[uint64]*c10coopTask
	once  map[*sync.Once]*c10coopTask
	epoch atomic.Uint64
	sig   chan struct{}
	steps int
}

func c10goid() uint64 {
	var buf [64]byte
	n := runtime.Stack(buf[:], false)
	var id uint64
	for _, ch := range buf[10:n] {
		if ch < '0' || ch > '9' {
			break
		}
		id = id*10 + uint64(ch-'0')
	}
	return id
}

func (r *c10coop) cur() *c10coopTask {
	id := c10goid()
	r.mu.Lock()
	t := r.byG[id]
	r.mu.Unlock()
	return t
}

func (r *c10coop) park(t *c10coopTask) {
	r.sig <- struct{}{}
	<-t.gate
}

func (r *c10coop) Yield(site string) {
	if t := r.cur(); t != nil && t.suppress == 0 {
		r.park(t)
	}
}

func (r *c10coop) Lock(site string, try func() bool, lock func()) {
	t := r.cur()
	if t == nil || t.suppress > 0 {
		lock()
		return
	}
	r.park(t)
	for {
		e := r.epoch.Load()
		if try() {
			return
		}
		t.lockWait, t.waitEpoch = true, e
		r.park(t)
		t.lockWait = false
	}
}

func (r *c10coop) OnceEnter(o *sync.Once) {
	t := r.cur()
	if t == nil || t.suppress > 0 {
		return
	}
	r.park(t)
	for {
		e := r.epoch.Load()
		r.mu.Lock()
		h := r.once[o]
		if h == nil || h == t {
			r.once[o] = t
			r.mu.Unlock()
			return
		}
		r.mu.Unlock()
		t.lockWait, t.waitEpoch = true, e
		r.park(t)
		t.lockWait = false
	}
}

func (r *c10coop) OnceLeave(o *sync.Once) {
	r.mu.Lock()
	if t := r.once[o]; t != nil && t == r.byG[c10goid()] {
		delete(r.once, o)
	}
	r.mu.Unlock()
	r.epoch.Add(1)
}

func (r *c10coop) PoolGet(p *sync.Pool) any    { return p.Get() }
func (r *c10coop) PoolPut(p *sync.Pool, x any) { p.Put(x) }
func (r *c10coop) SelectOrder(n int) []int     { return nil }
func (r *c10coop) Unlocked()                   { r.epoch.Add(1) }
func (r *c10coop) Go(site string, f func()) { go f() }
func (r *c10coop) Suppress(d int) {
	if t := r.cur(); t != nil {
		t.suppress += d
	}
}

// run executes the tasks to completion, one at a time.
func (r *c10coop) run(tasks []*c10coopTask) error {
	r.byG = map[uint64]*c10coopTask{}
	r.once = map[*sync.Once]*c10coopTask{}
	r.sig = make(chan struct{})
	wait := func() error {
		select {
		case <-r.sig:
			return nil
		case <-time.After(15 * time.Second):
			return fmt.Errorf("a task neither yielded nor finished within 15 s")
		}
	}
	verifhook.Install(r)
	defer verifhook.Install(nil)
	for _, t := range tasks {
		t := t
		t.gate = make(chan struct{})
		go func() {
			id := c10goid()
			r.mu.Lock()
			r.byG[id] = t
			r.mu.Unlock()
			defer func() {
				if p := recover(); p != nil {
					buf := make([]byte, 4<<10)
					t.panicked = fmt.Sprintf("%v\n%s", p, buf[:runtime.Stack(buf, false)])
				}
				r.mu.Lock()
				delete(r.byG, id)
				r.mu.Unlock()
				t.done = true
				r.sig <- struct{}{}
			}()
			r.park(t)
			t.fn()
		}()
		if err := wait(); err != nil {
			return err
		}
	}
	for {
		var cands []*c10coopTask
		alive := 0
		e := r.epoch.Load()
		for _, t := range tasks {
			if t.done {
				continue
			}
			alive++
			if t.lockWait && t.waitEpoch == e {
				continue
			}
			cands = append(cands, t)
		}
		if alive == 0 {
			return nil
		}
		if len(cands) == 0 {
			return fmt.Errorf("deadlock: %d tasks wait for a lock nobody releases", alive)
		}
		t := cands[r.c.Intn(len(cands), "coop.sched")]
		r.steps++
		t.gate <- struct{}{}
		if err := wait(); err != nil {
			return err
		}
	}
}

// ----------------------------------------------------------------- stream

type c10inj struct {
	before int // index of A's frame this goes in front of (len = at the very end)
	kind   string
	size   int
	typ    byte
}

func c10PureStream(c *simrt.Choice, res *simrt.Result) {
	res.Probes["world.stream"]++
	own, foreign, idClass := c10IDStrings(c)
	shared := c10RefID(own) == c10RefID(foreign)
	// ---- plan: A's operations
	nw := c.Biased(7, "a.writes")
	var sizes []int
	total := 0
	for i := 0; i < nw; i++ {
		var sz int
		switch c.Intn(12, "a.size.class") {
		case 0:
			sz = 2 + c.Intn(200, "a.size")
		case 1:
			sz = 0
		case 2:
			sz = 1
		case 3:
			sz = c10Limit - 1
		case 4:
			sz = c10Limit
		case 5:
			sz = c10Limit + 1
		case 6:
			sz = 2 * c10Limit
		case 7:
			sz = 2*c10Limit + 1
		case 8:
			sz = 200 << 10
		case 9:
			sz = 1 << 20
		case 10:
			sz = 1 + c.Intn(3*c10Limit, "a.size")
		default:
			sz = 1000 + c.Intn(8000, "a.size")
		}
		if total+sz > 2500<<10 {
			sz = 16
		}
		sizes = append(sizes, sz)
		total += sz
	}
	ending := []string{"closewrite", "close", "none", "closewrite+write", "close+write", "closewrite+close"}[c.Intn(6, "a.ending")]
	salt := byte(c.Intn(256, "a.salt"))
	bufClass := c.Intn(8, "b.buf.class")
	bufSizes := [][]int{{32 << 10}, {128 << 10}, {c10Limit}, {c10Limit - 1}, {4096}, {1}, {7}, nil}[bufClass]
	if bufSizes == nil {
		for i := 0; i < 3; i++ {
			bufSizes = append(bufSizes, 1+c.Intn(70000, "b.buf"))
		}
	}
	if total > 16<<10 {
		for i := range bufSizes {
			if bufSizes[i] < 512 {
				bufSizes[i] = 4096 + bufSizes[i]
			}
		}
	}
	inject := c.Chance(2, 3, "inject")
	cut := c.Chance(1, 4, "cut")
	// connection reuse: a FrameStream is a temporary per-tunnel view of a pooled
	// connection. After tunnel A has ended with its own EOF/Close frame a second
	// tunnel uses the same connections on both nodes; its frames are already in
	// flight behind A's when B finishes tunnel A.
	reuse := ending != "none" && !cut && c.Chance(1, 2, "reuse")
	var reuseSizes []int
	reuseEnding, reuseReader := "closewrite", "stream"
	reuseID := c10RefID("next-tenant/" + own)
	if reuse {
		for i, k := 0, 1+c.Intn(3, "reuse.writes"); i < k; i++ {
			reuseSizes = append(reuseSizes, []int{1, 17, 300, 4096, 20000, c10Limit, c10Limit + 1, 150000}[c.Intn(8, "reuse.size")])
		}
		reuseEnding = []string{"closewrite", "close"}[c.Intn(2, "reuse.ending")]
		reuseReader = []string{"stream", "raw-readframe"}[c.Intn(2, "reuse.reader")]
	}
	// other decoding activity in the process between B's reads (another
	// connection's reader, the listener reading a first frame): what B still
	// holds of a partially consumed frame, and what a decoder returned earlier,
	// must not change
	interleave := c.Chance(1, 2, "b.interleave")
	var otherWires [][]byte
	var otherPayloads [][]byte
	if interleave {
		for i, k := 0, 1+c.Intn(3, "b.interleave.n"); i < k; i++ {
			pl := c10Pattern([]int{1, 300, 4096, c10Limit, 20000}[c.Intn(5, "b.interleave.size")], byte(0xC7+i))
			otherPayloads = append(otherPayloads, pl)
			otherWires = append(otherWires, c10RefEncode(nil, c10frame{id: c10RefID("other-connection"), typ: []byte{c10TData, 0x02, 0x10}[c.Intn(3, "b.interleave.type")], data: pl}))
		}
	}
	// B's own write side: a reader that has already sent its request and
	// half-closed (or closed) must report what arrives exactly like one that has not
	bOps := []string{"none", "write+closewrite", "closewrite", "write+close"}[c.Intn(4, "b.ops")]
	// other writers on A's connection (other tunnels' streams, raw response
	// frames of the listener), interleaved with A by the cooperative scheduler
	type otherWriter struct {
		kind   string // "stream" or "raw"
		idStr  string
		id     [16]byte
		sizes  []int
		ending string
		sent   []byte
		err    error
	}
	var others []*otherWriter
	conc := c.Chance(1, 3, "a.concurrent")
	if conc {
		inject = false
		nO := 1 + c.Intn(2, "conc.others")
		for j := 0; j < nO; j++ {
			o := &otherWriter{kind: "stream", idStr: foreign, ending: []string{"none", "closewrite", "close"}[c.Intn(3, "conc.ending")]}
			if c.Intn(3, "conc.kind") == 2 {
				// (the listener's helpers use the all-zero id; a second raw writer gets another id so that the wire can be attributed)
				o.kind, o.idStr, o.ending = "raw", strings.Repeat("\x00raw", j), "none"
			} else if shared || j > 0 {
				o.idStr = fmt.Sprintf("~%d%s", j, foreign) // distinct on the wire (the 16-byte collision is a separate, known class)
			}
			o.id = c10RefID(o.idStr)
			k := 1 + c.Intn(4, "conc.writes")
			for i := 0; i < k; i++ {
				sz := []int{1, 17, 4096, c10Limit, 300, c10Limit + 5, 3*c10Limit + 1}[c.Intn(7, "conc.size")]
				if o.kind == "raw" && sz > c10Limit {
					sz = c10Limit
				}
				o.sizes = append(o.sizes, sz)
			}
			others = append(others, o)
		}
		shared = false
	}
	chunkPlan := make([]int, 1+c.Intn(6, "feed.chunks"))
	for i := range chunkPlan {
		chunkPlan[i] = []int{1 << 20, 1, 3, 20, 21, 22, 1460, c10Limit + c10Hdr}[c.Intn(8, "feed.chunk")]
	}

	multi := false
	for _, s := range sizes {
		if s > c10Limit {
			multi = true
		}
	}
	szClass := "single-frame"
	if multi {
		szClass = "multi-frame"
	}

	// ---- world
	deadline := time.Now().Add(8 * time.Second)
	ln, err := net.Listen("tcp", "127.0.0.1:0")
	if err != nil {
		c10Viol(res, "C10:harness:loopback", "listen: %v", err)
		return
	}
	defer ln.Close()
	pair := func() (dialed, accepted *net.TCPConn, err error) {
		type acc struct {
			c   net.Conn
			err error
		}
		ch := make(chan acc, 1)
		go func() { cn, err := ln.Accept(); ch <- acc{cn, err} }()
		d, err := net.DialTimeout("tcp", ln.Addr().String(), 5*time.Second)
		if err != nil {
			return nil, nil, err
		}
		var a acc
		select {
		case a = <-ch:
		case <-time.After(5 * time.Second):
			d.Close()
			return nil, nil, fmt.Errorf("accept timed out")
		}
		if a.err != nil {
			d.Close()
			return nil, nil, a.err
		}
		d.SetDeadline(deadline)
		a.c.SetDeadline(deadline)
		return d.(*net.TCPConn), a.c.(*net.TCPConn), nil
	}
	sA, hA, err := pair()
	if err != nil {
		c10Viol(res, "C10:harness:loopback", "pair A: %v", err)
		return
	}
	defer hA.Close()
	hB, sB, err := pair()
	if err != nil {
		sA.Close()
		c10Viol(res, "C10:harness:loopback", "pair B: %v", err)
		return
	}
	defer hB.Close()
	ctx, cancel := context.WithCancel(context.Background())
	defer cancel()
	connA := crossnode.NewConn(ctx, "node-b", sA, nil)
	connB := crossnode.NewConn(ctx, "node-a", sB, nil)
	defer connA.Close()
	defer connB.Close()
	idA, _ := crossnode.TunnelIDFromString(own)
	if idA != c10RefID(own) {
		c10Viol(res, "C10:tunnel-id:wire-form", "TunnelIDFromString(%q) = %x, want %x", own, idA, c10RefID(own))
		return
	}
	fsA := crossnode.NewFrameStream(connA, idA)
	fsB := crossnode.NewFrameStream(connB, idA)

	// ---- phase 1: A (and the other writers) write, the harness records the wire
	type drained struct {
		b   []byte
		err error
	}
	drainCh := make(chan drained, 1)
	go func() { b, err := io.ReadAll(hA); drainCh <- drained{b, err} }()
	var sent []byte
	var termType byte
	cw := ""
	if conc {
		cw = ":concurrent-writers"
	}
	runA := func() {
		for i, sz := range sizes {
			p := c10Pattern(sz, salt+byte(i))
			n, err := fsA.Write(p)
			if err != nil || n != sz {
				c10Viol(res, "C10:stream:write-failed:"+szClass+cw, "write %d of %d bytes returned n=%d err=%v", i, sz, n, err)
				return
			}
			sent = append(sent, p...)
		}
		var err error
		switch ending {
		case "closewrite", "closewrite+write", "closewrite+close":
			err = fsA.CloseWrite()
			termType = c10TEOF
		case "close", "close+write":
			err = fsA.Close()
			termType = c10TClose
		}
		if err != nil {
			c10Viol(res, "C10:stream:close-failed"+cw, "%s: %v", ending, err)
		}
		switch ending {
		case "closewrite+write", "close+write":
			n, err := fsA.Write([]byte("late"))
			if err == nil || n != 0 {
				c10Viol(res, "C10:stream:write-after-close-accepted", "Write after %s returned n=%d err=%v", strings.TrimSuffix(ending, "+write"), n, err)
			}
			res.Probes["stream.write-after-close"]++
		case "closewrite+close":
			if err := fsA.Close(); err != nil {
				c10Viol(res, "C10:stream:close-failed"+cw, "Close after CloseWrite: %v", err)
			}
		}
	}
	if !conc {
		runA()
	} else {
		tasks := []*c10coopTask{{name: "A", fn: runA}}
		for j, o := range others {
			o := o
			fn := func() {
				fs := crossnode.NewFrameStream(connA, o.id)
				for i, sz := range o.sizes {
					p := c10Pattern(sz, byte(0xA0+16*j+i))
					if o.kind == "raw" {
						// what the listener's response helpers do on a shared connection
						o.err = crossnode.WriteFrame(sA, o.id, 0x06, p)
					} else {
						_, o.err = fs.Write(p)
					}
					if o.err != nil {
						return
					}
					o.sent = append(o.sent, p...)
				}
				switch o.ending {
				case "closewrite":
					o.err = fs.CloseWrite()
				case "close":
					o.err = fs.Close()
				}
			}
			tasks = append(tasks, &c10coopTask{name: fmt.Sprintf("other%d", j), fn: fn})
		}
		coop := &c10coop{c: c}
		if err := coop.run(tasks); err != nil {
			c10Viol(res, "C10:harness:coop", "cooperative scheduler: %v", err)
			sA.Close()
			<-drainCh
			return
		}
		res.Probes["stream.concurrent-writers"]++
		for _, t := range tasks {
			if t.panicked != "" {
				c10Viol(res, "C10:panic:concurrent-writers", "task %s: %s", t.name, t.panicked)
			}
		}
		for j, o := range others {
			if o.err != nil {
				c10Viol(res, "C10:stream:write-failed:other-writer"+cw, "writer %d (%s) on the shared connection failed: %v", j, o.kind, o.err)
			}
		}
	}
	var reuseSent []byte
	if reuse && len(res.Violations) == 0 {
		fs2 := crossnode.NewFrameStream(connA, reuseID)
		for i, sz := range reuseSizes {
			p := c10Pattern(sz, byte(0x70+i))
			if n, err := fs2.Write(p); err != nil || n != sz {
				c10Viol(res, "C10:stream:reuse:write-failed", "second tunnel on A's connection: write %d of %d bytes returned n=%d err=%v", i, sz, n, err)
				break
			}
			reuseSent = append(reuseSent, p...)
		}
		var err error
		if reuseEnding == "close" {
			err = fs2.Close()
		} else {
			err = fs2.CloseWrite()
		}
		if err != nil {
			c10Viol(res, "C10:stream:reuse:close-failed", "second tunnel on A's connection: %s: %v", reuseEnding, err)
		}
	}
	if len(res.Violations) > 0 {
		sA.Close()
		<-drainCh
		return
	}
	sA.CloseWrite()
	var wire []byte
	select {
	case d := <-drainCh:
		wire = d.b
		if d.err != nil {
			c10Viol(res, "C10:harness:loopback", "draining A's socket: %v", d.err)
			return
		}
	case <-time.After(10 * time.Second):
		c10Viol(res, "C10:harness:loopback", "draining A's socket timed out")
		return
	}
	allFrames, _, end := c10RefParse(wire)
	if end != "clean" {
		c10Viol(res, "C10:stream:wire:malformed:"+end+cw, "the %d wire bytes of A's connection do not parse as frames: %s after %d frames (writers on the connection: %d)", len(wire), end, len(allFrames), 1+len(others))
		return
	}
	// every frame on the wire belongs to exactly one writer; per writer the
	// frames carry what it wrote, in order, and its EOF/Close frame comes last
	var aFrames, nextFrames []c10frame
	{
		type acct struct {
			name    string
			data    []byte
			term    byte
			sawTerm bool
		}
		accts := map[[16]byte]*acct{idA: {name: "A"}}
		for j, o := range others {
			accts[o.id] = &acct{name: fmt.Sprintf("other%d(%s)", j, o.kind)}
		}
		if reuse {
			accts[reuseID] = &acct{name: "next-tenant"}
		}
		for i := range allFrames {
			f := &allFrames[i]
			a := accts[f.id]
			if a == nil {
				c10Viol(res, "C10:stream:wire:tunnel-id"+cw, "frame %d carries id %x which no writer of this connection uses", i, f.id)
				return
			}
			if a.sawTerm {
				c10Viol(res, "C10:stream:wire:frame-after-terminal"+cw, "frame %d (type %#x) of writer %s follows its own EOF/Close frame", i, f.typ, a.name)
				return
			}
			isRaw := a.name != "A" && strings.HasSuffix(a.name, "(raw)")
			switch {
			case f.typ == c10TData && !isRaw, f.typ == 0x06 && isRaw:
				a.data = append(a.data, f.data...)
			case (f.typ == c10TEOF || f.typ == c10TClose) && len(f.data) == 0 && !isRaw:
				a.term, a.sawTerm = f.typ, true
			default:
				c10Viol(res, "C10:stream:wire:unexpected-frame"+cw, "frame %d: writer %s, type %#x len %d (ending=%s)", i, a.name, f.typ, len(f.data), ending)
				return
			}
			if a.name == "A" {
				f.origin = "A"
				aFrames = append(aFrames, *f)
			} else if a.name == "next-tenant" {
				f.origin = "next-tenant"
				nextFrames = append(nextFrames, *f)
			} else {
				f.origin = map[byte]string{c10TData: "foreign-data", c10TEOF: "foreign-eof", c10TClose: "foreign-close", 0x06: "foreign-raw"}[f.typ]
			}
		}
		a := accts[idA]
		if !bytes.Equal(a.data, sent) {
			c10Viol(res, "C10:stream:wire:data-mismatch:"+szClass+cw, "A wrote %d bytes, its data frames on the wire carry %d bytes, first difference at %d", len(sent), len(a.data), firstDiff(a.data, sent))
			return
		}
		if a.term != termType {
			c10Viol(res, "C10:stream:wire:no-terminal-frame"+cw, "ending=%s but A's last frame on the wire is type %#x, not %#x", ending, a.term, termType)
			return
		}
		if reuse {
			na := accts[reuseID]
			if !bytes.Equal(na.data, reuseSent) || na.term != map[string]byte{"closewrite": c10TEOF, "close": c10TClose}[reuseEnding] {
				c10Viol(res, "C10:stream:reuse:wire-mismatch", "the second tunnel on A's connection wrote %d bytes ending %q; the wire carries %d bytes for it (first difference at %d), terminal frame %#x", len(reuseSent), reuseEnding, len(na.data), firstDiff(na.data, reuseSent), na.term)
				return
			}
		}
		for j, o := range others {
			oa := accts[o.id]
			wantTerm := map[string]byte{"closewrite": c10TEOF, "close": c10TClose}[o.ending]
			if !bytes.Equal(oa.data, o.sent) || oa.term != wantTerm {
				c10Viol(res, "C10:stream:wire:data-mismatch:other-writer"+cw, "writer %d (%s) wrote %d bytes ending %q; the wire carries %d bytes for it (first difference at %d), terminal frame %#x", j, o.kind, len(o.sent), o.ending, len(oa.data), firstDiff(oa.data, o.sent), oa.term)
				return
			}
		}
	}

	// ---- phase 2: the harness is the wire to B
	var injs []c10inj
	if inject {
		for i := 0; i <= len(aFrames); i++ {
			if i == len(aFrames) && termType != 0 {
				break // nothing is generated after the tunnel's own EOF/Close frame
			}
			if !c.Chance(1, 3, "inj.here") {
				continue
			}
			in := c10inj{before: i}
			switch c.Intn(6, "inj.kind") {
			case 0:
				in.kind, in.typ = "foreign-data", c10TData
				in.size = []int{1, 17, 4096, c10Limit}[c.Intn(4, "inj.size")]
			case 1:
				in.kind, in.typ = "foreign-eof", c10TEOF
			case 2:
				in.kind, in.typ = "foreign-close", c10TClose
			case 3:
				in.kind, in.typ = "own-unknown-type", c10UnknownTypes[c.Intn(len(c10UnknownTypes), "inj.type")]
				in.size = []int{0, 5, 3000}[c.Intn(3, "inj.size")]
			case 4:
				in.kind, in.typ = "own-non-data-type", c10OtherKnownTypes[c.Intn(len(c10OtherKnownTypes), "inj.type")]
				in.size = []int{0, 5, 3000}[c.Intn(3, "inj.size")]
			default:
				in.kind, in.typ = "own-empty-data", c10TData
			}
			injs = append(injs, in)
		}
	}
	var feedFrames []c10frame
	if conc {
		// the other tunnels' frames are the ones the concurrent writers produced
		feedFrames = allFrames
		for _, f := range allFrames {
			if f.origin != "A" {
				injs = append(injs, c10inj{kind: f.origin, size: len(f.data), typ: f.typ, before: -1})
			}
		}
	}
	ii := 0
	for i := 0; !conc && i <= len(aFrames); i++ {
		for ii < len(injs) && injs[ii].before == i {
			in := injs[ii]
			f := c10frame{id: idA, typ: in.typ, data: c10Pattern(in.size, 0xEE), origin: in.kind}
			if strings.HasPrefix(in.kind, "foreign") {
				f.id, _ = crossnode.TunnelIDFromString(foreign)
			}
			feedFrames = append(feedFrames, f)
			ii++
		}
		if i < len(aFrames) {
			feedFrames = append(feedFrames, aFrames[i])
		}
	}
	if !conc {
		feedFrames = append(feedFrames, nextFrames...)
	}
	var feed []byte
	var bounds []int // start offset of every feed frame
	for _, f := range feedFrames {
		bounds = append(bounds, len(feed))
		feed = c10RefEncode(feed, f)
	}
	cutAt, cutClass := len(feed), "none"
	var corruptTail []byte
	if cut && len(feedFrames) > 0 {
		k := c.Intn(len(feedFrames), "cut.frame")
		flen := c10Hdr + len(feedFrames[k].data)
		switch c.Intn(5, "cut.where") {
		case 4:
			// the wire is not cut but corrupt: a header announcing more than the limit
			cutAt, cutClass = bounds[k], "oversize-length"
			corruptTail = make([]byte, c10Hdr)
			copy(corruptTail, feedFrames[k].id[:])
			corruptTail[16] = feedFrames[k].typ
			binary.BigEndian.PutUint32(corruptTail[17:], []uint32{c10Limit + 1, 0x7fffffff, 0xffffffff}[c.Intn(3, "cut.len")])
			corruptTail = append(corruptTail, c10Pattern(c.Intn(40, "cut.extra"), 3)...)
		case 0:
			cutAt, cutClass = bounds[k]+1+c.Intn(c10Hdr-1, "cut.off"), "inside-header"
		case 1:
			if flen > c10Hdr {
				cutAt, cutClass = bounds[k]+c10Hdr, "after-header"
			} else {
				cutAt, cutClass = bounds[k]+c10Hdr-1, "inside-header"
			}
		case 2:
			if flen > c10Hdr+1 {
				cutAt, cutClass = bounds[k]+c10Hdr+1+c.Intn(flen-c10Hdr-1, "cut.off"), "inside-payload"
			} else {
				cutAt, cutClass = bounds[k]+5, "inside-header"
			}
		default:
			cutAt, cutClass = bounds[k], "at-boundary"
		}
	}
	// reference model: what the property lets B observe
	var want []byte
	ended := false   // A's own EOF/Close frame lies completely in front of the cut
	midFrame := false // the wire ends inside a frame that B has to look at
	{
		off := 0
		for _, f := range feedFrames {
			fend := off + c10Hdr + len(f.data)
			if fend > cutAt {
				if off < cutAt {
					midFrame = true
				}
				break
			}
			if f.origin == "A" {
				if f.typ == c10TData {
					want = append(want, f.data...)
				} else {
					ended = true
					break
				}
			}
			off = fend
		}
	}
	if corruptTail != nil && !ended {
		midFrame = true
	}
	// foreignEndBeforeCut: an EOF/Close frame of the other tunnel lies completely
	// in front of the cut and in front of A's own terminal frame (diagnosis only)
	foreignEndBeforeCut := func() bool {
		off := 0
		for _, f := range feedFrames {
			fend := off + c10Hdr + len(f.data)
			if fend > cutAt {
				return false
			}
			if f.typ == c10TEOF || f.typ == c10TClose {
				return strings.HasPrefix(f.origin, "foreign")
			}
			off = fend
		}
		return false
	}
	// diagnosis models (only used to name the class of a mismatch)
	model := func(isOwn func(f c10frame) bool, typed bool) []byte {
		var out []byte
		off := 0
		for _, f := range feedFrames {
			fend := off + c10Hdr + len(f.data)
			if fend > cutAt {
				break
			}
			if isOwn(f) {
				if f.typ == c10TData || !typed && f.typ != c10TEOF && f.typ != c10TClose {
					out = append(out, f.data...)
				} else if f.typ == c10TEOF || f.typ == c10TClose {
					break
				}
			}
			off = fend
		}
		return out
	}
	var injDesc []string
	for _, in := range injs {
		injDesc = append(injDesc, fmt.Sprintf("%s@%d(%dB)", in.kind, in.before, in.size))
		res.Probes["stream.inject."+in.kind]++
	}
	var concDesc []string
	for _, o := range others {
		concDesc = append(concDesc, fmt.Sprintf("%s%v/%s", o.kind, o.sizes, o.ending))
	}
	res.Sample = fmt.Sprintf("world=stream concurrent=%v reader-ops=%s other-decoder=%v reuse=%v/%s/%s ids=%s(shared16=%v) writes=%v ending=%s frames=%d inject=%v cut=%s@%d/%d readbuf=%v feedchunks=%v", concDesc, bOps, interleave, reuseSizes, reuseEnding, reuseReader, idClass, shared, sizes, ending, len(aFrames), injDesc, cutClass, cutAt, len(feed), bufSizes, chunkPlan)
	res.States[fmt.Sprintf("stream/%s/%s/%s/inj%v/buf%d/%s/conc%d/%s/reuse%v", szClass, ending, cutClass, len(injs) > 0, bufClass, idClass, len(others), bOps, reuse)]++
	if cutClass != "none" {
		res.Faults["stream.wire-cut."+cutClass]++
	}
	smallBuf := false
	for _, f := range aFrames {
		for _, bs := range bufSizes {
			if bs < len(f.data) {
				smallBuf = true
			}
		}
	}
	if multi || len(injs) > 0 || smallBuf || cutClass != "none" || conc || bOps != "none" || reuse {
		res.Nontrivial = true
	}
	if smallBuf {
		res.Probes["stream.readbuf-smaller-than-frame"]++
	}
	if multi {
		res.Probes["stream.write-split"]++
	}

	// ---- B's own write side (before it reads)
	bClosed := false
	if bOps != "none" {
		var bSent []byte
		if strings.HasPrefix(bOps, "write") {
			bSent = c10Pattern(1+c.Intn(3000, "b.write"), 0x5B)
			if n, err := fsB.Write(bSent); err != nil || n != len(bSent) {
				c10Viol(res, "C10:stream:write-failed:reader-side", "B's write of %d bytes returned n=%d err=%v", len(bSent), n, err)
				return
			}
		}
		bTerm := c10TEOF
		var err error
		if strings.HasSuffix(bOps, "closewrite") {
			err = fsB.CloseWrite()
		} else {
			err, bTerm = fsB.Close(), c10TClose
		}
		if err != nil {
			c10Viol(res, "C10:stream:close-failed:reader-side", "%s: %v", bOps, err)
			return
		}
		var bGot []byte
		for {
			hdr := make([]byte, c10Hdr)
			if _, err := io.ReadFull(hB, hdr); err != nil {
				c10Viol(res, "C10:stream:wire:malformed:reader-side", "reading B's frames from its socket: %v (have %d of %d bytes)", err, len(bGot), len(bSent))
				return
			}
			n := binary.BigEndian.Uint32(hdr[17:])
			var id [16]byte
			copy(id[:], hdr)
			if id != idA || n > c10Limit {
				c10Viol(res, "C10:stream:wire:malformed:reader-side", "B wrote a frame with id %x len %d", id, n)
				return
			}
			pl := make([]byte, n)
			if _, err := io.ReadFull(hB, pl); err != nil {
				c10Viol(res, "C10:stream:wire:malformed:reader-side", "reading B's frame payload: %v", err)
				return
			}
			if hdr[16] == c10TData {
				bGot = append(bGot, pl...)
				continue
			}
			if hdr[16] != bTerm || n != 0 {
				c10Viol(res, "C10:stream:wire:unexpected-frame:reader-side", "B (%s) wrote a frame of type %#x len %d", bOps, hdr[16], n)
				return
			}
			break
		}
		if !bytes.Equal(bGot, bSent) {
			c10Viol(res, "C10:stream:wire:data-mismatch:reader-side", "B wrote %d bytes, its data frames carry %d", len(bSent), len(bGot))
			return
		}
		bClosed = true
		res.Probes["stream.reader-closed-its-write-side."+bOps]++
	}

	// When A ended the stream with its own EOF/Close frame the connection may
	// stay open (it is pooled): B has to report end-of-stream from the frame alone.
	keepOpen := termType != 0 && cutClass == "none" && c.Chance(1, 2, "feed.keep-open")
	if keepOpen {
		res.Probes["stream.connection-kept-open-after-terminal-frame"]++
		sB.SetReadDeadline(time.Now().Add(c10Patience(5 * time.Second)))
	}
	feedDone := make(chan error, 1)
	go func() {
		data := append(append([]byte(nil), feed[:cutAt]...), corruptTail...)
		off, i := 0, 0
		for off < len(data) {
			n := 64 << 10
			if i < 48 {
				n = chunkPlan[i%len(chunkPlan)]
			}
			i++
			if n > len(data)-off {
				n = len(data) - off
			}
			if _, err := hB.Write(data[off : off+n]); err != nil {
				feedDone <- err
				return
			}
			off += n
			if i < 48 {
				runtime.Gosched()
			}
		}
		if keepOpen {
			feedDone <- nil
			return
		}
		feedDone <- hB.Close()
	}()
	var got []byte
	var rerr error
	var retained [][]byte // payloads the decoder returned for the other connection, checked again at the end
	var retainedOf []int
	maxReads := len(feed) + len(feedFrames) + 64
	for r := 0; ; r++ {
		buf := make([]byte, bufSizes[r%len(bufSizes)])
		n, err := fsB.Read(buf)
		if n < 0 || n > len(buf) {
			c10Viol(res, "C10:stream:read-count", "Read(len %d) returned n=%d", len(buf), n)
			break
		}
		got = append(got, buf[:n]...)
		if err != nil {
			rerr = err
			break
		}
		if n == 0 {
			c10Viol(res, "C10:stream:zero-read", "Read(len %d) returned 0, nil", len(buf))
			break
		}
		if interleave && r < 200 {
			k := r % len(otherWires)
			_, _, data, err := crossnode.ReadFrameFromReader(bytes.NewReader(otherWires[k]))
			if err != nil || !bytes.Equal(data, otherPayloads[k]) {
				c10Viol(res, "C10:decoder:frame-mismatch:interleaved", "decoding a %d byte frame of another connection between B's reads: err=%v, payload len %d, first difference at %d", len(otherPayloads[k]), err, len(data), firstDiff(data, otherPayloads[k]))
				break
			}
			retained = append(retained, data)
			retainedOf = append(retainedOf, k)
		}
		if r > maxReads {
			c10Viol(res, "C10:stream:read-never-ends", "more than %d successful Reads for a %d byte wire", maxReads, len(feed))
			break
		}
	}
	sB.SetDeadline(time.Now().Add(2 * time.Second))
	if rerr == io.EOF {
		if n, err := fsB.Read(make([]byte, 16)); n != 0 || err != io.EOF {
			c10Viol(res, "C10:stream:eof-not-sticky", "Read after end-of-stream returned n=%d err=%v", n, err)
		}
	}
	// ---- the connection's next tenant: a second consumer on B's connection
	if reuse && rerr == io.EOF && bytes.Equal(got, want) && len(res.Violations) == 0 {
		res.Probes["stream.connection-reused."+reuseReader]++
		sB.SetReadDeadline(time.Now().Add(c10Patience(5 * time.Second)))
		var got2 []byte
		var rerr2 error
		if reuseReader == "stream" {
			fsB2 := crossnode.NewFrameStream(connB, reuseID)
			for r := 0; r < len(reuseSent)+64; r++ {
				buf := make([]byte, bufSizes[r%len(bufSizes)])
				n, err := fsB2.Read(buf)
				got2 = append(got2, buf[:n]...)
				if err != nil {
					rerr2 = err
					break
				}
			}
		} else {
			// what users of a pooled connection and the listener do: ReadFrame on the connection itself
			for r := 0; r < len(feedFrames)+8; r++ {
				id, typ, data, err := crossnode.ReadFrame(sB)
				if err != nil {
					rerr2 = err
					break
				}
				if id != reuseID {
					continue
				}
				if typ == c10TData {
					got2 = append(got2, data...)
				} else if typ == c10TEOF || typ == c10TClose {
					rerr2 = io.EOF
					break
				}
			}
		}
		switch {
		case rerr2 != nil && rerr2 != io.EOF && (errors.Is(rerr2, os.ErrDeadlineExceeded) || strings.Contains(rerr2.Error(), "i/o timeout")):
			c10Viol(res, "C10:stream:reuse:second-tunnel-starved:"+reuseReader, "tunnel A ended with its %#x frame and B read it to end-of-stream; the next tunnel's %d frames (%d bytes) had been sent right behind A's, but the second consumer (%s) on B's connection received %d bytes and then nothing for 5 s", termType, len(nextFrames), len(reuseSent), reuseReader, len(got2))
		case !bytes.Equal(got2, reuseSent):
			cls := "data-mismatch"
			if len(got2) < len(reuseSent) && bytes.Equal(got2, reuseSent[:len(got2)]) {
				cls = "incomplete"
			}
			c10Viol(res, "C10:stream:reuse:"+cls+":"+reuseReader, "the next tunnel on the same connections: %d bytes written, the second consumer (%s) on B's connection received %d (first difference at %d), then %v", len(reuseSent), reuseReader, len(got2), firstDiff(got2, reuseSent), rerr2)
		case rerr2 != io.EOF:
			c10Viol(res, "C10:stream:reuse:no-eof:"+reuseReader, "the next tunnel's %d bytes arrived, then %v instead of end-of-stream (it ended with %s)", len(got2), rerr2, reuseEnding)
		}
	}
	for i, d := range retained {
		if !bytes.Equal(d, otherPayloads[retainedOf[i]]) {
			c10Viol(res, "C10:decoder:returned-payload-changed-later", "a %d byte payload returned by ReadFrameFromReader for another connection was intact when returned and differs (first at %d) after B's stream decoded further frames", len(d), firstDiff(d, otherPayloads[retainedOf[i]]))
			break
		}
	}
	if interleave {
		res.Probes["stream.other-decoder-between-reads"]++
	}
	connB.Close() // unblocks the feeder if B stopped early
	select {
	case <-feedDone:
	case <-time.After(10 * time.Second):
		c10Viol(res, "C10:harness:loopback", "feeder did not finish")
	}
	if len(res.Violations) > 0 {
		return
	}
	if rerr != nil && (errors.Is(rerr, os.ErrDeadlineExceeded) || strings.Contains(rerr.Error(), "i/o timeout")) {
		if keepOpen {
			c10Viol(res, "C10:stream:no-eof-after-terminal-frame:"+ending, "A ended with %q, B received %d of %d bytes and the %#x frame, the connection stayed open: Read did not return end-of-stream within 5 s", ending, len(got), len(want), termType)
			return
		}
		c10Viol(res, "C10:stream:hang", "the wire delivered %d bytes and closed, B's Read was still blocked after 8 s (got %d of %d bytes)", cutAt, len(got), len(want))
		return
	}

	// ---- oracle
	if !bytes.Equal(got, want) {
		byWire := model(func(f c10frame) bool { return f.id == idA }, true)
		anyID := model(func(f c10frame) bool { return true }, true)
		anyType := model(func(f c10frame) bool { return f.id == idA }, false)
		switch {
		case shared && bytes.Equal(got, byWire):
			kinds := map[string]bool{}
			for _, in := range injs {
				if strings.HasPrefix(in.kind, "foreign") {
					kinds[strings.TrimPrefix(in.kind, "foreign-")] = true
				}
			}
			cls := "data"
			if len(got) < len(want) {
				cls = "eof-or-close" // another tunnel's EOF/Close ended this stream
			}
			c10Viol(res, "C10:stream:foreign-frame-taken-as-own:shared-16-byte-prefix:"+cls, "tunnel %q and tunnel %q are different tunnels but have the same 16-byte wire id %q; B (tunnel %q) received %d bytes where A wrote %d: frames of the other tunnel (%v) were taken as its own", own, foreign, string(idA[:]), own, len(got), len(want), injDesc)
		case !shared && bytes.Equal(got, anyID):
			c10Viol(res, "C10:stream:foreign-frame-taken-as-own:other-tunnel", "B received %d bytes, A wrote %d; the difference is exactly the other tunnel's frames %v", len(got), len(want), injDesc)
		case bytes.Equal(got, anyType):
			c10Viol(res, "C10:stream:non-data-frame-delivered", "B received %d bytes, A wrote %d; the difference is exactly the payload of non-data frames %v", len(got), len(want), injDesc)
		case len(got) < len(want) && bytes.Equal(got, want[:len(got)]):
			fault := "fault-free"
			if cutClass != "none" {
				fault = "wire-cut"
			}
			c10Viol(res, "C10:stream:incomplete:"+fault+":"+szClass, "B received only %d of the %d bytes that reached it in complete frames, then %v (writes=%v readbuf=%v cut=%s)", len(got), len(want), rerr, sizes, bufSizes, cutClass)
		default:
			il := ""
			if interleave {
				il = ":other-decoder-active" // frames of another connection were decoded between B's reads
			}
			c10Viol(res, "C10:stream:data-mismatch:"+szClass+il, "B received %d bytes, expected %d, first difference at %d (writes=%v readbuf=%v inject=%v other-decoder-between-reads=%v)", len(got), len(want), firstDiff(got, want), sizes, bufSizes, injDesc, interleave)
		}
		return
	}
	switch {
	case cutClass == "none" || ended:
		// everything A wrote is in `want`; the stream must now end cleanly
		if cutClass == "none" && !bytes.Equal(want, sent) {
			c10Viol(res, "C10:harness:model", "model lost bytes: %d vs %d", len(want), len(sent))
			return
		}
		if rerr != io.EOF {
			c10Viol(res, "C10:stream:no-eof:"+ending, "B received all %d bytes; A ended with %q and the connection was closed, but Read returned %v instead of io.EOF", len(got), ending, rerr)
		}
	case midFrame:
		res.Probes["stream.cut-mid-frame."+cutClass]++
		if len(want) == len(sent) {
			// only A's terminal frame was cut: nothing was lost, any ending is acceptable
			res.Probes["stream.cut-in-terminal-frame"]++
		} else if rerr == io.EOF && shared && foreignEndBeforeCut() {
			// B never reached the cut: another tunnel's EOF/Close frame with the same
			// 16-byte wire id ended this stream first (same class as the uncut case)
			c10Viol(res, "C10:stream:foreign-frame-taken-as-own:shared-16-byte-prefix:eof-or-close", "tunnel %q and tunnel %q are different tunnels but have the same 16-byte wire id %q; B (tunnel %q) received %d of the %d bytes A wrote and then io.EOF: the other tunnel's EOF/Close frame (%v) was taken as its own", own, foreign, string(idA[:]), own, len(got), len(sent), injDesc)
		} else if rerr == io.EOF {
			what, rd := "truncated-frame", ""
			if corruptTail != nil {
				what = "corrupt-frame"
			}
			if bClosed {
				rd = ":reader-half-closed" // B had ended its own write side (" + bOps + ") before reading
			}
			c10Viol(res, "C10:stream:"+what+"-reported-as-eof:"+cutClass+rd, "the wire failed %s (offset %d of %d, B's own write side: %s); A had written %d bytes and never closed from B's point of view, B received %d bytes and then a clean io.EOF: lost data is presented as a complete stream", cutClass, cutAt, len(feed), bOps, len(sent), len(got))
		}
	default:
		// the connection ended at a frame boundary without EOF/Close frame: don't-care
		res.Probes["stream.cut-at-boundary"]++
	}
}

// ----------------------------------------------------------------- bridge
//
// The source node's cross-node listener (CrossNodeListener.handleConnection ->
// handleTargetReady -> runBridgeForward) only accepts *net.TCPConn, so this
// world also runs outside the bubble on loopback sockets, in lock-step: the
// harness is the target node on one socket and the source application on the
// other, and moves one chunk at a time. A tunnel is long-lived; most runs use
// pauses of milliseconds, a few runs per worker process keep the tunnel idle for
// several REAL seconds (there is no fake clock on real sockets).

var c10LongPausesLeft atomic.Int32

func init() { c10LongPausesLeft.Store(3) }

func c10PureBridge(c *simrt.Choice, res *simrt.Result) {
	res.Probes["world.bridge"]++
	own, _, idClass := c10IDStrings(c)
	type phase struct {
		down  bool
		size  int
		pause time.Duration
	}
	var phases []phase
	nPh := 1 + c.Intn(6, "br.phases")
	for i := 0; i < nPh; i++ {
		ph := phase{down: c.Intn(2, "br.dir") == 0}
		ph.size = []int{1, 300, 32*1024 - 1 + c.Intn(3, "br.size"), 70000, 200 << 10, 5000}[c.Intn(6, "br.size.class")]
		ph.pause = []time.Duration{0, 0, 0, 5 * time.Millisecond, 150 * time.Millisecond}[c.Intn(5, "br.pause")]
		phases = append(phases, ph)
	}
	longDur := time.Duration(0)
	if c.Chance(1, 40, "br.long") {
		longDur = []time.Duration{3500 * time.Millisecond, 6 * time.Second}[c.Intn(2, "br.long.dur")]
		at := c.Intn(len(phases), "br.long.at")
		if c10LongPausesLeft.Add(-1) < 0 {
			// the real-time budget of this worker process is used up (also keeps replays
			// during minimisation short): run the same tunnel without the long idle period
			res.Probes["bridge.long-idle-skipped"]++
			longDur = 0
		} else {
			phases[at].pause = longDur
			// a long-lived tunnel still has to carry bytes both ways afterwards
			phases = append(phases, phase{down: true, size: 100}, phase{down: false, size: 100})
		}
	}
	targetEndsFirst := c.Intn(2, "br.end") == 0
	var desc []string
	for _, ph := range phases {
		d := "up"
		if ph.down {
			d = "down"
		}
		desc = append(desc, fmt.Sprintf("%v+%s:%d", ph.pause, d, ph.size))
	}
	res.Sample = fmt.Sprintf("world=bridge id=%s phases=%v target-half-closes-first=%v", idClass, desc, targetEndsFirst)
	res.States[fmt.Sprintf("bridge/%s/%d/%v/long=%v", idClass, len(phases), targetEndsFirst, longDur)]++

	ln, err := net.Listen("tcp", "127.0.0.1:0")
	if err != nil {
		c10Viol(res, "C10:harness:loopback", "listen: %v", err)
		return
	}
	defer ln.Close()
	pair := func() (dialed, accepted *net.TCPConn, err error) {
		type acc struct {
			c   net.Conn
			err error
		}
		ch := make(chan acc, 1)
		go func() { cn, err := ln.Accept(); ch <- acc{cn, err} }()
		d, err := net.DialTimeout("tcp", ln.Addr().String(), 5*time.Second)
		if err != nil {
			return nil, nil, err
		}
		select {
		case a := <-ch:
			if a.err != nil {
				d.Close()
				return nil, nil, a.err
			}
			return d.(*net.TCPConn), a.c.(*net.TCPConn), nil
		case <-time.After(5 * time.Second):
			d.Close()
			return nil, nil, fmt.Errorf("accept timed out")
		}
	}
	srcApp, srcServer, err := pair()
	if err != nil {
		c10Viol(res, "C10:harness:loopback", "source pair: %v", err)
		return
	}
	defer srcApp.Close()
	defer srcServer.Close()
	target, accepted, err := pair()
	if err != nil {
		c10Viol(res, "C10:harness:loopback", "cross-node pair: %v", err)
		return
	}
	defer target.Close()
	defer accepted.Close()
	ctx, cancel := context.WithCancel(context.Background())
	defer cancel()
	sm := session.NewBridgeTableForVerif()
	bridge := session.NewTunnelBridge(ctx, &session.TunnelBridgeConfig{TunnelID: own, MappingID: "mapping-c10", SourceConn: srcServer})
	defer bridge.Close()
	if bridge.GetSourceForwarder() == nil {
		c10Viol(res, "C10:harness:bridge", "bridge has no source forwarder")
		return
	}
	sm.RegisterBridgeForVerif(own, bridge)
	l := session.NewCrossNodeListener(sm, 0)
	handlerDone := make(chan struct{})
	go func() {
		defer close(handlerDone)
		l.HandleConnectionForVerif(ctx, accepted)
	}()
	// the handler runs instrumented code: it must be gone before this run returns
	defer func() {
		target.Close()
		srcApp.Close()
		accepted.Close()
		srcServer.Close()
		cancel()
		select {
		case <-handlerDone:
		case <-time.After(10 * time.Second):
			c10Viol(res, "C10:harness:bridge", "the listener's handler did not return after all four sockets were closed")
		}
	}()
	id16, _ := crossnode.TunnelIDFromString(own)
	target.SetWriteDeadline(time.Now().Add(5 * time.Second))
	if err := crossnode.WriteFrame(target, id16, 0x02, crossnode.EncodeTargetReadyMessage(own, "node-b")); err != nil {
		c10Viol(res, "C10:harness:loopback", "writing TargetReady: %v", err)
		return
	}
	started := time.Now()
	age := func() string {
		if longDur > 0 && time.Since(started) > longDur {
			return ":long-lived-tunnel"
		}
		return ""
	}
	// one chunk from `from` must arrive at `to`, byte exact
	move := func(i int, dir string, from, to *net.TCPConn, p []byte) bool {
		werr := make(chan error, 1)
		from.SetWriteDeadline(time.Now().Add(c10Patience(6 * time.Second)))
		go func() { _, err := from.Write(p); werr <- err }()
		got := make([]byte, len(p))
		to.SetReadDeadline(time.Now().Add(c10Patience(6 * time.Second)))
		n, err := io.ReadFull(to, got)
		if err != nil {
			cls := "not-delivered"
			if err == io.EOF || err == io.ErrUnexpectedEOF {
				cls = "end-of-stream-before-half-close"
			}
			c10Viol(res, "C10:bridge:"+cls+":"+dir+age(), "phase %d (%s, %d bytes, tunnel age %v): the receiver got %d bytes and then %v although the sender had neither closed nor half-closed", i, dir, len(p), time.Since(started).Round(100*time.Millisecond), n, err)
			return false
		}
		if !bytes.Equal(got, p) {
			c10Viol(res, "C10:bridge:data-mismatch:"+dir+age(), "phase %d (%s, %d bytes): first difference at %d", i, dir, len(p), firstDiff(got, p))
			return false
		}
		if e := <-werr; e != nil {
			c10Viol(res, "C10:bridge:write-failed:"+dir+age(), "phase %d (%s, %d bytes): sender's write failed: %v", i, dir, len(p), e)
			return false
		}
		return true
	}
	for i, ph := range phases {
		time.Sleep(ph.pause)
		p := c10Pattern(ph.size, byte(i*29+7))
		ok := false
		if ph.down {
			ok = move(i, "download", target, srcApp, p)
		} else {
			ok = move(i, "upload", srcApp, target, p)
		}
		if !ok {
			return
		}
	}
	// end: each side half-closes; the other side must see end-of-stream then, and nothing else
	expectEOF := func(dir string, to *net.TCPConn) bool {
		to.SetReadDeadline(time.Now().Add(c10Patience(6 * time.Second)))
		b := make([]byte, 16)
		n, err := to.Read(b)
		if n != 0 || err != io.EOF {
			c10Viol(res, "C10:bridge:no-eof:"+dir+age(), "after the sender of the %s direction half-closed the receiver read n=%d err=%v instead of end-of-stream", dir, n, err)
			return false
		}
		return true
	}
	if targetEndsFirst {
		target.CloseWrite()
		if !expectEOF("download", srcApp) {
			return
		}
		// the other direction still works after a half-close
		if !move(len(phases), "upload", srcApp, target, c10Pattern(777, 0x3C)) {
			return
		}
		srcApp.CloseWrite()
		if !expectEOF("upload", target) {
			return
		}
	} else {
		srcApp.CloseWrite()
		if !expectEOF("upload", target) {
			return
		}
		if !move(len(phases), "download", target, srcApp, c10Pattern(777, 0x3C)) {
			return
		}
		target.CloseWrite()
		if !expectEOF("download", srcApp) {
			return
		}
	}
	select {
	case <-handlerDone:
	case <-time.After(c10Patience(6 * time.Second)):
		c10Viol(res, "C10:bridge:handler-never-returns"+age(), "both directions ended with a half-close and were delivered, the listener's connection handler is still running after 6 s")
	}
	res.Nontrivial = true
	if longDur > 0 {
		res.Probes["bridge.long-lived-tunnel."+longDur.String()]++
	}
}
