package props

import (
	"encoding/json"
	"fmt"
	"strings"
	"time"

	"tunnox-core/internal/cloud/repos"
	"tunnox-core/internal/core/storage/hybrid"
	"tunnox-core/internal/core/storage/types"
	"tunnox-core/internal/packet"
	"tunnox-core/internal/protocol/session"
	"tunnox-core/internal/protocol/session/connstate"
	"tunnox-core/internal/security"
	"tunnox-core/verifsim/simnet"
	"tunnox-core/verifsim/simnode"
	"tunnox-core/verifsim/simrt"
	"tunnox-core/verifsim/simstore"
)

// C08 — cross-node lookup finds a connected client at its current node.
//
// World: 2-3 fully wired real server nodes (simnode) whose storage is built
// the way internal/app/server/storage.go builds it for the three deployment
// shapes (memory / redis / tiered = local memory + shared redis + persistent),
// all on ONE shared backend. One scripted client registers, logs in, sends
// heartbeats, moves between nodes (closing the older connection before,
// after, concurrently with, or never), closes, sends tunnel-type handshakes,
// fails logins, or loses its node to a crash.
//
// Oracle: a reference "most recent successful control handshake whose
// connection is still open" kept by the harness from the replies the client
// saw. At every quiescent point every surviving node is asked (a)
// connstate.Store.FindClientNode and (b) the client runtime state record,
// and both must name exactly the reference (node, connection), or "not
// connected" when the reference is empty.

type c08node struct {
	idx     int
	id      string
	st      *simstore.Store // this node's handle on the shared backend (fault / crash point)
	local   *simstore.Store // tiered only: node-local cache
	stor    types.Storage
	node    *simnode.Node
	states  *repos.ClientStateRepository
	crashed bool
	// slow store round trip: the slowAt-th operation of this node's handle takes slowDur of simulated time
	opSeq   int
	slowAt  int
	slowDur time.Duration
}

// slow arms one slow storage round trip: the j-th operation from now on this node's handle parks its caller for d.
// Store operations otherwise take no simulated time, so code that checks something, then talks to the store,
// then acts on the check can only be overtaken by a whole concurrent clean-up when a round trip takes real time.
func (n *c08node) slow(j int, d time.Duration) {
	n.slowAt, n.slowDur = n.opSeq+j, d
}

type c08conn struct {
	cl        *simnode.Client
	node      int
	connID    string
	open      bool
	abandoned bool
	at        time.Duration // when its handshake succeeded
	leftAt    time.Duration // when the client stopped using it (abandoned)
}

type c08run struct {
	w       *simrt.World
	backend string
	nodes   []*c08node
	closers []func()
	ttl     time.Duration // connstate record lifetime (configuration)
	hb      time.Duration // client heartbeat period
	hbTO    time.Duration // server heartbeat timeout (configuration)
	sweep   time.Duration // server cleanup interval (configuration)

	id     int64
	secret string
	cur    *c08conn   // reference: most recent successful control handshake still open
	olds   []*c08conn // older control connections the client has not closed yet
	nconn  int

	hist      []string
	since     map[string][]string // per index: events since the last full check at which that index matched the reference
	lastOKAge map[string]time.Duration
	bad       map[string]bool // index -> currently mismatching (edge-triggered reporting)
	reported  map[string]bool
	tolerate  bool // a store error hit the current registration: only safety is demanded
	phase     int           // where inside a heartbeat interval an extra lookup is made (0 none, 1 middle, 2 shortly before the next heartbeat)
	lastHB    time.Duration // when the server last heard from the current connection (handshake or heartbeat)
	quick     bool          // the client does not pause after the handshake reply: its next event meets the part of the handshake the server does after replying
	closeErr  time.Duration // when a close was hit by an injected store error (0 = none): the runtime state may lag until its own lifetime has passed
	moved     bool
	crossed   bool
	faulted   bool
	checks    int
}

var c08Backends = []string{"redis", "memory", "tiered"}

var c08SharedKeys = []string{"tunnox:conn_state:", "tunnox:client_conn:", "tunnox:runtime:client:state:"}

func init() {
	Register(&Scenario{
		ID:    "C08",
		Level: "exploration",
		Rule: "each run wires 2-3 real server nodes over one shared backend drawn from {redis, memory, tiered(local memory + shared redis + persistent map)} with a drawn connection-record lifetime {5 min, 30 s}, heartbeat period {10 s, 30 s, 7 s, 25 s} (dividing and not dividing the record lifetime) and heartbeat timeout {60 s, 90 s}; one scripted client registers on a drawn node and then follows a drawn history of 3-10 events: heartbeat for {20 s .. 11 min} (total up to 30 simulated minutes), reconnect to a drawn node (older connection closed before / after / at a drawn point inside the new two-phase login without waiting for the old node / never closed so that the old node sweeps it after its heartbeat timeout), close (transport close or Disconnect command), crash of the current node (store handle fenced, no cleanup; then either silence for record lifetime + 150 s or an immediate login elsewhere), failed login and tunnel-type handshake of the same client on a drawn node, one slow (20 ms) store round trip on the node whose connection is being replaced / closed while it handles a heartbeat, injected store error on the k-th (k=1..3) shared-record write of one login or on the k-th (k=1..6) shared-record read/write the closing node issues during a close (runs with store errors contain no failed-login / tunnel events), a heartbeat still in flight on the older connection while the client logs in again, a silent client whose late heartbeat arrives at the instant of the node's stale sweep, a connection that is closed (by the client, by Disconnect command, by the node) or superseded by a login on a drawn node immediately after its handshake reply, i.e. while the server still does the part of the handshake that follows the reply, optionally with one slow store round trip in that login, the node closing the connection itself (SessionManager.CloseConnection, as a kick / administrative disconnect does) from another task while a heartbeat of that connection is being handled. " +
			"After every event, after every heartbeat and (per-run choice) in the middle of / 700 ms before the end of every heartbeat interval, FindClientNode and the client runtime state are read on the surviving nodes and compared with the reference (node, connection) of the most recent successful control handshake still open. " +
			"Non-trivial: the client moved to another node while its older connection was still open, or stayed connected past the record lifetime, or a crash / store error fired; distinct = distinct schedule hashes of such runs.",
		Real: []string{"internal/protocol/session SessionManager (handshake, heartbeat, CloseConnection, stale-connection sweep), connstate.Store, client registry", "internal/app/server ServerAuthHandler", "internal/cloud services/client state service + repos.ClientStateRepository", "internal/core/storage hybrid + memory + redis backends wired as storage.go/createHybridStorageTyped does", "internal/protocol/adapter BaseAdapter read loop", "internal/stream StreamProcessor"},
		Stub: []string{"transport: simnet links", "redis server: miniredis inside the bubble", "persistent tier: simstore.Persist map", "client: scripted wire-protocol peer", "cross-node TCP pool: absent (SendCommandToClient is observed only through the FindClientNode it would call)"},
		Assumptions: []string{
			"a client that heartbeats at most every 30 s keeps its connection alive (server heartbeat timeout >= 60 s)",
			"after a node crash the lookups must answer 'not connected' once record lifetime + 150 s have passed without a new handshake (the runtime state is documented to live 90 s = 3 heartbeat intervals)",
			"the server-side connection id used as reference is read from the node's own connection table right after the handshake reply",
			"under an injected store error on a registration write only safety is demanded (never a wrong node/connection once the older connection is gone); 'not found' is tolerated until the next successful handshake",
			"one failed shared-record operation during a close must not keep the closed client resolvable through FindClientNode (two records, either deletion suffices); the single runtime-state record may survive until its documented lifetime (checked again 151 s later)",
			"when a silent client's heartbeat meets the stale sweep, either outcome (connection swept / kept) is accepted; the client learns which by using the connection, and the lookups must agree with that outcome",
			"an older connection the client never closes counts as open until the old node's sweep (heartbeat timeout + 2 sweep intervals) has passed",
		},
		Opt: func(tier string) simrt.Options {
			return simrt.Options{MaxSteps: 3000000, MaxIdle: 2 * time.Hour}
		},
		Run: c08Run,
	})
}

func c08Build(w *simrt.World, r *c08run, nn int) error {
	var base *simstore.Store
	var persist *simstore.Persist
	switch r.backend {
	case "memory":
		mem := simstore.NewMemory(w)
		r.closers = append(r.closers, func() { mem.Close() })
		base = simstore.New(w, "n0", mem)
	default:
		rd := simstore.NewRedis(w)
		r.closers = append(r.closers, rd.Close)
		base = simstore.New(w, "n0", rd.Storage)
		base.Sync = rd.Sync
		if r.backend == "tiered" {
			persist = simstore.NewPersist(w, "db")
		}
	}
	filter := func(op, key string) bool {
		for _, p := range c08SharedKeys {
			if strings.HasPrefix(key, p) {
				return true
			}
		}
		return false
	}
	backendSync := base.Sync
	for i := 0; i < nn; i++ {
		n := &c08node{idx: i, id: fmt.Sprintf("node-%c", 'a'+i)}
		if i == 0 {
			n.st = base
		} else {
			n.st = base.Handle(fmt.Sprintf("n%d", i))
		}
		n.st.Sync = func() {
			if backendSync != nil {
				backendSync()
			}
			n.opSeq++
			if n.slowAt > 0 && n.opSeq == n.slowAt {
				n.slowAt = 0
				w.Fault("store.slow-round-trip")
				w.Sleep(n.slowDur)
			}
		}
		n.st.Filter = filter
		n.st.CountWritesOnly = true
		cfg := hybrid.DefaultConfig()
		switch r.backend {
		case "memory": // createMemoryStorage: cache=memory, no shared cache, no persistence
			n.stor = hybrid.NewWithSharedCache(w.Ctx, n.st, nil, nil, cfg)
		case "redis": // createRedisStorage: cache and shared cache are the same redis
			n.stor = hybrid.NewWithSharedCache(w.Ctx, n.st, n.st, nil, cfg)
		default: // createRemoteStorage: local memory cache + shared redis + persistent store
			lm := simstore.NewMemory(w)
			r.closers = append(r.closers, func() { lm.Close() })
			n.local = simstore.New(w, fmt.Sprintf("n%d.local", i), lm)
			cfg.EnablePersistent = true
			n.stor = hybrid.NewWithSharedCache(w.Ctx, n.local, n.st, persist, cfg)
		}
		node, err := simnode.New(w, n.stor, simnode.Config{
			NodeID:       n.id,
			ConnStateTTL: r.ttl,
			Session:      &session.SessionConfig{HeartbeatTimeout: r.hbTO, CleanupInterval: r.sweep, MaxConnections: 1000, MaxControlConnections: 1000},
			BruteForce:   &security.BruteForceConfig{MaxFailures: 100, TimeWindow: 5 * time.Minute, BanDuration: 30 * time.Minute, PermanentBanAt: 1000, CleanupInterval: 10 * time.Minute},
			RateLimitIP:  &security.RateLimitConfig{Rate: 100, Burst: 100, TTL: time.Hour},
		})
		if err != nil {
			return err
		}
		n.node = node
		n.states = repos.NewClientStateRepository(w.Ctx, n.stor)
		r.nodes = append(r.nodes, n)
	}
	return nil
}

func (r *c08run) logf(format string, a ...any) {
	r.hist = append(r.hist, fmt.Sprintf("t=%-9v ", r.w.Now().Round(time.Millisecond))+fmt.Sprintf(format, a...))
}

var c08Indexes = []string{"connstate", "client-state"}

func (r *c08run) eventFor(ix, tag string) {
	for _, s := range r.since[ix] {
		if s == tag {
			return
		}
	}
	r.since[ix] = append(r.since[ix], tag)
}

func (r *c08run) event(tag string) {
	for _, ix := range c08Indexes {
		r.eventFor(ix, tag)
	}
}

func (r *c08run) resetEpisode() {
	r.bad = map[string]bool{}
	r.since = map[string][]string{}
	r.lastOKAge = map[string]time.Duration{}
}

// nextPhase starts a new phase of the history (close, crash, silence) without a new registration: an index that
// already mismatches stays "in its episode" (a stale record surviving the close is the same finding, not a new one)
func (r *c08run) nextPhase() {
	bad := r.bad
	r.resetEpisode()
	r.bad = bad
}

func (r *c08run) settle() { r.w.Sleep(13 * time.Millisecond) }

func (r *c08run) viol(sig, format string, a ...any) {
	if r.reported[sig] {
		return
	}
	r.reported[sig] = true
	r.w.Violationf(sig, "%s\nbackend=%s record-lifetime=%v heartbeat=%v heartbeat-timeout=%v nodes=%d\nhistory:\n%s",
		fmt.Sprintf(format, a...), r.backend, r.ttl, r.hb, r.hbTO, len(r.nodes), strings.Join(tailStr(r.hist, 30), "\n"))
}

var c08Priority = []string{"store-error-on-close", "store-error", "crash", "handshake-then-", "heartbeat-vs-", "server-close", "tunnel-handshake", "failed-login", "old-closed-concurrently", "old-closed-after", "old-abandoned", "same-node-reconnect", "record-lifetime-elapsed", "close", "disconnect-command", "reconnect", "first-connect"}

// tag names the kind of history between the last all-matching check and now.
func (r *c08run) tag(index string) string {
	if r.tolerate {
		return "store-error" // an earlier registration write failed (never combined with a close-time error, see the close event)
	}
	for _, p := range c08Priority {
		for _, s := range r.since[index] {
			if strings.HasPrefix(s, p) {
				return s
			}
		}
	}
	return "steady"
}

func (r *c08run) alive() []*c08node {
	var out []*c08node
	for _, n := range r.nodes {
		if !n.crashed {
			out = append(out, n)
		}
	}
	return out
}

// check compares both indexes on the given nodes (nil = all surviving) with the reference.
func (r *c08run) check(where string, only *c08node) {
	w := r.w
	r.checks++
	now := w.Now()
	// an abandoned older connection stays "possibly being swept" until the configured sweep bound has passed
	keep := r.olds[:0]
	for _, o := range r.olds {
		if o.abandoned && now-o.leftAt > r.hbTO+2*r.sweep+time.Second {
			o.open = false // the old node must have swept it by now
			continue
		}
		keep = append(keep, o)
	}
	r.olds = keep
	for _, o := range r.olds {
		// the old node cannot have swept it before its heartbeat timeout (counted from the last heartbeat it saw,
		// at most one period before the client left) has run out
		if o.abandoned && now-o.leftAt > r.hbTO-r.hb-time.Second {
			r.event("old-abandoned:" + c08where(o, r.cur))
			break
		}
	}
	var age time.Duration
	if r.cur != nil {
		age = now - r.cur.at
		if age > r.ttl {
			r.crossed = true
			for _, ix := range c08Indexes {
				if r.lastOKAge[ix] <= r.ttl {
					r.eventFor(ix, "record-lifetime-elapsed")
				}
			}
		}
	}
	nodes := r.alive()
	if only != nil {
		nodes = []*c08node{only}
	}
	okAll := map[string]bool{"connstate": true, "client-state": true}
	flag := func(index, symptom, detail string) {
		okAll[index] = false
		if r.bad[index] {
			return // still the same mismatch episode
		}
		sig := "C08:" + index + ":" + symptom + ":" + r.tag(index)
		if symptom == "lookup-error" {
			// the answer is not even well-formed: the history does not matter, the value shape of the backend does
			sig = "C08:" + index + ":" + symptom + ":" + r.backend
		}
		r.viol(sig, "%s (%s, reference=%s)", detail, where, r.ref())
	}
	for _, n := range nodes {
		if n.crashed {
			continue
		}
		gotNode, gotConn, err := n.node.ConnState.FindClientNode(w.Ctx, r.id)
		none := err == connstate.ErrConnectionNotFound || err == connstate.ErrConnectionExpired
		switch {
		case err != nil && !none:
			if !r.tolerate {
				flag("connstate", "lookup-error", fmt.Sprintf("FindClientNode on %s failed: %v", n.id, err))
			}
		case r.cur == nil:
			if err == nil {
				flag("connstate", "still-resolves", fmt.Sprintf("FindClientNode on %s answers (%s,%s) although the client has no open connection", n.id, gotNode, gotConn))
			}
		case none:
			if !r.tolerate {
				flag("connstate", "not-found", fmt.Sprintf("FindClientNode on %s answers %v for a connected, heartbeating client (connection age %v)", n.id, err, age.Round(time.Millisecond)))
			}
		case gotNode != r.nodes[r.cur.node].id:
			if !r.tolerate || !c08stillOpen(r.olds, gotConn) {
				flag("connstate", "wrong-node", fmt.Sprintf("FindClientNode on %s answers (%s,%s)", n.id, gotNode, gotConn))
			}
		case gotConn != r.cur.connID:
			if !r.tolerate || !c08stillOpen(r.olds, gotConn) {
				flag("connstate", "wrong-connection", fmt.Sprintf("FindClientNode on %s answers (%s,%s)", n.id, gotNode, gotConn))
			}
		}
		st, serr := n.states.GetState(r.id)
		switch {
		case serr != nil:
			if !r.tolerate {
				flag("client-state", "lookup-error", fmt.Sprintf("runtime state read on %s failed: %v", n.id, serr))
			}
		case r.cur == nil:
			if r.closeErr > 0 && now-r.closeErr < 150*time.Second {
				// one store error during the close: the single runtime-state record may survive until its documented lifetime has passed
				break
			}
			if st != nil && st.IsOnline() {
				flag("client-state", "still-resolves", fmt.Sprintf("runtime state on %s says online at (%s,%s) although the client has no open connection", n.id, st.NodeID, st.ConnID))
			}
		case st == nil || !st.IsOnline():
			if !r.tolerate {
				flag("client-state", "not-found", fmt.Sprintf("runtime state on %s says offline for a connected, heartbeating client (connection age %v)", n.id, age.Round(time.Millisecond)))
			}
		case st.NodeID != r.nodes[r.cur.node].id:
			if !r.tolerate || !c08stillOpen(r.olds, st.ConnID) {
				flag("client-state", "wrong-node", fmt.Sprintf("runtime state on %s says (%s,%s)", n.id, st.NodeID, st.ConnID))
			}
		case st.ConnID != r.cur.connID:
			if !r.tolerate || !c08stillOpen(r.olds, st.ConnID) {
				flag("client-state", "wrong-connection", fmt.Sprintf("runtime state on %s says (%s,%s)", n.id, st.NodeID, st.ConnID))
			}
		}
	}
	tag := r.tag("connstate")
	for _, ix := range c08Indexes {
		r.bad[ix] = !okAll[ix]
		if okAll[ix] { // shared records: one node's matching answer ends the episode (partial checks included)
			r.since[ix] = r.since[ix][:0]
			r.lastOKAge[ix] = age
		}
	}
	if r.cur != nil {
		w.State(fmt.Sprintf("%s/on=%d/olds=%d/%s/ok=%v%v", r.backend, r.cur.node, len(r.olds), tag, okAll["connstate"], okAll["client-state"]))
	} else {
		w.State(fmt.Sprintf("%s/offline/%s/ok=%v%v", r.backend, tag, okAll["connstate"], okAll["client-state"]))
	}
}

func c08stillOpen(olds []*c08conn, connID string) bool {
	for _, o := range olds {
		if o.open && o.connID == connID {
			return true
		}
	}
	return false
}

func c08where(old, cur *c08conn) string {
	if cur != nil && old.node == cur.node {
		return "same-node"
	}
	return "other-node"
}

func (r *c08run) ref() string {
	if r.cur == nil {
		return "<not connected>"
	}
	return fmt.Sprintf("(%s,%s)", r.nodes[r.cur.node].id, r.cur.connID)
}

// dial opens a transport to node j.
func (r *c08run) dial(j int) *simnode.Client {
	r.nconn++
	return r.nodes[j].node.Connect(fmt.Sprintf("k%d", r.nconn), "10.8.0.1:4000", simnet.LinkConfig{LawAB: simnet.LawAll, LawBA: simnet.LawAll})
}

// handshake performs the control handshake on a fresh transport to node j and
// returns the connection if the client saw success. during (may be nil) is
// run at the drawn point of the login: 0 before phase 1, 1 between the
// phases, 2 after the phase-2 request has been sent and before its reply is read,
// 3 right after the reply has been read (the server registers the location after writing the reply).
func (r *c08run) handshake(j int, first bool, at int, during func()) *c08conn {
	cl := r.dial(j)
	var resp *packet.HandshakeResponse
	var ok bool
	switch {
	case first:
		resp, ok = cl.Register("control")
	case during == nil:
		resp, ok = cl.Login(r.id, r.secret, "control")
	default:
		if at == 0 {
			during()
		}
		var r1 *packet.HandshakeResponse
		r1, ok = cl.Handshake(&packet.HandshakeRequest{ClientID: r.id, Version: "3", Protocol: "tcp", ConnectionType: "control"})
		resp = r1
		if ok && r1.NeedResponse {
			if at == 1 {
				during()
			}
			req := &packet.HandshakeRequest{ClientID: r.id, Version: "3", Protocol: "tcp", ConnectionType: "control", ChallengeResponse: simnode.HMAC(r.secret, r1.Challenge)}
			ok = cl.SendJSON(packet.Handshake, req) == nil
			if at == 2 {
				during()
			}
			if ok {
				var p *packet.TransferPacket
				p, ok = cl.RecvType(packet.HandshakeResp, 30*time.Second)
				if ok {
					resp = &packet.HandshakeResponse{}
					ok = json.Unmarshal(p.Payload, resp) == nil
				}
			}
			if at >= 3 {
				// the reply has arrived: the new node is still busy with the part of the handshake that follows the reply
				during()
			}
		} else if at >= 1 {
			during()
		}
	}
	if !ok || resp == nil || !resp.Success {
		r.logf("control handshake on %s failed: ok=%v %s", r.nodes[j].id, ok, c03resp(resp))
		cl.Close()
		return nil
	}
	if first {
		r.id, r.secret = cl.ID, cl.Secret
	}
	cc := &c08conn{cl: cl, node: j, open: true, at: r.w.Now()}
	// let the server finish the post-reply part of the handshake (registration happens after the reply is written)
	if !r.quick {
		r.settle()
	}
	cc.connID = r.nodes[j].node.ConnID(cl)
	return cc
}

func (r *c08run) heartbeat() bool {
	if err := r.cur.cl.Send(packet.Heartbeat, nil); err != nil {
		return false
	}
	_, ok := r.cur.cl.RecvType(packet.Heartbeat, 5*time.Second)
	if ok {
		r.lastHB = r.w.Now()
	}
	return ok
}

func (r *c08run) closeOld(o *c08conn) {
	o.cl.Close()
	o.open = false
}

func (r *c08run) dropOlds() {
	for _, o := range r.olds {
		if o.open {
			r.closeOld(o)
		}
	}
	r.olds = r.olds[:0]
}

func c08Run(w *simrt.World, tier string) {
	c := w.C
	w.SetCrashSentinel(simstore.Crash)
	r := &c08run{w: w, reported: map[string]bool{}}
	r.resetEpisode()
	r.backend = c08Backends[c.Intn(len(c08Backends), "backend")]
	nn := 2 + c.Intn(2, "nodes")
	r.ttl = []time.Duration{5 * time.Minute, 30 * time.Second}[c.Intn(2, "record.ttl")]
	// periods that divide the record lifetime and periods that do not (a record that is not really renewed then lapses in the middle of an interval)
	r.hb = []time.Duration{10 * time.Second, 30 * time.Second, 7 * time.Second, 25 * time.Second}[c.Intn(4, "heartbeat")]
	if r.ttl <= 30*time.Second && r.hb > 10*time.Second {
		// the client keeps the registration alive well inside its lifetime
		if r.hb == 25*time.Second {
			r.hb = 7 * time.Second
		} else {
			r.hb = 10 * time.Second
		}
	}
	r.phase = c.Intn(3, "lookup.phase")
	r.hbTO = []time.Duration{60 * time.Second, 90 * time.Second}[c.Intn(2, "hb.timeout")]
	r.sweep = 15 * time.Second
	allowCrash := c.Intn(3, "swarm.crash") == 1
	allowStoreErr := c.Intn(4, "swarm.storeerr") == 1
	allowOdd := c.Intn(2, "swarm.odd") == 0 && !allowStoreErr // failed logins and tunnel-type handshakes (kept apart from store errors so that causes stay separable)
	nev := 3 + c.Intn(8, "events")

	var err error
	w.Quiet(func() { err = c08Build(w, r, nn) })
	if err != nil {
		w.Violationf("C08:harness", "node wiring failed: %v", err)
		return
	}
	defer func() {
		if r.cur != nil {
			r.cur.cl.Close()
		}
		r.dropOlds()
		w.Sleep(20 * time.Millisecond)
		for _, n := range r.nodes {
			if n.crashed {
				continue // its tasks are already unwound; closing it would only hit the fenced store
			}
			n.node.Close()
		}
		for i := len(r.closers) - 1; i >= 0; i-- {
			r.closers[i]()
		}
	}()

	budget := 30 * time.Minute
	first := c.Intn(nn, "first.node")
	r.cur = r.handshake(first, true, 0, nil)
	if r.cur == nil {
		w.Violationf("C08:harness", "first registration failed\n%s", strings.Join(r.hist, "\n"))
		return
	}
	r.logf("registered as client %d on %s conn=%s", r.id, r.nodes[first].id, r.cur.connID)
	r.event("first-connect")
	r.check("after first connect", nil)

	durs := []time.Duration{20 * time.Second, 50 * time.Second, 2 * time.Minute, 6 * time.Minute, 11 * time.Minute}

	connect := func(j int, variant int) {
		// variant: 0 close old first, 1 close old after, 2 never close old, 3 close old concurrently
		prev := r.cur
		kind := "reconnect"
		if prev != nil {
			switch variant {
			case 0:
				prev.cl.Close()
				prev.open = false
				r.cur = nil
				r.settle()
				r.logf("client closes %s on %s, then reconnects to %s", prev.connID, r.nodes[prev.node].id, r.nodes[j].id)
				prev = nil
			case 1:
				kind = "old-closed-after"
			case 2:
				kind = "old-abandoned"
			default:
				kind = "old-closed-concurrently"
			}
		}
		n := r.nodes[j]
		failArmed := false
		if allowStoreErr && c.Intn(2, "storeerr.arm") == 1 {
			_, wr := n.st.Ops()
			n.st.FailAt = wr + 1 + c.Intn(3, "storeerr.k")
			failArmed = true
		}
		var nc *c08conn
		// a heartbeat may still be in flight on the older connection while the client already logs in again:
		// the old node handles it concurrently with the new registration (and, on the same node, with being replaced)
		hbInFlight := prev != nil && (variant == 1 || variant == 2) && !failArmed && c.Intn(2, "old.hb.inflight") == 1
		if hbInFlight {
			kind += "+heartbeat"
			w.Probe("old.heartbeat.in-flight")
			if j := c.Intn(5, "old.hb.slow.op"); j > 0 {
				r.nodes[prev.node].slow(j, 20*time.Millisecond) // one store round trip of the old node is slow
			}
		}
		if prev != nil && (variant == 3 || hbInFlight) {
			// the old transport is used / closed at a drawn point of the new login and nobody waits for the old node:
			// its work interleaves with the new node's handshake at scheduling-point granularity
			p := prev
			nc = r.handshake(j, false, c.Intn(4, "close.point"), func() {
				if hbInFlight {
					p.cl.Send(packet.Heartbeat, nil)
				}
				if variant == 3 {
					p.cl.Close()
				}
			})
			if variant == 3 {
				prev.open = false
			}
		} else {
			nc = r.handshake(j, false, 0, nil)
		}
		if hbInFlight {
			w.Sleep(25 * time.Millisecond) // let a slow round trip of the old node finish
			r.nodes[prev.node].slowAt = 0
		}
		fired := false
		if failArmed {
			_, wr := n.st.Ops()
			fired = wr >= n.st.FailAt
			n.st.FailAt = 0
		}
		if nc == nil {
			// the login did not succeed (possible only under an injected store error): the reference is unchanged
			if !fired {
				r.viol("C08:login:refused-valid-credentials", "a correct login on %s was refused without any injected fault", n.id)
			}
			if prev != nil && variant == 3 {
				r.cur = nil
			}
			r.event("store-error")
			r.tolerate = true
			r.faulted = true
			r.settle()
			r.check("after refused login", nil)
			return
		}
		r.cur = nc
		r.lastHB = nc.at
		r.closeErr = 0
		r.tolerate = fired
		r.resetEpisode()
		if fired {
			r.event("store-error")
			r.faulted = true
		}
		if prev != nil {
			where := c08where(prev, nc)
			if where == "other-node" {
				r.moved = true
			}
			switch variant {
			case 1:
				r.event(kind + ":" + where)
				r.logf("client logs in on %s conn=%s while %s on %s is still open", n.id, nc.connID, prev.connID, r.nodes[prev.node].id)
				r.olds = append(r.olds, prev)
				r.check("after reconnect, old connection still open", nil)
				r.closeOld(prev)
				r.olds = r.olds[:len(r.olds)-1]
				r.settle()
				r.event(kind + ":" + where)
				r.logf("client closes the old connection %s on %s", prev.connID, r.nodes[prev.node].id)
			case 2:
				prev.abandoned = true
				prev.leftAt = w.Now()
				r.olds = append(r.olds, prev)
				r.event(kind + ":" + where)
				r.logf("client logs in on %s conn=%s and abandons %s on %s (never closed, no more heartbeats)", n.id, nc.connID, prev.connID, r.nodes[prev.node].id)
			default:
				r.event(kind + ":" + where)
				r.logf("client logs in on %s conn=%s while closing %s on %s concurrently", n.id, nc.connID, prev.connID, r.nodes[prev.node].id)
			}
		} else {
			r.event("reconnect")
			r.logf("client logs in on %s conn=%s", n.id, nc.connID)
		}
		w.Probe(fmt.Sprintf("handshake.%s", kind))
		r.check("after "+kind, nil)
	}

	aliveIdx := func(label string) int {
		al := r.alive()
		return al[c.Intn(len(al), label)].idx
	}

	for ev := 0; ev < nev && len(r.alive()) > 0; ev++ {
		kind := c.Intn(16, "event")
		if r.cur == nil && kind != 5 && kind != 14 && kind != 15 {
			connect(aliveIdx("connect.node"), 0)
			continue
		}
		switch {
		case kind <= 3 || kind == 11: // stay connected and heartbeat
			d := durs[c.Biased(len(durs), "run.dur")]
			if d > budget {
				d = budget
			}
			if d < r.hb {
				continue
			}
			budget -= d
			k := int(d / r.hb)
			r.logf("client heartbeats every %v for %v on %s", r.hb, d, r.nodes[r.cur.node].id)
			lost := false
			for i := 0; i < k; i++ {
				switch r.phase {
				case 0:
					w.Sleep(r.hb)
				default:
					// an extra lookup in the middle of / shortly before the end of the heartbeat interval
					a := r.hb / 2
					if r.phase == 2 {
						a = r.hb - 700*time.Millisecond
					}
					w.Sleep(a)
					al := r.alive()
					r.check(fmt.Sprintf("between heartbeats %d and %d", i, i+1), al[(i+1)%len(al)])
					w.Sleep(r.hb - a)
				}
				if !r.heartbeat() {
					r.viol("C08:heartbeat:connection-lost:"+r.tag("connstate"), "the server stopped answering heartbeats on the current connection %s after %d heartbeats", r.ref(), i)
					lost = true
					break
				}
				r.settle()
				al := r.alive()
				r.check(fmt.Sprintf("after heartbeat %d/%d", i+1, k), al[i%len(al)])
			}
			if lost {
				r.cur.cl.Close()
				r.cur = nil
				r.settle()
				continue
			}
			r.check("after heartbeating", nil)
			w.Probe("run")
		case kind <= 6: // move / reconnect
			variant := c.Intn(4, "reconnect.variant")
			connect(aliveIdx("reconnect.node"), variant)
		case kind == 7: // close
			byCmd := c.Intn(2, "close.cmd") == 1
			r.dropOlds() // the client's last connection is closed only when all of them are
			r.nextPhase()
			// fault: the k-th shared-record operation (read or write) the closing node issues fails once
			cn := r.nodes[r.cur.node]
			armed := false
			if allowStoreErr && !r.tolerate && c.Intn(2, "close.storeerr") == 1 {
				r.settle() // the older connections' clean-up is over
				cn.st.CountWritesOnly = false
				ops, _ := cn.st.Ops()
				cn.st.FailAt = ops + 1 + c.Intn(6, "close.storeerr.k")
				armed = true
			}
			if byCmd {
				r.cur.cl.SendCommand(&packet.CommandPacket{CommandType: packet.Disconnect, CommandId: "bye"})
				r.settle()
				r.event("disconnect-command")
			} else {
				r.event("close")
			}
			r.cur.cl.Close()
			r.logf("client closes %s (disconnect command=%v)", r.ref(), byCmd)
			r.cur = nil
			r.settle()
			fired := false
			if armed {
				ops, _ := cn.st.Ops()
				fired = ops >= cn.st.FailAt
				k := cn.st.FailAt
				cn.st.FailAt = 0
				cn.st.CountWritesOnly = true
				if fired {
					r.closeErr = w.Now()
					r.faulted = true
					r.event("store-error-on-close")
					r.logf("one shared-record operation of %s failed during that close (operation #%d of the node)", cn.id, k)
				}
			}
			r.check("after close", nil)
			if fired && budget > 151*time.Second {
				budget -= 151 * time.Second
				w.Sleep(151 * time.Second)
				r.check("runtime-state lifetime after a close hit by a store error", nil)
			}
			w.Probe("close")
		case kind == 8: // crash of the current node
			if !allowCrash || len(r.alive()) < 2 {
				continue
			}
			n := r.nodes[r.cur.node]
			n.crashed = true
			n.st.Fence()
			if n.local != nil {
				n.local.Fence()
			}
			w.Fault("node.crash")
			r.faulted = true
			r.logf("%s crashes (no cleanup); client connection %s is dead", n.id, r.cur.connID)
			r.cur.cl.Conn.Reset()
			r.cur = nil
			keep := r.olds[:0]
			for _, o := range r.olds {
				if o.node != n.idx {
					keep = append(keep, o)
				}
			}
			r.olds = keep
			r.tolerate = false
			r.nextPhase()
			r.event("crash")
			if c.Intn(2, "crash.then") == 0 {
				r.dropOlds()
				wait := r.ttl + 150*time.Second + 3*time.Millisecond
				if wait > budget {
					continue
				}
				budget -= wait
				w.Sleep(wait)
				r.logf("nothing reconnects for %v", wait)
				r.check("record lifetime after crash", nil)
			}
		case kind == 14 || kind == 15: // the client's next event follows the handshake reply at once (abort / kick right after login, fast fail-over)
			if r.cur != nil {
				r.dropOlds()
				r.cur.cl.Close()
				r.cur = nil
				r.settle()
			}
			if len(r.alive()) == 0 || r.tolerate {
				continue
			}
			j := aliveIdx("quick.node")
			jn := r.nodes[j]
			if k := c.Intn(14, "quick.slow.op"); k > 0 {
				jn.slow(k, 20*time.Millisecond) // one store round trip of the login (before or after its reply) is slow
			}
			r.quick = true
			a := r.handshake(j, false, 0, nil)
			r.quick = false
			if a == nil {
				r.viol("C08:login:refused-valid-credentials", "a correct login on %s was refused without any injected fault", jn.id)
				jn.slowAt = 0
				continue
			}
			r.resetEpisode()
			r.closeErr = 0
			if kind == 14 {
				how := c.Intn(3, "quick.close.how")
				switch how {
				case 0:
					a.cl.Close()
				case 1:
					a.cl.SendCommand(&packet.CommandPacket{CommandType: packet.Disconnect, CommandId: "bye"})
					a.cl.Close()
				default:
					sm := jn.node.SM
					kick := w.Spawn(fmt.Sprintf("quick-kick-%d", ev), func() {
						w.Yield("c08.quick.kick")
						sm.CloseConnection(a.connID)
					})
					kick.Wait()
					a.cl.Close()
				}
				w.Sleep(25 * time.Millisecond)
				jn.slowAt = 0
				r.settle()
				r.logf("client logs in on %s conn=%s and the connection is closed at once (%s)", jn.id, a.connID, []string{"client closes", "disconnect command", "node closes it"}[how])
				r.event("handshake-then-close")
				r.check("after a close that follows the handshake reply at once", nil)
				w.Probe("handshake-then-close")
				continue
			}
			// fast fail-over: the next login (drawn node) starts as soon as the first reply is in
			k2 := aliveIdx("quick.node2")
			b := r.handshake(k2, false, 0, nil)
			w.Sleep(25 * time.Millisecond)
			jn.slowAt = 0
			r.settle()
			if b == nil {
				r.viol("C08:login:refused-valid-credentials", "a correct login on %s was refused without any injected fault", r.nodes[k2].id)
				a.cl.Close()
				r.settle()
				continue
			}
			r.cur = b
			r.lastHB = b.at
			where := c08where(a, b)
			if where == "other-node" {
				r.moved = true
			}
			r.olds = append(r.olds, a)
			r.event("handshake-then-failover:" + where)
			r.logf("client logs in on %s conn=%s and at once again on %s conn=%s", jn.id, a.connID, r.nodes[k2].id, b.connID)
			r.check("after a fail-over that follows the first handshake reply at once", nil)
			r.closeOld(a)
			r.olds = r.olds[:len(r.olds)-1]
			r.settle()
			r.event("handshake-then-failover:" + where)
			r.logf("client closes the first connection %s on %s", a.connID, jn.id)
			r.check("after closing the first connection of the fail-over", nil)
			w.Probe("handshake-then-failover")
		case kind == 13: // the node itself closes the connection (kick / administrative disconnect), possibly while a heartbeat is being handled
			r.dropOlds()
			r.settle()
			r.nextPhase()
			cur := r.cur
			sm := r.nodes[cur.node].node.SM
			withHB := c.Intn(3, "kick.heartbeat") != 0
			lead := c.Intn(4, "kick.lead") // how far the heartbeat may get before the close starts
			tag := "server-close"
			kn := r.nodes[cur.node]
			if withHB {
				tag = "heartbeat-vs-server-close"
				if j := c.Intn(5, "kick.slow.op"); j > 0 {
					kn.slow(j, 20*time.Millisecond) // one of the heartbeat's (or the close's) store round trips is slow
				}
				cur.cl.Send(packet.Heartbeat, nil)
			}
			kick := w.Spawn(fmt.Sprintf("kick-%d", ev), func() {
				for i := 0; i < lead*40; i++ {
					w.Yield("c08.kick.lead")
				}
				sm.CloseConnection(cur.connID)
			})
			kick.Wait()
			w.Sleep(25 * time.Millisecond)
			kn.slowAt = 0
			r.settle()
			r.logf("%s closes %s itself (heartbeat in flight=%v)", r.nodes[cur.node].id, cur.connID, withHB)
			cur.cl.Close()
			r.cur = nil
			r.settle()
			r.event(tag)
			r.check("after "+tag, nil)
			w.Probe(tag)
		case kind == 12: // the client falls silent; its next heartbeat reaches the node at the instant the stale sweep runs
			r.dropOlds()
			r.settle()
			due := r.lastHB + r.hbTO
			tick := (due/r.sweep + 1) * r.sweep // first sweep after the heartbeat timeout has run out
			wait := tick - w.Now()
			if wait <= 0 || wait > budget {
				continue
			}
			budget -= wait
			r.nextPhase()
			w.Sleep(wait)
			r.cur.cl.Send(packet.Heartbeat, nil)
			r.settle()
			// whether the sweep or the heartbeat won is the server's business; the client finds out by using the connection
			for i := 0; i < 4; i++ {
				if _, ok := r.cur.cl.Recv(50 * time.Millisecond); !ok {
					break
				}
			}
			alive := r.heartbeat()
			r.event("heartbeat-vs-sweep")
			if alive {
				r.logf("client was silent for %v, its heartbeat met the sweep of %s and the connection survived", (w.Now() - due + r.hbTO).Round(time.Second), r.nodes[r.cur.node].id)
				w.Probe("late-heartbeat.survived")
			} else {
				r.logf("client was silent for %v, its heartbeat met the sweep of %s and the node closed %s", (w.Now() - due + r.hbTO).Round(time.Second), r.nodes[r.cur.node].id, r.cur.connID)
				r.cur.cl.Close()
				r.cur = nil
				w.Probe("late-heartbeat.swept")
			}
			r.settle()
			r.check("after late heartbeat vs sweep", nil)
		case kind == 9: // failed login elsewhere
			if !allowOdd {
				continue
			}
			j := aliveIdx("badlogin.node")
			cl := r.dial(j)
			r1, ok := cl.Handshake(&packet.HandshakeRequest{ClientID: r.id, Version: "3", Protocol: "tcp", ConnectionType: "control"})
			if ok && r1.NeedResponse && c.Intn(2, "badlogin.answer") == 0 {
				r2, ok2 := cl.Handshake(&packet.HandshakeRequest{ClientID: r.id, Version: "3", Protocol: "tcp", ConnectionType: "control", ChallengeResponse: simnode.HMAC("not-the-secret", r1.Challenge)})
				if ok2 && r2.Success {
					r.viol("C08:login:accepted-wrong-secret", "login with a wrong secret succeeded")
				}
			}
			r.settle()
			r.event("failed-login")
			r.logf("someone fails to log in as the client on %s", r.nodes[j].id)
			r.check("after failed login (transport open)", nil)
			cl.Close()
			r.settle()
			r.event("failed-login")
			r.check("after failed login (transport closed)", nil)
			w.Probe("failed-login")
		default: // tunnel-type handshake elsewhere (data connection of the same client)
			if !allowOdd {
				continue
			}
			j := aliveIdx("tunnel.node")
			cl := r.dial(j)
			resp, ok := cl.Login(r.id, r.secret, "tunnel")
			r.settle()
			r.event("tunnel-handshake:" + map[bool]string{true: "same-node", false: "other-node"}[j == r.cur.node])
			r.logf("client authenticates a tunnel-type connection on %s: ok=%v %s", r.nodes[j].id, ok, c03resp(resp))
			r.check("after tunnel-type handshake (open)", nil)
			cl.Close()
			r.settle()
			r.event("tunnel-handshake:" + map[bool]string{true: "same-node", false: "other-node"}[j == r.cur.node])
			r.check("after tunnel-type handshake (closed)", nil)
			w.Probe("tunnel-handshake")
		}
	}
	if r.moved || r.crossed || r.faulted {
		w.Nontrivial()
	}
	w.Sample(fmt.Sprintf("%s ttl=%v hb=%v nodes=%d checks=%d: %s", r.backend, r.ttl, r.hb, nn, r.checks, strings.Join(tailStr(r.hist, 8), " ; ")))
}
