package props

import (
	"fmt"
	"strings"
	"time"

	"tunnox-core/internal/cloud/repos"
	"tunnox-core/internal/packet"
	"tunnox-core/internal/security"
	"tunnox-core/verifsim/simnet"
	"tunnox-core/verifsim/simnode"
	"tunnox-core/verifsim/simrt"
	"tunnox-core/verifsim/simstore"
)

// C03 — only a proven key holder is ever authenticated as a client.
//
// World: one fully wired server node (real SessionManager, ServerAuthHandler,
// SecretKeyManager, brute-force protector, IP manager, rate limiter, cloud
// control on the memory backend). 1-3 scripted connections from 1-2 source
// addresses send handshake histories through the real adapter read loop.
// Oracle: a reference state machine per connection (latest challenge issued
// by the server on that connection, who it is authenticated as) computed with
// the standard library's HMAC only.

type c03conn struct {
	cl        *simnode.Client
	addr      string
	ctype     string // control | tunnel
	challenge string // latest challenge issued on this connection, "" once consumed
	authedAs  int64
	oldChal   []string // previously issued challenges
	accepted  []string // responses that were accepted (for replay)
	acceptedID []int64
	closed    bool
	srvID     string
	provenControl map[int64]bool // ids proven while the handshake declared a control connection
	proven    map[int64]bool // ids this connection has ever proven (issued here or correct response here)
}

type c03ident struct {
	id      int64
	secret  string
	unknown bool // an id no client record exists for (phase-2 target only; never in the list of identities)
	expired bool
	legacy  bool // stored record has no encrypted key (un-migrated client): nobody can prove this identity
}

func init() {
	Register(&Scenario{
		ID:    "C03",
		Level: "exploration",
		Rule: "each run wires a real server node and draws a history of 3-12 handshake messages over 1-3 connections from 1-2 addresses: first-connect, phase-1 for {own, other, unknown, 0, negative} ids, phase-2 with {correct HMAC of the latest challenge, of an older challenge, under another client's key, a replayed accepted response, an unregistered id answered under a real client's key, garbage}, a sixth of them while the node's storage operations fail, control or tunnel type, interleaved with address bans, blacklisting, credential expiry (clock +31 days), a node restart on the same storage and reconnects. " +
			"After every server reply the connection's server-side authentication state and the by-client lookup are compared with a reference state machine. Non-trivial: at least one phase-2 message was sent after a challenge; distinct = distinct schedule hashes of such runs.",
		Real: []string{"internal/app/server ServerAuthHandler", "internal/protocol/session SessionManager handshake path, client registry, BaseAdapter read loop", "internal/security SecretKeyManager/BruteForceProtector/IPManager/RateLimiter", "internal/cloud anonymous service + repos on the memory storage backend", "internal/stream StreamProcessor on both ends"},
		Stub: []string{"transport: simnet link", "peer: scripted client computing HMAC-SHA256 with the standard library"},
		Assumptions: []string{"the challenge is not bound to the client id it was requested for: the property only requires a correct response under X's secret to the latest challenge on that connection"},
		Opt: func(tier string) simrt.Options { return simrt.Options{MaxSteps: 1500000, MaxIdle: 24 * 40 * time.Hour} },
		Run: c03Run,
	})
}

func c03Run(w *simrt.World, tier string) {
	c := w.C
	mem := simstore.NewMemory(w)
	st := simstore.New(w, "n1", mem)
	bf := &security.BruteForceConfig{MaxFailures: 3 + c.Intn(3, "bf.max"), TimeWindow: 5 * time.Minute, BanDuration: 30 * time.Minute, PermanentBanAt: 50, CleanupInterval: time.Minute}
	var node *simnode.Node
	var err error
	w.Quiet(func() {
		node, err = simnode.New(w, st, simnode.Config{NodeID: "n1", BruteForce: bf, RateLimitIP: &security.RateLimitConfig{Rate: 100, Burst: 100, TTL: time.Hour}})
	})
	if err != nil {
		w.Violationf("C03:harness", "node wiring failed: %v", err)
		return
	}
	defer func() { node.Close() }()

	addrs := []string{"10.1.0.1:4000", "10.1.0.2:4000"}
	var conns []*c03conn
	var idents []*c03ident
	banned := map[string]bool{}     // address (ip) refused by ban or blacklist
	banKind := map[string]string{} // "ban" (held in memory by the protector) or "blacklist" (stored, permanent)
	newConn := func() *c03conn {
		a := addrs[c.Intn(len(addrs), "addr")]
		cc := &c03conn{addr: a, proven: map[int64]bool{}, provenControl: map[int64]bool{}, cl: node.Connect(fmt.Sprintf("c%d", len(conns)), a, simnet.LinkConfig{LawAB: simnet.LawAll, LawBA: simnet.LawAll})}
		conns = append(conns, cc)
		return cc
	}
	ipOf := func(a string) string { return a[:strings.Index(a, ":")] }
	var hist []string
	newConn()
	nsteps := 3 + c.Intn(10, "nsteps")
	phase2 := false

	// check compares the server's view with the model after a reply
	check := func(cc *c03conn, what string) bool {
		if cc.srvID == "" {
			cc.srvID = node.ConnID(cc.cl)
		}
		connID := cc.srvID
		sc := node.SM.GetControlConnection(connID)
		var gotAuth bool
		var gotID int64
		if sc != nil {
			gotAuth = sc.IsAuthenticated()
			gotID = sc.GetClientID()
		}
		wantAuth := cc.authedAs != 0
		if wantAuth && !gotAuth && what != "first-connect" && what != "phase2-correct" {
			// the server dropped this connection's authentication in the meantime (e.g. the same client
			// logged in on another connection and this one was evicted): losing authentication is never
			// a violation of this property; only the message that proves an identity must be honoured
			cc.authedAs = 0
			wantAuth = false
			w.Probe("evicted-by-duplicate-login")
		}
		if gotAuth != wantAuth || (wantAuth && gotID != cc.authedAs) {
			cls := "authenticated-without-proof"
			if wantAuth && !gotAuth {
				cls = "proof-not-honoured"
			} else if wantAuth && gotAuth {
				cls = "identity-changed"
			}
			w.Violationf("C03:auth-state:"+cls+":"+what, "after %s on conn %s: server says authenticated=%v clientID=%d, reference says authedAs=%d\nhistory:\n%s",
				what, cc.cl.Name, gotAuth, gotID, cc.authedAs, strings.Join(hist, "\n"))
			return false
		}
		// by-client lookup must only return connections the model says belong to that client as control channel
		for _, id := range idents {
			lc := node.SM.GetControlConnectionByClientID(id.id)
			if lc == nil {
				continue
			}
			ok := false
			for _, oc := range conns {
				// staleness of the index after a connection re-authenticates as someone else is C07's business;
				// here the lookup must never return a connection that has not proven this id at all
				// (whether a closed connection may still be returned is C07's business)
				if oc.srvID == lc.GetConnID() && oc.proven[id.id] {
					ok = true
				}
			}
			if !ok {
				w.Violationf("C03:control-channel:not-proven", "lookup of client %d returns connection %s which the reference does not hold authenticated as that client's control channel (after %s)\nhistory:\n%s",
					id.id, lc.GetConnID(), what, strings.Join(hist, "\n"))
				return false
			}
		}
		return true
	}

	for step := 0; step < nsteps; step++ {
		cc := conns[c.Intn(len(conns), "conn")]
		if cc.closed {
			cc = newConn()
		}
		kind := c.Intn(10, "msg.kind")
		if cc.challenge != "" && c.Intn(3, "follow.challenge") != 0 {
			kind = 5 // answer the pending challenge
		} else if len(idents) == 0 && kind > 3 && kind <= 7 {
			kind = 0
		}
		switch {
		case kind == 0: // first connect
			ct := []string{"control", "tunnel", ""}[c.Intn(3, "ctype")]
			resp, ok := cc.cl.Handshake(&packet.HandshakeRequest{ClientID: 0, Token: "new-client", Version: "3", Protocol: "tcp", ConnectionType: ct})
			hist = append(hist, fmt.Sprintf("%s first-connect type=%q → ok=%v %s", cc.cl.Name, ct, ok, c03resp(resp)))
			if ok && resp.Success {
				if banned[ipOf(cc.addr)] {
					w.Violationf("C03:banned-address-authenticated:first-connect", "address %s is banned/blacklisted but first-connect succeeded\n%s", cc.addr, strings.Join(hist, "\n"))
					return
				}
				idents = append(idents, &c03ident{id: resp.ClientID, secret: resp.SecretKey})
				cc.authedAs = resp.ClientID
				cc.proven[resp.ClientID] = true
				if ct != "tunnel" {
					cc.provenControl[resp.ClientID] = true
				}
				cc.ctype = ct
				w.Probe("first-connect.ok")
			}
			if !ok {
				cc.closed = true
				continue
			}
			if !check(cc, "first-connect") {
				return
			}
		case kind <= 3: // phase 1
			var id int64
			switch c.Intn(5, "p1.id") {
			case 0:
				if len(idents) > 0 {
					id = idents[c.Intn(len(idents), "ident")].id
				} else {
					id = 12345678
				}
			case 1:
				id = 87654321 // unknown
			case 2:
				id = -5
			case 3:
				id = 0
			default:
				if len(idents) > 0 {
					id = idents[len(idents)-1].id
				}
			}
			ct := []string{"control", "tunnel"}[c.Intn(2, "ctype")]
			resp, ok := cc.cl.Handshake(&packet.HandshakeRequest{ClientID: id, Version: "3", Protocol: "tcp", ConnectionType: ct})
			hist = append(hist, fmt.Sprintf("%s phase1 id=%d type=%s → ok=%v %s", cc.cl.Name, id, ct, ok, c03resp(resp)))
			if !ok {
				cc.closed = true
				continue
			}
			if resp.Success {
				w.Violationf("C03:authenticated-on-phase1", "a handshake without any response to a challenge succeeded\n%s", strings.Join(hist, "\n"))
				return
			}
			if resp.NeedResponse && resp.Challenge != "" {
				if cc.challenge != "" {
					cc.oldChal = append(cc.oldChal, cc.challenge)
				}
				cc.challenge = resp.Challenge
				if cc.authedAs == 0 {
					cc.ctype = ct
				}
				w.Probe("challenge.issued")
			}
			if !check(cc, "phase1") {
				return
			}
		case kind <= 7: // phase 2
			if len(idents) == 0 {
				continue
			}
			target := idents[c.Intn(len(idents), "p2.ident")]
			rk := c.Intn(6, "p2.kind")
			var response, rdesc string
			valid := false
			if target.legacy && cc.challenge != "" && c.Intn(2, "p2.emptykey") == 1 {
				rk = 9
			}
			switch rk {
			case 9:
				response, rdesc = simnode.HMAC("", cc.challenge), "hmac-under-empty-key"
			case 0, 1:
				if cc.challenge != "" {
					response, rdesc = simnode.HMAC(target.secret, cc.challenge), "correct"
					valid = !target.legacy
					if target.legacy {
						rdesc = "former-key-of-unmigrated-record"
					}
				} else {
					response, rdesc = simnode.HMAC(target.secret, "deadbeef"), "correct-key-no-challenge"
				}
			case 2:
				if len(cc.oldChal) > 0 {
					response, rdesc = simnode.HMAC(target.secret, cc.oldChal[len(cc.oldChal)-1]), "stale-challenge"
				} else {
					response, rdesc = "00", "garbage"
				}
			case 3:
				other := idents[(c.Intn(len(idents), "p2.other")+1)%len(idents)]
				if other != target && cc.challenge != "" {
					response, rdesc = simnode.HMAC(other.secret, cc.challenge), "foreign-key"
				} else {
					response, rdesc = strings.Repeat("ab", 32), "garbage"
				}
			case 4:
				if len(cc.accepted) > 0 {
					i := c.Intn(len(cc.accepted), "p2.replay")
					response, rdesc = cc.accepted[i], "replay"
					// a replay of a response to a consumed challenge is never valid (fresh challenges are unique)
				} else {
					response, rdesc = "zz", "garbage"
				}
			case 5:
				// an id nobody registered, answered under the key of a real client (e.g. the one phase 1 named)
				if cc.challenge != "" {
					target = &c03ident{id: 77000000 + int64(c.Intn(1000, "p2.unknown")), secret: target.secret, unknown: true}
					response, rdesc = simnode.HMAC(target.secret, cc.challenge), "unknown-id-known-key"
				} else {
					response, rdesc = "x", "garbage"
				}
			default:
				response, rdesc = "x", "garbage"
			}
			// storage trouble while this message is handled (a sixth of the phase-2 messages): every storage
			// operation of the node, or every other one, fails until the reply is in
			storeFault := c.Intn(6, "p2.storefault") == 5
			if storeFault {
				st.FailNum, st.FailDen = 1, 1+c.Intn(2, "p2.storefault.den")
				rdesc += "+store-fault"
			}
			ct := cc.ctype
			if ct == "" {
				ct = "control"
			}
			chalBefore := cc.challenge
			// failures recorded earlier in the history may have locked the address out (C18 decides whether
			// that lock-out is right; here it only excuses a refusal)
			autoBan, _ := node.BF.IsBanned(ipOf(cc.addr))
			resp, ok := cc.cl.Handshake(&packet.HandshakeRequest{ClientID: target.id, Version: "3", Protocol: "tcp", ConnectionType: ct, ChallengeResponse: response})
			st.FailNum, st.FailDen = 0, 0
			hist = append(hist, fmt.Sprintf("%s phase2 id=%d resp=%s → ok=%v %s", cc.cl.Name, target.id, rdesc, ok, c03resp(resp)))
			phase2 = phase2 || chalBefore != ""
			if storeFault {
				w.Probe("phase2.store-fault")
				// under storage errors a valid proof may be refused, an invalid one must still never be accepted;
				// whether the challenge was consumed is not observable, so a refused connection is given up
				if ok && resp.Success && !(valid && !banned[ipOf(cc.addr)] && !target.expired && !autoBan) {
					w.Violationf("C03:accepted:"+rdesc+c03why(banned[ipOf(cc.addr)], target.expired), "phase-2 with %s response was accepted for client %d while storage operations failed\n%s", rdesc, target.id, strings.Join(hist, "\n"))
					return
				}
				if !ok || !resp.Success {
					cc.cl.Close()
					cc.closed = true
					cc.authedAs = 0
					hist = append(hist, cc.cl.Name+" gives up after a refusal under storage errors")
					w.Sleep(time.Second)
					continue
				}
			}
			// any phase-2 attempt that reaches verification consumes the challenge
			refusedEarly := banned[ipOf(cc.addr)] || target.expired || autoBan || target.unknown
			if !refusedEarly {
				cc.challenge = ""
				if chalBefore != "" {
					cc.oldChal = append(cc.oldChal, chalBefore)
				}
			}
			if !ok {
				cc.closed = true
				continue
			}
			shouldSucceed := valid && !refusedEarly
			if resp.Success && !shouldSucceed {
				w.Violationf("C03:accepted:"+rdesc+c03why(banned[ipOf(cc.addr)], target.expired), "phase-2 with %s response was accepted for client %d\n%s", rdesc, target.id, strings.Join(hist, "\n"))
				return
			}
			if resp.Success {
				cc.authedAs = target.id
				cc.proven[target.id] = true
				if ct != "tunnel" {
					cc.provenControl[target.id] = true
				}
				cc.accepted = append(cc.accepted, response)
				w.Probe("phase2.accepted")
			} else if shouldSucceed {
				w.Violationf("C03:rejected-valid-proof", "a correct response to the latest challenge was refused for client %d: %s\n%s", target.id, resp.Error, strings.Join(hist, "\n"))
				return
			} else {
				w.Probe("phase2.refused." + rdesc)
			}
			if !check(cc, "phase2-"+rdesc) {
				return
			}
		case kind == 8: // environment
			switch c.Intn(6, "env") {
			case 5:
				// the node restarts on the same storage: connections are gone, what is stored survives
				// (client records, permanent blacklist entries); temporary bans live in the protector's
				// memory and whether they survive is not this property's business
				for _, oc := range conns {
					if !oc.closed {
						oc.cl.Close()
						oc.closed = true
						oc.authedAs = 0
					}
				}
				node.Close()
				w.Sleep(2 * time.Second)
				var n2 *simnode.Node
				w.Quiet(func() {
					n2, err = simnode.New(w, st, simnode.Config{NodeID: "n1", BruteForce: bf, RateLimitIP: &security.RateLimitConfig{Rate: 100, Burst: 100, TTL: time.Hour}})
				})
				if err != nil {
					w.Violationf("C03:harness", "node restart failed: %v", err)
					return
				}
				node = n2
				for ip := range banned {
					if banKind[ip] == "ban" {
						if b, _ := node.BF.IsBanned(ip); !b {
							delete(banned, ip)
							delete(banKind, ip)
						}
					}
				}
				hist = append(hist, "node restarts on the same storage")
				w.Probe("env.restart")
				newConn()
			case 4:
				// an un-migrated client record: the encrypted key is gone (only a legacy plaintext field remains)
				if len(idents) > 0 {
					id := idents[c.Intn(len(idents), "legacy.ident")]
					cr := repos.NewClientConfigRepository(node.Repo)
					if cfg, err := cr.GetConfig(id.id); err == nil && cfg != nil {
						cfg.SecretKeyEncrypted = ""
						if cr.UpdateConfig(cfg) == nil {
							id.legacy = true
							hist = append(hist, fmt.Sprintf("client %d becomes an un-migrated record (no encrypted key)", id.id))
							w.Probe("env.legacy-record")
						}
					}
				}
			case 0:
				node.BF.BanIP(ipOf(cc.addr), 30*time.Minute, "sim")
				banned[ipOf(cc.addr)] = true
				if banKind[ipOf(cc.addr)] == "" {
					banKind[ipOf(cc.addr)] = "ban"
				}
				hist = append(hist, "ban "+ipOf(cc.addr))
				w.Probe("env.ban")
			case 1:
				node.IPM.AddToBlacklist(ipOf(cc.addr), 0, "sim", "harness")
				banned[ipOf(cc.addr)] = true
				banKind[ipOf(cc.addr)] = "blacklist"
				hist = append(hist, "blacklist "+ipOf(cc.addr))
				w.Probe("env.blacklist")
			case 2:
				// credential expiry: the stored ExpiresAt moves into the past (same effect as 30 idle days,
				// without simulating a month of ticker wake-ups)
				cr := repos.NewClientConfigRepository(node.Repo)
				for _, id := range idents {
					if cfg, err := cr.GetConfig(id.id); err == nil && cfg != nil {
						past := time.Now().Add(-time.Minute)
						cfg.ExpiresAt = &past
						if cr.UpdateConfig(cfg) == nil {
							id.expired = true
						}
					}
				}
				w.Sleep(31*time.Minute + 7*time.Second)
				// bans lapse after 30 minutes; permanent blacklist entries stay
				hist = append(hist, "+31d")
				for ip := range banned {
					if banKind[ip] == "blacklist" {
						continue // permanent: stays refused whatever the clock says
					}
					if ok, _ := node.IPM.IsAllowed(ip); ok {
						if b, _ := node.BF.IsBanned(ip); !b {
							delete(banned, ip)
							delete(banKind, ip)
						}
					}
				}
				w.Probe("env.expire")
			default:
				w.Sleep(time.Duration(1+c.Intn(50, "gap")) * time.Second)
			}
		default: // disconnect / new connection
			if len(conns) < 3 && c.Intn(2, "newconn") == 0 {
				newConn()
				hist = append(hist, "new connection")
			} else {
				cc.cl.Close()
				cc.closed = true
				cc.authedAs = 0
				hist = append(hist, cc.cl.Name+" closes")
				w.Sleep(time.Second)
			}
		}
	}
	if phase2 {
		w.Nontrivial()
	}
	w.Sample(strings.Join(tailStr(hist, 14), " ; "))
	for _, cc := range conns {
		if !cc.closed {
			cc.cl.Close()
		}
	}
}

func c03why(banned, expired bool) string {
	switch {
	case banned:
		return ":banned-address"
	case expired:
		return ":expired-credentials"
	}
	return ""
}

func c03resp(r *packet.HandshakeResponse) string {
	if r == nil {
		return "<none>"
	}
	return fmt.Sprintf("{success=%v need=%v err=%q id=%d}", r.Success, r.NeedResponse, r.Error, r.ClientID)
}
