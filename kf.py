#!/usr/bin/env python3
"""kf.py known PROP 'SIGPATTERN' 'what'   |   kf.py fixed PROP 'SIGPATTERN' 'grep-in-commit-subject' 'what failed'"""
import json,sys,subprocess
p='/verif/known_findings.json'
d=json.load(open(p))
kind,prop,sig=sys.argv[1:4]
d['findings']=[f for f in d['findings'] if not (f['property']==prop and f['signature']==sig)]
if kind=='known':
    d['findings'].append({"property":prop,"status":"known","signature":sig,"what":sys.argv[4]})
else:
    c=subprocess.check_output(['git','-C','/repo','log','--format=%h','--fixed-strings','--grep',sys.argv[4],'-n1']).decode().strip()
    assert c, "commit not found: "+sys.argv[4]
    d['findings'].append({"property":prop,"status":"fixed","signature":sig,"commit":c,"what":f"fixed: property={prop} {c} {sys.argv[5]}"})
json.dump(d,open(p,'w'),indent=1,ensure_ascii=False)
