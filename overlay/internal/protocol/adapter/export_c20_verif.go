//go:build verif

package adapter

import (
	"net"
	"time"
)

// NewSocksNegotiatorForVerif builds a SocksAdapter that is only good for the
// negotiation methods (no listener, no session): the same fields
// NewSocksAdapter derives from its SocksConfig.
func NewSocksNegotiatorForVerif(username, password string) *SocksAdapter {
	a := &SocksAdapter{credentials: make(map[string]string)}
	if username != "" && password != "" {
		a.authEnabled = true
		a.credentials[username] = password
	}
	return a
}

// NegotiateForVerif is the negotiation prefix of handleSocksConnection, call
// for call: handshake deadline, handleHandshake, handleRequest, deadline
// cleared. It stops before dialThroughTunnel (a real dial).
func (s *SocksAdapter) NegotiateForVerif(conn net.Conn) (string, error) {
	conn.SetDeadline(time.Now().Add(socksHandshakeTimeout))
	if err := s.handleHandshake(conn); err != nil {
		return "", err
	}
	target, err := s.handleRequest(conn)
	if err != nil {
		return "", err
	}
	conn.SetDeadline(time.Time{})
	return target, nil
}

// SocksHandshakeTimeoutForVerif is the deadline handleSocksConnection sets.
const SocksHandshakeTimeoutForVerif = socksHandshakeTimeout
