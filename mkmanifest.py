#!/usr/bin/env python3
"""Regenerates MANIFEST.json from the table below (claimed properties) and properties.jsonl."""
import json
CLAIMED = {
 # id: (level category, design_ref, text, note, technique)
 "C01": ("exploration", "DESIGN.md §4 C01",
         "Seeded search over packet sequences x transport segmentation laws x writer/reader interleavings with the real StreamProcessor on both ends of a simulated link; oracle is sequence equality with the generator's list plus consumed-byte accounting. Sampling, not proof.",
         "trusts the simnet stream/message Read contracts as models of TCP/QUIC/KCP/WebSocket; bodies up to 16 MiB only in the thorough tier",
         "deterministic simulation: seeded scheduler + simulated transport with segmentation faults, reference-list oracle"),
 "C03": ("exploration", "DESIGN.md §4 C03",
         "Seeded search over handshake histories (first-connect, phase-1/phase-2 with valid, stale, foreign-key, replayed and garbage responses, control/tunnel type, several connections and addresses, bans, blacklisting, credential expiry) against a fully wired real server node on the simulated network and clock; after every reply the server-side authentication state and the by-client lookup are compared with a reference state machine that computes HMACs with the standard library.",
         "bans caused by earlier failures are read from the real protector (C18 judges them); credential expiry is induced by moving the stored ExpiresAt into the past through the real repository",
         "deterministic simulation: wired node on simulated transport/clock, scripted multi-connection protocol histories, reference state machine oracle"),
 "C13": ("exploration", "DESIGN.md §4 C13",
         "Seeded histories of all storage operations with TTLs and simulated clock advances: real memory backend vs a reference map written from the interface contract; real memory vs real Redis backend (miniredis in the bubble over net.Pipe) on the shapes the repositories use; concurrent clients interleaved at statement granularity inside the memory backend, histories checked for linearizability with porcupine.",
         "miniredis stands in for a Redis server (real command semantics incl. Lua); lifetimes chosen by a backend for implicitly created keys are not compared; expiry-boundary instants are never generated",
         "deterministic simulation: seeded scheduler at statement granularity + simulated clock; reference-model and cross-backend differential oracles; porcupine linearizability check"),
}
props=[json.loads(l) for l in open('/verif/properties.jsonl')]
checks=[]
na=[]
for p in props:
    i=p['id']
    if i in CLAIMED:
        cat,ref,text,note,tech=CLAIMED[i]
        checks.append({
          "property_id": i,
          "quick_cmd": f"./check {i} --tier quick",
          "thorough_cmd": f"./check {i} --tier thorough",
          "evidence_file": f"/verif/evidence/{i}.json",
          "replay_cmd_template": f"./check {i} --replay {{path}}",
          "engine": "detsim",
          "level_claimed": {"category": cat, "text": text, "design_ref": ref},
          "level_note": note,
          "technique": tech,
        })
    else:
        na.append({"property_id": i, "reason": "no check registered yet: the simulation scenario for this property is still being built (see DESIGN.md §7 order of work); not a judgement that the technique cannot apply"})
m={
 "version": 1,
 "setup_cmd": "./setup.sh",
 "hooks": {
   "guard": "verif",
   "enable": "checks copy /repo's working tree to a scratch dir, add /verif/overlay (files tagged //go:build verif), run the AST instrumenter (/verif/go/instr) on the copy and build the harness with -tags verif under go1.26.8; nothing guarded is committed to /repo",
   "baseline_off_cmd": "cd /repo && GOFLAGS=-mod=mod go test -json -vet=off -count=1 -timeout 25m ./...",
   "source_commits": [],
   "add_only": True
 },
 "engines": [{"name": "detsim", "path": "/verif/go", "serves_properties": sorted(CLAIMED), "kind_free_text": "deterministic simulation with fault injection: testing/synctest fake clock, seeded scheduler over AST-inserted yield/lock/go hooks, simulated network and storage, choice-stream replay and minimisation"}],
 "checks": checks,
 "not_applicable": na,
 "notes": "All checks: ./check <ID> --tier quick|thorough [--seed N]; VERIF_SEED is honoured. Exit 0 held / 1 VIOLATION / 2 build or harness trouble. known_findings.json lists recorded and fixed defects."
}
json.dump(m,open('/verif/MANIFEST.json','w'),indent=1)
print("claimed",len(checks),"not_applicable",len(na))
