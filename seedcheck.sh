#!/bin/sh
# seedcheck.sh <PROP> <src-dir-of-one-seeded-defect> <name>
# Confirms a seeded defect in a scratch worktree (applies, builds, touched-package tests pass, demo fails with / passes without),
# then runs ./check <PROP> against that worktree with the patch applied (VERIF_REPO). Writes /verif/seeded/<name>/{patch.diff,demo*,notes.md,meta.json}.
set -u
P=$1; SRC=$2; NAME=$3; BUDGET=${4:-40}
export GOFLAGS=-mod=mod GOPROXY=off
WT=/tmp/seedwt-$NAME
DST=/verif/seeded/$NAME
rm -rf "$WT"; git -C /repo worktree remove --force "$WT" 2>/dev/null; git -C /repo worktree add --detach "$WT" HEAD >/dev/null 2>&1 || { echo "worktree failed"; exit 2; }
res() { echo "$1"; }
applies=no; builds=no; tests=unknown; demo_with=unknown; demo_without=unknown
if git -C "$WT" apply --check "$SRC/patch.diff" 2>/dev/null; then applies=yes
elif git -C "$WT" apply -3 "$SRC/patch.diff" 2>/dev/null && [ -z "$(git -C "$WT" diff --name-only --diff-filter=U)" ]; then
  # the patch was written against an older HEAD: keep the 3-way merged result as the patch of record
  applies=rebased; git -C "$WT" diff HEAD > "$SRC/patch.rebased.diff"; cp "$SRC/patch.rebased.diff" "$SRC/patch.diff"; git -C "$WT" reset -q --hard HEAD
else echo "{\"name\": \"$NAME\", \"patch_applies\": \"no\"}"; git -C "$WT" checkout -- . 2>/dev/null; git -C /repo worktree remove --force "$WT"; exit 3; fi
# demo without patch
if [ -x "$SRC/run_demo.sh" ]; then (cd "$SRC" && timeout 900 ./run_demo.sh "$WT" >/tmp/seed-$NAME-without.log 2>&1) && demo_without=pass || demo_without=fail; fi
git -C "$WT" checkout -- . ; git -C "$WT" clean -fdq
git -C "$WT" apply "$SRC/patch.diff"
pkgs=$(git -C "$WT" diff --name-only | grep '\.go$' | xargs -n1 dirname | sort -u | sed 's#^#./#')
(cd "$WT" && go build ./... >/tmp/seed-$NAME-build.log 2>&1) && builds=yes
if [ $builds = yes ]; then (cd "$WT" && timeout 1500 go test -vet=off -count=1 -short $pkgs >/tmp/seed-$NAME-tests.log 2>&1) && tests=pass || tests=fail; fi
if [ -x "$SRC/run_demo.sh" ]; then (cd "$SRC" && timeout 900 ./run_demo.sh "$WT" >/tmp/seed-$NAME-with.log 2>&1) && demo_with=pass || demo_with=fail; fi
git -C "$WT" checkout -- . ; git -C "$WT" clean -fdq
# run the registered check against a checkout with the patch applied (VERIF_REPO points the driver at the
# scratch worktree; equivalent to applying the patch to /repo and undoing it, without disturbing /repo)
caught=no; sigs=""
if [ $builds = yes ]; then
  git -C "$WT" apply "$SRC/patch.diff" && {
    (cd /verif && VERIF_EVIDENCE_DIR=/tmp/seed-evidence VERIF_REPO="$WT" ./check $P --tier quick --budget $BUDGET > /tmp/seed-$NAME-check.log 2>&1); rc=$?
    [ $rc = 1 ] && caught=yes
    [ $rc = 2 ] && caught=harness-trouble
    sigs=$(grep "signature:" /tmp/seed-$NAME-check.log | sed 's/.*signature: //' | sort -u | tr '\n' ' ')
  }
fi
git -C "$WT" checkout -- . ; git -C "$WT" clean -fdq
git -C /repo worktree remove --force "$WT"
mkdir -p "$DST"; cp "$SRC"/patch.diff "$SRC"/notes.md "$DST"/ 2>/dev/null; cp "$SRC"/demo* "$SRC"/run_demo.sh "$DST"/ 2>/dev/null; cp -r "$SRC"/demo "$DST"/ 2>/dev/null
python3 - "$P" "$NAME" "$applies" "$builds" "$tests" "$demo_with" "$demo_without" "$caught" "$sigs" "$BUDGET" <<'PY'
import json,sys,subprocess
p,name,applies,builds,tests,dw,dwo,caught,sigs,budget=sys.argv[1:]
head=subprocess.check_output(['git','-C','/repo','log','--format=%h','-n1']).decode().strip()
meta={"property":p,"name":name,"repo_head":head,"patch_applies":applies,"builds":builds,"existing_tests_of_touched_packages":tests,
 "demo_with_patch":dw,"demo_without_patch":dwo,"check_cmd":f"./check {p} --tier quick --budget {budget}","caught_by_check":caught,"signatures":sigs.split(),
 "needs_to_manifest":"see notes.md"}
json.dump(meta,open(f'/verif/seeded/{name}/meta.json','w'),indent=1)
print(json.dumps(meta))
PY
