package props

import (
	"bytes"
	"encoding/binary"
	"fmt"
	"time"

	"encoding/json"
	"io"
	"net"

	"tunnox-core/internal/cloud/configs"
	"tunnox-core/internal/cloud/models"
	"tunnox-core/internal/cloud/stats"
	"tunnox-core/internal/packet"
	"tunnox-core/internal/protocol/session"
	"tunnox-core/internal/protocol/session/tunnel"
	"tunnox-core/internal/stream"
	"tunnox-core/internal/utils/iocopy"
	"tunnox-core/verifsim/simnet"
	"tunnox-core/verifsim/simnode"
	"tunnox-core/verifsim/simrt"
	"tunnox-core/verifsim/simstore"
)

// C02 — a tunnel is a transparent, ordered, loss-free byte pipe between its ends.
//
// World (component level): one real tunnel.Bridge between two simnet links
//
//	A (source client) <==link A==> srvA | BRIDGE | srvB <==link B==> B (target client)
//
// The server ends are wrapped exactly the way SessionManager wraps them
// (default stream factory StreamProcessor over the raw conn, unified
// TCPTunnelConnection from session.CreateTunnelConnection, NewBridge with the
// source, SetTargetConnection for the target) and the harness runs the body of
// runBridgeLifecycle (Start, then Close, then "forget") in its own task.
// A and B are harness peers: each has a writer task and a reader task that run
// a drawn plan, and a closing policy.
//
// Oracle (written from the property text only):
//   - prefix: every chunk an end reads equals the next bytes of what the other
//     end wrote (position-stamped payloads classify a mismatch as replayed /
//     skipped / reflected / corrupt);
//   - completeness: when no end closed while bytes its peer wrote were still
//     undelivered to it and no reset was injected, each end received every byte
//     the other end wrote;
//   - closure: after the first close/half-close/reset of an end (and once both
//     ends are attached) the other end's Read ends (EOF or error) within a
//     bound, the lifecycle (the server's "forget the tunnel") finishes within
//     the same bound and both server-side transports are closed;
//   - counters never run ahead of the bytes handed to the peer's transport and
//     are equal to them when the bridge has ended;
//   - pacing: with a limit L an end never holds more than L*t + slack bytes.

const (
	// c02CloseBound is the configured meaning of "within bounded time" for the
	// closure clause on an unthrottled tunnel with nothing in flight.
	c02CloseBound = 35 * time.Second
	c02TagA       = 0xA5 // stamp tag of bytes written by A (source -> target)
	c02TagB       = 0x5A
)

const (
	c02Graceful = iota // close once everything was sent and everything was received
	c02OnSent          // act once k bytes were written (k == len: after the last write)
	c02OnRecv          // act once k bytes were received
	c02OnTime          // act at simulated time d
)

const (
	c02ActClose = iota
	c02ActReset
	c02ActHalf
	c02ActVanish // the end fails silently; its transport reports a permanent (non-temporary) timeout from then on
)

var c02ActNames = []string{"close", "reset", "half-close", "transport-timeout"}

type c02policy struct {
	kind int
	k    int
	d    time.Duration
	act  int
}

func (p c02policy) String() string {
	switch p.kind {
	case c02OnSent:
		return fmt.Sprintf("%s@sent>=%d", c02ActNames[p.act], p.k)
	case c02OnRecv:
		return fmt.Sprintf("%s@recv>=%d", c02ActNames[p.act], p.k)
	case c02OnTime:
		return fmt.Sprintf("%s@t=%v", c02ActNames[p.act], p.d)
	}
	return "graceful"
}

type c02plan struct {
	sizes  []int
	delays []time.Duration
}

type c02end struct {
	name   string
	dir    string // direction of the bytes this end RECEIVES
	conn   *simnet.Conn
	srv    *simnet.Conn
	connBase int64 // bytes the handshake wrote on conn before the tunnel phase
	srvBase  int64
	send   []byte
	expect []byte
	peer   *c02end
	wplan  c02plan
	rplan  c02plan
	pol    c02policy
	waitAttach bool
	stallFor   time.Duration // fault: the reader stops reading for this long ...
	stallAfter int           // ... once it has received this many bytes
	srvw       *c02srv       // what the server holds: the server end of the link, observed
	eofWithData bool
	tmoEvery    int
	emptyN      int
	tun         *simnet.Conn // relay world: the client end of the tunnel link (conn is the application's end of the local link)

	stalled     bool
	stallStart  time.Duration
	stallEnd    time.Duration
	sent        int
	recv        int
	sentAll     bool
	closedAt    time.Duration // first close action of this end, -1 = none
	recvAtClose int
	act         int
	half        bool
	sawEnd      bool // a Read ended with EOF/error that this end did not cause itself
	sawEndAt    time.Duration
	endErr      error
	timedOut    bool
	writeErr    error
	firstRecvAt time.Duration
	gotFirst    bool
	bad         bool
}

type c02run struct {
	w        *simrt.World
	limit    int64
	a, b     *c02end
	br       *tunnel.Bridge
	tail     bool
	first    *c02end
	remainAtClose int
	attached bool
	attachedAt time.Duration
	attachedCh chan struct{}
	forgotten bool
	forgotAt  time.Duration
	startErr  error
	overlap   bool
	slowReads int
	done      bool
	done2     bool
	full      bool
	relay     bool // relay world: each end is an application behind a real iocopy.Bidirectional relay
	cwCapable bool // relay world: the tunnel transport can convey a half-close
	doneCh    chan struct{}
	counterOf func(e *c02end) int64
	// fault: the cloud-control store stops answering when the tunnel starts to end
	storeStallFor   time.Duration
	storeStallFrom  time.Duration
	storeStallUntil time.Duration
	storeStalled    int
}

// c02srv is the transport object the server holds for one end: the server end
// of the simnet link, recording when the server was first handed the end or a
// failure of that transport (a Read/Write returned a non-timeout error) and when
// it closed it.
type c02srv struct {
	*simnet.Conn
	r        *c02run
	toldAt   time.Duration
	closedAt time.Duration
	// Transport flavours the io.Reader contract allows (QUIC streams, TLS, buffered or deadline-driven
	// readers): data and an error in the same Read. Only in the tunnel phase (active).
	active      bool
	eofWithData bool // the final bytes are returned together with io.EOF
	tmoEvery    int  // every k-th data Read also reports a temporary timeout (0 = never)
	dataReads   int
	// an end/failure handed over together with data counts as "told" only once the server has had
	// the chance to forward that data: when the next Write on the other transport returns
	toldWithData bool
	other        *c02srv
	// empty reads: before each data Read the transport reports emptyN times (0, nil) - zero-length writes by
	// the end / empty frames / idle polls; they carry nothing and are no error
	emptyN    int
	emptyLeft int
	empties   int
	// dead: the end has failed silently and the transport has given up on it (QUIC idle timeout): every Read
	// and Write fails at once with a timeout error that is NOT temporary, for ever (until the server closes it)
	dead     bool
	postDead int
	spin     bool
	closedCh chan struct{}
}

// c02idle is the permanent failure of a dead transport: Timeout() is true, Temporary() is false.
type c02idle struct{}

func (c02idle) Error() string   { return "c02: timeout: no recent network activity (permanent)" }
func (c02idle) Timeout() bool   { return true }
func (c02idle) Temporary() bool { return false }

// c02DeadReadLimit: Reads the harness answers after the transport died before it stops feeding a server
// that keeps polling it (the closure/forget clauses give the verdict).
const c02DeadReadLimit = 64

// kill makes the transport dead and wakes whatever the server has blocked on it.
func (s *c02srv) kill() {
	s.dead = true
	s.Conn.SetDeadline(time.Now())
}

func (s *c02srv) deadOp(site string) error {
	s.r.w.Yield(site)
	if s.closedAt >= 0 {
		return net.ErrClosed
	}
	s.postDead++
	if s.postDead > c02DeadReadLimit {
		if !s.spin {
			s.spin = true
			s.r.w.Probe("dead-transport.server-keeps-polling")
		}
		select {
		case <-s.closedCh:
		case <-s.r.doneCh:
		case <-s.r.w.Ctx.Done():
		}
		s.r.w.Yield(site + ".release")
		return net.ErrClosed
	}
	return c02idle{}
}

// c02tmo is a transient read timeout (net.Error style).
type c02tmo struct{}

func (c02tmo) Error() string   { return "c02: i/o timeout (transient, returned with data)" }
func (c02tmo) Timeout() bool   { return true }
func (c02tmo) Temporary() bool { return true }

// c02noCW is a transport without half-close (WebSocket/KCP/QUIC stream wrappers of the repository have no CloseWrite).
type c02noCW struct{ net.Conn }

func (s *c02srv) note(err error) {
	if err == nil || s.toldAt >= 0 {
		return
	}
	if te, ok := err.(interface {
		Timeout() bool
		Temporary() bool
	}); ok && te.Timeout() && te.Temporary() {
		return
	}
	s.toldAt = s.r.w.Now()
}

func (s *c02srv) Read(p []byte) (int, error) {
	if s.dead {
		err := s.deadOp("c02.dead-transport.read")
		s.note(err)
		return 0, err
	}
	if s.active && s.emptyLeft > 0 && len(p) > 0 {
		s.emptyLeft--
		s.empties++
		s.r.w.Yield("c02.empty-read")
		return 0, nil
	}
	n, err := s.Conn.Read(p)
	if s.dead {
		err = s.deadOp("c02.dead-transport.read")
		s.note(err)
		return 0, err
	}
	if n > 0 {
		s.emptyLeft = s.emptyN
	}
	if s.active && err == nil && n > 0 {
		s.dataReads++
		if s.eofWithData && s.Conn.PeerClosedWrite() && s.Conn.Pending() == 0 {
			err = io.EOF
			s.r.w.Fault("eof-with-data")
		} else if s.tmoEvery > 0 && s.dataReads%s.tmoEvery == 0 {
			err = c02tmo{}
			s.r.w.Fault("timeout-with-data")
		}
	}
	if n > 0 && err != nil {
		if _, tmo := err.(c02tmo); !tmo {
			s.toldWithData = true
		}
		return n, err
	}
	s.note(err)
	return n, err
}

func (s *c02srv) Write(p []byte) (int, error) {
	if s.dead {
		err := s.deadOp("c02.dead-transport.write")
		s.note(err)
		return 0, err
	}
	n, err := s.Conn.Write(p)
	if s.dead && err != nil {
		err = c02idle{}
	}
	s.note(err)
	if o := s.other; o != nil && o.toldWithData {
		o.toldWithData = false
		o.note(io.EOF)
	}
	return n, err
}

func (s *c02srv) Close() error {
	if s.closedAt < 0 {
		s.closedAt = s.r.w.Now()
		close(s.closedCh)
	}
	return s.Conn.Close()
}

func (r *c02run) newSrv(e *c02end, c *simnet.Conn, active bool) *c02srv {
	return &c02srv{Conn: c, r: r, toldAt: -1, closedAt: -1, active: active, eofWithData: e.eofWithData, tmoEvery: e.tmoEvery,
		emptyN: e.emptyN, emptyLeft: e.emptyN, closedCh: make(chan struct{})}
}

// serverTold is the first moment the server was handed the end/failure of either transport (-1: never).
func (r *c02run) serverTold() time.Duration {
	t := time.Duration(-1)
	for _, e := range []*c02end{r.a, r.b} {
		if e.srvw != nil && e.srvw.toldAt >= 0 && (t < 0 || e.srvw.toldAt < t) {
			t = e.srvw.toldAt
		}
	}
	return t
}

// storeGate is run by every cloud-control/store operation: during the outage
// window the call does not return until the store answers again.
func (r *c02run) storeGate() {
	if until := r.storeStallUntil; until > 0 {
		if now := r.w.Now(); now < until {
			r.storeStalled++
			r.w.Fault("store-stall")
			r.w.Sleep(until - now)
		}
	}
}

// maybeStallStore starts the store outage once the tunnel is attached and its first end has closed.
func (r *c02run) maybeStallStore() {
	if r.storeStallFor > 0 && r.storeStallUntil == 0 && r.first != nil && r.attached {
		r.storeStallFrom = r.w.Now()
		r.storeStallUntil = r.storeStallFrom + r.storeStallFor
	}
}

// c02cc is the component world's cloud control (tunnel.CloudControlAPI): one
// mapping record behind the store gate.
type c02cc struct {
	r  *c02run
	pm models.PortMapping
}

func (c *c02cc) GetPortMapping(id string) (*models.PortMapping, error) {
	c.r.w.Yield("cc.get")
	c.r.storeGate()
	cp := c.pm
	return &cp, nil
}

func (c *c02cc) UpdatePortMappingStats(id string, ts *stats.TrafficStats) error {
	c.r.w.Yield("cc.update")
	c.r.storeGate()
	c.pm.TrafficStats = *ts
	return nil
}

func (c *c02cc) GetClientPortMappings(clientID int64) ([]*models.PortMapping, error) {
	c.r.w.Yield("cc.list")
	c.r.storeGate()
	cp := c.pm
	return []*models.PortMapping{&cp}, nil
}

func c02Payload(n int, tag byte) []byte {
	b := make([]byte, n+4)
	for k := 0; k*4 < n; k++ {
		binary.BigEndian.PutUint32(b[k*4:], uint32(tag)<<24|uint32(k))
	}
	return b[:n]
}

func c02Size(c *simrt.Choice, tier, label string) int {
	switch c.Intn(10, label+".class") {
	case 0:
		return 1 + c.Intn(64, label)
	case 1:
		return 0
	case 2:
		return 1
	case 3:
		return 100 + c.Intn(5000, label)
	case 4:
		return 32768 - 3 + c.Intn(7, label)
	case 5:
		return 65536 - 3 + c.Intn(7, label)
	case 6:
		return 8192 + c.Intn(100000, label)
	case 7:
		return 1<<20 - 2 + c.Intn(5, label)
	case 8:
		if tier == "thorough" {
			return 1<<20 + c.Intn(3<<20, label)
		}
		return 200000 + c.Intn(300000, label)
	default:
		return 2000 + c.Intn(30000, label)
	}
}

var c02Delays = []time.Duration{0, 0, 0, time.Millisecond, 20 * time.Millisecond, time.Second}

func c02Plan(c *simrt.Choice, label string, total int, set []int) c02plan {
	var p c02plan
	n := 1 + c.Intn(4, label+".n")
	min := total/4096 + 1
	for i := 0; i < n; i++ {
		s := set[c.Intn(len(set), label+".sz")]
		if s < min {
			s = min
		}
		p.sizes = append(p.sizes, s)
		p.delays = append(p.delays, c02Delays[c.Biased(len(c02Delays), label+".dl")])
	}
	return p
}

// c02DelayBudget: delays are applied to the first 64 operations only.
const c02DelayOps = 64

func (p c02plan) delayTotal() time.Duration {
	var d time.Duration
	for i := 0; i < c02DelayOps; i++ {
		d += p.delays[i%len(p.delays)]
	}
	return d
}

func c02Law(c *simrt.Choice, label string, bytes int) (simnet.Law, []int64) {
	l := simnet.Law(c.Intn(6, label))
	if (l == simnet.LawOne || l == simnet.LawSmall) && bytes > 2048 {
		l = simnet.LawMixed
	}
	var cuts []int64
	if l == simnet.LawCuts {
		cuts = []int64{1, 32767, 32768, 32769, 65535, 65537}
		for i := 0; i < 2; i++ {
			cuts = append(cuts, int64(1+c.Intn(bytes+1, label+".cut")))
		}
		sortInt64(cuts)
	}
	return l, cuts
}

// c02MaxRead is the most one server-side Read of this direction can return,
// as far as the harness can tell from the law (no implementation constants).
func c02MaxRead(l simnet.Law, total int) int {
	m := total
	switch l {
	case simnet.LawOne:
		m = 1
	case simnet.LawSmall:
		m = 7
	case simnet.LawMTU:
		m = 1460
	}
	if m > total {
		m = total
	}
	return m
}

func init() {
	Register(&Scenario{
		ID:    "C02",
		Level: "exploration",
		Rule: "each run draws: two position-stamped payloads (0 B .. 1 MiB, 4 MiB in thorough; biased to 0/1, around 32 KiB, 64 KiB and the 1 MiB counter batch), " +
			"a write plan and a read plan per end (chunk sizes 1 B .. 256 KiB / everything at once, buffer sizes 1 B .. 1 MiB, delays 0..1 s), BandwidthLimit in {0, 1 KiB/s, 3000 B/s, 10 KiB/s, 20000 B/s, 64 KiB/s, 10 MiB/s}, " +
			"the segmentation law of each of the four link directions (all/1-byte/1-7/MTU/cuts around 32 KiB/mixed), link buffer capacity (unbounded .. 100 B, back-pressure), when the target attaches (0 .. 25 s after the source, before or after Start, before or after the source's first bytes), " +
			"and a closing policy per end (graceful = after everything was sent and received (1/2) | close, reset or half-close after the last write | close or reset after k bytes written | close or reset after k bytes received | close or reset at time t). " +
			"Server-side transport flavour per end (1/2): the last bytes arrive together with io.EOF and/or every k-th data Read also reports a transient timeout (what io.Reader allows and QUIC/TLS/deadline-driven readers do); a slow producer (one chunk per second) in 1/6 of the ends. " +
			"Further flavours: before every data Read the server's transport reports 1, 3 or 8 empty reads (0, nil) (1/2 of the ends; zero-length writes / empty frames / idle polls - hundreds accumulate in longer transfers); an end may also fail silently, its transport then answering every Read and Write with a permanent timeout error (Timeout() true, Temporary() false - QUIC idle timeout) until the server closes it. " +
			"1 of 4 runs use the relay world: the component world with each end being an application behind a real iocopy.Bidirectional relay wired like client/target_handler.go (local link <-> relay <-> tunnel link <-> bridge), tunnel transport with or without half-close (CloseWrite). " +
			"2 of 4 runs use the component world (one real tunnel.Bridge between two simnet links wrapped the way the server wraps tunnel connections, lifecycle body run by a harness task); 1 of 4 uses a fully wired server node where both ends log in as tunnel connections and send TunnelOpen through the real adapter read loop (real startSourceBridge/handleExistingBridge/runBridgeLifecycle, mapping with the drawn BandwidthLimit in the real cloud control). " +
			"Faults: per end (1/3) a consumer stall - the reader stops reading for 90 s or 400 s after k received bytes, usually with a bounded link towards it (the server's write to it blocks) and a trickling writer on the same end; " +
			"(2/5) a cloud-control/store outage of 120 s or 500 s that begins when the first end closes on an attached tunnel (component world: half of the runs have a cloud-control double behind the outage gate; node world: every storage operation of the node). " +
			"The two copy goroutines, the lifecycle, SetTargetConnection and the harness peers are interleaved at statement granularity in bridge*.go/server_bridge.go. " +
			"Non-trivial: bytes of both directions were in flight at the same time, or a limit > 0 paced at least one delivered byte, or the first end to close did so while bytes written by its peer were undelivered to it, or reset/half-closed; distinct = distinct schedule hashes of such runs.",
		Real: []string{"internal/protocol/session/tunnel Bridge (NewBridge, SetTargetConnection, Start, CopyWithControl, dynamicSourceWriter, Close, traffic counters)", "golang.org/x/time/rate Limiter on the simulated clock",
			"internal/protocol/session TCPTunnelConnection (CreateTunnelConnection)", "internal/stream default factory StreamProcessor", "internal/utils/iocopy readWriteCloser adapter", "relay world: internal/utils/iocopy Bidirectional (both relays) + client-side StreamProcessor", "internal/core/dispose",
			"node mode: SessionManager handleTunnelOpen/startSourceBridge/handleExistingBridge/runBridgeLifecycle, BaseAdapter read loop and stream-mode switch, ServerAuthHandler, ServerTunnelHandler + ConnectionCodeService.ValidateMapping, BuiltinCloudControl port-mapping service and periodic traffic report, TunnelRoutingTable, memory storage"},
		Stub: []string{"transports: simnet links (ordered, loss-free until closed/reset; Close of an end lets the peer drain what was already written)", "clients: scripted writer/reader tasks (node mode: simnode scripted wire-protocol client for login + TunnelOpen)",
			"the server-side end of each link is handed to the server through a recording wrapper (first non-timeout error returned to the server, time of Close)",
			"component mode: SessionManager.runBridgeLifecycle's body (Start, Close, forget) is run by a harness task, the bridge map is a harness flag, cloud control is nil or a one-record double (tunnel.CloudControlAPI) behind the outage gate",
			"node mode: no cross-node listener/pool, the target client is not driven by the server's TunnelOpen command but attaches by script"},
		Assumptions: []string{
			"an end 'closed early' when, at the moment of its first close/half-close, it had received fewer bytes than its peer wrote in the whole run; a reset is a failure and voids completeness",
			"'bounded time' for closure = 35 s of simulated time after (the close and both ends attached) plus 1.5x the time the configured limit needs for the bytes still undelivered at that moment (+64 KiB); readers stop dawdling after the first close; 'forgets' = Bridge.Start returned / the tunnel id left SessionManager's bridge map (polled every 0.5 s, 1 s slack) and the routing record is gone, both server-side transports closed",
			"closure is a matter between the two ends and the server: the server must close both transports, and a reading peer must see the end, within the bound even while the cloud-control store does not answer; only 'forgets' (bookkeeping) may wait until the store answers again (+ bound)",
			"a consumer that is not reading is a fault: if such a stall is in progress after the close, the closure clock starts when the server was first handed the end/failure of a transport (a Read/Write on it returned a non-timeout error) or when the last stall ended, whichever is first; the stalled end itself must see the end within the bound after it resumes reading",
			"a half-close counts as that end closing only where the tunnel transport conveys it to the server (worlds without relays, relay world with CloseWrite); an application's half-close behind a relay whose transport has no CloseWrite (WebSocket/KCP/QUIC wrappers of the repository) closes nothing at the tunnel level, so the bytes flowing towards that application must still all arrive, however long the other direction takes",
			"relay world: only prefix, completeness, counters and pacing are judged (closure propagation through relays is C12's clause)",
			"a Read that returns (0, nil) carries nothing and ends nothing, however many of them accumulate; a transport error is transient only if it says so (Timeout() and Temporary()): a permanent timeout is that end failing, so the other end must observe closure and the server must forget the tunnel within the bound (a reset-like failure: completeness void)",
			"a Read that returns data together with an error (io.EOF or a transient timeout) has delivered that data: it belongs to the stream",
			"a bandwidth limit of L bytes/s means an end never has received more than L*t + 4*L + 64 KiB bytes at simulated time t (very loose: only gross non-enforcement is flagged)",
			"bytes an end writes before the other end is attached belong to the tunnel (the server acknowledged the open before the target attaches)",
			"Bridge.GetBytesSent/GetBytesReceived count bytes handed to the target/source transport: never ahead of it, equal once the bridge has ended",
		},
		Opt: func(tier string) simrt.Options {
			return simrt.Options{MaxSteps: 1200000}
		},
		Run: c02Run,
	})
}

var c02WSizes = []int{1 << 30, 1, 7, 100, 1460, 4096, 32767, 32768, 32769, 65536, 262144}
var c02RSizes = []int{65536, 1, 7, 512, 4096, 32768, 1 << 20}

func c02Policy(c *simrt.Choice, label string, sendLen, expectLen int, xfer time.Duration) c02policy {
	var p c02policy
	switch c.Intn(12, label) {
	case 0, 1, 2, 3, 4, 5:
		p.kind = c02Graceful
	case 6: // after the last write
		p.kind, p.k = c02OnSent, sendLen
		p.act = []int{c02ActClose, c02ActReset, c02ActHalf, c02ActHalf, c02ActVanish}[c.Intn(5, label+".act")]
	case 7: // in the middle of sending
		p.kind, p.k = c02OnSent, c.Intn(sendLen+1, label+".k")
		p.act = []int{c02ActClose, c02ActReset, c02ActVanish}[c.Intn(3, label+".act")]
	case 8, 9: // after receiving k bytes
		p.kind, p.k = c02OnRecv, c.Intn(expectLen+1, label+".k")
		p.act = []int{c02ActClose, c02ActReset, c02ActVanish}[c.Intn(3, label+".act")]
	default: // at a time: the instants avoid the code's own timer values
		p.kind = c02OnTime
		switch c.Intn(5, label+".t") {
		case 0:
			p.d = 0
		case 1:
			p.d = 3 * time.Millisecond
		case 2:
			p.d = time.Duration(1+c.Intn(999, label+".frac")) * (xfer/1000 + time.Microsecond)
		case 3:
			p.d = 2*time.Second + 7*time.Millisecond
		default:
			p.d = 41*time.Second + 13*time.Millisecond
		}
		p.act = []int{c02ActClose, c02ActReset, c02ActVanish}[c.Intn(3, label+".act")]
	}
	return p
}

func c02Run(w *simrt.World, tier string) {
	c := w.C
	r := &c02run{w: w, attachedCh: make(chan struct{}), doneCh: make(chan struct{})}
	defer func() { r.done2 = true; close(r.doneCh) }()
	r.limit = []int64{0, 0, 1024, 10 * 1024, 64 * 1024, 10 << 20, 3000, 20000}[c.Intn(8, "limit")]
	lenA := c02Size(c, tier, "lenA")
	lenB := c02Size(c, tier, "lenB")
	var xfer time.Duration
	if r.limit > 0 {
		xfer = time.Duration(float64(lenA+lenB) / float64(r.limit) * float64(time.Second))
	}
	a := &c02end{name: "A", dir: "t2s", send: c02Payload(lenA, c02TagA), closedAt: -1}
	b := &c02end{name: "B", dir: "s2t", send: c02Payload(lenB, c02TagB), closedAt: -1}
	a.expect, b.expect = b.send, a.send
	a.peer, b.peer = b, a
	r.a, r.b = a, b

	// links: a=client end, b=server end; LawAB = what the server's Read returns
	mk := func(e *c02end, label string) simnet.LinkConfig {
		cfg := simnet.LinkConfig{NameA: e.name, NameB: "srv" + e.name, AddrA: "10.2.0." + map[string]string{"A": "1", "B": "2"}[e.name] + ":5000"}
		cfg.LawAB, cfg.CutsAB = c02Law(c, label+".srvlaw", len(e.send))
		cfg.LawBA, cfg.CutsBA = c02Law(c, label+".clilaw", len(e.expect))
		cfg.Capacity = []int{0, 65536, 4096, 1 << 20, 100}[c.Intn(5, label+".cap")]
		big := len(e.send)
		if len(e.expect) > big {
			big = len(e.expect)
		}
		if cfg.Capacity > 0 && cfg.Capacity < big/2048 {
			cfg.Capacity = big/2048 + 1
		}
		return cfg
	}
	cfgA := mk(a, "linkA")
	cfgB := mk(b, "linkB")
	a.wplan = c02Plan(c, "A.w", lenA, c02WSizes)
	a.rplan = c02Plan(c, "A.r", lenB, c02RSizes)
	b.wplan = c02Plan(c, "B.w", lenB, c02WSizes)
	b.rplan = c02Plan(c, "B.r", lenA, c02RSizes)
	a.pol = c02Policy(c, "A.pol", lenA, lenB, xfer)
	b.pol = c02Policy(c, "B.pol", lenB, lenA, xfer)
	attachDelay := []time.Duration{0, 0, time.Millisecond, 50 * time.Millisecond, 3*time.Second + time.Millisecond, 25*time.Second + 3*time.Millisecond}[c.Intn(6, "attach.delay")]
	attachBeforeStart := c.Chance(1, 4, "attach.beforeStart") && attachDelay == 0
	a.waitAttach = c.Chance(1, 3, "A.waitAttach")
	b.waitAttach = c.Chance(1, 2, "B.waitAttach")
	world := c.Intn(4, "mode") // 0,1 bridge; 2 relay; 3 node
	full := world == 3
	relay := world == 2
	if full {
		attachBeforeStart = false
		b.waitAttach = true
	}
	r.full, r.relay = full, relay
	r.cwCapable = c.Intn(2, "relay.closewrite") == 1
	// transport flavour of the server-side ends: data and error in one Read
	for _, e := range []*c02end{a, b} {
		switch c.Intn(6, e.name+".readerr") {
		case 3:
			e.eofWithData = true
		case 4:
			e.tmoEvery = 1 + c.Intn(5, e.name+".readerr.k")
		case 5:
			e.eofWithData = true
			e.tmoEvery = 1 + c.Intn(5, e.name+".readerr.k")
		}
	}
	for _, e := range []*c02end{a, b} {
		if relay && e.pol.act == c02ActVanish {
			e.pol.act = c02ActReset // the relay world judges no closure clause; applications fail by reset there
		}
		// empty reads before every data Read of the server (hundreds accumulate over a longer transfer)
		e.emptyN = []int{0, 0, 0, 1, 3, 8}[c.Intn(6, e.name+".emptyreads")]
	}
	// a slow producer (one small chunk per second) keeps a direction busy for tens of seconds
	for _, e := range []*c02end{a, b} {
		if c.Intn(6, e.name+".trickle") == 5 {
			e.wplan = c02plan{sizes: []int{len(e.send)/40 + 1}, delays: []time.Duration{time.Second}}
		}
	}
	// faults: a consumer that stops reading for longer than the closure bound (with a bounded link towards it the
	// server's write to it blocks), and a cloud-control/store outage that begins when the tunnel starts to end
	stallSet := []time.Duration{0, 0, 0, 0, 90*time.Second + 11*time.Millisecond, 400*time.Second + 17*time.Millisecond}
	for _, e := range []*c02end{a, b} {
		cfg := &cfgA
		if e == b {
			cfg = &cfgB
		}
		e.stallFor = stallSet[c.Intn(len(stallSet), e.name+".stall")]
		if e.stallFor == 0 {
			continue
		}
		switch c.Intn(3, e.name+".stall.at") {
		case 1:
			e.stallAfter = c.Intn(len(e.expect)+1, e.name+".stall.k")
		case 2:
			e.stallAfter = 1 + c.Intn(4096, e.name+".stall.k")
			if e.stallAfter > len(e.expect) {
				e.stallAfter = len(e.expect)
			}
		}
		if c.Intn(4, e.name+".stall.cap") != 0 {
			cfg.Capacity = []int{4096, 65536, 100}[c.Intn(3, e.name+".stall.capv")]
			if big := len(e.send) + len(e.expect); cfg.Capacity < big/2048 {
				cfg.Capacity = big/2048 + 1
			}
		}
		if c.Intn(2, e.name+".stall.trickle") == 1 {
			e.wplan = c02plan{sizes: []int{len(e.send)/40 + 1}, delays: []time.Duration{time.Second}}
		}
	}
	r.storeStallFor = []time.Duration{0, 0, 0, 120*time.Second + 7*time.Millisecond, 500*time.Second + 3*time.Millisecond}[c.Intn(5, "store.stall")]
	useCC := full || c.Intn(2, "cc") == 1
	defer func() { r.storeStallUntil = 0 }()

	horizon := 600*time.Second + attachDelay + a.pol.d + b.pol.d + 3*xfer + a.stallFor + b.stallFor + r.storeStallFor +
		a.wplan.delayTotal() + a.rplan.delayTotal() + b.wplan.delayTotal() + b.rplan.delayTotal()

	limClass := "nolimit"
	if r.limit > 0 {
		limClass = "limit-ge-chunk"
		if int64(c02MaxRead(cfgA.LawAB, lenA)) > r.limit || int64(c02MaxRead(cfgB.LawAB, lenB)) > r.limit {
			limClass = "limit-lt-chunk"
		}
	}
	w.Sample(fmt.Sprintf("limit=%d lenA=%d lenB=%d A{w=%v/%v r=%v/%v pol=%v wait=%v srvlaw=%s clilaw=%s cap=%d} B{w=%v/%v r=%v/%v pol=%v wait=%v srvlaw=%s clilaw=%s cap=%d} attach=%v beforeStart=%v",
		r.limit, lenA, lenB, a.wplan.sizes, a.wplan.delays, a.rplan.sizes, a.rplan.delays, a.pol, a.waitAttach, simnet.LawNames[cfgA.LawAB], simnet.LawNames[cfgA.LawBA], cfgA.Capacity,
		b.wplan.sizes, b.wplan.delays, b.rplan.sizes, b.rplan.delays, b.pol, b.waitAttach, simnet.LawNames[cfgB.LawAB], simnet.LawNames[cfgB.LawBA], cfgB.Capacity, attachDelay, attachBeforeStart) + fmt.Sprintf(" world=%d closewrite=%v readerrA=%v/%d/%d readerrB=%v/%d/%d full=%v stallA=%v@%d stallB=%v@%d storeStall=%v cc=%v", world, r.cwCapable, a.eofWithData, a.tmoEvery, a.emptyN, b.eofWithData, b.tmoEvery, b.emptyN, full, a.stallFor, a.stallAfter, b.stallFor, b.stallAfter, r.storeStallFor, useCC))
	w.State(fmt.Sprintf("%d%v/%v%v/%v%v%v/%s/A%d.%d/B%d.%d/%s%s/att%v", world, r.cwCapable && relay, a.eofWithData || b.eofWithData, a.tmoEvery+b.tmoEvery > 0, full, a.stallFor > 0, b.stallFor > 0, r.storeStallFor > 0 && useCC, limClass, a.pol.kind, a.pol.act, b.pol.kind, b.pol.act, simnet.LawNames[cfgA.LawAB], simnet.LawNames[cfgB.LawAB], attachDelay > 0))

	mode := "bridge"
	if full {
		mode = "node"
	} else if relay {
		mode = "relay"
		if r.cwCapable {
			mode = "relay.closewrite"
		}
	}
	w.Probe("mode." + mode)
	const tunnelID = "tun-c02"
	dl := time.Now().Add(horizon)
	r.counterOf = func(e *c02end) int64 {
		if e == b {
			return r.br.GetBytesSent()
		}
		return r.br.GetBytesReceived()
	}
	lifeDone := func() bool { return r.forgotten }
	var node *simnode.Node
	if !full {
		// ---- component world: the server side, wired like startSourceBridge / handleTargetBridge
		if !relay {
			a.conn, a.srv = simnet.NewLink(w, cfgA)
			b.conn, b.srv = simnet.NewLink(w, cfgB)
		} else {
			// application <=local link=> real iocopy.Bidirectional relay (wired like client/target_handler.go)
			// <=tunnel link=> bridge; the drawn laws/capacity apply to both links of an end
			for _, e := range []*c02end{a, b} {
				cfg := cfgA
				if e == b {
					cfg = cfgB
				}
				var local *simnet.Conn
				e.conn, local = simnet.NewLink(w, cfg)
				cfg.NameA, cfg.NameB, cfg.AddrA = "tun"+e.name, "srv"+e.name, "10.3.0."+map[string]string{"A": "1", "B": "2"}[e.name]+":6000"
				e.tun, e.srv = simnet.NewLink(w, cfg)
				var tconn net.Conn = e.tun
				if !r.cwCapable {
					tconn = c02noCW{e.tun}
				}
				sp := stream.NewStreamProcessor(tconn, tconn, w.Ctx)
				rwc, err := iocopy.NewReadWriteCloser(sp.GetReader(), sp.GetWriter(), func() error {
					sp.Close()
					tconn.Close()
					return nil
				})
				if err != nil {
					w.Violationf("C02:harness:relay", "cannot build the relay's tunnel endpoint: %v", err)
					return
				}
				name := "relay" + e.name
				w.Spawn(name, func() { iocopy.Bidirectional(local, rwc, &iocopy.Options{LogPrefix: name}) })
			}
		}
		const mappingID = "pm-c02"
		a.srvw, b.srvw = r.newSrv(a, a.srv, true), r.newSrv(b, b.srv, true)
		a.srvw.other, b.srvw.other = b.srvw, a.srvw
		factory := stream.NewDefaultStreamFactory(w.Ctx)
		spA := factory.CreateStreamProcessor(a.srvw, a.srvw)
		spB := factory.CreateStreamProcessor(b.srvw, b.srvw)
		tcA := session.CreateTunnelConnection(a.srv.RemoteAddr().String(), a.srvw, spA, 1001, mappingID, tunnelID)
		tcB := session.CreateTunnelConnection("conn-B", b.srvw, spB, 1002, mappingID, tunnelID)
		bcfg := &tunnel.BridgeConfig{
			TunnelID: tunnelID, MappingID: mappingID,
			SourceTunnelConn: tcA, SourceConn: a.srvw, SourceStream: spA,
			BandwidthLimit: r.limit,
		}
		if useCC {
			bcfg.CloudControl = &c02cc{r: r, pm: models.PortMapping{ID: mappingID, ListenClientID: 1001, TargetClientID: 1002, Status: models.MappingStatusActive}}
			w.Probe("cloud-control.stub")
		}
		r.br = tunnel.NewBridge(w.Ctx, bcfg)
		a.conn.SetDeadline(dl)
		b.conn.SetDeadline(dl)
		if attachBeforeStart {
			r.br.SetTargetConnection(tcB)
			r.attached, r.attachedAt = true, w.Now()
			r.maybeStallStore()
			close(r.attachedCh)
			w.Probe("attach.before-start")
		}
		w.Spawn("lifecycle", func() {
			// body of SessionManager.runBridgeLifecycle
			r.startErr = r.br.Start()
			r.br.Close()
			r.forgotten, r.forgotAt = true, w.Now()
		})
		if !attachBeforeStart {
			w.Spawn("attach", func() {
				if attachDelay > 0 {
					w.Sleep(attachDelay)
					w.Probe("attach.late")
				}
				r.br.SetTargetConnection(tcB)
				r.attached, r.attachedAt = true, w.Now()
				r.maybeStallStore()
				close(r.attachedCh)
			})
		}
	} else {
		// ---- node world: a wired server node; both ends enter through the real
		// adapter read loop (tunnel-type handshake, then TunnelOpen)
		st := simstore.New(w, "n1", simstore.NewMemory(w))
		st.Sync = r.storeGate
		var err error
		w.Quiet(func() { node, err = simnode.New(w, st, simnode.Config{NodeID: "n1"}) })
		if err != nil {
			w.Violationf("C02:harness:node", "node wiring failed: %v", err)
			return
		}
		defer node.Close()
		ctlA := node.Connect("ctlA", "10.2.0.1:4000", simnet.LinkConfig{})
		ctlB := node.Connect("ctlB", "10.2.0.2:4000", simnet.LinkConfig{})
		ra, okA := ctlA.Register("control")
		rb, okB := ctlB.Register("control")
		if !okA || !okB || !ra.Success || !rb.Success {
			w.Violationf("C02:harness:register", "control registration failed: %v %v", okA, okB)
			return
		}
		pm, err := node.Cloud.CreatePortMapping(&models.PortMapping{ListenClientID: ctlA.ID, TargetClientID: ctlB.ID, Protocol: models.ProtocolTCP,
			SourcePort: 18080, TargetHost: "127.0.0.1", TargetPort: 8080, Status: models.MappingStatusActive,
			Config: configs.MappingConfig{BandwidthLimit: r.limit, MaxConnections: 100, Timeout: 30}})
		if err != nil {
			w.Violationf("C02:harness:mapping", "mapping creation failed: %v", err)
			return
		}
		open := func(e *c02end, ctl *simnode.Client, cfg simnet.LinkConfig) string {
			// node.Connect, with the server end handed to the adapter through the observing wrapper
			cfg.NameA, cfg.NameB = e.name, e.name+"@n1"
			la, lb := simnet.NewLink(w, cfg)
			e.srvw = r.newSrv(e, lb, false)
			if o := e.peer.srvw; o != nil {
				e.srvw.other, o.other = o, e.srvw
			}
			node.Adapter.Serve(e.srvw)
			cl := &simnode.Client{W: w, Name: e.name, Conn: la, Srv: lb, SP: stream.NewStreamProcessor(la, la, w.Ctx)}
			if resp, ok := cl.Login(ctl.ID, ctl.Secret, "tunnel"); !ok || !resp.Success {
				return fmt.Sprintf("tunnel-type login failed (ok=%v resp=%+v)", ok, resp)
			}
			if err := cl.SendJSON(packet.TunnelOpen, &packet.TunnelOpenRequest{MappingID: pm.ID, TunnelID: tunnelID}); err != nil {
				return "TunnelOpen write failed: " + err.Error()
			}
			p, ok := cl.RecvType(packet.TunnelOpenAck, 20*time.Second)
			if !ok {
				return "no TunnelOpenAck"
			}
			var ack packet.TunnelOpenAckResponse
			if json.Unmarshal(p.Payload, &ack) != nil || !ack.Success {
				return "TunnelOpen refused: " + ack.Error
			}
			e.conn, e.srv = cl.Conn, cl.Srv
			// the client has read exactly the handshake bytes (ReadPacket never reads ahead); the bridge may
			// already be forwarding, so the server-side write counter itself is not a stable baseline
			e.connBase, e.srvBase = cl.Conn.BytesWritten(), cl.Conn.BytesRead()
			e.conn.SetDeadline(dl)
			e.srvw.active = true // handshake done: the tunnel phase begins
			return ""
		}
		if why := open(a, ctlA, cfgA); why != "" {
			w.Violationf("C02:harness:source-open", "source could not open the tunnel: %s", why)
			return
		}
		// the acknowledgement is written before the bridge is registered
		for i := 0; i < 200; i++ {
			if r.br = node.SM.BridgeForVerif(tunnelID); r.br != nil {
				break
			}
			w.Sleep(time.Millisecond)
		}
		if r.br == nil {
			w.Violationf("C02:harness:no-bridge", "TunnelOpen of the source was acknowledged but no bridge is registered")
			return
		}
		w.Spawn("attach", func() {
			if attachDelay > 0 {
				w.Sleep(attachDelay)
				w.Probe("attach.late")
			}
			if why := open(b, ctlB, cfgB); why != "" {
				w.Violationf("C02:harness:target-open", "target could not attach %v after the source: %s", attachDelay, why)
			} else {
				// the acknowledgement is written before SetTargetConnection
				for i := 0; i < 5000 && !r.br.IsTargetReady(); i++ {
					w.Sleep(time.Millisecond)
				}
				r.attached, r.attachedAt = true, w.Now()
				r.maybeStallStore()
			}
			close(r.attachedCh)
		})
		w.Spawn("forget-watch", func() {
			for !r.done2 {
				if node.SM.BridgeForVerif(tunnelID) == nil {
					r.forgotten, r.forgotAt = true, w.Now()
					return
				}
				w.Sleep(500 * time.Millisecond)
			}
		})
	}
	var tasks []*simrt.Task
	for _, e := range []*c02end{a, b} {
		e := e
		tasks = append(tasks, w.Spawn("writer"+e.name, func() { r.writer(e) }))
		tasks = append(tasks, w.Spawn("reader"+e.name, func() { r.reader(e) }))
		if e.pol.kind == c02OnTime {
			w.Spawn("closer"+e.name, func() {
				if e.conn == nil {
					r.waitAttached()
				}
				if rem := e.pol.d - w.Now(); rem > 0 {
					tm := time.NewTimer(rem)
					select {
					case <-tm.C:
					case <-r.doneCh:
						tm.Stop()
					}
					w.Yield("c02.closer.wake")
				}
				if !r.done && e.conn != nil {
					r.closeAction(e, e.pol.act)
				}
			})
		}
	}
	for _, t := range tasks {
		t.Wait()
	}
	w.Yield("c02.peers-done")
	r.done = true

	// ---- closure clause
	// (not in the relay world: there the tunnel ends are the relays, whose own closing behaviour is under test,
	// and a transport without half-close cannot convey an application's one-sided end at all)
	if x := r.first; x != nil && r.attached && !relay && !a.bad && !b.bad {
		y := x.peer
		base := x.closedAt
		if r.attachedAt > base {
			base = r.attachedAt
		}
		// A consumer that is not reading after that moment is a fault of its own: the clock starts when the
		// server was handed the end/failure of a transport, or when the last such stall ended, whichever is first.
		lastStall := time.Duration(-1)
		for _, e := range []*c02end{a, b} {
			if e.stalled && e.stallEnd > base && (e != x || x.half) && e.stallEnd > lastStall {
				lastStall = e.stallEnd
			}
		}
		told := r.serverTold()
		if lastStall > base {
			w.Probe("closure.during-consumer-stall")
			cand := lastStall
			if told >= 0 && told < cand {
				cand = told
				w.Probe("closure.server-told-during-consumer-stall")
			}
			if cand > base {
				base = cand
			}
		}
		bound := c02CloseBound
		if r.limit > 0 {
			bound += time.Duration(1.5 * float64(r.remainAtClose+65536) / float64(r.limit) * float64(time.Second))
		}
		deadline := base + bound
		kind := c02ActNames[x.act]
		ctxf := func() string {
			return fmt.Sprintf("%s did %s at %v (attached at %v; server first told at %v; stalls A=%v..%v B=%v..%v; store outage %v..%v hit %d calls; %d bytes undelivered, limit %d)",
			x.name, kind, x.closedAt, r.attachedAt, told, a.stallStart, a.stallEnd, b.stallStart, b.stallEnd, r.storeStallFrom, r.storeStallUntil, r.storeStalled, r.remainAtClose, r.limit)
		}
		// the other end observes closure (it can only do so once it reads again)
		yDeadline := deadline
		if y.stalled && y.stallEnd > base {
			yDeadline = y.stallEnd + bound
		}
		if !(y.closedAt >= 0 && y.closedAt <= yDeadline) {
			if !y.sawEnd {
				w.Violationf("C02:closure:peer-never-notified:"+kind, "%s: %s never saw its Read end (timed out=%v at horizon %v); received %d/%d", ctxf(), y.name, y.timedOut, horizon, y.recv, len(y.expect))
			} else if y.sawEndAt > yDeadline {
				w.Violationf("C02:closure:peer-notified-late:"+kind, "%s: %s saw the end only at %v > %v", ctxf(), y.name, y.sawEndAt, yDeadline)
			}
		}
		// the server closes both transports (whether or not anybody reads, whether or not the store answers) and
		// forgets the tunnel (bookkeeping may have to wait for the store)
		fDeadline := deadline
		if r.storeStallUntil > base {
			fDeadline = r.storeStallUntil + bound
		}
		transportsClosed := func() bool { return a.srvw.closedAt >= 0 && b.srvw.closedAt >= 0 }
		for !(lifeDone() && transportsClosed()) && w.Now() <= fDeadline+time.Second {
			w.Sleep(500 * time.Millisecond)
		}
		for _, e := range []*c02end{a, b} {
			if e.srvw.closedAt < 0 || e.srvw.closedAt > deadline {
				w.Violationf("C02:closure:server-transport-open:"+kind, "%s: the server had not closed %s's transport by %v (closed at %v)", ctxf(), e.name, deadline, e.srvw.closedAt)
				break
			}
		}
		if !r.forgotten || r.forgotAt > fDeadline+time.Second {
			w.Violationf("C02:forget:bridge-still-running:"+kind, "%s: Bridge.Start had not returned / the tunnel was still registered at %v (forgotten=%v at %v)", ctxf(), fDeadline, r.forgotten, r.forgotAt)
		}
	}

	// ---- completeness clause
	reset := false
	early := ""
	for _, e := range []*c02end{a, b} {
		if e.closedAt >= 0 {
			if e.act == c02ActReset || e.act == c02ActVanish {
				reset = true
			}
			// a half-close that the tunnel transport cannot convey closes nothing at the tunnel level
			conveyed := e.act != c02ActHalf || !relay || r.cwCapable
			if e.recvAtClose < e.peer.sent && conveyed {
				early += e.name
			} else if e.recvAtClose < e.peer.sent {
				w.Probe("half-close.not-conveyed.bytes-undelivered")
			}
		}
	}
	if !reset && early == "" && !a.bad && !b.bad {
		for _, e := range []*c02end{a, b} {
			if e.recv < e.peer.sent {
				how := "server-closed"
				if relay {
					how = "tunnel-closed"
				}
				if e.timedOut || !e.sawEnd && e.closedAt < 0 {
					how = "stalled"
				}
				w.Violationf("C02:completeness:"+how+":"+limClass+":"+e.dir, "%s received %d of the %d bytes %s wrote although no end closed early and nothing was reset (limit=%d; %s: sawEnd=%v at %v err=%v timedOut=%v; bridge ended=%v at %v startErr=%v; A closed at %v, B closed at %v)",
					e.name, e.recv, e.peer.sent, e.peer.name, r.limit, e.name, e.sawEnd, e.sawEndAt, e.endErr, e.timedOut, r.forgotten, r.forgotAt, r.startErr, a.closedAt, b.closedAt)
			}
		}
		w.Probe("completeness.due")
	} else if reset {
		w.Probe("completeness.void.reset")
	} else {
		w.Probe("completeness.void.early-close")
	}

	// ---- clean up, then the end-of-life checks on the bridge
	for _, e := range []*c02end{a, b} {
		if e.conn != nil && !e.conn.Closed() {
			e.conn.Close()
		}
		if e.tun != nil && !e.tun.Closed() {
			e.tun.Close() // a relay on a transport without half-close may still be waiting for the tunnel to end
		}
	}
	waitUntil := w.Now() + 40*time.Second
	if r.storeStallUntil+40*time.Second > waitUntil {
		waitUntil = r.storeStallUntil + 40*time.Second
	}
	for !lifeDone() && w.Now() < waitUntil {
		w.Sleep(500 * time.Millisecond)
	}
	if lifeDone() {
		if b.srv != nil && (!a.srv.Closed() || !b.srv.Closed()) {
			w.Violationf("C02:forget:transport-left-open", "the bridge has ended but server-side transports are still open: srvA closed=%v srvB closed=%v", a.srv.Closed(), b.srv.Closed())
		}
		if full {
			// runBridgeLifecycle removes the routing record right after the map entry (a store call)
			if d := r.storeStallUntil - w.Now(); d > 0 {
				w.Sleep(d)
			}
			w.Sleep(time.Second)
			if _, err := node.Routing.LookupWaitingTunnel(w.Ctx, tunnelID); err == nil {
				w.Violationf("C02:forget:routing-record-left", "the bridge has left the session's map but the routing table still resolves tunnel %s", tunnelID)
			}
		}
		if gs, gr := r.br.GetBytesSent(), r.br.GetBytesReceived(); b.srv != nil && (gs != b.srv.BytesWritten()-b.srvBase || gr != a.srv.BytesWritten()-a.srvBase) {
			w.Violationf("C02:counters:final-mismatch", "bridge ended: BytesSent=%d but %d bytes were handed to the target transport; BytesReceived=%d but %d bytes were handed to the source transport", gs, b.srv.BytesWritten()-b.srvBase, gr, a.srv.BytesWritten()-a.srvBase)
		}
	} else if r.first == nil && r.limit == 0 && !relay {
		w.Violationf("C02:forget:bridge-still-running:cleanup", "both clients closed their transports at the end of the run and Bridge.Start still had not returned 40 s later")
	}
	r.br.Close()

	// ---- evidence
	if r.overlap {
		w.Probe("both-directions-in-flight")
	}
	if r.limit > 0 && (a.recv > 0 || b.recv > 0) {
		w.Probe("paced." + limClass)
	}
	if r.first != nil && r.first.recvAtClose < len(r.first.expect) {
		w.Probe("closed-with-bytes-undelivered")
	}
	if r.overlap || (r.limit > 0 && (a.recv > 0 || b.recv > 0)) || (r.first != nil && (r.first.recvAtClose < r.first.peer.sent || r.first.act != c02ActClose)) {
		w.Nontrivial()
	}
	for _, e := range []*c02end{a, b} {
		if e.srvw != nil && e.srvw.empties >= 100 {
			w.Probe("empty-reads.100-or-more-in-one-direction")
		} else if e.srvw != nil && e.srvw.empties > 0 {
			w.Probe("empty-reads.some")
		}
	}
	if r.startErr != nil {
		w.Probe("start.error")
	}
	if r.slowReads > 0 {
		w.Fault("slow-reader")
	}
}

// closeAction performs an end's first close / reset / half-close.
func (r *c02run) closeAction(e *c02end, act int) {
	if e.closedAt >= 0 {
		return
	}
	e.closedAt, e.recvAtClose, e.act = r.w.Now(), e.recv, act
	if r.first == nil {
		r.first = e
		r.remainAtClose = (len(r.a.send) - r.b.recv) + (len(r.b.send) - r.a.recv)
		r.tail = true
	}
	r.maybeStallStore()
	if e.recv < len(e.expect) {
		r.w.Fault("early-" + c02ActNames[act])
	} else {
		r.w.Probe("end." + c02ActNames[act])
	}
	switch act {
	case c02ActVanish:
		// the end is gone without a word: nothing reaches the server from it any more; its transport reports the failure
		r.w.Fault("transport-timeout")
		e.srvw.kill()
		e.conn.Close()
	case c02ActReset:
		e.conn.Reset()
		e.conn.Close()
	case c02ActHalf:
		e.half = true
		e.conn.CloseWrite()
	default:
		e.conn.Close()
	}
}

func (r *c02run) maybeGraceful(e *c02end) {
	if e.pol.kind == c02Graceful && e.sentAll && e.recv == len(e.expect) {
		r.closeAction(e, c02ActClose)
	}
}

func (r *c02run) waitAttached() {
	select {
	case <-r.attachedCh:
	case <-r.w.Ctx.Done():
	}
	r.w.Yield("c02.attached.wake")
}

func (r *c02run) writer(e *c02end) {
	w := r.w
	if e.waitAttach || e.conn == nil {
		r.waitAttached()
	}
	if e.conn == nil {
		return
	}
	for i := 0; e.sent < len(e.send); i++ {
		if e.closedAt >= 0 {
			return
		}
		if e.pol.kind == c02OnSent && e.sent >= e.pol.k {
			r.closeAction(e, e.pol.act)
			return
		}
		if d := e.wplan.delays[i%len(e.wplan.delays)]; d > 0 && i < c02DelayOps {
			w.Sleep(d)
		}
		n := e.wplan.sizes[i%len(e.wplan.sizes)]
		if n > len(e.send)-e.sent {
			n = len(e.send) - e.sent
		}
		if e.pol.kind == c02OnSent && e.sent+n > e.pol.k {
			n = e.pol.k - e.sent
		}
		nw, err := e.conn.Write(e.send[e.sent : e.sent+n])
		e.sent += nw
		if err != nil {
			e.writeErr = err
			return
		}
	}
	e.sentAll = true
	if e.pol.kind == c02OnSent {
		r.closeAction(e, e.pol.act)
		return
	}
	r.maybeGraceful(e)
}

func (r *c02run) reader(e *c02end) {
	w := r.w
	max := 0
	for _, s := range e.rplan.sizes {
		if s > max {
			max = s
		}
	}
	buf := make([]byte, max)
	if e.conn == nil {
		r.waitAttached()
	}
	if e.conn == nil {
		return
	}
	r.maybeGraceful(e)
	for i := 0; ; i++ {
		if e.pol.kind == c02OnRecv && e.recv >= e.pol.k && e.closedAt < 0 {
			r.closeAction(e, e.pol.act)
		}
		if e.closedAt >= 0 && !e.half {
			return
		}
		if e.stallFor > 0 && !e.stalled && e.recv >= e.stallAfter {
			// fault: this consumer stops reading for a while
			e.stalled, e.stallStart = true, w.Now()
			w.Fault("stalled-consumer")
			tm := time.NewTimer(e.stallFor)
			select {
			case <-tm.C:
			case <-r.doneCh:
				tm.Stop()
			}
			w.Yield("c02.stall.wake")
			e.stallEnd = w.Now()
			if e.closedAt >= 0 && !e.half {
				return
			}
		}
		sz := e.rplan.sizes[i%len(e.rplan.sizes)]
		if e.pol.kind == c02OnRecv && e.closedAt < 0 && e.pol.k-e.recv < sz {
			sz = e.pol.k - e.recv
		}
		n, err := e.conn.Read(buf[:sz])
		if n > 0 {
			if !r.check(e, buf[:n]) {
				e.bad = true
				e.conn.Close()
				return
			}
		}
		if err != nil {
			if e.closedAt >= 0 && !e.half {
				return // our own close/reset
			}
			if te, ok := err.(interface{ Timeout() bool }); ok && te.Timeout() {
				e.timedOut = true
			} else {
				e.sawEnd, e.sawEndAt, e.endErr = true, w.Now(), err
			}
			return
		}
		r.maybeGraceful(e)
		if d := e.rplan.delays[i%len(e.rplan.delays)]; d > 0 && i < c02DelayOps && !r.tail {
			r.slowReads++
			w.Sleep(d)
		}
	}
}

// check is the per-chunk part of the oracle; false = a violation was recorded.
func (r *c02run) check(e *c02end, chunk []byte) bool {
	w := r.w
	off := e.recv
	if off+len(chunk) > len(e.expect) {
		w.Violationf("C02:prefix:extra:"+e.dir, "%s received %d bytes at offset %d but %s only sent %d bytes in total", e.name, len(chunk), off, e.peer.name, len(e.expect))
		return false
	}
	if !bytes.Equal(chunk, e.expect[off:off+len(chunk)]) {
		d := firstDiff(chunk, e.expect[off:off+len(chunk)])
		win := chunk[d:]
		if len(win) > 8 {
			win = win[:8]
		}
		cls := "corrupt"
		if len(win) >= 5 {
			if j := bytes.Index(e.expect, win); j >= 0 && j < off+d {
				cls = "replayed"
			} else if j >= 0 {
				cls = "skipped"
			} else if bytes.Index(e.send, win) >= 0 {
				cls = "reflected"
			}
		}
		w.Violationf("C02:prefix:"+cls+":"+e.dir, "%s: byte at stream offset %d differs from what %s wrote there (chunk of %d bytes at offset %d; got % x, want % x)", e.name, off+d, e.peer.name, len(chunk), off, win, e.expect[off+d:off+d+len(win)])
		return false
	}
	if !e.gotFirst {
		e.gotFirst, e.firstRecvAt = true, w.Now()
	}
	e.recv += len(chunk)
	// both directions in flight: the other direction has started and is not complete
	if p := e.peer; p.gotFirst && p.recv < len(p.expect) && e.recv < len(e.expect) {
		r.overlap = true
	}
	if wrote := e.peer.conn.BytesWritten() - e.peer.connBase; int64(e.recv) > wrote {
		w.Violationf("C02:prefix:extra:"+e.dir, "%s has received %d bytes but %s has only written %d so far", e.name, e.recv, e.peer.name, wrote)
		return false
	}
	// counters never run ahead of what was handed to this end's transport
	if got, handed := r.counterOf(e), e.srv.BytesWritten()-e.srvBase; got > handed {
		w.Violationf("C02:counters:ahead-of-delivery:"+e.dir, "bridge counter for %s says %d bytes but only %d were written to %s's transport", e.dir, got, handed, e.name)
		return false
	}
	if r.limit > 0 {
		allowed := float64(r.limit)*w.Now().Seconds() + 4*float64(r.limit) + 65536
		if float64(e.recv) > allowed {
			w.Violationf("C02:pacing:faster-than-limit:"+e.dir, "limit %d B/s: %s holds %d bytes at t=%v (loose allowance %.0f)", r.limit, e.name, e.recv, w.Now(), allowed)
			return false
		}
	}
	return true
}
