#!/usr/bin/env python3
"""Regenerates the generated tables of DESIGN.md §8 from known_findings.json, seeded/*/meta.json and evidence/*.json."""
import json,glob,os,re,subprocess
d=json.load(open('/verif/known_findings.json'))['findings']
out=[]
out.append("### 8.1 Defects found on the pinned tree\n")
fixed=[f for f in d if f['status']=='fixed']; known=[f for f in d if f['status']=='known']
out.append(f"{len(fixed)} signature classes were repaired by unguarded `fix:` commits in /repo ({len(set(f['commit'] for f in fixed))} commits); {len(known)} signature classes are recorded as known findings (`known_findings.json`).\n")
out.append("**Repaired (`fixed:` entries; they suppress nothing — the check passes on the repaired tree and reports the violation again if it returns):**\n")
out.append("| property | commit | signature | what failed |\n|---|---|---|---|")
for f in sorted(fixed,key=lambda f:(f['property'],f['signature'])):
    what=re.sub(r'^fixed: property=\S+ \S+ ','',f['what'])
    out.append(f"| {f['property']} | `{f['commit']}` | `{f['signature']}` | {what} |")
out.append("\n**Known findings (genuine defects recorded, not repaired — the repair is not a small, obviously safe patch):**\n")
out.append("| property | signature pattern | what fails |\n|---|---|---|")
for f in sorted(known,key=lambda f:(f['property'],f['signature'])):
    out.append(f"| {f['property']} | `{f['signature']}` | {f['what']} |")
# seeded
needs=json.load(open('/verif/seeded/needs.json')) if os.path.exists('/verif/seeded/needs.json') else {}
metas=[]
for m in sorted(glob.glob('/verif/seeded/*/meta.json')):
    metas.append(json.load(open(m)))
if metas:
    out.append("\n### 8.4 Seeded defects (written by sub-agents that saw only the property text) and which check catches them\n")
    caught=sum(1 for m in metas if m.get('caught_by_check')=='yes')
    out.append(f"{len(metas)} seeded defects kept (each confirmed: applies, builds, existing tests of the touched packages pass, its own demonstration fails with the change and passes without); {caught} are caught by the registered quick check of their property within the stated budget.\n")
    out.append("Three rounds were written, each by fresh sub-agents that saw only the property text, a private worktree and the one-line descriptions of the ideas already taken (names `CNN-k`, `CNN-r2-k`, `CNN-r3-k`). The table shows the state after strengthening; what the checks caught *before* strengthening is the honest measure of their reach at that moment: in round 2, 29 of 60 were caught on the first pass (one more only after the driver learnt to report reproduced violations from a batch whose other workers had been killed by the seeded defect's 4 GiB allocations); in round 3, 21 of 40. Every miss was handed back to the scenario's author with the instruction to cover the *family* the miss reveals (a workload, fault kind, topology or oracle clause), never the patch; all misses turned out to be reachable by the simulation. Strengthening also exposed genuine defects on the pinned tree (registry index residue, handshake reply before location registration, WebSocket read limit, SOCKS5 tunnel request for a mapping without listen client, hybrid cache read errors reported as not-found, lost update of mapping records) and seven harness mistakes (§8.2). Patches that stopped applying after a `fix:` commit were re-ported by hand onto the repaired tree and re-confirmed with their demonstrations (C01-1..3, C07-r2-1/3, C08-r2-1, C14-1/2, C14-r2-1, C17-1). Two first-round changes were dropped because a later `fix:` commit neutralised them (their demonstrations pass with the change applied): C07-2 earlier, and C07-1 after the handshake reorder (the re-registered dead connection is now cleaned up by the failing reply write).\n")
    out.append("| seeded defect | property | caught | signatures raised (first few) | what it needs to manifest |\n|---|---|---|---|---|")
    for m in metas:
        need=needs.get(m['name'],m.get('needs_to_manifest',''))
        out.append(f"| `seeded/{m['name']}` | {m['property']} | {m.get('caught_by_check')} | {', '.join('`'+s+'`' for s in m.get('signatures',[])[:3])} | {need} |")
txt='\n'.join(out)+'\n'
p='/verif/DESIGN.md'
s=open(p).read()
b='<!-- RESULTS:BEGIN -->'; e='<!-- RESULTS:END -->'
if b in s:
    s=s[:s.index(b)+len(b)]+'\n'+txt+s[s.index(e):]
    open(p,'w').write(s)
print(len(fixed),len(known),len(metas))
