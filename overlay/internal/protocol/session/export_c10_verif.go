//go:build verif

package session

import (
	"context"
	"net"
	"time"
)

// RunBidirectionalForwardForVerif exposes the unexported half-close aware
// forwarding helper (cross_node_forward_helper.go) to the C10 scenario. It
// adds no behaviour.
func RunBidirectionalForwardForVerif(cfg *BidirectionalForwardConfig) {
	runBidirectionalForward(cfg)
}

// NewBridgeTableForVerif returns a SessionManager value that holds nothing but
// the two tables CrossNodeListener.handleTargetReady/runBridgeForward touch
// (tunnel bridges, closed tunnels). No background work is started, so the C10
// scenario can run the listener's per-connection handler over a loopback socket
// outside the simulation bubble without leaving goroutines behind.
func NewBridgeTableForVerif() *SessionManager {
	return &SessionManager{
		tunnelBridges: make(map[string]*TunnelBridge),
		closedTunnels: make(map[string]time.Time),
	}
}

// RegisterBridgeForVerif puts a bridge into the tunnel table (what
// handleTunnelOpen does on the source node before the target node connects).
func (s *SessionManager) RegisterBridgeForVerif(tunnelID string, b *TunnelBridge) {
	s.bridgeLock.Lock()
	s.tunnelBridges[tunnelID] = b
	s.bridgeLock.Unlock()
}

// HandleConnectionForVerif runs the listener's per-connection handler on an
// already accepted connection.
func (l *CrossNodeListener) HandleConnectionForVerif(ctx context.Context, conn net.Conn) {
	l.handleConnection(ctx, conn)
}
