//go:build verif

package socks5

import (
	"context"
	"net"
	"net/netip"
	"time"

	"tunnox-core/internal/core/dispose"
)

// HandleConnectionForVerif runs the real per-connection path of the listener
// (deadline, Handshake, dispatch to the tunnel / UDP-relay creator, replies,
// close) on a connection supplied by the simulator instead of Accept.
func (l *Listener) HandleConnectionForVerif(conn net.Conn) { l.handleConnection(conn) }

// ParseUDPHeaderForVerif exposes the real UDP-associate header parser. The
// parser does not touch any relay field, so a zero relay is sufficient.
func ParseUDPHeaderForVerif(data []byte) (string, int, []byte, error) {
	return (&UDPRelay{}).parseUDPHeader(data)
}

// BuildUDPHeaderForVerif exposes the real UDP-associate header encoder.
func BuildUDPHeaderForVerif(dstHost string, dstPort int, payload []byte) []byte {
	return (&UDPRelay{}).buildUDPHeader(dstHost, dstPort, payload)
}

// NewUDPHeaderCodecForVerif returns one relay object to parse/build a whole
// SEQUENCE of datagrams on, as one UDP association does: whatever state a
// relay keeps between datagrams is carried from one call to the next. It has
// no socket and no goroutines.
func NewUDPHeaderCodecForVerif() *UDPRelay {
	return &UDPRelay{sessions: make(map[string]*udpSession)}
}

// ParseUDPHeaderForVerif parses on this relay (state carried over).
func (r *UDPRelay) ParseUDPHeaderForVerif(data []byte) (string, int, []byte, error) {
	return r.parseUDPHeader(data)
}

// BuildUDPHeaderForVerif encodes on this relay (state carried over).
func (r *UDPRelay) BuildUDPHeaderForVerif(dstHost string, dstPort int, payload []byte) []byte {
	return r.buildUDPHeader(dstHost, dstPort, payload)
}

// ---- UDP relay seam -------------------------------------------------------
//
// UDPRelay.udpConn is typed *net.UDPConn, a kernel socket that cannot live in
// the simulator's bubble. The directive below makes the instrumenter retype
// that field (in the scratch copy only) to the interface declared here, which
// *net.UDPConn satisfies as well, so NewUDPRelay is unaffected.
//
//verif:retype *net.UDPConn UDPConnForVerif

// UDPConnForVerif is the part of *net.UDPConn a relay may use.
type UDPConnForVerif interface {
	ReadFromUDP(b []byte) (int, *net.UDPAddr, error)
	WriteToUDP(b []byte, addr *net.UDPAddr) (int, error)
	ReadFrom(b []byte) (int, net.Addr, error)
	WriteTo(b []byte, addr net.Addr) (int, error)
	ReadFromUDPAddrPort(b []byte) (int, netip.AddrPort, error)
	WriteToUDPAddrPort(b []byte, addr netip.AddrPort) (int, error)
	ReadMsgUDP(b, oob []byte) (n, oobn, flags int, addr *net.UDPAddr, err error)
	WriteMsgUDP(b, oob []byte, addr *net.UDPAddr) (n, oobn int, err error)
	SetDeadline(t time.Time) error
	SetReadDeadline(t time.Time) error
	SetWriteDeadline(t time.Time) error
	SetReadBuffer(bytes int) error
	SetWriteBuffer(bytes int) error
	LocalAddr() net.Addr
	Close() error
}

// NewUDPRelayForVerif is NewUDPRelay with the socket supplied by the caller
// instead of net.ListenUDP: same struct, same clean-up handler, same three
// goroutines (watchTCPConnection, readLoop, cleanupLoop).
func NewUDPRelayForVerif(ctx context.Context, tcpConn net.Conn, config *UDPRelayConfig, tunnelCreator UDPTunnelCreator, udpConn UDPConnForVerif) *UDPRelay {
	relay := &UDPRelay{
		ServiceBase:   dispose.NewService("UDPRelay", ctx),
		config:        config,
		tcpConn:       tcpConn,
		udpConn:       udpConn,
		tunnelCreator: tunnelCreator,
		sessions:      make(map[string]*udpSession),
	}
	relay.AddCleanHandler(func() error {
		relay.closeAllSessions()
		return udpConn.Close()
	})
	go relay.watchTCPConnection()
	go relay.readLoop()
	go relay.cleanupLoop()
	return relay
}
