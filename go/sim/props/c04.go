package props

import (
	"bytes"
	"context"
	"encoding/json"
	"fmt"
	"net"
	"sort"
	"strings"
	"time"

	"tunnox-core/internal/cloud/models"
	"tunnox-core/internal/cloud/services"
	"tunnox-core/internal/packet"
	"tunnox-core/internal/protocol/session"
	"tunnox-core/internal/security"
	"tunnox-core/verifsim/simnet"
	"tunnox-core/verifsim/simnode"
	"tunnox-core/verifsim/simrt"
	"tunnox-core/verifsim/simstore"
)

// C04 — tunnel data reaches only connections authorised for that mapping.
//
// World: one fully wired real server node (SessionManager open-tunnel
// dispatcher, ServerTunnelHandler, connection-code service, port-mapping
// service, routing table, cross-node pool without any reachable peer) on the
// memory backend behind the fault-injecting store wrapper. Clients L
// (listener of the victim mapping M), T (target of M), S (an authenticated
// stranger who owns its own mapping M2) are registered through the real
// handshake; U never authenticates.
//
// One run = one tunnel state at arrival (set up by legitimate traffic through
// the real wire protocol) x one state of M x 1-2 probe TunnelOpen requests
// (identity x presented credential x tunnel id x connection type), optionally
// racing the legitimate target. A legitimate L/T pair streams position-stamped
// bytes through M's tunnel while the probes arrive.
//
// Oracle: an entitlement function written from the property text only; a
// request that is not entitled must get a failure ack (or a closed
// connection), must not be held by any bridge as source or target and must
// never read a victim-stamped byte.

const (
	c04L = iota
	c04T
	c04S
	c04U
)

var c04identName = []string{"L", "T", "S", "U"}

// c04AckBound is how long a request may stay unanswered before it counts as "received no acknowledgement".
// The property text gives no bound; the wire protocol does: the requesting client stops waiting for its
// TunnelOpenAck after 30 s. (The dispatcher's own internal waits - polling a routing record that has just been
// removed, waiting for a local bridge - answer within that window; a 7 s bound used earlier mis-reported the
// failure ack sent after a 10 s routing poll as silence.)
const c04AckBound = 30*time.Second + 500*time.Millisecond

const (
	c04no = iota
	c04yes
	c04may
)

type c04map struct {
	id, secret     string
	listen, target int64
	state          string // active | revoked | expired | inactive | deleted
}

type c04spec struct {
	ident     int
	ukind     int    // for U: 0 no handshake, 1 phase-1 only claiming L, 2 wrong phase-2 claiming L
	ctype     string // handshake connection type
	cred      int
	victimTid bool
	tid       string        // explicit tunnel id (overrides victimTid)
	fault     int           // 0 = none, else fail the k-th store op after the request is sent
	wfault    int           // 0 = none, else fail the k-th store WRITE after the request is sent
	overlap   bool          // a change of the mapping's state is in flight while this request is: neither outcome is required
	stall     time.Duration // 0 = none, else the stallK-th store op after the request is sent takes this long (simulated)
	stallK    int
	law       simnet.Law
}

type c04conn struct {
	name    string
	cl      *simnode.Client
	ident   int
	authed  bool
	req     packet.TunnelOpenRequest
	tstate  string
	verdict int
	reason  string
	sent    bool
	acked   bool
	ackOK   bool
	ackErr  string
	raw     []byte
	legit   bool // part of the legitimate background pair
	flagged bool
	sp      c04spec
	tid     string
	pre     *session.TunnelBridge // bridge registered under tid when the request was prepared
}

type c04run struct {
	w      *simrt.World
	st     *simstore.Store
	node   *simnode.Node
	ids    [3]int64
	sec    [3]string
	maps   map[string]*c04map
	M, M2  *c04map
	tidV   string
	nconn  int
	conns  []*c04conn
	brs    []*session.TunnelBridge
	stop   bool
	tasks  []*simrt.Task
	hist   []string
	faulty bool
	// raceKind is non-empty when a writer of M's record may have been in flight while M's state was changed:
	// "slow-store" (a store operation of an earlier legitimate open was stalled), "interleaving" (the change was
	// issued while a legitimate open was being processed, fault-free), "write-error" (same, and that open's write
	// of M's record failed). It is part of the class of every mapping-state reason of the run.
	raceKind string
	ctl      [3]*simnode.Client // the clients' control connections (they receive the server's TunnelOpenRequest commands)
	sent     map[string]bool    // "tunnel id|mapping id" of every TunnelOpen the server acknowledged with success
	// storage stall: the store operation number stallAt takes stallDur of simulated time
	stallAt    int
	stallDur   time.Duration
	stalling   int           // store operations currently stalled
	stallUntil time.Duration // simulated instant at which the latest stall ends
}

func init() {
	Register(&Scenario{
		ID:    "C04",
		Level: "exploration",
		Rule: "each run wires one real server node, registers clients L, T, S through the real handshake, creates the victim mapping M (L->T; with a non-empty secret, or through the connection-code path with an empty secret) and S's own mapping M2, " +
			"then draws one tunnel state at arrival {no tunnel, bridge waiting locally, bridge served by the legitimate L/T pair streaming position-stamped bytes, tunnel id squatted by S under M2, waiting record of another node, expired waiting record, local waiting record without bridge}, " +
			"one state of M {active, revoked, expired by clock, inactive, deleted} and 1-2 probe TunnelOpen requests over fresh connections: identity {L,T,S,U(no handshake / challenge pending / failed response)} x credential {id only, id+right secret, id+wrong secret, secret without id, other mapping's id, other mapping's id+secret, other id+M's secret, unknown id, resume-token garbage, nothing} x tunnel id {victim's, fresh} x handshake type {tunnel, control}, " +
			"optionally with a store failure or a store stall (one storage operation taking 1-25 s of simulated time) injected during validation, racing the legitimate target's open, or as a burst: 2-3 probes plus one more legitimate listener open, each for its own fresh tunnel id, whose TunnelOpen requests are in flight at the same time and interleave at every storage operation and statement of the validation path. " +
			"In a third of the runs with a changed mapping the change is not applied between requests but while one more legitimate open of M is being processed (fault-free interleaving, or with that open's write of M's record failing, or behind a stalled store operation), followed by a canary open once both are over; the legitimate source open of phase 1 may also run behind a stalled store operation so that its background work overlaps the next requests. " +
			"An expired mapping is probed 7 ms to 2.3 s after its ExpiresAt (whose sub-second phase is drawn; never at the instant itself), the first request after any change being, in 3 of 4 runs, an otherwise entitled canary open of M (listener by id, listener or target by secret). In a third of the bursts the two tenants' source opens carry the same fresh tunnel id (both in flight before either registers a bridge), after which the legitimate target joins and both ends stream. " +
			"At the end every TunnelOpenRequest command the server sent on the clients' control connections is checked: addressee is the target of the named mapping, the named tunnel was granted for that mapping, the secret is that mapping's. Each request is judged by an entitlement function written from the property text. " +
			"Non-trivial: at least one TunnelOpen that the text does NOT entitle was delivered to the real dispatcher and its outcome (ack / close / silence, bridge membership, bytes readable) observed; distinct = distinct (identity, credential, mapping state, tunnel state) cells and schedule hashes.",
		Real: []string{"internal/protocol/session SessionManager.handleTunnelOpen / handleExistingBridge / handleSourceBridge / handleTargetBridge / handleCrossNodeTargetConnection / startSourceBridge / runBridgeLifecycle, handshake path, BaseAdapter read loop",
			"internal/protocol/session/tunnel Bridge (SetSource/SetTargetConnection, Start, copy loops), RoutingTable", "internal/app/server ServerTunnelHandler, ServerAuthHandler", "internal/cloud/services conncode Service (ValidateMapping, RevokeMapping, ActivateConnectionCode), PortMappingService, repos on the memory storage backend",
			"internal/cloud/models PortMapping helpers", "internal/protocol/session/crossnode Pool (configured, peer address unparsable so that no socket is ever opened)", "internal/stream StreamProcessor on both ends"},
		Stub: []string{"transport: simnet links", "peers: scripted clients (stdlib HMAC)", "other node: only its waiting-tunnel record and an undialable address; the TargetReady frame itself is not observable"},
		Assumptions: []string{
			"'the tunnel's mapping' is the mapping the existing bridge / waiting record was created for; for a tunnel id nobody holds yet it is the mapping named in the request",
			"an empty secret is never 'the mapping's secret', except the deliberate don't-care cell: the mapping's authenticated target presenting the mapping id and an empty secret for a valid empty-secret mapping whose tunnel already exists is neither required nor forbidden to attach",
			"listener presenting the mapping id together with a wrong secret, and a right secret presented under another mapping id, are allowed but not required to attach",
			"attachment of an entitled party to whichever side (source/target) is not judged",
			"'receives a failure acknowledgement' is judged within the 30 s the protocol's client waits for a TunnelOpenAck (plus any injected store stall); the text itself gives no bound",
		},
		Opt: func(tier string) simrt.Options { return simrt.Options{MaxSteps: 2500000, MaxIdle: 2 * time.Hour} },
		Run: c04Run,
	})
}

var c04credName = []string{"id-only", "id+right-secret", "id+wrong-secret", "secret-no-id", "other-id", "other-id+other-secret", "other-id+right-secret", "unknown-id", "resume-garbage", "nothing"}
var c04tstateName = []string{"none", "waiting", "served", "squatted", "remote", "record-expired", "local-record"}
var c04mstateName = []string{"active", "revoked", "expired", "inactive", "deleted"}

func (r *c04run) logf(f string, a ...any) {
	r.hist = append(r.hist, fmt.Sprintf("[%v] ", r.w.Now().Round(time.Millisecond))+fmt.Sprintf(f, a...))
}

func (r *c04run) history() string { return strings.Join(r.hist, "\n") }

func c04Run(w *simrt.World, tier string) {
	c := w.C
	r := &c04run{w: w, maps: map[string]*c04map{}, sent: map[string]bool{}, tidV: "tcp-tunnel-1700000000000-7788"}

	// ---- swarm configuration (all draws before any task exists) ----------
	codePath := c.Chance(1, 4, "M.via-connection-code")
	tstate := c.Intn(len(c04tstateName), "tunnel.state")
	mstate := 0 // active in half of the runs, so that credential/identity reasons are not shadowed by the mapping state
	if c.Chance(1, 2, "mapping.not-active") {
		mstate = 1 + c.Intn(len(c04mstateName)-1, "mapping.state")
	}
	revokeBy := c.Intn(2, "revoke.by")
	nprobe := 1 + c.Intn(2, "nprobe")
	race := c.Chance(1, 3, "race.legit-target")
	// burst: all probes and one more legitimate listener open are in flight at the same time, each for its own
	// fresh tunnel id (so that what each request is entitled to does not depend on their order)
	burst := c.Chance(1, 4, "burst")
	if burst {
		nprobe = 2 + c.Intn(2, "burst.nprobe")
	}
	burstSameID := c.Chance(1, 2, "burst.id-only")
	// same-id burst: the two tenants' source opens of the burst carry the SAME (fresh) tunnel id, so both are in
	// flight before either has registered a bridge; the legitimate target then joins and both ends stream
	burstSameTid := c.Chance(1, 3, "burst.same-tunnel-id")
	// expiry: how long after M's ExpiresAt the first request arrives (never at the instant itself), and the
	// sub-second phase of ExpiresAt
	expAfter := []time.Duration{1050 * time.Millisecond, 201 * time.Millisecond, 7 * time.Millisecond, 60 * time.Millisecond, 650 * time.Millisecond, 2300 * time.Millisecond, 930 * time.Millisecond}[c.Intn(7, "expiry.after")]
	expPhase := time.Duration(c.Intn(20, "expiry.phase")) * 50 * time.Millisecond
	// canary: the first request after the change of M's state is an otherwise entitled open of M
	canary := c.Intn(4, "canary") // 0 none | L id only | L id+secret | T id+secret
	// late change: the change of M's state is not applied between requests but while a legitimate open of M is
	// in flight (optionally with one of that open's storage writes failing); a canary open follows once both are over
	lateChange := mstate != 0 && c.Chance(1, 3, "mapping.change-races-open")
	lateDelay := []time.Duration{0, 30 * time.Millisecond, 130 * time.Millisecond, 260 * time.Millisecond, 5 * time.Millisecond}[c.Intn(5, "late.delay")]
	lateHow := []string{"interleaving", "write-error", "slow-store"}[c.Intn(3, "late.how")]
	lateCred := c.Intn(2, "late.cred") // raced open and canary: id only | id + right secret
	lateStall := []time.Duration{300 * time.Millisecond, time.Second}[c.Intn(2, "late.stall.d")]
	lateStallK := 1 + c.Intn(12, "late.stall.k")
	// the store may also be slow while the legitimate tunnel of phase 1 is being set up (so that whatever that open
	// leaves running in the background is still running when the next requests arrive)
	var srcStall time.Duration
	srcStallK := 0
	if c.Chance(1, 4, "source.stall") {
		srcStall = []time.Duration{2 * time.Second, 500 * time.Millisecond, 6 * time.Second}[c.Intn(3, "source.stall.d")]
		srcStallK = 1 + c.Intn(12, "source.stall.k")
	}
	if lateChange && c04mstateName[mstate] == "expired" {
		mstate = 1 // expiry is a matter of the clock, not of a racing writer: race a revocation instead
	}
	// the three kinds of race are kept apart (one per run), so that each has its own class
	if lateChange && lateHow != "slow-store" {
		srcStall, srcStallK = 0, 0
	}
	switch {
	case mstate == 0:
	case lateChange:
		r.raceKind = lateHow
	case srcStall > 0:
		r.raceKind = "slow-store"
	}
	var specs []c04spec
	for i := 0; i < nprobe; i++ {
		sp := c04spec{}
		sp.ident = c.Intn(4, "probe.ident")
		sp.ukind = c.Intn(3, "probe.ukind")
		sp.ctype = []string{"tunnel", "control"}[c.Intn(2, "probe.ctype")]
		sp.cred = c.Intn(len(c04credName), "probe.cred")
		sp.victimTid = !c.Chance(1, 5, "probe.fresh-tid")
		if c.Chance(1, 6, "probe.fault") {
			sp.fault = 1 + c.Intn(6, "probe.fault.k")
		} else if c.Chance(1, 5, "probe.stall") {
			sp.stall = []time.Duration{4 * time.Second, time.Second, 9 * time.Second, 25 * time.Second}[c.Intn(4, "probe.stall.d")]
			sp.stallK = 1 + c.Intn(12, "probe.stall.k")
		}
		sp.law = []simnet.Law{simnet.LawAll, simnet.LawMixed, simnet.LawSmall}[c.Intn(3, "probe.law")]
		if burst {
			// tunnel-type handshakes only: a second control-type login of one client replaces (closes) its first
			sp.victimTid, sp.fault, sp.stall, sp.ctype = false, 0, 0, "tunnel"
			if burstSameID && i < 2 {
				sp.cred = 0 // several clients present the same mapping id at once
			}
		}
		specs = append(specs, sp)
	}

	// ---- world ---------------------------------------------------------------
	mem := simstore.NewMemory(w)
	r.st = simstore.New(w, "n1", mem)
	// latency fault: the hook runs in the task that performs the store operation, right before the backend call
	r.st.Sync = func() {
		if r.stallAt == 0 {
			return
		}
		if ops, _ := r.st.Ops(); ops == r.stallAt {
			r.stallAt = 0
			w.Fault("store.stall")
			r.stalling++
			r.stallUntil = w.Now() + r.stallDur
			w.Sleep(r.stallDur)
			r.stalling--
		}
	}
	rttl := 30 * time.Second
	if c04tstateName[tstate] == "record-expired" {
		rttl = 3 * time.Second
	}
	var err error
	w.Quiet(func() {
		r.node, err = simnode.New(w, r.st, simnode.Config{NodeID: "n1", RoutingTTL: rttl, RateLimitIP: &security.RateLimitConfig{Rate: 1000, Burst: 1000, TTL: time.Hour}})
		if err == nil {
			// a configured cross-node pool whose only peer has an address that cannot even be parsed:
			// the dial fails before any socket is created
			r.node.SM.SetCrossNodePool(session.NewCrossNodePool(w.Ctx, r.st, "n1", session.DefaultCrossNodePoolConfig()))
			err = r.node.Routing.RegisterNodeAddress("n2", "n2-unreachable-no-port")
		}
	})
	if err != nil {
		w.Violationf("C04:harness", "node wiring failed: %v", err)
		return
	}
	defer r.node.Close()
	defer r.cleanup()

	// ---- identities -------------------------------------------------------------
	for i := 0; i < 3; i++ {
		cl := r.node.Connect("ctl-"+c04identName[i], fmt.Sprintf("10.1.%d.1:4000", i), simnet.LinkConfig{})
		resp, ok := cl.Register("control")
		if !ok || !resp.Success {
			w.Violationf("C04:harness", "registering client %s failed", c04identName[i])
			return
		}
		r.ids[i], r.sec[i] = cl.ID, cl.Secret
		r.ctl[i] = cl
	}

	// ---- mappings ----------------------------------------------------------------
	if codePath {
		cc, err := r.node.ConnCode.CreateConnectionCode(&services.CreateConnectionCodeRequest{TargetClientID: r.ids[c04T], TargetAddress: "tcp://10.9.0.1:3306", ActivationTTL: 10 * time.Minute, MappingDuration: 24 * time.Hour, CreatedBy: "T"})
		if err != nil || cc == nil {
			w.Violationf("C04:harness", "CreateConnectionCode failed: %v", err)
			return
		}
		m, err := r.node.ConnCode.ActivateConnectionCode(&services.ActivateConnectionCodeRequest{Code: cc.Code, ListenClientID: r.ids[c04L], ListenAddress: "0.0.0.0:7788"})
		if err != nil || m == nil {
			w.Violationf("C04:harness", "ActivateConnectionCode failed: %v", err)
			return
		}
		r.M = &c04map{id: m.ID, secret: m.SecretKey, listen: m.ListenClientID, target: m.TargetClientID, state: "active"}
		w.Probe("M.via-connection-code")
	} else {
		m, err := r.node.Cloud.CreatePortMapping(&models.PortMapping{ListenClientID: r.ids[c04L], TargetClientID: r.ids[c04T], Protocol: models.ProtocolTCP, SourcePort: 7788, TargetHost: "10.9.0.1", TargetPort: 3306, SecretKey: "sek-M-5f1c9a", Status: models.MappingStatusActive})
		if err != nil || m == nil {
			w.Violationf("C04:harness", "CreatePortMapping(M) failed: %v", err)
			return
		}
		r.M = &c04map{id: m.ID, secret: "sek-M-5f1c9a", listen: r.ids[c04L], target: r.ids[c04T], state: "active"}
	}
	m2, err := r.node.Cloud.CreatePortMapping(&models.PortMapping{ListenClientID: r.ids[c04S], TargetClientID: r.ids[c04S], Protocol: models.ProtocolTCP, SourcePort: 7799, TargetHost: "10.9.0.2", TargetPort: 80, SecretKey: "sek-M2-77aa01", Status: models.MappingStatusActive})
	if err != nil || m2 == nil {
		w.Violationf("C04:harness", "CreatePortMapping(M2) failed: %v", err)
		return
	}
	r.M2 = &c04map{id: m2.ID, secret: "sek-M2-77aa01", listen: r.ids[c04S], target: r.ids[c04S], state: "active"}
	r.maps[r.M.id], r.maps[r.M2.id] = r.M, r.M2
	r.logf("M=%s secret=%q L=%d T=%d ; M2=%s S=%d", r.M.id, r.M.secret, r.ids[c04L], r.ids[c04T], r.M2.id, r.ids[c04S])

	// ---- phase 1: tunnel state at arrival, produced by legitimate traffic -----
	ts := c04tstateName[tstate]
	switch ts {
	case "waiting", "served":
		src := r.open(c04spec{ident: c04L, ctype: "tunnel", cred: 0, victimTid: true, stall: srcStall, stallK: srcStallK}, "Lsrc", true)
		if src == nil || !src.ackOK {
			return // open() has already judged it
		}
		r.stream(src, 'L')
		if ts == "served" {
			tgt := r.open(c04spec{ident: c04T, ctype: "tunnel", cred: 1, victimTid: true}, "Ttgt", true)
			if tgt != nil && tgt.ackOK {
				r.stream(tgt, 'T')
			}
			w.Sleep(120 * time.Millisecond)
		}
	case "squatted":
		// S legitimately opens a tunnel of its own mapping under the victim's predictable tunnel id
		sq := r.open(c04spec{ident: c04S, ctype: "tunnel", cred: 4, victimTid: true, stall: srcStall, stallK: srcStallK}, "Ssquat", false)
		if sq == nil || !sq.ackOK {
			return
		}
		// ... and the victim's listener then opens its tunnel under that id, as its client would
		if src := r.open(c04spec{ident: c04L, ctype: "tunnel", cred: 0, victimTid: true}, "Lsrc", true); src != nil && src.ackOK {
			r.stream(src, 'L')
		}
	case "remote", "record-expired", "local-record":
		nodeID := "n2"
		if ts == "local-record" {
			nodeID = "n1"
		}
		if err := r.node.Routing.RegisterWaitingTunnel(w.Ctx, &session.TunnelWaitingState{TunnelID: r.tidV, MappingID: r.M.id, SecretKey: r.M.secret, SourceNodeID: nodeID, SourceClientID: r.ids[c04L], TargetClientID: r.ids[c04T], TargetHost: "10.9.0.1", TargetPort: 3306}); err != nil {
			w.Violationf("C04:harness", "RegisterWaitingTunnel failed: %v", err)
			return
		}
		r.logf("waiting record for %s registered by node %s", r.tidV, nodeID)
		if ts == "record-expired" {
			w.Sleep(4*time.Second + 100*time.Millisecond)
		}
	}

	// ---- phase 2: state of the victim mapping ----------------------------------
	change := func() error {
		switch c04mstateName[mstate] {
		case "revoked":
			by := []int{c04L, c04T}[revokeBy]
			return r.node.ConnCode.RevokeMapping(r.M.id, r.ids[by], "client-"+c04identName[by])
		case "expired":
			pm, err := r.node.Cloud.GetPortMapping(r.M.id)
			if err != nil {
				return err
			}
			cp := *pm
			exp := time.Now().Add(3*time.Second + expPhase)
			cp.ExpiresAt = &exp
			if err := r.node.Cloud.UpdatePortMapping(&cp); err != nil {
				return err
			}
			w.Sleep(3*time.Second + expPhase + expAfter)
			r.logf("M's ExpiresAt (%v after the run's start) passed %v ago", (w.Now() - expAfter).Round(time.Millisecond), expAfter)
		case "inactive":
			return r.node.Cloud.UpdatePortMappingStatus(r.M.id, models.MappingStatusInactive)
		case "deleted":
			return r.node.Cloud.DeletePortMapping(r.M.id)
		}
		return nil
	}
	if lateChange {
		w.Probe("late-change")
		// the listener opens one more tunnel of M (fresh id), as its client does for every visitor connection ...
		rsp := c04spec{ident: c04L, ctype: "tunnel", cred: lateCred, overlap: true}
		switch lateHow {
		case "write-error":
			rsp.wfault = 1 // the first write of M's record issued after the request is sent fails
		case "slow-store":
			rsp.stall, rsp.stallK = lateStall, lateStallK
		}
		raced := r.prep(rsp, "Lraced", true)
		if raced == nil {
			return
		}
		var cerr error
		t1 := w.Spawn("raced-open", func() { r.fire(raced) })
		// ... and the change lands while that open is being processed
		t2 := w.Spawn("late-change", func() {
			w.Sleep(lateDelay)
			cerr = change()
			r.logf("change of M to %s issued %v after Lraced's request returned %v", c04mstateName[mstate], lateDelay, cerr)
		})
		t1.Wait()
		t2.Wait()
		if cerr != nil {
			// the injected write failure hit the change itself: it is repeated now that nothing fails any more
			w.Probe("late-change.repeated")
			if err := change(); err != nil {
				w.Probe("late-change.abandoned")
				return
			}
		}
		// everything the raced open started synchronously is over (its ack or its refusal has been received)
		w.Sleep(400 * time.Millisecond)
	} else if err := change(); err != nil {
		w.Violationf("C04:harness", "changing M to %s failed: %v", c04mstateName[mstate], err)
		return
	}
	r.M.state = c04mstateName[mstate]
	r.logf("mapping M is now %s", r.M.state)
	if lateChange {
		// canary: the change was acknowledged to its caller, nothing of the raced open is in flight any more
		r.open(c04spec{ident: c04L, ctype: "tunnel", cred: lateCred}, "Lcanary", false)
	} else if mstate != 0 && canary != 0 {
		who := []int{c04L, c04L, c04L, c04T}[canary]
		r.open(c04spec{ident: who, ctype: "tunnel", cred: []int{0, 0, 1, 1}[canary]}, c04identName[who]+"canary", false)
	}

	// ---- phase 3: probes -----------------------------------------------------------
	if burst {
		w.Probe("burst")
		var pcs []*c04conn
		// connections are set up and authenticated one after the other; only the TunnelOpen requests overlap
		shared := ""
		if burstSameTid {
			w.Probe("burst.same-tunnel-id")
			shared = "tcp-tunnel-1700000000999-7788"
		}
		lb := r.prep(c04spec{ident: c04L, ctype: "tunnel", cred: 0, tid: shared}, "Lburst", true)
		if lb != nil {
			pcs = append(pcs, lb)
		}
		// the other tenant is busy too: S opens a tunnel of its own mapping
		if pc := r.prep(c04spec{ident: c04S, ctype: "tunnel", cred: 4, tid: shared}, "Sburst", true); pc != nil {
			pcs = append(pcs, pc)
		}
		for i, sp := range specs {
			if pc := r.prep(sp, fmt.Sprintf("probe%d-%s", i, c04identName[sp.ident]), false); pc != nil {
				pcs = append(pcs, pc)
			}
		}
		var ts []*simrt.Task
		for _, pc := range pcs {
			pc := pc
			ts = append(ts, w.Spawn("burst-"+pc.name, func() { r.fire(pc) }))
		}
		for _, t := range ts {
			t.Wait()
		}
		specs = nil
		if burstSameTid && lb != nil && lb.ackOK {
			// the legitimate pair uses the tunnel it believes it has: the listener streams, the target joins and streams
			r.stream(lb, 'L')
			if tgt := r.open(c04spec{ident: c04T, ctype: "tunnel", cred: 1, tid: shared}, "Tshared", true); tgt != nil && tgt.ackOK {
				r.stream(tgt, 'T')
			}
			w.Sleep(200 * time.Millisecond)
		}
	}
	for i, sp := range specs {
		name := fmt.Sprintf("probe%d-%s", i, c04identName[sp.ident])
		if i == 0 && race && ts == "waiting" {
			// the legitimate target's open races the probe on the same waiting bridge
			w.Probe("race.legit-target")
			sp := sp
			t1 := w.Spawn("race-probe", func() { r.open(sp, name, false) })
			t2 := w.Spawn("race-target", func() {
				tgt := r.open(c04spec{ident: c04T, ctype: "tunnel", cred: 1, victimTid: true}, "Ttgt", true)
				if tgt != nil && tgt.ackOK {
					r.stream(tgt, 'T')
				}
			})
			t1.Wait()
			t2.Wait()
		} else {
			r.open(sp, name, false)
		}
		w.Sleep(40 * time.Millisecond)
	}

	// ---- end of run: whatever became readable on any connection ----------------
	w.Sleep(150 * time.Millisecond)
	r.stop = true
	for _, t := range r.tasks {
		t.Wait()
	}
	for _, pc := range r.conns {
		if pc.cl == nil {
			continue
		}
		r.drain(pc, 60*time.Millisecond)
		hasVictim := c04victimBytes(pc.raw)
		if pc.legit && pc.ident == c04T && bytes.Contains(pc.raw, []byte("<L@")) {
			w.Probe("background.flowing")
		}
		if !hasVictim || pc.flagged {
			continue
		}
		switch {
		case pc.sent && pc.verdict == c04no:
			pc.flagged = true
			w.Violationf("C04:leak:"+pc.tstate+":"+pc.reason, "victim tunnel bytes became readable later on connection %s whose request was not entitled (%s): %q\n%s", pc.name, pc.reason, c04clip(pc.raw), r.history())
		case pc.ident == c04S || pc.ident == c04U:
			pc.flagged = true
			w.Violationf("C04:leak:cross-tunnel:squatted-tunnel-id", "bytes written into mapping M's tunnel by its parties are readable on connection %s of a client that is no party of M: %q\n%s", pc.name, c04clip(pc.raw), r.history())
		}
	}
	r.checkCommands()
	w.Sample(fmt.Sprintf("tunnel=%s mapping=%s secret=%v probes=%s", ts, r.M.state, r.M.secret != "", r.describeProbes()))
}

// checkCommands reads what the server sent on the clients' control connections. A TunnelOpenRequest command is
// the server inviting a client to attach to a tunnel: it may only go to the target client of the mapping it
// names, only for a tunnel that was opened for that mapping, and only with that mapping's secret.
func (r *c04run) checkCommands() {
	w := r.w
	for i, cl := range r.ctl {
		if cl == nil {
			continue
		}
		for n := 0; n < 64; n++ {
			p, ok := cl.Recv(20 * time.Millisecond)
			if !ok {
				break
			}
			if p.PacketType&0x3F != packet.JsonCommand || p.CommandPacket == nil || p.CommandPacket.CommandType != packet.TunnelOpenRequestCmd {
				continue
			}
			var body struct {
				TunnelID  string `json:"tunnel_id"`
				MappingID string `json:"mapping_id"`
				SecretKey string `json:"secret_key"`
			}
			if json.Unmarshal([]byte(p.CommandPacket.CommandBody), &body) != nil {
				continue
			}
			w.Probe("command.tunnel-open-request")
			m := r.maps[body.MappingID]
			cls := ""
			switch {
			case m == nil || m.target != r.ids[i]:
				cls = "addressee-not-target-of-named-mapping"
			case !r.sent[body.TunnelID+"|"+body.MappingID]:
				cls = "no-tunnel-was-granted-under-that-id-for-named-mapping"
			case body.SecretKey != m.secret:
				cls = "carries-another-mappings-secret"
			}
			if cls != "" {
				w.Violationf("C04:invitation:"+cls, "the server told client %s (%d) to open its side of tunnel %q of mapping %q with secret %q; %s is target of %s only and the opens granted were %v\n%s",
					c04identName[i], r.ids[i], body.TunnelID, body.MappingID, body.SecretKey, c04identName[i], r.targetOf(r.ids[i]), r.sentPairs(), r.history())
				return
			}
		}
	}
}

func (r *c04run) targetOf(id int64) string {
	var out []string
	for _, m := range []*c04map{r.M, r.M2} {
		if m.target == id {
			out = append(out, m.id)
		}
	}
	return strings.Join(out, ",")
}

func (r *c04run) sentPairs() []string {
	var out []string
	for k := range r.sent {
		out = append(out, k)
	}
	sort.Strings(out)
	return out
}

func (r *c04run) describeProbes() string {
	var parts []string
	for _, pc := range r.conns {
		if pc.legit {
			continue
		}
		v := []string{"not-entitled", "entitled", "dont-care"}[pc.verdict]
		parts = append(parts, fmt.Sprintf("%s{%s id=%q sec=%q tid=%s at=%s -> %s(%s) ack=%v/%v}", pc.name, c04identName[pc.ident], pc.req.MappingID, pc.req.SecretKey, pc.req.TunnelID, pc.tstate, v, pc.reason, pc.acked, pc.ackOK))
	}
	return strings.Join(parts, " ")
}

func (r *c04run) cleanup() {
	r.stop = true
	r.stallAt = 0
	// a stalled store operation (it may have hit a background task) is allowed to finish before the world is
	// torn down: the stall is at most 25 s long
	for i := 0; i < 40 && r.stalling > 0; i++ {
		r.w.Sleep(time.Second)
	}
	for _, pc := range r.conns {
		if pc.cl != nil {
			pc.cl.Close()
		}
	}
}

// stream starts the position-stamped background writer on a legitimate tunnel connection.
func (r *c04run) stream(pc *c04conn, tag byte) {
	w := r.w
	t := w.Spawn("stream-"+pc.name, func() {
		pos := 0
		for i := 0; i < 400 && !r.stop; i++ {
			chunk := []byte(fmt.Sprintf("<%c@%07d>", tag, pos))
			if _, err := pc.cl.Conn.Write(chunk); err != nil {
				return
			}
			pos += len(chunk)
			w.Sleep(25 * time.Millisecond)
		}
	})
	r.tasks = append(r.tasks, t)
}

func c04victimBytes(b []byte) bool {
	return bytes.Contains(b, []byte("<L@")) || bytes.Contains(b, []byte("<T@"))
}

func c04clip(b []byte) string {
	if len(b) > 96 {
		return string(b[:96]) + "…"
	}
	return string(b)
}

// drain reads whatever is readable on the client end within d of simulated time.
func (r *c04run) drain(pc *c04conn, d time.Duration) {
	buf := make([]byte, 4096)
	pc.cl.Conn.SetReadDeadline(time.Now().Add(d))
	for len(pc.raw) < 1<<16 {
		n, err := pc.cl.Conn.Read(buf)
		pc.raw = append(pc.raw, buf[:n]...)
		if err != nil {
			break
		}
	}
	pc.cl.Conn.SetReadDeadline(time.Time{})
}

func (r *c04run) mkReq(cred int, tid string) packet.TunnelOpenRequest {
	q := packet.TunnelOpenRequest{TunnelID: tid}
	nonEmpty := func(s string) string {
		if s == "" {
			return "x"
		}
		return s
	}
	switch c04credName[cred] {
	case "id-only":
		q.MappingID = r.M.id
	case "id+right-secret":
		q.MappingID, q.SecretKey = r.M.id, r.M.secret
	case "id+wrong-secret":
		q.MappingID, q.SecretKey = r.M.id, "wrong-"+r.M.secret
	case "secret-no-id":
		q.SecretKey = nonEmpty(r.M.secret)
	case "other-id":
		q.MappingID = r.M2.id
	case "other-id+other-secret":
		q.MappingID, q.SecretKey = r.M2.id, r.M2.secret
	case "other-id+right-secret":
		q.MappingID, q.SecretKey = r.M2.id, nonEmpty(r.M.secret)
	case "unknown-id":
		q.MappingID = "pm_never_existed_0001"
	case "resume-garbage":
		q.MappingID, q.ResumeToken = r.M.id, "Z2FyYmFnZQ.garbage-token"
	}
	return q
}

// entitled is the property text:
//
//	attached only if authenticated and entitled to the tunnel's mapping: the
//	mapping's listening client presenting the mapping id, or the listening or
//	target client presenting the mapping's secret; revoked, expired, inactive
//	or unknown mappings never yield an attachment.
func (r *c04run) entitled(ident int, authed bool, q *packet.TunnelOpenRequest, hasTunnel bool, tunnelMapping string) (int, string) {
	if ident == c04U || !authed {
		return c04no, "unauthenticated"
	}
	mid := q.MappingID
	if hasTunnel {
		mid = tunnelMapping
	}
	if mid == "" {
		return c04no, "no-mapping-named"
	}
	m := r.maps[mid]
	if m == nil {
		return c04no, "mapping-unknown"
	}
	if m.state != "active" {
		// for a tunnel nobody holds yet, which validation path the request addresses is part of the class: the
		// id path and the secret path are separate checks in any implementation
		race := ""
		if r.raceKind != "" && m == r.M {
			race = "+change-raced:" + r.raceKind
		}
		if hasTunnel {
			return c04no, "mapping-" + m.state + race
		}
		form := "by-id"
		if q.SecretKey != "" {
			form = "by-secret"
		}
		return c04no, "mapping-" + m.state + "/" + form + race
	}
	cid := r.ids[ident]
	listener, target := cid == m.listen, cid == m.target
	if !listener && !target {
		return c04no, "stranger"
	}
	presentsID := q.MappingID == m.id
	rightSecret := q.SecretKey != "" && q.SecretKey == m.secret
	wrongSecret := q.SecretKey != "" && q.SecretKey != m.secret
	switch {
	case rightSecret && presentsID:
		return c04yes, ""
	case rightSecret:
		return c04may, "right-secret-under-other-id"
	case listener && presentsID && !wrongSecret:
		return c04yes, ""
	case listener && presentsID:
		return c04may, "listener-id-with-wrong-secret"
	case target && presentsID && m.secret == "" && q.SecretKey == "" && hasTunnel:
		return c04may, "target-of-empty-secret-mapping"
	case wrongSecret:
		return c04no, "wrong-secret"
	case q.MappingID == "" && q.SecretKey == "":
		return c04no, "no-credential"
	case !presentsID:
		return c04no, "other-mapping-credential"
	default:
		return c04no, "target-id-only"
	}
}

// holds reports whether any bridge seen so far holds the server end of cl as source or target.
func (r *c04run) holds(cl *simnode.Client) (string, *session.TunnelBridge) {
	srv := net.Conn(cl.Srv)
	for _, b := range r.brs {
		if tc := b.GetTargetTunnelConn(); tc != nil && tc.GetNetConn() == srv {
			return "target of " + b.GetTunnelID() + " (mapping " + b.GetMappingID() + ")", b
		}
		if sc := b.GetSourceTunnelConn(); sc != nil && sc.GetNetConn() == srv {
			return "source of " + b.GetTunnelID() + " (mapping " + b.GetMappingID() + ")", b
		}
	}
	return "", nil
}

func (r *c04run) noteBridge(tid string) *session.TunnelBridge {
	b := r.node.SM.BridgeForVerif(tid)
	if b == nil {
		return nil
	}
	for _, x := range r.brs {
		if x == b {
			return b
		}
	}
	r.brs = append(r.brs, b)
	return b
}

// open performs one TunnelOpen over a fresh connection and judges its outcome.
func (r *c04run) open(sp c04spec, name string, legit bool) *c04conn {
	pc := r.prep(sp, name, legit)
	if pc == nil {
		return nil
	}
	r.fire(pc)
	return pc
}

// prep connects, authenticates, builds the request and classifies the tunnel state it will meet.
func (r *c04run) prep(sp c04spec, name string, legit bool) *c04conn {
	w := r.w
	r.nconn++
	pc := &c04conn{name: name, ident: sp.ident, legit: legit, sp: sp}
	addr := fmt.Sprintf("10.2.%d.%d:5000", sp.ident, r.nconn)
	pc.cl = r.node.Connect(name, addr, simnet.LinkConfig{LawAB: sp.law, LawBA: sp.law})
	r.conns = append(r.conns, pc)

	// ---- identity --------------------------------------------------------------
	switch {
	case sp.ident != c04U:
		resp, ok := pc.cl.Login(r.ids[sp.ident], r.sec[sp.ident], sp.ctype)
		pc.authed = ok && resp != nil && resp.Success
		if !pc.authed {
			if r.st.FailAt != 0 || r.faulty {
				// the racing task's injected store failure hit this login: no request is made
				w.Probe("login-failed-under-store-fault")
				return nil
			}
			w.Violationf("C04:harness", "login of %s on %s failed\n%s", c04identName[sp.ident], name, r.history())
			return nil
		}
	case sp.ukind == 1:
		pc.cl.Handshake(&packet.HandshakeRequest{ClientID: r.ids[c04L], Version: "3", Protocol: "tcp", ConnectionType: sp.ctype})
	case sp.ukind == 2:
		if r1, ok := pc.cl.Handshake(&packet.HandshakeRequest{ClientID: r.ids[c04L], Version: "3", Protocol: "tcp", ConnectionType: sp.ctype}); ok && r1.NeedResponse {
			pc.cl.Handshake(&packet.HandshakeRequest{ClientID: r.ids[c04L], Version: "3", Protocol: "tcp", ConnectionType: sp.ctype, ChallengeResponse: simnode.HMAC("not-the-secret", r1.Challenge)})
		}
	}

	// ---- the request and the tunnel state it meets -------------------------------
	tid := r.tidV
	if sp.tid != "" {
		tid = sp.tid
	} else if !sp.victimTid {
		tid = fmt.Sprintf("tcp-tunnel-fresh-%d", r.nconn)
	}
	pc.tid = tid
	pc.req = r.mkReq(sp.cred, tid)
	hasTunnel, tunnelMapping := false, ""
	pc.pre = r.noteBridge(tid)
	if b := pc.pre; b != nil {
		hasTunnel, tunnelMapping = true, b.GetMappingID()
		pc.tstate = "bridge-waiting"
		if b.IsTargetReady() {
			pc.tstate = "bridge-served"
		}
		if tunnelMapping != r.M.id {
			pc.tstate = "foreign-" + pc.tstate
		}
	} else if rec, err := r.node.Routing.LookupWaitingTunnel(context.Background(), tid); err == nil && rec != nil {
		hasTunnel, tunnelMapping = true, rec.MappingID
		pc.tstate = "remote-waiting"
		if rec.SourceNodeID == "n1" {
			pc.tstate = "local-record-no-bridge"
		}
	} else {
		pc.tstate = "no-tunnel"
	}
	pc.verdict, pc.reason = r.entitled(sp.ident, pc.authed, &pc.req, hasTunnel, tunnelMapping)
	cell := fmt.Sprintf("%s|%s|%s|%s", c04identName[sp.ident], c04credName[sp.cred], r.M.state, pc.tstate)
	w.State(cell)
	w.Probe("arrival." + pc.tstate)
	w.Probe("verdict." + []string{"not-entitled", "entitled", "dont-care"}[pc.verdict])
	return pc
}

// fire sends the prepared TunnelOpen and judges its outcome.
func (r *c04run) fire(pc *c04conn) {
	w := r.w
	sp, name, tid, pre := pc.sp, pc.name, pc.tid, pc.pre
	if sp.fault > 0 {
		ops, _ := r.st.Ops()
		r.st.FailAt = ops + sp.fault
		r.faulty = true
	}
	if sp.stall > 0 {
		ops, _ := r.st.Ops()
		r.stallDur, r.stallAt = sp.stall, ops+sp.stallK
		r.faulty = true
	}
	if sp.wfault > 0 {
		// only writes of M's own record count
		r.st.Filter = func(op, key string) bool { return strings.Contains(key, r.M.id) }
		_, wr := r.st.Ops()
		r.st.CountWritesOnly, r.st.FailAt = true, wr+sp.wfault
		r.faulty = true
	}
	payload, _ := json.Marshal(&pc.req)
	if err := pc.cl.Send(packet.TunnelOpen, payload); err == nil {
		pc.sent = true
	}
	// a stalled store may delay the answer by the length of the stall, never suppress it
	// (nor may a stall still in progress from an earlier request, which callers sharing a storage read wait for)
	ackWait := c04AckBound + sp.stall
	if rem := r.stallUntil - w.Now(); rem > 0 {
		ackWait += rem
	}
	if p, ok := pc.cl.RecvType(packet.TunnelOpenAck, ackWait); ok {
		var ack packet.TunnelOpenAckResponse
		if json.Unmarshal(p.Payload, &ack) == nil {
			pc.acked, pc.ackOK, pc.ackErr = true, ack.Success, ack.Error
			if ack.Success {
				r.sent[pc.req.TunnelID+"|"+pc.req.MappingID] = true
			}
		}
	}
	if sp.fault > 0 {
		r.st.FailAt = 0
	}
	if sp.wfault > 0 {
		r.st.FailAt, r.st.CountWritesOnly, r.st.Filter = 0, false, nil
	}
	// let the dispatcher finish whatever it does after the ack
	w.Sleep(30 * time.Millisecond)
	if sp.stall > 0 {
		// (the stall stays armed until here, so that it can also hit what the dispatcher does after the ack)
		r.stallAt = 0
	}
	// a granted source open whose handler is still behind a stalled store operation registers its bridge late:
	// later arrivals are classified by what is registered, so wait for it (bounded by the stall)
	for i := 0; i < 300 && pc.ackOK && r.stalling > 0 && r.node.SM.BridgeForVerif(tid) == nil; i++ {
		w.Sleep(100 * time.Millisecond)
	}
	r.noteBridge(tid)
	held, hb := r.holds(pc.cl)
	r.drain(pc, 200*time.Millisecond)
	if held == "" {
		held, hb = r.holds(pc.cl)
	}
	if hb != nil && hb != pre && strings.HasPrefix(held, "target") {
		// a bridge that was not registered yet when the harness classified the arrival (its source's open was still
		// being processed, e.g. behind a stalled store) was there when the dispatcher handled this request: the
		// tunnel existed at arrival, and its mapping is the one that bridge was created for
		pc.tstate = "bridge-waiting"
		if hb.GetMappingID() != r.M.id {
			pc.tstate = "foreign-bridge-waiting"
		}
		pc.verdict, pc.reason = r.entitled(sp.ident, pc.authed, &pc.req, true, hb.GetMappingID())
	} else if hb != nil && hb != pre {
		// the dispatcher did not find the tunnel the harness saw at arrival (e.g. the routing lookup failed) and
		// made this connection the source of a NEW local tunnel: the tunnel it is attached to is that one, and
		// its mapping is the one the bridge was created for
		pc.tstate = "no-tunnel"
		pc.verdict, pc.reason = r.entitled(sp.ident, pc.authed, &pc.req, false, "")
		if hb.GetMappingID() != pc.req.MappingID {
			pc.verdict, pc.reason = r.entitled(sp.ident, pc.authed, &pc.req, true, hb.GetMappingID())
		}
	}
	closed := pc.cl.Srv.Closed()
	leaked := c04victimBytes(pc.raw)
	r.logf("%s as %s(%s,%s) TunnelOpen{tid=%s map=%q secret=%q resume=%v} at %s: ack=%v success=%v err=%q held=%q closed=%v readable=%dB victim-bytes=%v => text says %s %s",
		name, c04identName[sp.ident], map[bool]string{true: "authenticated", false: "not authenticated"}[pc.authed], sp.ctype, tid, pc.req.MappingID, pc.req.SecretKey, pc.req.ResumeToken != "",
		pc.tstate, pc.acked, pc.ackOK, pc.ackErr, held, closed, len(pc.raw), leaked, []string{"NOT entitled", "entitled", "don't-care"}[pc.verdict], pc.reason)
	if sp.stall > 0 {
		r.logf("  (a store operation among the next %d after %s's request was stalled for %v)", sp.stallK, name, sp.stall)
	}
	if pc.sent && pc.verdict == c04no {
		w.Nontrivial()
	}

	switch pc.verdict {
	case c04no:
		cls := pc.tstate + ":" + pc.reason
		switch {
		case leaked:
			pc.flagged = true
			w.Violationf("C04:leak:"+cls, "a request the text does not entitle (%s) read victim tunnel bytes %q\n%s", pc.reason, c04clip(pc.raw), r.history())
		case held != "":
			pc.flagged = true
			w.Violationf("C04:attached:"+cls, "a request the text does not entitle (%s) is held by a bridge as %s\n%s", pc.reason, held, r.history())
		case pc.acked && pc.ackOK:
			pc.flagged = true
			w.Violationf("C04:acked-success:"+cls, "a request the text does not entitle (%s) was acknowledged with success=true\n%s", pc.reason, r.history())
		case pc.sent && !pc.acked && !closed:
			pc.flagged = true
			// silence does not depend on why the request is not entitled: class = tunnel state (+ injected fault)
			ucls := pc.tstate
			if sp.fault > 0 {
				ucls += "+store-fault"
			}
			w.Violationf("C04:unanswered:"+ucls, "a refused request (%s) got neither a failure acknowledgement nor a closed connection within %v (store fault armed: %v)\n%s", pc.reason, ackWait, sp.fault > 0, r.history())
		default:
			w.Probe("refused." + pc.reason)
		}
	case c04yes:
		if sp.overlap {
			// the mapping's state changes while this request is being processed: granted and refused are both right
			w.Probe("overlap.granted=" + fmt.Sprint(pc.acked && pc.ackOK))
		} else if pc.acked && pc.ackOK {
			w.Probe("granted.entitled")
		} else if sp.fault == 0 && !r.faulty && pc.req.ResumeToken == "" && pc.tstate != "local-record-no-bridge" {
			w.Violationf("C04:entitled-refused:"+pc.tstate, "an entitled request (fault-free run) was not acknowledged with success: acked=%v err=%q\n%s", pc.acked, pc.ackErr, r.history())
		}
	default:
		w.Probe("dont-care." + pc.reason)
	}
}
