//go:build verif

package mapping

import "net"

// Seam for the C12 simulation scenario (client-side relays): lets the harness
// play the kernel socket of a UDP mapping. It adds no behaviour.

// InjectPacketForVerif hands one datagram "received from `from` on listener"
// to the adapter exactly as readLoopBatch does (pooled buffer + processPacket):
// the first datagram of a source creates the session (UDPVirtualConn + its
// writeLoop) and queues it for Accept; later ones go to the session's readChan.
func (a *UDPMappingAdapter) InjectPacketForVerif(listener net.PacketConn, from net.Addr, data []byte) {
	buffer := getBuffer()
	n := copy(buffer, data)
	a.processPacket(buffer, n, from, listener)
}
