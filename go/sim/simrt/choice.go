// Package simrt is the deterministic simulation runtime: one choice stream,
// one scheduler, one fake clock (testing/synctest), tasks parked at hooks.
package simrt

import (
	"math/rand"
)

// Draw is one recorded decision.
type Draw struct {
	V     int    `json:"v"`
	N     int    `json:"n"`
	Label string `json:"l,omitempty"`
}

// Choice is the single source of every decision in a run. In search mode it
// is a PRNG seeded from (VERIF_SEED, run index); in replay mode it feeds a
// recorded list and continues with zeros ("the boring option") when the list
// is exhausted.
type Choice struct {
	rng    *rand.Rand
	replay []int
	pos    int
	Rec    []Draw
	labels bool
}

func NewSearchChoice(seed int64, run int64) *Choice {
	return &Choice{rng: rand.New(rand.NewSource(seed*1000003 + run*7919 + 17))}
}

func NewReplayChoice(vals []int) *Choice {
	return &Choice{replay: vals}
}

// KeepLabels makes the stream remember the label of each draw (replay files).
func (c *Choice) KeepLabels(b bool) { c.labels = b }

// Values returns the recorded raw values.
func (c *Choice) Values() []int {
	out := make([]int, len(c.Rec))
	for i, d := range c.Rec {
		out[i] = d.V
	}
	return out
}

// Intn returns a value in [0,n). n<=1 returns 0 without consuming a draw.
func (c *Choice) Intn(n int, label string) int {
	if n <= 1 {
		return 0
	}
	var v int
	if c.rng != nil {
		v = c.rng.Intn(n)
	} else if c.pos < len(c.replay) {
		v = c.replay[c.pos]
		if v < 0 {
			v = -v
		}
		v %= n
	}
	c.pos++
	d := Draw{V: v, N: n}
	if c.labels {
		d.Label = label
	}
	c.Rec = append(c.Rec, d)
	return v
}

// Chance is true with probability num/den; the zero draw means false.
func (c *Choice) Chance(num, den int, label string) bool {
	if num <= 0 {
		return false
	}
	v := c.Intn(den, label)
	return v >= den-num
}

// Biased returns a value in [0,n) where small values are more likely
// (minimum of two uniform draws, encoded as one draw of n*n).
func (c *Choice) Biased(n int, label string) int {
	if n <= 1 {
		return 0
	}
	if n > 30000 {
		a := c.Intn(n, label)
		return a
	}
	v := c.Intn(n*n, label)
	a, b := v/n, v%n
	if b < a {
		a = b
	}
	return a
}

// Range returns a value in [lo,hi].
func (c *Choice) Range(lo, hi int, label string) int {
	if hi <= lo {
		return lo
	}
	return lo + c.Intn(hi-lo+1, label)
}

// PickInt returns one of vals; index 0 is the boring option.
func (c *Choice) PickInt(vals []int, label string) int {
	return vals[c.Intn(len(vals), label)]
}

// Bytes fills p deterministically from the stream (one draw per 3 bytes would
// bloat traces: a single draw seeds a private generator).
func (c *Choice) Bytes(p []byte, label string) {
	s := c.Intn(1<<30, label)
	r := rand.New(rand.NewSource(int64(s) + 1))
	r.Read(p)
}
