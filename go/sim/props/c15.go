package props

import (
	"context"
	cryptorand "crypto/rand"
	"errors"
	"fmt"
	"io"
	"sort"
	"strconv"
	"strings"
	"sync"
	"time"

	"tunnox-core/internal/core/idgen"
	"tunnox-core/internal/core/node"
	"tunnox-core/internal/core/storage/hybrid"
	"tunnox-core/internal/core/storage/types"
	"tunnox-core/verifsim/simrt"
	"tunnox-core/verifsim/simstore"
)

// C15 — generated identifiers are unique among live identifiers.
//
// Three modes per run (drawn):
//
//   idgen     2-3 nodes, 1-2 IDManager (or directly constructed
//             StorageIDGenerator, custom marker lifetime) instances per node,
//             all over ONE shared store; crypto/rand.Reader is replaced for the
//             run by a reader that serves every Read from a pool of 1-8 byte
//             strings (index drawn from the choice stream), so nearly every
//             candidate collides. 2-5 tasks Generate/Release/GenerateUnique*
//             concurrently. Store flavours: CAS memory, CAS redis, tiered
//             (hybrid, id keys routed to the shared cache), tiered with a
//             shared cache that lacks SetNX, and a store that lacks CASStore.
//   nodealloc 2-3 NodeIDAllocator contenders (one per node) allocate / hold /
//             release node id slots; slots pre-occupied by foreign holders,
//             optionally all 1000; node crash; store outage of one holder.
//   uuid      connection / tunnel / mapping-instance ids (UUIDGenerator) under
//             the untouched full-entropy reader: smoke check, no repeat.
//
// The oracle is a list of (generate, release) events kept by the harness; it
// never looks at how the implementation decides.

// ---------------------------------------------------------------- entropy

// c15reader is the low-entropy crypto/rand.Reader of a run.
type c15reader struct {
	w     *simrt.World
	orig  io.Reader
	pool  [][]byte
	force int // >=0: serve this pool entry (setup); <0: draw the entry per Read
	mu    sync.Mutex
	reads int
}

func (r *c15reader) Read(p []byte) (int, error) {
	if r.w.Free() || len(r.pool) == 0 {
		return r.orig.Read(p)
	}
	i := r.force
	if i < 0 {
		i = r.w.Draw(len(r.pool), "rand.pool")
	}
	r.mu.Lock()
	r.reads++
	r.mu.Unlock()
	src := r.pool[i]
	for k := range p {
		p[k] = src[k%len(src)]
	}
	return len(p), nil
}

func (r *c15reader) Reads() int {
	r.mu.Lock()
	defer r.mu.Unlock()
	return r.reads
}

// ---------------------------------------------------------------- store doubles

// c15flaky is one node's connection to the shared store with an outage
// switch; it exposes only types.Storage (no SetNX).
type c15flaky struct {
	w    *simrt.World
	s    *simstore.Store
	down *bool
	hic  *c15hiccup
	node int
	dels *c15delLog
	loss *c15lossy
}

// c15lossy makes one node's connection answer badly on operations that change
// the store: a reply is lost AFTER the store processed the operation (the
// caller sees a transport error although the effect, if any, happened - this
// includes a SetNX on an occupied key, which would have answered false), a
// claim request is lost BEFORE it reaches the store, or the answer to a claim
// (SetNX) takes seconds, either because the request or because the reply
// travels slowly. Disarmed unless a mode arms it.
type c15lossy struct {
	den      int  // each SetNX/Set/Delete loses its reply with chance 1/den (0 = never)
	reqLoss  bool // SetNX and Delete may instead lose the request (not executed)
	slowLeft int  // how many SetNX answers may still be slow
	slowDen  int
	slowDur  time.Duration
	mu       sync.Mutex
	errs     []c15claimErr // claim (SetNX / Set) operations that returned an injected error
	slow     int
}

type c15claimErr struct {
	key   string
	stamp int64
	after bool // the store had processed the operation
}

var errC15Lost = errors.New("c15: connection reset while waiting for the store's reply")

// fault decides about one operation: (lostReply, lostRequest).
func (l *c15lossy) fault(w *simrt.World, mayLoseRequest bool) (bool, bool) {
	if l == nil || l.den == 0 || !w.DrawChance(1, l.den, "lossy.op") {
		return false, false
	}
	if mayLoseRequest && l.reqLoss && w.Draw(2, "lossy.kind") == 1 {
		w.Fault("store.request-lost")
		return false, true
	}
	w.Fault("store.reply-lost")
	return true, false
}

func (l *c15lossy) note(w *simrt.World, key string, after bool) {
	l.mu.Lock()
	l.errs = append(l.errs, c15claimErr{key: key, stamp: w.Stamp(), after: after})
	l.mu.Unlock()
}

// c15delLog records, for every Delete a node issues, the stamps right before
// the call and right after it returned: the backend is instrumented at
// statement granularity, so the removal takes effect somewhere inside that
// interval, possibly long after the call was issued.
type c15delLog struct {
	mu   sync.Mutex
	recs []c15del
}

type c15del struct {
	node       int
	key        string
	start, end int64
}

// c15hiccup is a brief store fault on one node's connection: after skip
// successful Set operations exactly ONE Set blocks for hang (a timeout) and
// then fails; the store is healthy before and after.
type c15hiccup struct {
	armed      bool
	skip, seen int
	hang       time.Duration
	fired      bool
	firedAt    time.Duration
	firedStamp int64
	key        string // key of the failed Set
	keyPresent bool   // the shared backend (read directly, not through a node handle) still held that key when the Set failed
}

var errC15Hiccup = errors.New("c15: store operation timed out (single hiccup)")

var errC15Outage = errors.New("c15: store unreachable from this node (outage)")

func (f c15flaky) chk() error {
	if *f.down {
		f.w.Fault("store.outage-op")
		return errC15Outage
	}
	return nil
}
func (f c15flaky) Set(k string, v any, ttl time.Duration) error {
	if err := f.chk(); err != nil {
		f.w.Yield("outage.Set")
		return err
	}
	if h := f.hic; h != nil && h.armed && !h.fired {
		if h.seen == h.skip {
			h.fired, h.firedAt, h.firedStamp = true, f.w.Now(), f.w.Stamp()
			h.key = k
			h.keyPresent, _ = f.s.Inner.Exists(k)
			f.w.Fault("store.hiccup")
			if h.hang > 0 {
				f.w.Sleep(h.hang)
			} else {
				f.w.Yield("hiccup.Set")
			}
			return errC15Hiccup
		}
		h.seen++
	}
	if lost, _ := f.loss.fault(f.w, false); lost {
		f.s.Set(k, v, ttl)
		f.loss.note(f.w, k, true)
		return errC15Lost
	}
	return f.s.Set(k, v, ttl)
}
func (f c15flaky) Get(k string) (any, error) {
	if err := f.chk(); err != nil {
		f.w.Yield("outage.Get")
		return nil, err
	}
	return f.s.Get(k)
}
func (f c15flaky) Delete(k string) error {
	if err := f.chk(); err != nil {
		f.w.Yield("outage.Delete")
		return err
	}
	lostReply, lostReq := f.loss.fault(f.w, true)
	if lostReq {
		return errC15Lost
	}
	if f.dels == nil {
		err := f.s.Delete(k)
		if lostReply {
			return errC15Lost
		}
		return err
	}
	rec := c15del{node: f.node, key: k, start: f.w.Stamp(), end: c15never}
	f.dels.mu.Lock()
	f.dels.recs = append(f.dels.recs, rec)
	i := len(f.dels.recs) - 1
	f.dels.mu.Unlock()
	err := f.s.Delete(k)
	f.dels.mu.Lock()
	f.dels.recs[i].end = f.w.Stamp()
	f.dels.mu.Unlock()
	if lostReply {
		return errC15Lost
	}
	return err
}
func (f c15flaky) Exists(k string) (bool, error) {
	if err := f.chk(); err != nil {
		f.w.Yield("outage.Exists")
		return false, err
	}
	return f.s.Exists(k)
}
func (f c15flaky) SetExpiration(k string, ttl time.Duration) error {
	if err := f.chk(); err != nil {
		return err
	}
	return f.s.SetExpiration(k, ttl)
}
func (f c15flaky) GetExpiration(k string) (time.Duration, error) {
	if err := f.chk(); err != nil {
		return 0, err
	}
	return f.s.GetExpiration(k)
}
func (f c15flaky) CleanupExpired() error { return f.s.CleanupExpired() }
func (f c15flaky) Close() error          { return nil }

// c15flakyCAS adds the CASStore extension.
type c15flakyCAS struct{ c15flaky }

func (f c15flakyCAS) SetNX(k string, v any, ttl time.Duration) (bool, error) {
	if err := f.chk(); err != nil {
		f.w.Yield("outage.SetNX")
		return false, err
	}
	if l := f.loss; l != nil {
		lostReply, lostReq := l.fault(f.w, true)
		if lostReq {
			l.note(f.w, k, false)
			return false, errC15Lost
		}
		if lostReply {
			f.s.SetNX(k, v, ttl)
			l.note(f.w, k, true)
			return false, errC15Lost
		}
		if l.slowLeft > 0 && f.w.DrawChance(1, l.slowDen, "slow.claim") {
			l.slowLeft--
			l.mu.Lock()
			l.slow++
			l.mu.Unlock()
			f.w.Fault("store.slow-claim")
			if f.w.Draw(2, "slow.where") == 0 {
				f.w.Sleep(l.slowDur) // the request travels slowly
				return f.s.SetNX(k, v, ttl)
			}
			ok, err := f.s.SetNX(k, v, ttl)
			f.w.Sleep(l.slowDur) // the reply travels slowly
			return ok, err
		}
	}
	return f.s.SetNX(k, v, ttl)
}
func (f c15flakyCAS) CompareAndSwap(k string, o, n any, ttl time.Duration) (bool, error) {
	if err := f.chk(); err != nil {
		return false, err
	}
	return f.s.CompareAndSwap(k, o, n, ttl)
}

var _ types.Storage = c15flaky{}
var _ types.CASStore = c15flakyCAS{}

// c15flavours of the shared store as a node sees it.
var c15flavours = []string{"cas-memory", "tiered", "nocas", "cas-memory", "tiered-nocas-cache", "nocas", "tiered", "cas-redis"}

// c15cluster is the shared backend plus one storage view per node.
type c15cluster struct {
	w       *simrt.World
	flavour string
	backend types.Storage // the one shared store (real memory or real redis backend)
	redis   *simstore.Redis
	handles []*simstore.Store // per node: fault/yield wrapper onto the backend
	down    []*bool           // per node outage switch
	hics    []*c15hiccup      // per node single-operation hiccup (disarmed unless a mode arms it)
	dels    *c15delLog        // every Delete issued by any node, with call/return stamps
	loss    []*c15lossy       // per node lossy/slow connection (disarmed unless a mode arms it)
	views   []types.Storage   // per node: what the node's components are constructed with
	closers []func()
}

func c15NewCluster(w *simrt.World, flavour string, nodes int) *c15cluster {
	cl := &c15cluster{w: w, flavour: flavour, dels: &c15delLog{}}
	var root *simstore.Store
	if flavour == "cas-redis" {
		cl.redis = simstore.NewRedis(w)
		cl.backend = cl.redis.Storage
		root = simstore.New(w, "node0", cl.backend)
		root.Sync = cl.redis.Sync
		cl.closers = append(cl.closers, cl.redis.Close)
	} else {
		mem := simstore.NewMemory(w)
		cl.backend = mem
		root = simstore.New(w, "node0", mem)
		cl.closers = append(cl.closers, func() { mem.Close() })
	}
	for n := 0; n < nodes; n++ {
		h := root
		if n > 0 {
			h = root.Handle("node" + strconv.Itoa(n))
		}
		d := new(bool)
		cl.handles = append(cl.handles, h)
		cl.down = append(cl.down, d)
		hc := &c15hiccup{}
		cl.hics = append(cl.hics, hc)
		ls := &c15lossy{}
		cl.loss = append(cl.loss, ls)
		fl := c15flaky{w: w, s: h, down: d, hic: hc, node: n, dels: cl.dels, loss: ls}
		var view types.Storage
		switch flavour {
		case "cas-memory", "cas-redis":
			view = c15flakyCAS{fl}
		case "nocas":
			view = fl
		case "tiered", "tiered-nocas-cache":
			local := simstore.NewMemory(w)
			var shared types.CacheStorage = c15flakyCAS{fl}
			if flavour == "tiered-nocas-cache" {
				shared = fl
			}
			hy := hybrid.NewWithSharedCache(w.Ctx, local, shared, nil, nil)
			cl.closers = append(cl.closers, func() { hy.Close() })
			view = hy
		}
		cl.views = append(cl.views, view)
	}
	return cl
}

func (cl *c15cluster) sync() {
	if cl.redis != nil {
		cl.redis.Sync()
	}
}

func (cl *c15cluster) close() {
	for i := len(cl.closers) - 1; i >= 0; i-- {
		cl.closers[i]()
	}
}

// ---------------------------------------------------------------- idgen mode

var c15kinds = []string{"client", "node", "pmap", "user"}

// c15inst is one generator instance (an IDManager, or a set of directly
// constructed generators with a custom marker lifetime).
type c15inst struct {
	name       string
	node, inst int
	ttl        time.Duration // lifetime of the markers this instance writes; 0 = never expires
	gen        func(kind string) (string, error)
	rel        func(kind, id string) error
	uniq       func(kind string, check func(string) (bool, error)) (string, error) // nil: not offered
	close      func()
}

func c15FromManager(name string, nd, in int, st types.Storage, ctx context.Context) *c15inst {
	m := idgen.NewIDManager(st, ctx)
	i64 := func(id int64, err error) (string, error) {
		if err != nil {
			return "", err
		}
		return strconv.FormatInt(id, 10), nil
	}
	return &c15inst{name: name, node: nd, inst: in, ttl: idgen.DefaultIDTTL,
		gen: func(kind string) (string, error) {
			switch kind {
			case "client":
				return i64(m.GenerateClientID())
			case "node":
				return m.GenerateNodeID()
			case "pmap":
				return m.GeneratePortMappingID()
			default:
				return m.GenerateUserID()
			}
		},
		rel: func(kind, id string) error {
			switch kind {
			case "client":
				n, _ := strconv.ParseInt(id, 10, 64)
				return m.ReleaseClientID(n)
			case "node":
				return m.ReleaseNodeID(id)
			case "pmap":
				return m.ReleasePortMappingID(id)
			default:
				return m.ReleaseUserID(id)
			}
		},
		uniq: func(kind string, check func(string) (bool, error)) (string, error) {
			switch kind {
			case "client":
				return i64(m.GenerateUniqueClientID(func(n int64) (bool, error) { return check(strconv.FormatInt(n, 10)) }))
			case "node":
				return m.GenerateUniqueNodeID(check)
			case "pmap":
				return m.GenerateUniquePortMappingID(check)
			}
			return "", errC15NoUnique
		},
		close: func() { m.Close() },
	}
}

var errC15NoUnique = errors.New("c15: no GenerateUnique* for this kind")

func c15FromGenerators(name string, nd, in int, st types.Storage, ttl time.Duration, ctx context.Context) *c15inst {
	cg := idgen.NewStorageIDGeneratorWithTTL[int64](st, "", c15MarkerPrefix("client"), ttl, ctx)
	sg := map[string]*idgen.StorageIDGenerator[string]{
		"node": idgen.NewStorageIDGeneratorWithTTL[string](st, idgen.PrefixNodeID, c15MarkerPrefix("node"), ttl, ctx),
		"pmap": idgen.NewStorageIDGeneratorWithTTL[string](st, idgen.PrefixPortMappingID, c15MarkerPrefix("pmap"), ttl, ctx),
		"user": idgen.NewStorageIDGeneratorWithTTL[string](st, idgen.PrefixUserID, c15MarkerPrefix("user"), ttl, ctx),
	}
	return &c15inst{name: name, node: nd, inst: in, ttl: ttl,
		gen: func(kind string) (string, error) {
			if kind == "client" {
				n, err := cg.Generate()
				if err != nil {
					return "", err
				}
				return strconv.FormatInt(n, 10), nil
			}
			return sg[kind].Generate()
		},
		rel: func(kind, id string) error {
			if kind == "client" {
				n, _ := strconv.ParseInt(id, 10, 64)
				return cg.Release(n)
			}
			return sg[kind].Release(id)
		},
		close: func() {
			cg.Close()
			for _, k := range []string{"node", "pmap", "user"} {
				sg[k].Close()
			}
		},
	}
}

// c15MarkerPrefix / c15MarkerKey: the marker key named in the property
// (tunnox:id:used:<kind>:<id>).
func c15MarkerPrefix(kind string) string  { return "tunnox:id:used:" + kind }
func c15MarkerKey(kind, id string) string { return c15MarkerPrefix(kind) + ":" + id }

// c15gen is one successful generation (or a pre-existing marker) as the
// harness saw it.
type c15gen struct {
	kind, id            string
	inst                *c15inst
	task                string
	callStamp, retStamp int64
	callTime, retTime   time.Duration
	ttl                 time.Duration
	pre                 bool
	unique              bool
	checkErred          bool
}

type c15release struct {
	kind, id  string
	inst      *c15inst
	callStamp int64
	doneStamp int64 // stamp after Release returned (never, if the task was unwound by a crash)
}

// c15irel: GenerateUnique* released a candidate it had marked because the
// caller's check reported the id as taken (not a harness-level Release).
type c15irel struct {
	kind, id string
	inst     *c15inst
	stamp    int64
}

type c15op struct {
	typ  string // gen | rel | uniq | sleep
	kind string
	dur  time.Duration
}

var c15sleeps = []time.Duration{3*time.Second + 7*time.Millisecond, 61*time.Minute + 13*time.Millisecond, 31*24*time.Hour + 17*time.Millisecond}

func c15RunIDGen(w *simrt.World, tier string) {
	c := w.C
	flavour := c15flavours[c.Intn(len(c15flavours), "flavour")]
	if flavour == "cas-redis" && tier == "quick" && c.Intn(2, "redis.keep") == 0 {
		flavour = "cas-memory"
	}
	nodes := 1 + c.Intn(3, "nodes")
	perNode := 1 + c.Intn(2, "inst.per.node")
	direct := c.Intn(3, "direct.generators") == 2
	directTTL := []time.Duration{7 * time.Second, time.Hour, 0}[c.Intn(3, "direct.ttl")]
	poolN := 1 + c.Intn(8, "pool")
	nk := 1 + c.Intn(2, "nkinds")
	kbase := c.Intn(len(c15kinds), "kind.base")
	var kinds []string
	for i := 0; i < nk; i++ {
		kinds = append(kinds, c15kinds[(kbase+i)%len(c15kinds)])
	}
	ntasks := 2 + c.Intn(4, "ntasks")
	failDen := []int{0, 0, 6, 3}[c.Intn(4, "store.fail")]
	failNode := c.Intn(nodes, "store.fail.node")
	crashAt := 0
	if c.Intn(5, "crash") == 4 {
		crashAt = 1 + c.Intn(12, "crash.at")
	}
	crashNode := c.Intn(nodes, "crash.node")
	checkFailDen := []int{0, 0, 4}[c.Intn(3, "check.fail")]
	// one node's store connection loses replies (the store HAS processed the operation, e.g. a SetNX on a
	// colliding candidate that would have answered false) and/or answers up to three claims only after seconds
	lossyDen := []int{0, 0, 4}[c.Intn(3, "lossy")]
	slowClaims := c.Intn(3, "slow.claims") == 2
	slowDur := []time.Duration{3*time.Second + 77*time.Microsecond, 7*time.Second + 77*time.Microsecond}[c.Intn(2, "slow.dur")]
	lossyNode := c.Intn(nodes, "lossy.node")
	// swarm knob: every task works on ONE generator instance (intra-instance atomicity of check-and-mark,
	// whatever the topology); otherwise tasks are spread over the instances
	focusOne := c.Intn(4, "focus.one.instance") == 3

	w.SetCrashSentinel(simstore.Crash)
	cl := c15NewCluster(w, flavour, nodes)
	defer cl.close()

	// --- entropy pool, installed for the whole run
	rd := &c15reader{w: w, orig: cryptorand.Reader, force: 0}
	for i := 0; i < poolN; i++ {
		b := make([]byte, 64)
		c.Bytes(b, "pool.bytes")
		rd.pool = append(rd.pool, b)
	}
	cryptorand.Reader = rd
	defer func() { cryptorand.Reader = rd.orig }()

	// --- which id does each pool entry stand for (black box: ask a scratch manager on a scratch store)
	scratchStore := simstore.NewMemory(w)
	defer scratchStore.Close()
	scratch := c15FromManager("scratch", -1, -1, scratchStore, w.Ctx)
	defer scratch.close()
	cand := map[string][]string{} // kind -> distinct candidate ids in pool order
	for _, k := range kinds {
		seen := map[string]bool{}
		for i := 0; i < poolN; i++ {
			rd.force = i
			id, err := scratch.gen(k)
			if err != nil {
				w.Violationf("C15:setup:scratch-generation-failed", "kind %s pool entry %d: %v", k, i, err)
				return
			}
			scratch.rel(k, id)
			if !seen[id] {
				seen[id] = true
				cand[k] = append(cand[k], id)
			}
		}
	}
	setupReads := rd.Reads()

	// --- pre-existing state: live markers, markers that will have expired, ids taken in the "repository"
	var gens []*c15gen
	var rels []c15release
	taken := map[string]bool{} // kind/id held by a record the caller's check function knows about
	anyShort := false
	cl.sync()
	for _, k := range kinds {
		for _, id := range cand[k] {
			switch c.Intn(5, "pre") {
			case 1: // live marker, long lifetime
				ttl := []time.Duration{idgen.DefaultIDTTL, 2 * time.Hour}[c.Intn(2, "pre.ttl")]
				if err := cl.backend.Set(c15MarkerKey(k, id), "pre-existing", ttl); err != nil {
					w.Violationf("C15:setup:backend-set-failed", "%v", err)
					return
				}
				gens = append(gens, &c15gen{kind: k, id: id, pre: true, ttl: ttl, callTime: w.Now(), retTime: w.Now(), task: "pre"})
				w.Probe("pre.live-marker")
			case 2: // marker that is expired when the workload starts
				ttl := 5 * time.Second
				cl.backend.Set(c15MarkerKey(k, id), "pre-existing", ttl)
				gens = append(gens, &c15gen{kind: k, id: id, pre: true, ttl: ttl, callTime: w.Now(), retTime: w.Now(), task: "pre"})
				anyShort = true
				w.Probe("pre.expired-marker")
			case 3: // id taken by a stored record (no marker): only GenerateUnique* can know
				taken[k+"/"+id] = true
				w.Probe("pre.taken-record")
			}
		}
	}
	if anyShort {
		w.Sleep(11*time.Second + 3*time.Millisecond)
		cl.sync()
	}

	// --- generator instances
	var insts []*c15inst
	for n := 0; n < nodes; n++ {
		for i := 0; i < perNode; i++ {
			name := fmt.Sprintf("n%d.m%d", n, i)
			if direct {
				insts = append(insts, c15FromGenerators(name, n, i, cl.views[n], directTTL, w.Ctx))
			} else {
				insts = append(insts, c15FromManager(name, n, i, cl.views[n], w.Ctx))
			}
		}
	}
	defer func() {
		for _, in := range insts {
			in.close()
		}
	}()

	// --- plans
	type plan struct {
		inst *c15inst
		ops  []c15op
	}
	var plans []plan
	nUniq, nGen := 0, 0
	var sleepSum time.Duration
	for t := 0; t < ntasks; t++ {
		p := plan{inst: insts[c.Intn(len(insts), "task.inst")]}
		if focusOne {
			p.inst = insts[0]
		}
		nops := 1 + c.Intn(4, "nops")
		for j := 0; j < nops; j++ {
			o := c15op{typ: "gen", kind: kinds[c.Intn(len(kinds), "op.kind")]}
			switch c.Intn(10, "op.typ") {
			case 5, 6, 7:
				o.typ = "rel"
			case 8:
				if p.inst.uniq != nil && o.kind != "user" && nUniq < 2 {
					o.typ = "uniq"
					nUniq++
				}
			case 9:
				o.typ = "sleep"
				o.dur = c15sleeps[c.Intn(len(c15sleeps), "sleep.dur")]
				if flavour == "cas-redis" && o.dur > 2*time.Hour {
					o.dur = c15sleeps[1]
				}
				sleepSum += o.dur
			}
			if o.typ == "gen" || o.typ == "rel" {
				nGen++
			}
			p.ops = append(p.ops, o)
		}
		plans = append(plans, p)
	}

	// --- faults are armed only now (setup above is fault free)
	if failDen > 0 {
		cl.handles[failNode].FailNum, cl.handles[failNode].FailDen = 1, failDen
	}
	if crashAt > 0 {
		o, _ := cl.handles[crashNode].Ops()
		cl.handles[crashNode].CrashAt = o + crashAt
	}
	cl.loss[lossyNode].den = lossyDen
	if slowClaims {
		cl.loss[lossyNode].slowLeft, cl.loss[lossyNode].slowDen, cl.loss[lossyNode].slowDur = 3, 3, slowDur
	}
	rd.force = -1

	var mu sync.Mutex
	var irels []c15irel
	exhausted, failed, overlap := 0, 0, false
	type span struct {
		kind      string
		task      string
		call, ret int64
	}
	var spans []span
	var tasks []*simrt.Task
	for ti, p := range plans {
		ti, p := ti, p
		tname := fmt.Sprintf("t%d@%s", ti, p.inst.name)
		tasks = append(tasks, w.Spawn(tname, func() {
			type own struct {
				kind, id string
				since    time.Duration // instant the generation was invoked
				ttl      time.Duration // lifetime of the marker written for it; 0 = never expires
			}
			var mine []own
			for _, o := range p.ops {
				switch o.typ {
				case "sleep":
					w.Sleep(o.dur)
					continue
				case "rel":
					if len(mine) > 0 {
						x := mine[0]
						mine = mine[1:]
						w.Yield("c15.release")
						// Expiry of the marker counts as release of the id (see Assumptions): once the lifetime
						// may have elapsed this task no longer owns the id, the id may already belong to a new
						// holder, and a Release now would be a Release of somebody else's id. The workload
						// never issues that. (Simulated time cannot move between this test and the store
						// operation: this task stays runnable.)
						if x.ttl > 0 && w.Now() >= x.since+x.ttl {
							w.Probe("release.skipped-marker-lifetime-elapsed")
							continue
						}
						mu.Lock()
						rels = append(rels, c15release{kind: x.kind, id: x.id, inst: p.inst, callStamp: w.Stamp(), doneStamp: c15never})
						ri := len(rels) - 1
						mu.Unlock()
						err := p.inst.rel(x.kind, x.id)
						mu.Lock()
						rels[ri].doneStamp = w.Stamp()
						mu.Unlock()
						if err != nil {
							w.Probe("release.error")
						} else {
							w.Probe("release.ok")
						}
						continue
					}
					// nothing owned: generate instead
				}
				// one exhaustion per run is enough (each costs MaxAttempts rounds): afterwards no new generations are started
				mu.Lock()
				stop := exhausted > 0
				mu.Unlock()
				if stop {
					w.Probe("generate.skipped-after-exhaustion")
					continue
				}
				g := &c15gen{kind: o.kind, inst: p.inst, task: tname, ttl: p.inst.ttl}
				w.Yield("c15.invoke")
				g.callStamp, g.callTime = w.Stamp(), w.Now()
				var id string
				var err error
				if o.typ == "uniq" {
					g.unique = true
					id, err = p.inst.uniq(o.kind, func(x string) (bool, error) {
						if checkFailDen > 0 && w.DrawChance(1, checkFailDen, "check.error") {
							w.Fault("check.error")
							g.checkErred = true
							return false, errors.New("c15: repository lookup failed")
						}
						w.Yield("c15.check")
						if taken[o.kind+"/"+x] {
							// the manager will now release the candidate it has just marked
							mu.Lock()
							irels = append(irels, c15irel{kind: o.kind, id: x, inst: p.inst, stamp: w.Stamp()})
							mu.Unlock()
							return true, nil
						}
						return false, nil
					})
				} else {
					id, err = p.inst.gen(o.kind)
				}
				w.Yield("c15.return")
				g.retStamp, g.retTime = w.Stamp(), w.Now()
				mu.Lock()
				spans = append(spans, span{o.kind, tname, g.callStamp, g.retStamp})
				if err != nil {
					failed++
					if errors.Is(err, idgen.ErrIDExhausted) || strings.Contains(err.Error(), "exhaust") {
						exhausted++
						w.Probe("generate.exhausted")
					} else {
						w.Probe("generate.other-error")
					}
					if id != "" && id != "0" {
						w.Violationf("C15:clean-failure:id-returned-with-error", "Generate(%s) on %s returned id %q together with error %v", o.kind, p.inst.name, id, err)
					}
				} else {
					g.id = id
					gens = append(gens, g)
					mine = append(mine, own{o.kind, id, g.callTime, g.ttl})
					w.Probe("generate.ok." + o.kind)
				}
				mu.Unlock()
			}
		}))
	}

	// Termination: Generate consumes no simulated time, so after the planned
	// sleeps plus a margin every task must be finished (or unwound by a crash).
	// (a slow claim adds at most 3 x 7s per run, far inside the margin)
	w.Sleep(sleepSum + time.Hour + 29*time.Millisecond)
	for i, t := range tasks {
		if !t.Done() {
			w.Violationf("C15:termination:generate-did-not-return", "task %d (%s) still inside an id operation after all planned sleeps + 1h of simulated time", i, plans[i].inst.name)
			return
		}
	}
	workReads := rd.Reads() - setupReads
	bound := nGen*idgen.MaxAttempts + nUniq*idgen.MaxAttempts*idgen.MaxAttempts
	if workReads > bound {
		w.Violationf("C15:termination:more-attempts-than-configured", "%d entropy reads for %d Generate and %d GenerateUnique operations (bound %d)", workReads, nGen, nUniq, bound)
	}

	// --- oracle 1: no two live holders of one id
	sort.SliceStable(gens, func(i, j int) bool { return gens[i].retStamp < gens[j].retStamp })
	byID := map[string][]*c15gen{}
	var keys []string
	for _, g := range gens {
		k := g.kind + "/" + g.id
		if _, ok := byID[k]; !ok {
			keys = append(keys, k)
		}
		byID[k] = append(byID[k], g)
	}
	sort.Strings(keys)
	live := 0
	for _, k := range keys {
		l := byID[k]
		for i := 1; i < len(l); i++ {
			g1, g2 := l[i-1], l[i]
			released := false
			for _, r := range rels {
				if r.kind+"/"+r.id == k && r.callStamp > g1.retStamp && r.callStamp < g2.retStamp {
					released = true
				}
			}
			expired := g1.ttl > 0 && g2.retTime >= g1.callTime+g1.ttl
			// a claim whose answer travels slowly is processed by the store somewhere between invoke and
			// return: the later-returning generation may have marked FIRST and its marker may have lapsed
			// before the other one marked (conservative in the same way, with the roles swapped)
			if !g2.pre && g2.ttl > 0 && g1.retTime >= g2.callTime+g2.ttl {
				expired = true
			}
			if released {
				w.Probe("reissue.after-release")
				continue
			}
			if expired {
				w.Probe("reissue.after-marker-expiry")
				continue
			}
			hist := c15History(gens, rels, k)
			if g1.pre {
				w.Violationf("C15:preexisting:live-marker-id-handed-out:"+flavour,
					"%s was handed out by %s (task %s) at %v although its marker pre-existed (written at %v, lifetime %v) and was never released\n%s",
					k, g2.inst.name, g2.task, g2.retTime, g1.callTime, g1.ttl, hist)
			} else {
				relOfInst := func(a, b *c15inst) string {
					if a == b {
						return "same-instance"
					} else if a.node == b.node {
						return "cross-instance-same-node"
					}
					return "cross-node"
				}
				relOf := func(a, b *c15gen) string { return relOfInst(a.inst, b.inst) }
				rel := relOf(g1, g2)
				if rel == "same-instance" {
					// Root cause attribution: if g1 itself ran concurrently with a successful generation of the
					// same id on ANOTHER instance, both marked the id and that other holder's Release removed
					// g1's marker; the pair g1/g2 is the consequence of that cross-instance race, so it is
					// reported under the class of the race (the violation itself is unchanged).
					for _, g0 := range l {
						if g0 != g1 && g0 != g2 && !g0.pre && g0.inst != g1.inst && g0.callStamp < g1.retStamp && g1.callStamp < g0.retStamp {
							rel = relOf(g0, g1)
							hist = "(g1 overlapped a generation of the same id on " + g0.inst.name + "; its Release freed the shared marker)\n" + hist
							break
						}
					}
					// ... or another instance's GenerateUnique* marked the same candidate concurrently with g1
					// and then released "its" marker (which is also g1's) because the check said taken.
					// lateDel: a Delete of this id's marker issued at or after stamp s whose execution (the store is
					// instrumented at statement granularity) can have landed after g1 began
					lateDel := func(s int64) bool {
						cl.dels.mu.Lock()
						defer cl.dels.mu.Unlock()
						for _, d := range cl.dels.recs {
							if d.key == c15MarkerKey(g1.kind, g1.id) && d.start >= s && d.end > g1.callStamp && d.start < g2.retStamp {
								return true
							}
						}
						return false
					}
					// ... or the Release of an earlier holder on ANOTHER instance, invoked before g1 returned (so it
					// does not excuse the pair), was still in flight and removed g1's marker: that holder and an
					// even earlier one shared the id through the cross-instance race, and the stale delete by key
					// is its consequence.
					if rel == "same-instance" {
						for _, r := range rels {
							if r.kind+"/"+r.id == k && r.inst != g1.inst && r.callStamp < g2.retStamp && r.doneStamp > g1.callStamp && lateDel(r.callStamp) {
								rel = relOfInst(r.inst, g1.inst)
								hist = "(the Release invoked on " + r.inst.name + " at stamp " + strconv.FormatInt(r.callStamp, 10) + " was still in flight when g1 marked the id; its delete removed g1's marker)\n" + hist
								break
							}
						}
					}
					if rel == "same-instance" {
						for _, r := range irels {
							if r.kind+"/"+r.id == k && r.inst != g1.inst && r.stamp < g2.retStamp && (r.stamp > g1.callStamp || lateDel(r.stamp)) {
								rel = relOfInst(r.inst, g1.inst)
								hist = "(GenerateUnique on " + r.inst.name + " marked the same candidate concurrently with g1 and released the shared marker at stamp " + strconv.FormatInt(r.stamp, 10) + ")\n" + hist
								break
							}
						}
					}
				}
				w.Violationf("C15:duplicate:"+flavour+":"+rel,
					"%s returned to %s (task %s, stamps %d-%d) and again to %s (task %s, stamps %d-%d) with no Release in between and marker lifetime %v not elapsed\n%s",
					k, g1.inst.name, g1.task, g1.callStamp, g1.retStamp, g2.inst.name, g2.task, g2.callStamp, g2.retStamp, g1.ttl, hist)
			}
		}
		live++
	}

	// --- oracle 2: an id taken by a stored record is never handed out by GenerateUnique*
	for _, g := range gens {
		if g.unique && taken[g.kind+"/"+g.id] {
			cls := "check-answered"
			if g.checkErred {
				cls = "check-errored-fail-open"
			}
			w.Violationf("C15:taken:handed-out:"+cls,
				"GenerateUnique(%s) on %s returned %s which the caller's existence check reports as taken (check errored during this call: %v)", g.kind, g.inst.name, g.id, g.checkErred)
		}
		if g.unique {
			w.Probe("unique.ok")
		}
	}

	// --- coverage accounting
	for i := range spans {
		for j := range spans {
			if i != j && spans[i].task != spans[j].task && spans[i].kind == spans[j].kind && spans[i].call < spans[j].ret && spans[j].call < spans[i].ret {
				overlap = true
			}
		}
	}
	ops := len(spans)
	retries := workReads > ops
	if retries {
		w.Probe("collision.retry")
	}
	if overlap {
		w.Probe("generate.overlap")
	}
	if retries || overlap || exhausted > 0 {
		w.Nontrivial()
	}
	for n, h := range cl.handles {
		if h.Fenced() {
			w.Probe("node.crashed")
			_ = n
		}
	}
	if focusOne {
		w.Probe("topology.all-tasks-on-one-instance")
	}
	if cl.loss[lossyNode].slow > 0 {
		w.Probe("idgen.slow-claim-answered")
	}
	if len(cl.loss[lossyNode].errs) > 0 {
		w.Probe("idgen.claim-reply-lost")
	}
	w.State(fmt.Sprintf("idgen/%s/n%d/i%d/one=%v/direct=%v/pool%d/ids%d/exh=%v/ovl=%v/fail=%v/lossy=%v/slow=%v", flavour, nodes, perNode, focusOne, direct, poolN, len(keys), exhausted > 0, overlap, failed > exhausted, len(cl.loss[lossyNode].errs) > 0, cl.loss[lossyNode].slow > 0))
	w.Sample(fmt.Sprintf("idgen %s nodes=%d inst/node=%d direct=%v marker-ttl=%v pool=%d kinds=%v tasks=%d: %d ok, %d exhausted, %d other errors, %d releases, %d entropy reads",
		flavour, nodes, perNode, direct, insts[0].ttl, poolN, kinds, ntasks, len(gens), exhausted, failed-exhausted, len(rels), workReads))
}

func c15History(gens []*c15gen, rels []c15release, key string) string {
	type ev struct {
		s int64
		t string
	}
	var evs []ev
	for _, g := range gens {
		if g.kind+"/"+g.id != key {
			continue
		}
		if g.pre {
			evs = append(evs, ev{g.retStamp, fmt.Sprintf("  [pre] marker written at %v lifetime %v", g.callTime, g.ttl)})
		} else {
			evs = append(evs, ev{g.retStamp, fmt.Sprintf("  [%d-%d] %s Generate→%s (t=%v) by %s", g.callStamp, g.retStamp, g.inst.name, g.id, g.retTime, g.task)})
		}
	}
	for _, r := range rels {
		if r.kind+"/"+r.id == key {
			evs = append(evs, ev{r.callStamp, fmt.Sprintf("  [%d] Release(%s)", r.callStamp, r.id)})
		}
	}
	sort.SliceStable(evs, func(i, j int) bool { return evs[i].s < evs[j].s })
	var sb strings.Builder
	sb.WriteString("history of " + key + ":\n")
	for _, e := range evs {
		sb.WriteString(e.t + "\n")
	}
	return sb.String()
}

// ---------------------------------------------------------------- node allocator mode

type c15hold struct {
	id                  string
	holder              string
	nodeIdx             int
	callStamp, retStamp int64
	callTime, retTime   time.Duration
	endStamp            int64 // stamp taken before Release is invoked; max = never released
	foreign             bool
	expires             time.Duration // foreign: instant the slot's marker lapses
}

const c15never = int64(1) << 62

func c15RunNodeAlloc(w *simrt.World, tier string) {
	c := w.C
	flavour := []string{"cas-memory", "tiered", "nocas", "cas-memory"}[c.Intn(4, "flavour")]
	ncont := 2 + c.Intn(2, "contenders")
	prefill := []int{0, 1, 2, 3, node.NodeIDMax}[c.Intn(5, "prefill")]
	if prefill == node.NodeIDMax && c.Intn(3, "prefill.full.keep") != 0 {
		prefill = 2
	}
	crash := c.Intn(5, "crash") == 4
	crashNode := c.Intn(ncont, "crash.node")
	crashAfter := []time.Duration{1*time.Second + 1*time.Millisecond, 35*time.Second + 1*time.Millisecond, 70*time.Second + 1*time.Millisecond}[c.Intn(3, "crash.after")]
	outage := c.Intn(4, "outage") == 3
	outNode := c.Intn(ncont, "outage.node")
	outStart := []time.Duration{5*time.Second + 11*time.Millisecond, 40*time.Second + 11*time.Millisecond}[c.Intn(2, "outage.start")]
	outLen := []time.Duration{200*time.Second + 7*time.Millisecond, 20*time.Second + 7*time.Millisecond}[c.Intn(2, "outage.len")]

	// a single failed renewal (optionally a slow, timeout-like one) of one holder: shorter than any lease
	// design can be allowed to lose; exclusive with the long/short outage window
	hiccup := !outage && c.Intn(3, "hiccup") == 2
	hicNode := c.Intn(ncont, "hiccup.node")
	hicSkip := c.Intn(4, "hiccup.skip")
	hicHang := []time.Duration{20*time.Second + 9*time.Millisecond, 5*time.Second + 9*time.Millisecond, 0}[c.Intn(3, "hiccup.hang")]
	// a prober node that keeps asking for a slot (allocate, release at once) on a fine time grid, so that
	// even a short window in which a held slot is free is noticed; its instants carry a sub-millisecond
	// offset and therefore never coincide with a lease boundary
	prober := prefill < node.NodeIDMax && (hiccup || c.Intn(3, "prober") == 2)
	probeStart := []time.Duration{500 * time.Microsecond, 45*time.Second + 500*time.Microsecond, 95*time.Second + 500*time.Microsecond}[c.Intn(3, "prober.start")]
	probePeriod := []time.Duration{7*time.Second + time.Microsecond, 11*time.Second + time.Microsecond, 4*time.Second + time.Microsecond}[c.Intn(3, "prober.period")]
	probeCount := 10 + c.Intn(30, "prober.count")
	nnodes := ncont
	if prober {
		nnodes++
	}

	// one node's connection loses claim requests/replies (a reply lost after the store processed the claim
	// includes a SetNX on an OCCUPIED slot) and/or answers up to two claims only after seconds
	lossy := c.Intn(3, "lossy") == 2
	slowClaims := c.Intn(3, "slow.claims") == 2
	slowDur := []time.Duration{3*time.Second + 77*time.Microsecond, 5*time.Second + 77*time.Microsecond}[c.Intn(2, "slow.dur")]
	lossyNode := c.Intn(nnodes, "lossy.node")

	w.SetCrashSentinel(simstore.Crash)
	cl := c15NewCluster(w, flavour, nnodes)
	defer cl.close()
	if lossy {
		cl.loss[lossyNode].den, cl.loss[lossyNode].reqLoss = 3, true
	}
	if slowClaims {
		cl.loss[lossyNode].slowLeft, cl.loss[lossyNode].slowDen, cl.loss[lossyNode].slowDur = 2, 2, slowDur
	}
	if hiccup {
		*cl.hics[hicNode] = c15hiccup{armed: true, skip: hicSkip, hang: hicHang}
	}

	var holds []*c15hold
	// slots occupied by foreign holders (written straight into the shared store)
	for i := 1; i <= prefill; i++ {
		id := fmt.Sprintf("node-%04d", i)
		ttl := time.Hour
		if prefill < node.NodeIDMax || i <= 2 {
			ttl = []time.Duration{time.Hour, 20 * time.Second, time.Hour}[c.Intn(3, "prefill.ttl")]
		}
		if err := cl.backend.Set(node.NodeIDKeyPrefix+id, id, ttl); err != nil {
			w.Violationf("C15:setup:backend-set-failed", "%v", err)
			return
		}
		holds = append(holds, &c15hold{id: id, holder: "foreign", nodeIdx: -1, foreign: true, endStamp: c15never, expires: w.Now() + ttl})
	}
	if prefill == node.NodeIDMax {
		w.Probe("alloc.all-slots-occupied")
	}

	type cyc struct {
		start time.Duration
		hold  time.Duration
	}
	plans := make([][]cyc, ncont)
	var total time.Duration
	for i := range plans {
		n := 1 + c.Intn(2, "cycles")
		var sum time.Duration
		for j := 0; j < n; j++ {
			cy := cyc{
				start: []time.Duration{0, 3*time.Second + 5*time.Millisecond, 50*time.Second + 5*time.Millisecond, 150*time.Second + 5*time.Millisecond}[c.Intn(4, "cycle.start")],
				hold:  []time.Duration{0, 1*time.Second + 3*time.Millisecond, 47*time.Second + 3*time.Millisecond, 130*time.Second + 3*time.Millisecond, 260*time.Second + 3*time.Millisecond}[c.Intn(5, "cycle.hold")],
			}
			sum += cy.start + cy.hold
			plans[i] = append(plans[i], cy)
		}
		if sum > total {
			total = sum
		}
	}

	var mu sync.Mutex
	var crashStamp int64 = c15never
	var outFrom, outTo time.Duration
	failedAlloc := 0
	var tasks []*simrt.Task
	for i := 0; i < ncont; i++ {
		i := i
		name := fmt.Sprintf("node%d", i)
		tasks = append(tasks, w.Spawn("alloc@"+name, func() {
			for _, cy := range plans[i] {
				w.Sleep(cy.start)
				a := node.NewNodeIDAllocator(cl.views[i])
				ctx, cancel := context.WithCancel(w.Ctx)
				w.Yield("c15.alloc.invoke")
				h := &c15hold{holder: name, nodeIdx: i, endStamp: c15never}
				h.callStamp, h.callTime = w.Stamp(), w.Now()
				id, err := a.AllocateNodeID(ctx)
				w.Yield("c15.alloc.return")
				h.retStamp, h.retTime = w.Stamp(), w.Now()
				if err != nil {
					mu.Lock()
					failedAlloc++
					mu.Unlock()
					w.Probe("alloc.failed")
					if id != "" {
						w.Violationf("C15:clean-failure:id-returned-with-error", "AllocateNodeID returned %q with error %v", id, err)
					}
					cancel()
					continue
				}
				h.id = id
				mu.Lock()
				holds = append(holds, h)
				mu.Unlock()
				w.Probe("alloc.ok")
				w.Sleep(cy.hold)
				w.Yield("c15.alloc.release")
				mu.Lock()
				h.endStamp = w.Stamp()
				mu.Unlock()
				if err := a.Release(); err != nil {
					w.Probe("alloc.release-error")
				}
				cancel()
			}
		}))
	}
	if prober {
		span := probeStart + time.Duration(probeCount)*probePeriod
		if span > total {
			total = span
		}
		tasks = append(tasks, w.Spawn("alloc@prober", func() {
			w.Sleep(probeStart)
			for k := 0; k < probeCount; k++ {
				a := node.NewNodeIDAllocator(cl.views[ncont])
				ctx, cancel := context.WithCancel(w.Ctx)
				w.Yield("c15.probe.invoke")
				h := &c15hold{holder: "prober", nodeIdx: ncont, endStamp: c15never}
				h.callStamp, h.callTime = w.Stamp(), w.Now()
				id, err := a.AllocateNodeID(ctx)
				w.Yield("c15.probe.return")
				h.retStamp, h.retTime = w.Stamp(), w.Now()
				if err != nil {
					mu.Lock()
					failedAlloc++
					mu.Unlock()
					w.Probe("alloc.failed")
				} else {
					h.id = id
					mu.Lock()
					holds = append(holds, h)
					h.endStamp = w.Stamp()
					mu.Unlock()
					w.Probe("alloc.probe-ok")
					if err := a.Release(); err != nil {
						w.Probe("alloc.release-error")
					}
				}
				cancel()
				w.Sleep(probePeriod)
			}
		}))
	}
	if crash {
		w.Spawn("killer", func() {
			w.Sleep(crashAfter)
			cl.handles[crashNode].Fence()
			mu.Lock()
			crashStamp = w.Stamp()
			mu.Unlock()
			w.Fault("node.crash")
		})
	}
	if outage {
		w.Spawn("outage", func() {
			w.Sleep(outStart)
			*cl.down[outNode] = true
			outFrom = w.Now()
			w.Fault("store.outage")
			w.Sleep(outLen)
			*cl.down[outNode] = false
			outTo = w.Now()
		})
	}
	w.Sleep(total + outStart + outLen + 10*time.Minute + 31*time.Millisecond)
	for i, t := range tasks {
		if !t.Done() {
			w.Violationf("C15:termination:allocate-did-not-return", "contender %d still inside allocate/hold/release after its planned time + 10 min", i)
			return
		}
	}

	// --- oracle: a slot has at most one holder at a time
	sort.SliceStable(holds, func(i, j int) bool { return holds[i].retStamp < holds[j].retStamp })
	overlapSeen, contended := false, false
	party := map[*c15hold]string{} // hold -> class of the first duplicate it took part in
	for j, h2 := range holds {
		if h2.foreign {
			continue
		}
		for _, h1 := range holds[:j] {
			if h1.id != h2.id {
				continue
			}
			contended = true
			if h1.foreign {
				if h2.retTime < h1.expires {
					w.Violationf("C15:node-alloc:occupied-slot-handed-out:"+flavour,
						"%s allocated %s at %v while a foreign holder's claim on it runs until %v", h2.holder, h2.id, h2.retTime, h1.expires)
				} else {
					w.Probe("alloc.reuse-after-foreign-lapse")
				}
				continue
			}
			if h2.retStamp > h1.endStamp {
				w.Probe("alloc.reuse-after-release")
				continue
			}
			// h1 had not started releasing when h2 returned with the same slot
			if crash && h1.nodeIdx == crashNode && crashStamp < h2.retStamp && h2.retTime >= h1.callTime+node.NodeIDLockTTL {
				w.Probe("alloc.reuse-after-crash")
				continue
			}
			overlapSeen = true
			cls := "duplicate:" + flavour
			note := ""
			if outage && h1.nodeIdx == outNode && outLen > 60*time.Second && outFrom > 0 && outFrom < h2.retTime {
				cls = "duplicate-after-lease-lapse:" + flavour
			}
			// h2 was given the slot by the very AllocateNodeID call in which its claim on this slot had
			// returned a transport error: an errored claim was taken for a successful one
			claimErred := false
			if h2.nodeIdx >= 0 && h2.nodeIdx < len(cl.loss) {
				l := cl.loss[h2.nodeIdx]
				l.mu.Lock()
				for _, e := range l.errs {
					if e.key == node.NodeIDKeyPrefix+h1.id && e.stamp > h2.callStamp && e.stamp < h2.retStamp {
						claimErred = true
					}
				}
				l.mu.Unlock()
			}
			// Did somebody else's Delete of this slot's key possibly land after h1 began to allocate? h1 has not
			// started releasing, so any such Delete belongs to an earlier holder of the slot whose Release
			// (an unconditional delete by key) was still in flight: h1's claim was wiped by a party of an
			// earlier double holding, whatever else happened to h1 afterwards.
			slotKey := node.NodeIDKeyPrefix + h1.id
			var stale *c15del
			cl.dels.mu.Lock()
			for i := range cl.dels.recs {
				d := &cl.dels.recs[i]
				if d.key == slotKey && d.end > h1.callStamp && d.start < h2.retStamp {
					stale = d
					break
				}
			}
			cl.dels.mu.Unlock()
			hc := cl.hics[0]
			if hiccup {
				hc = cl.hics[hicNode]
			}
			if claimErred {
				cls = "occupied-slot-taken-after-claim-error:" + flavour
				note = " [" + h2.holder + "'s claim on this slot returned a transport error during this very allocation, yet the allocation returned the slot]"
			} else if cls != "duplicate:"+flavour {
				// already explained by the holder's own long outage (lease lapse)
			} else if stale != nil {
				// class of the double holding the deleting node took part in
				root := "duplicate:" + flavour
				if outage && stale.node == outNode && outLen > 60*time.Second {
					root = "duplicate-after-lease-lapse:" + flavour
				}
				for _, h0 := range holds {
					if c0, ok := party[h0]; ok && h0.id == h1.id && h0.nodeIdx == stale.node {
						root = c0
					}
				}
				cls = root
				note = fmt.Sprintf(" [consequence: a Delete of this slot's key issued by node%d (stamps %d-%d, the Release of an earlier holder) can have landed after %s began to allocate]", stale.node, stale.start, stale.end, h1.holder)
			} else if hiccup && h1.nodeIdx == hicNode && hc.fired && hc.firedStamp > h1.retStamp && hc.firedStamp < h2.retStamp &&
				hc.key == slotKey && hc.keyPresent && !(h1.callStamp < h2.retStamp && h2.callStamp < h1.retStamp) {
				// the holder lost its slot although its claim was still in the shared store when ONE of its
				// renewals failed, nobody else deleted the key, and the two allocations did not race
				cls = "duplicate-after-single-failed-renewal:" + flavour
				note = fmt.Sprintf(" [one renewal of %s failed at t=%v after blocking %v while its claim was still present in the store; no other node deleted the key; nothing else was wrong with its store connection]", h1.holder, hc.firedAt, hicHang)
			}
			// Root cause attribution: once two holders share a slot, each one's Release (an unconditional
			// Delete) and heartbeat (an unconditional Set) act on the other's key, so a later overlap that
			// involves one of those holders is a consequence of the first duplicate on that slot and is
			// reported under that duplicate's class (the violation itself is unchanged).
			if root, ok := party[h1]; ok {
				cls, note = root, note+" [consequence: "+h1.holder+" already shared this slot in an earlier duplicate; the other holder's Release freed the key]"
			} else if root, ok := party[h2]; ok {
				cls, note = root, " [consequence: "+h2.holder+" already shared this slot in an earlier duplicate]"
			}
			party[h1], party[h2] = cls, cls
			w.Violationf("C15:node-alloc:"+cls,
				"%s holds %s (allocated stamps %d-%d, t=%v, release stamp %d) and %s was given the same slot (stamps %d-%d, t=%v); crash=%v@%d outage=%v node%d [%v..%v]%s",
				h1.holder, h1.id, h1.callStamp, h1.retStamp, h1.retTime, h1.endStamp, h2.holder, h2.callStamp, h2.retStamp, h2.retTime, crash, crashStamp, outage, outNode, outFrom, outTo, note)
		}
	}
	// concurrent allocations?
	conc := false
	for i, a := range holds {
		for j, b := range holds {
			if i != j && !a.foreign && !b.foreign && a.holder != b.holder && a.callStamp < b.retStamp && b.callStamp < a.retStamp {
				conc = true
			}
		}
	}
	if conc {
		w.Probe("alloc.overlapping-allocations")
	}
	if conc || contended || failedAlloc > 0 {
		w.Nontrivial()
	}
	if hiccup && cl.hics[hicNode].fired {
		w.Probe("alloc.single-renewal-failed")
	}
	if len(cl.loss[lossyNode].errs) > 0 {
		w.Probe("alloc.claim-errored")
	}
	if cl.loss[lossyNode].slow > 0 {
		w.Probe("alloc.slow-claim-answered")
	}
	w.State(fmt.Sprintf("alloc/%s/c%d/pre%d/crash=%v/out=%v/hic=%v/probe=%v/lossy=%v/slow=%v/conc=%v/cont=%v/fail=%v/dup=%v", flavour, ncont, prefill, crash, outage, hiccup && cl.hics[hicNode].fired, prober, len(cl.loss[lossyNode].errs) > 0, cl.loss[lossyNode].slow > 0, conc, contended, failedAlloc > 0, overlapSeen))
	w.Sample(fmt.Sprintf("nodealloc %s contenders=%d prefilled=%d crash=%v outage=%v(%v) hiccup=%v(skip %d, hang %v) prober=%v(every %v x%d): %d holds, %d failed allocations", flavour, ncont, prefill, crash, outage, outLen, hiccup, hicSkip, hicHang, prober, probePeriod, probeCount, len(holds)-min(prefill, len(holds)), failedAlloc))
}

// ---------------------------------------------------------------- uuid smoke mode

func c15RunUUID(w *simrt.World, tier string) {
	c := w.C
	mem := simstore.NewMemory(w)
	defer mem.Close()
	nm := 1 + c.Intn(2, "managers")
	var ms []*idgen.IDManager
	for i := 0; i < nm; i++ {
		ms = append(ms, idgen.NewIDManager(mem, w.Ctx))
	}
	defer func() {
		for _, m := range ms {
			m.Close()
		}
	}()
	nt := 2 + c.Intn(3, "ntasks")
	per := 5 + c.Intn(20, "per")
	var mu sync.Mutex
	seen := map[string]int{}
	var tasks []*simrt.Task
	for t := 0; t < nt; t++ {
		m := ms[t%nm]
		tasks = append(tasks, w.Spawn(fmt.Sprintf("uuid%d", t), func() {
			for i := 0; i < per; i++ {
				w.Yield("c15.uuid")
				for _, f := range []func() (string, error){m.GenerateConnectionID, m.GenerateTunnelID, m.GeneratePortMappingInstanceID} {
					id, err := f()
					if err != nil {
						w.Probe("uuid.error")
						continue
					}
					mu.Lock()
					seen[id]++
					n := seen[id]
					mu.Unlock()
					if n > 1 {
						w.Violationf("C15:uuid:repeat-under-full-entropy", "id %s generated %d times in one run under the full-entropy reader", id, n)
					}
				}
			}
		}))
	}
	for _, t := range tasks {
		t.Wait()
	}
	w.Probe("mode.uuid-smoke")
	w.State(fmt.Sprintf("uuid/m%d/t%d", nm, nt))
	w.Sample(fmt.Sprintf("uuid smoke: %d managers, %d tasks x %d x 3 kinds, %d ids, no repeat", nm, nt, per, len(seen)))
}

func c15Run(w *simrt.World, tier string) {
	switch m := w.C.Intn(16, "mode"); {
	case m <= 9:
		w.Probe("mode.idgen")
		c15RunIDGen(w, tier)
	case m <= 14:
		w.Probe("mode.nodealloc")
		c15RunNodeAlloc(w, tier)
	default:
		c15RunUUID(w, tier)
	}
}

func init() {
	Register(&Scenario{
		ID:    "C15",
		Level: "exploration",
		Rule: "each run draws a mode. (idgen, 10/16) a shared store flavour (CAS memory / CAS redis / tiered hybrid with id keys on the shared cache / tiered with a shared cache lacking SetNX / store lacking CASStore), 1-3 nodes x 1-2 generator instances (IDManager, or StorageIDGenerator with marker lifetime 7s/1h/never), " +
			"an entropy pool of 1-8 values that replaces crypto/rand.Reader for the run (pool index drawn from the choice stream at every Read), 1-2 id kinds, per candidate id a pre-existing state (none / live marker / marker already expired / taken by a stored record), " +
			"2-5 tasks (spread over the instances, or in 1/4 of the runs all on one instance) with 1-4 operations each (Generate, Release of an id the task owns, GenerateUnique* with a check function that may fail, sleeps of 3s/61min/31d), store errors on one node (p=0,1/6,1/3; the request never reaches the store), replies lost AFTER the store processed a SetNX/Set/Delete on one node (p=0,1/4; includes a SetNX on a colliding candidate), up to three claim (SetNX) answers that take 3s/7s (slow request or slow reply), and a node crash before its k-th store operation; tasks are interleaved at statement granularity. " +
			"(nodealloc, 5/16) 2-3 NodeIDAllocator contenders with 1-2 allocate/hold/release cycles (holds 0s..260s so heartbeat renewals and lease lapses occur), 0-3 or all 1000 slots pre-occupied with 20s/1h claims, a node crash, a 20s or 200s store outage of one holder, or a single failing Set (the k-th, k=1..4, blocking 0/5/20s like a timeout) on one holder's store connection, claim requests/replies lost on one node's connection (p=1/3 per SetNX/Delete, reply loss also per Set; a lost reply includes a SetNX on an occupied slot), up to two claim answers that take 3s/5s, and a prober node that allocates+releases every 4/7/11s (sub-millisecond offset) for 10-39 rounds so that short free windows of a held slot are seen. " +
			"(uuid, 1/16) connection/tunnel/mapping-instance ids under the untouched full-entropy reader. " +
			"Non-trivial: (idgen) at least one candidate collided and was retried, or generation ended in exhaustion, or two Generate calls for one kind overlapped; (nodealloc) two allocations overlapped, or two holders (incl. foreign) met on one slot, or an allocation failed. Distinct = distinct abstract state key (flavour, topology, pool size, outcome classes) and schedule hash.",
		Real: []string{"internal/core/idgen StorageIDGenerator.Generate/Release/tryMarkAsUsed, IDManager incl. GenerateUnique*", "internal/core/idgen UUIDGenerator", "internal/core/node NodeIDAllocator (allocate, heartbeat, release)",
			"internal/utils/random (Bytes/String/Int64 over crypto/rand.Read)", "internal/core/storage/hybrid (SetNX, SetNXRuntime, SetRuntime, Delete, Exists routing by prefix)", "internal/core/storage/memory", "internal/core/storage/redis over go-redis + miniredis"},
		Stub: []string{"crypto/rand.Reader: pool-backed reader for the run (restored at the end of Run); google/uuid keeps its own full-entropy reader", "per-node connection to the shared store: simstore handle + outage switch", "store lacking CASStore / cache lacking SetNX: interface-narrowing wrappers over the real memory backend", "caller's existence check for GenerateUnique*: a harness set"},
		Assumptions: []string{"expiry of a marker (its configured lifetime elapsed) counts as release of the id; instants exactly on an expiry are never generated (odd millisecond offsets)",
			"a Release whose invocation started before a later Generate returned may have freed the id (conservative)",
			"a holder whose marker lifetime may have elapsed no longer owns the id and never calls Release for it (Release is an unconditional delete by key: a stale Release after expiry and re-issue frees the new holder's id; not generated)",
			"pre-existing markers use the key layout named in the property (tunnox:id:used:<kind>:<id>); pre-occupied node slots use node.NodeIDKeyPrefix + node-%04d",
			"a crashed node keeps its ids forever (idgen) / its slot until callTime+NodeIDLockTTL at least (nodealloc)",
			"low entropy is applied only to store-backed generators; UUID-based ids are excluded from the collision-amplified oracle"},
		Opt: func(tier string) simrt.Options { return simrt.Options{MaxSteps: 800000} },
		Run: c15Run,
	})
}
