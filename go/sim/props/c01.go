package props

import (
	"bytes"
	"errors"
	"fmt"
	"io"
	"strings"
	"time"

	"github.com/gorilla/websocket"

	"tunnox-core/internal/client/transport"
	"tunnox-core/internal/packet"
	"tunnox-core/internal/protocol/adapter"
	"tunnox-core/internal/stream"
	"tunnox-core/verifsim/simnet"
	"tunnox-core/verifsim/simrt"
	"tunnox-core/verifsim/simws"
)

// C01 — packet framing round-trips however the transport chunks the bytes.
//
// World: real StreamProcessor.WritePacket on one end of a simnet link, real
// StreamProcessor.ReadPacket on the other; writer and reader are separate
// tasks, optionally with a concurrent keep-alive writer on the same processor. The link is the fault: its segmentation law, buffer capacity and
// (message vs stream) contract are drawn per run.

type c01sent struct {
	p     c01pkt
	bytes int
}

type c01pkt struct {
	typ      packet.Type
	compress bool
	rate     int64 // rateLimitBytesPerSecond argument of WritePacket (0 = unlimited)
	payload  []byte
	cmd      *packet.CommandPacket
}

func (p c01pkt) String() string {
	if p.cmd != nil {
		return fmt.Sprintf("{t=%#x z=%v cmd body=%dB}", byte(p.typ), p.compress, len(p.cmd.CommandBody))
	}
	return fmt.Sprintf("{t=%#x z=%v len=%d}", byte(p.typ), p.compress, len(p.payload))
}

var c01BaseTypes = []packet.Type{
	packet.TunnelData, packet.Handshake, packet.HandshakeResp, packet.Heartbeat, packet.JsonCommand,
	packet.CommandResp, packet.TunnelOpen, packet.TunnelOpenAck, packet.TunnelClose, packet.DataStreamEOF,
}

func c01Size(c *simrt.Choice, tier string) int {
	switch c.Intn(12, "size.class") {
	case 0:
		return 1 + c.Intn(5, "size")
	case 1:
		return 0
	case 2:
		return 1
	case 3:
		return 6 + c.Intn(250, "size")
	case 4:
		return 4096 - 3 + c.Intn(7, "size")
	case 5:
		return 32768 - 3 + c.Intn(7, "size")
	case 6:
		return 65536 - 3 + c.Intn(7, "size")
	case 7:
		return 256 + c.Intn(8192, "size")
	case 8:
		return 1<<20 - 2 + c.Intn(5, "size")
	case 9:
		// the maximum body size (costly: a sixth of this class in thorough, a twelfth in quick)
		if d := c.Intn(12, "size.max"); d == 11 || (tier == "thorough" && d >= 10) {
			return 16*1024*1024 - c.Intn(2, "size")
		}
		return 100000 + c.Intn(200000, "size")
	default:
		return c.Intn(64, "size")
	}
}

func c01Fill(c *simrt.Choice, n int) []byte {
	b := make([]byte, n)
	if n == 0 {
		return b
	}
	switch c.Intn(3, "fill") {
	case 0: // position stamped, compressible
		for i := range b {
			b[i] = byte(i*7 + i>>8)
		}
	case 1: // incompressible
		c.Bytes(b, "fill.seed")
	default: // highly compressible
		v := byte(c.Intn(256, "fill.byte"))
		for i := range b {
			b[i] = v
		}
	}
	return b
}

func init() {
	Register(&Scenario{
		ID:    "C01",
		Level: "exploration",
		Rule: "each run draws a packet sequence (1-12 packets over all base types, compression flag, body sizes biased to 0,1,2..5, pool/32K/64K/1M boundaries, max body in thorough) and a transport " +
			"(stream or message contract, segmentation law: all/1-byte/1-7/MTU/cut-set around header offsets/mixed, bounded or unbounded buffer); writer and reader tasks are interleaved by the scheduler; in a third of the runs a keep-alive task writes heartbeats on the same processor concurrently (oracle: decoded sequence is a merge of both writers), a fifth of the small bodies take the rate-limited chunked write path, half of the runs carry reverse traffic. " +
			"A run is non-trivial when at least one Read returned fewer bytes than requested inside a packet header or body (a cut actually happened) or several packets were coalesced into one buffer; distinct = distinct (schedule hash) among those.",
		Real: []string{"internal/stream StreamProcessor.WritePacket/ReadPacket", "internal/stream/compression", "internal/stream rate limiter (token bucket)", "internal/utils buffer pool", "internal/packet",
			"internal/protocol/adapter wsServerConn/wsClientConn and internal/client/transport WebSocketStreamConn over a real gorilla/websocket pair (a sixth of the runs; peer frames natively or re-frames the byte stream into messages that split headers/coalesce packets)"},
		Stub: []string{"byte transport underneath: simnet link implementing the TCP/QUIC/KCP stream contract, or (without gorilla) the message contract of the WebSocket wrappers"},
		Assumptions: []string{"transports deliver every byte in order (loss belongs to C05's truncation clause)", "JsonCommand/CommandResp packets carry a CommandPacket; other types carry a Payload"},
		Opt: func(tier string) simrt.Options {
			return simrt.Options{MaxSteps: 3000000}
		},
		Run: c01Run,
	})
}

func c01Run(w *simrt.World, tier string) {
	c := w.C
	cfg := simnet.LinkConfig{NameA: "wr", NameB: "rd"}
	cfg.Message = c.Intn(4, "net.message") == 3
	cfg.LawAB = simnet.Law(c.Intn(6, "net.law"))
	cfg.Capacity = []int{0, 1 << 16, 4096, 64, 7}[c.Intn(5, "net.cap")]
	if cfg.Message {
		cfg.Capacity = 0
	}
	n := 1 + c.Biased(12, "npkts")
	var pkts []c01pkt
	total := 0
	for i := 0; i < n; i++ {
		var p c01pkt
		p.typ = c01BaseTypes[c.Intn(len(c01BaseTypes), "ptype")]
		p.compress = c.Intn(3, "compress") == 2
		if p.typ == packet.JsonCommand || p.typ == packet.CommandResp {
			sz := c01Size(c, "quick")
			if sz > 300000 {
				sz = 300000
			}
			body := c01Fill(c, sz)
			for j := range body {
				body[j] = "abc{}\"\\\n xyz0123é"[int(body[j])%18]
			}
			p.cmd = &packet.CommandPacket{CommandType: packet.CommandType(c.Intn(256, "cmdtype")), CommandId: fmt.Sprintf("id-%d", i),
				Token: strings.Repeat("t", c.Intn(4, "tok")), SenderId: "s", ReceiverId: "r", CommandBody: string(bytes.ToValidUTF8(body, []byte("?")))}
			total += sz
		} else if p.typ != packet.Heartbeat {
			sz := c01Size(c, tier)
			if total+sz > 32<<20 {
				sz = 16
			}
			p.payload = c01Fill(c, sz)
			total += sz
			if sz <= 64<<10 && c.Intn(5, "ratelimit") == 4 {
				// the rate-limited body path: chunked writes with token waits in between
				p.rate = []int64{1 << 20, 64 << 10, 4096}[c.Intn(3, "ratelimit.bps")]
			}
		}
		pkts = append(pkts, p)
	}
	// a sixth of the runs: the REAL WebSocket connection wrappers over a real gorilla/websocket pair
	if total <= 2<<20 && c.Intn(6, "net.ws") == 5 {
		c01RunWS(w, cfg, pkts)
		return
	}
	// 1-byte and tiny laws only for modest totals
	if total > 256<<10 && (cfg.LawAB == simnet.LawOne || cfg.LawAB == simnet.LawSmall || cfg.Capacity == 7 || cfg.Capacity == 64) {
		cfg.LawAB = simnet.LawMixed
		if cfg.Capacity > 0 && cfg.Capacity < 4096 {
			cfg.Capacity = 4096
		}
	}
	if total > 4<<20 && cfg.LawAB == simnet.LawMixed {
		cfg.LawAB = simnet.LawMTU
	}
	if cfg.LawAB == simnet.LawCuts {
		// cuts biased to land inside headers: offsets 1..5 of the stream and a few random ones
		k := 1 + c.Intn(6, "cuts.n")
		for i := 0; i < k; i++ {
			var off int64
			if c.Intn(2, "cuts.kind") == 0 {
				off = int64(1 + c.Intn(6, "cuts.hdr"))
			} else {
				off = int64(1 + c.Intn(total+5*n+1, "cuts.any"))
			}
			cfg.CutsAB = append(cfg.CutsAB, off)
		}
		sortInt64(cfg.CutsAB)
	}
	var desc []string
	for _, p := range pkts {
		desc = append(desc, p.String())
	}
	w.Sample(fmt.Sprintf("transport=%s law=%s cap=%d cuts=%v packets=%s", map[bool]string{false: "stream", true: "message"}[cfg.Message],
		simnet.LawNames[cfg.LawAB], cfg.Capacity, cfg.CutsAB, strings.Join(desc, " ")))
	w.State(fmt.Sprintf("%v/%s/cap%d", cfg.Message, simnet.LawNames[cfg.LawAB], cfg.Capacity))

	// reverse traffic (half of the runs): both ends are full-duplex processors, as in the product, so
	// the read path of one direction interleaves with the write path of the other on the same processor
	var rev []c01pkt
	if c.Intn(2, "duplex") == 1 {
		cfg.LawBA = simnet.Law(c.Intn(6, "net.law.rev"))
		nr := 1 + c.Intn(5, "npkts.rev")
		for i := 0; i < nr; i++ {
			var p c01pkt
			p.typ = []packet.Type{packet.TunnelData, packet.Heartbeat, packet.HandshakeResp, packet.TunnelOpenAck}[c.Intn(4, "ptype.rev")]
			if p.typ != packet.Heartbeat {
				p.payload = c01Fill(c, []int{300, 1, 0, 70000, 255, 256, 65536, 4093}[c.Intn(8, "size.rev")])
			}
			rev = append(rev, p)
		}
		w.Probe("duplex")
	}
	// keep-alive writer (a third of the runs): a second task writes heartbeats on the SAME processor
	// while the packet writer is at work, as the product's keep-alive loops do; packets of the two
	// writers may interleave but never inside one another
	ka := 0
	if c.Intn(3, "keepalive") == 2 {
		ka = 1 + c.Intn(4, "keepalive.n")
		w.Probe("keepalive")
	}
	a, b := simnet.NewLink(w, cfg)
	spA := stream.NewStreamProcessor(a, a, w.Ctx)
	spB := stream.NewStreamProcessor(b, b, w.Ctx)
	fw := c01StartDirection(w, "fwd", spA, spB, a, b, pkts, ka)
	var bw *c01dir
	if len(rev) > 0 {
		bw = c01StartDirection(w, "rev", spB, spA, b, a, rev, 0)
	}
	fw.wait()
	if bw != nil {
		bw.wait()
	}
	// non-triviality: a cut really happened or packets coalesced
	if b.Reads() > len(fw.accepted) || (len(fw.accepted) > 1 && b.Reads() < 3*len(fw.accepted)) {
		w.Nontrivial()
	}
	if b.Reads() > 3*len(fw.accepted) {
		w.Probe("read.split_inside_packet")
	}
	w.Probe("law." + simnet.LawNames[cfg.LawAB])
	if cfg.Message {
		w.Probe("transport.message")
	} else {
		w.Probe("transport.stream")
	}
	if !fw.check(w, cfg, "") {
		return
	}
	if bw != nil {
		bw.check(w, cfg, ":reverse-direction")
	}
}

// c01dir is one direction of traffic: a writer task on src, a reader task on dst.
type c01dir struct {
	name       string
	pkts       []c01pkt
	accepted   []c01sent
	got        []*packet.TransferPacket
	gotBytes   []int
	rerr       error
	kaSent     int // heartbeats accepted from the concurrent keep-alive writer
	wt, rt, kt *simrt.Task
	srcConn    *simnet.Conn
	dstConn    *simnet.Conn
}

func c01StartDirection(w *simrt.World, name string, src, dst *stream.StreamProcessor, srcConn, dstConn *simnet.Conn, pkts []c01pkt, ka int) *c01dir {
	d := &c01dir{name: name, pkts: pkts, srcConn: srcConn, dstConn: dstConn}
	if ka > 0 {
		d.kt = w.Spawn("keepalive-"+name, func() {
			for i := 0; i < ka; i++ {
				w.Yield("keepalive.tick")
				if _, err := src.WritePacket(&packet.TransferPacket{PacketType: packet.Heartbeat}, false, 0); err != nil {
					continue
				}
				d.kaSent++
			}
		})
	}
	d.wt = w.Spawn("writer-"+name, func() {
		for _, p := range pkts {
			tp := &packet.TransferPacket{PacketType: p.typ, Payload: p.payload, CommandPacket: p.cmd}
			before := srcConn.BytesWritten()
			nb, err := src.WritePacket(tp, p.compress, p.rate)
			wrote := int(srcConn.BytesWritten() - before)
			if ka > 0 {
				// per-packet byte accounting is not attributable while the keep-alive task writes too:
				// take the writer's own report (the stream-level alignment check still counts every byte)
				wrote = nb
			}
			if err != nil {
				if wrote == 0 {
					w.Probe("writer.rejected")
					continue // rejected: not part of the expectation
				}
				w.Violationf("C01:writer-partial", "WritePacket failed after writing %d bytes of %v: %v", wrote, p, err)
				break
			}
			if nb != wrote {
				w.Violationf("C01:writer-count", "WritePacket reported %d bytes but wrote %d for %v", nb, wrote, p)
			}
			d.accepted = append(d.accepted, c01sent{p, wrote})
		}
		if d.kt != nil {
			d.kt.Wait()
		}
		srcConn.CloseWrite()
	})
	d.rt = w.Spawn("reader-"+name, func() {
		for {
			tp, nb, err := dst.ReadPacket()
			if err != nil {
				d.rerr = err
				if !errors.Is(err, io.EOF) || dstConn.Pending() > 0 {
					dstConn.Close() // what a server does with a connection it cannot decode
				}
				return
			}
			d.got = append(d.got, tp)
			d.gotBytes = append(d.gotBytes, nb)
		}
	})
	return d
}

func (d *c01dir) wait() {
	d.wt.Wait()
	d.rt.Wait()
}

// check is the oracle: sequence equality against the generator's own list plus byte accounting.
func (d *c01dir) check(w *simrt.World, cfg simnet.LinkConfig, suffix string) bool {
	accepted, got, gotBytes, rerr := d.accepted, d.got, d.gotBytes, d.rerr
	if d.kaSent > 0 {
		// the decoded sequence must be a merge of the two writers' sequences: take out the keep-alive
		// heartbeats (all identical, so preferring the packet writer's own heartbeats loses no merge)
		left, i := d.kaSent, 0
		var fg []*packet.TransferPacket
		var fb []int
		for k, g := range got {
			mainWants := i < len(accepted) && accepted[i].p.typ == packet.Heartbeat && !accepted[i].p.compress
			if g.PacketType == packet.Heartbeat && !mainWants && left > 0 {
				left--
				if gotBytes[k] != 1 {
					w.Violationf("C01:consumed-count:keepalive"+suffix, "[%s] keep-alive heartbeat reported as %d bytes", d.name, gotBytes[k])
					return false
				}
				continue
			}
			fg, fb = append(fg, g), append(fb, gotBytes[k])
			i++
		}
		got, gotBytes = fg, fb
		if left > 0 && len(got) >= len(accepted) {
			w.Violationf("C01:missing-packet:keepalive"+suffix, "[%s] %d of %d keep-alive heartbeats written concurrently were never decoded; reader error: %v", d.name, left, d.kaSent, rerr)
			return false
		}
	}
	for i, s := range accepted {
		if i >= len(got) {
			w.Violationf("C01:missing-packet"+c01Class(accepted, i, cfg)+suffix, "[%s] packet %d %v was written (%d bytes) but never decoded; reader stopped after %d packets with error: %v", d.name, i, s.p, s.bytes, len(got), rerr)
			return false
		}
		g := got[i]
		wantT := s.p.typ
		if s.p.compress {
			wantT |= packet.Compressed
		}
		if g.PacketType != wantT {
			w.Violationf("C01:type-mismatch"+c01Class(accepted, i, cfg)+suffix, "[%s] packet %d: wrote type %#x, decoded %#x (%v)", d.name, i, byte(wantT), byte(g.PacketType), s.p)
			return false
		}
		if s.p.cmd != nil {
			if g.CommandPacket == nil || *g.CommandPacket != *s.p.cmd {
				w.Violationf("C01:command-mismatch"+suffix, "[%s] packet %d: command packet differs", d.name, i)
				return false
			}
		} else if !bytes.Equal(g.Payload, s.p.payload) {
			w.Violationf("C01:body-mismatch"+c01Class(accepted, i, cfg)+suffix, "[%s] packet %d %v: decoded body len %d differs (first diff at %d)", d.name, i, s.p, len(g.Payload), firstDiff(g.Payload, s.p.payload))
			return false
		}
		if gotBytes[i] != s.bytes {
			w.Violationf("C01:consumed-count"+suffix, "[%s] packet %d %v: writer produced %d bytes, reader reported consuming %d", d.name, i, s.p, s.bytes, gotBytes[i])
			return false
		}
	}
	if len(got) > len(accepted) {
		w.Violationf("C01:extra-packet"+suffix, "[%s] decoded %d packets but only %d were written; extra: type %#x len %d", d.name, len(got), len(accepted), byte(got[len(accepted)].PacketType), len(got[len(accepted)].Payload))
		return false
	}
	if d.dstConn == nil {
		// WebSocket runs: the writer closes cleanly after its last packet, so the reader must end at a packet boundary
		if !errors.Is(rerr, io.EOF) {
			w.Violationf("C01:alignment:ws-trailing"+suffix, "[%s] all %d packets decoded but the reader then failed with %v instead of a clean end of stream", d.name, len(accepted), rerr)
			return false
		}
		return true
	}
	if d.dstConn.Pending() != 0 || d.dstConn.BytesRead() != d.srcConn.BytesWritten() {
		w.Violationf("C01:alignment"+suffix, "[%s] after the last packet %d bytes remain unread (read %d of %d)", d.name, d.dstConn.Pending(), d.dstConn.BytesRead(), d.srcConn.BytesWritten())
		return false
	}
	return true
}

// c01Class names the input class of a failure so that distinct defects get
// distinct signatures: whether an empty-bodied packet precedes (or is) the
// failing one, and whether the transport cut reads.
func c01Class(acc []c01sent, i int, cfg simnet.LinkConfig) string {
	for j := 0; j <= i && j < len(acc); j++ {
		p := acc[j].p
		if p.typ != packet.Heartbeat && p.cmd == nil && len(p.payload) == 0 {
			return ":after-empty-body"
		}
	}
	if cfg.LawAB != simnet.LawAll || cfg.Capacity != 0 {
		return ":segmented"
	}
	return ":whole"
}

func firstDiff(a, b []byte) int {
	n := len(a)
	if len(b) < n {
		n = len(b)
	}
	for i := 0; i < n; i++ {
		if a[i] != b[i] {
			return i
		}
	}
	return n
}

func sortInt64(s []int64) {
	for i := 1; i < len(s); i++ {
		for j := i; j > 0 && s[j] < s[j-1]; j-- {
			s[j], s[j-1] = s[j-1], s[j]
		}
	}
}

// ---- real WebSocket wrappers ------------------------------------------------------------

// c01capture is the io.Writer of the "foreign framing" peer: it records the byte stream produced by the
// real WritePacket so that the harness can cut it into WebSocket messages of its own choosing.
type c01capture struct{ buf bytes.Buffer }

func (c *c01capture) Write(p []byte) (int, error) { return c.buf.Write(p) }
func (c *c01capture) Read(p []byte) (int, error)  { return 0, io.EOF }

// c01RunWS runs the packet sequence through the product's real WebSocket connection wrappers
// (adapter.wsServerConn, adapter.wsClientConn, client/transport.WebSocketStreamConn) on a real
// gorilla/websocket pair over a simnet link. The writing peer either uses the opposite real wrapper
// (one Write = one message) or frames the same byte stream differently (another SDK, a re-framing
// proxy): messages that split headers, end mid-body or carry several packets.
func c01RunWS(w *simrt.World, cfg simnet.LinkConfig, pkts []c01pkt) {
	c := w.C
	cfg.Message = false
	cfg.Capacity = 0
	cfg.NameA, cfg.NameB = "wscli", "wssrv"
	cfg.LawAB = []simnet.Law{simnet.LawAll, simnet.LawMTU, simnet.LawMixed}[c.Intn(3, "ws.law")]
	cfg.LawBA = []simnet.Law{simnet.LawAll, simnet.LawMTU, simnet.LawMixed}[c.Intn(3, "ws.law.rev")]
	cfg.CutsAB = nil
	readerKind := c.Intn(3, "ws.reader") // 0 server wrapper, 1 adapter client wrapper, 2 client transport wrapper
	reframed := c.Intn(3, "ws.reframe") != 0
	bufSize := []int{64 << 10, 4096, 1024}[c.Intn(3, "ws.bufsize")]
	// chunk plan for the re-framing peer, cycled over the byte stream
	type chunk struct{ kind, n int }
	plan := make([]chunk, 24)
	for i := range plan {
		k := c.Intn(6, "ws.chunk.kind")
		ch := chunk{kind: k}
		switch k {
		case 0: // to the end of the current packet (native framing granularity or coarser)
		case 1: // a few bytes: splits headers
			ch.n = 1 + c.Intn(9, "ws.chunk.n")
		case 2: // current packet and the next one in one message
		case 3: // end of the current packet plus a piece of the next header
			ch.n = 1 + c.Intn(6, "ws.chunk.n")
		case 4:
			ch.n = 100 + c.Intn(70000, "ws.chunk.n")
		default: // three packets in one message
		}
		plan[i] = ch
	}
	for i := range pkts {
		pkts[i].rate = 0
	}
	var desc []string
	for _, p := range pkts {
		desc = append(desc, p.String())
	}
	w.Sample(fmt.Sprintf("transport=websocket reader=%s reframed=%v wsbuf=%d law=%s/%s packets=%s", []string{"wsServerConn", "wsClientConn", "WebSocketStreamConn"}[readerKind],
		reframed, bufSize, simnet.LawNames[cfg.LawAB], simnet.LawNames[cfg.LawBA], strings.Join(desc, " ")))
	w.State(fmt.Sprintf("ws/%d/%v/%d", readerKind, reframed, bufSize))
	w.Probe("transport.websocket")

	cli, srv, _, _, err := simws.Pair(w, cfg, bufSize)
	if err != nil {
		w.Violationf("harness:ws-handshake", "websocket handshake over the simulated link failed: %v", err)
		return
	}
	var rdConn io.ReadWriteCloser
	var wrRaw *websocket.Conn
	switch readerKind {
	case 0:
		rdConn, wrRaw = adapter.NewWSServerConnForVerif(srv, "10.9.0.1:4000"), cli
	case 1:
		rdConn, wrRaw = adapter.NewWSClientConnForVerif(cli), srv
	default:
		rdConn, wrRaw = transport.NewWebSocketStreamConnForVerif(cli), srv
	}
	d := &c01dir{name: "ws", pkts: pkts}
	dst := stream.NewStreamProcessor(rdConn, rdConn, w.Ctx)
	d.rt = w.Spawn("reader-ws", func() {
		for {
			tp, nb, err := dst.ReadPacket()
			if err != nil {
				d.rerr = err
				return
			}
			d.got = append(d.got, tp)
			d.gotBytes = append(d.gotBytes, nb)
		}
	})
	msgs, multi := 0, 0
	d.wt = w.Spawn("writer-ws", func() {
		if !reframed {
			var wrConn io.ReadWriteCloser
			switch readerKind {
			case 0:
				wrConn = transport.NewWebSocketStreamConnForVerif(cli)
			default:
				wrConn = adapter.NewWSServerConnForVerif(srv, "10.9.0.1:4000")
			}
			src := stream.NewStreamProcessor(wrConn, wrConn, w.Ctx)
			for _, p := range pkts {
				nb, err := src.WritePacket(&packet.TransferPacket{PacketType: p.typ, Payload: p.payload, CommandPacket: p.cmd}, p.compress, 0)
				if err != nil {
					if nb == 0 {
						w.Probe("writer.rejected")
						continue
					}
					w.Violationf("C01:writer-partial", "WritePacket failed after %d bytes of %v: %v", nb, p, err)
					break
				}
				d.accepted = append(d.accepted, c01sent{p, nb})
			}
			wrConn.Close()
			return
		}
		capt := &c01capture{}
		src := stream.NewStreamProcessor(capt, capt, w.Ctx)
		var ends []int
		for _, p := range pkts {
			nb, err := src.WritePacket(&packet.TransferPacket{PacketType: p.typ, Payload: p.payload, CommandPacket: p.cmd}, p.compress, 0)
			if err != nil {
				continue // nothing reaches the wire for a rejected packet (asserted by the plain-transport runs)
			}
			d.accepted = append(d.accepted, c01sent{p, nb})
			ends = append(ends, capt.buf.Len())
		}
		data := capt.buf.Bytes()
		endAfter := func(pos, k int) int { // end offset of the k-th packet boundary strictly after pos
			for _, e := range ends {
				if e > pos {
					k--
					if k == 0 {
						return e
					}
				}
			}
			return len(data)
		}
		pos := 0
		for i := 0; pos < len(data); i++ {
			ch := plan[i%len(plan)]
			var end int
			switch ch.kind {
			case 0:
				end = endAfter(pos, 1)
			case 1, 4:
				end = pos + ch.n
			case 2:
				end = endAfter(pos, 2)
			case 3:
				end = endAfter(pos, 1) + ch.n
			default:
				end = endAfter(pos, 3)
			}
			if end > len(data) {
				end = len(data)
			}
			if end-pos > 1 {
				multi++
			}
			if err := wrRaw.WriteMessage(websocket.BinaryMessage, data[pos:end]); err != nil {
				w.Logf("ws writer: %v", err)
				break
			}
			msgs++
			pos = end
		}
		wrRaw.WriteControl(websocket.CloseMessage, websocket.FormatCloseMessage(websocket.CloseNormalClosure, ""), time.Now().Add(time.Second))
		wrRaw.Close()
	})
	d.wait()
	rdConn.Close()
	if reframed {
		w.Probe("ws.reframed")
		if multi >= 2 {
			w.Probe("ws.remainder_path_twice")
			w.Nontrivial()
		}
	} else {
		w.Probe("ws.native")
		if len(d.accepted) > 1 {
			w.Nontrivial()
		}
	}
	d.check(w, cfg, ":websocket")
}
