// Package simstore wraps the repository's real storage backends so that every
// storage operation is a scheduling point and a fault point of the simulator.
package simstore

import (
	"errors"
	"fmt"
	"sync"
	"time"

	"tunnox-core/internal/core/storage/types"
	"tunnox-core/verifsim/simrt"
)

// ErrInjected is the error returned by an injected storage failure.
var ErrInjected = errors.New("simstore: injected storage failure")

// Crash is the sentinel panic value that unwinds tasks of a crashed node.
type crashT struct{}

func (*crashT) Error() string  { return simrt.CrashMarker }
func (*crashT) String() string { return simrt.CrashMarker }

var Crash = &crashT{}

// OpRec is one recorded operation (for enumeration pilots and traces).
type OpRec struct {
	N     int
	Op    string
	Key   string
	Write bool
}

// Store is one handle (one node's view) onto a backend. Several handles may
// share one backend.
type Store struct {
	W     *simrt.World
	Name  string
	Inner types.Storage

	mu     sync.Mutex
	ops    int
	writes int
	Log    []OpRec
	// FailAt fails the k-th counted operation (1-based); 0 = never.
	FailAt int
	// CountWritesOnly makes FailAt/CrashAt count write operations only.
	CountWritesOnly bool
	// CrashAt fences the handle right before the k-th counted operation.
	CrashAt int
	// FailChance fails each operation with probability num/den.
	FailNum, FailDen int
	// Filter restricts counting/faults to matching operations.
	Filter func(op, key string) bool
	fenced bool
	// Sync is called before each operation (redis clock sync).
	Sync func()
	KeepLog bool
}

func New(w *simrt.World, name string, inner types.Storage) *Store {
	return &Store{W: w, Name: name, Inner: inner}
}

// Handle returns a second handle onto the same backend (another node).
func (s *Store) Handle(name string) *Store {
	return &Store{W: s.W, Name: name, Inner: s.Inner, Sync: s.Sync}
}

// Fence makes every further operation on this handle unwind its caller: the
// node has crashed; nothing it attempts reaches the backend any more.
func (s *Store) Fence() {
	s.mu.Lock()
	s.fenced = true
	s.mu.Unlock()
}

func (s *Store) Fenced() bool {
	s.mu.Lock()
	defer s.mu.Unlock()
	return s.fenced
}

// Ops returns (operations, writes) counted so far.
func (s *Store) Ops() (int, int) {
	s.mu.Lock()
	defer s.mu.Unlock()
	return s.ops, s.writes
}

func (s *Store) pre(op, key string, write bool) error {
	if s.W != nil && !s.W.Free() {
		s.W.Yield("store." + op + ":" + s.Name)
	}
	s.mu.Lock()
	if s.fenced {
		s.mu.Unlock()
		if s.W != nil && !s.W.Free() {
			panic(Crash)
		}
		return ErrInjected
	}
	counted := s.Filter == nil || s.Filter(op, key)
	var n int
	if counted {
		s.ops++
		if write {
			s.writes++
		}
		n = s.ops
		if s.CountWritesOnly {
			n = s.writes
			if !write {
				n = -1
			}
		}
		if s.KeepLog {
			s.Log = append(s.Log, OpRec{N: s.ops, Op: op, Key: key, Write: write})
		}
	}
	failAt, crashAt := s.FailAt, s.CrashAt
	fnum, fden := s.FailNum, s.FailDen
	s.mu.Unlock()
	if counted && n > 0 {
		if crashAt > 0 && n == crashAt {
			s.Fence()
			s.W.Fault("store.crash")
			panic(Crash)
		}
		if failAt > 0 && n == failAt {
			s.W.Fault("store.error")
			return fmt.Errorf("%w (%s %s #%d)", ErrInjected, op, key, n)
		}
		if fnum > 0 && s.W != nil && !s.W.Free() && s.W.C.Chance(fnum, fden, "store.fail") {
			s.W.Fault("store.error")
			return fmt.Errorf("%w (%s %s)", ErrInjected, op, key)
		}
	}
	if s.Sync != nil {
		s.Sync()
	}
	return nil
}

var errUnsupported = errors.New("simstore: backend does not implement this interface")

func (s *Store) Set(key string, value any, ttl time.Duration) error {
	if err := s.pre("Set", key, true); err != nil {
		return err
	}
	return s.Inner.Set(key, value, ttl)
}
func (s *Store) Get(key string) (any, error) {
	if err := s.pre("Get", key, false); err != nil {
		return nil, err
	}
	return s.Inner.Get(key)
}
func (s *Store) Delete(key string) error {
	if err := s.pre("Delete", key, true); err != nil {
		return err
	}
	return s.Inner.Delete(key)
}
func (s *Store) Exists(key string) (bool, error) {
	if err := s.pre("Exists", key, false); err != nil {
		return false, err
	}
	return s.Inner.Exists(key)
}
func (s *Store) SetExpiration(key string, ttl time.Duration) error {
	if err := s.pre("SetExpiration", key, true); err != nil {
		return err
	}
	return s.Inner.SetExpiration(key, ttl)
}
func (s *Store) GetExpiration(key string) (time.Duration, error) {
	if err := s.pre("GetExpiration", key, false); err != nil {
		return 0, err
	}
	return s.Inner.GetExpiration(key)
}
func (s *Store) CleanupExpired() error {
	if err := s.pre("CleanupExpired", "", true); err != nil {
		return err
	}
	return s.Inner.CleanupExpired()
}

// Close does not close the shared backend; the scenario owns it.
func (s *Store) Close() error { return nil }

func (s *Store) SetList(key string, values []any, ttl time.Duration) error {
	if err := s.pre("SetList", key, true); err != nil {
		return err
	}
	if l, ok := s.Inner.(types.ListStore); ok {
		return l.SetList(key, values, ttl)
	}
	return errUnsupported
}
func (s *Store) GetList(key string) ([]any, error) {
	if err := s.pre("GetList", key, false); err != nil {
		return nil, err
	}
	if l, ok := s.Inner.(types.ListStore); ok {
		return l.GetList(key)
	}
	return nil, errUnsupported
}
func (s *Store) AppendToList(key string, value any) error {
	if err := s.pre("AppendToList", key, true); err != nil {
		return err
	}
	if l, ok := s.Inner.(types.ListStore); ok {
		return l.AppendToList(key, value)
	}
	return errUnsupported
}
func (s *Store) RemoveFromList(key string, value any) error {
	if err := s.pre("RemoveFromList", key, true); err != nil {
		return err
	}
	if l, ok := s.Inner.(types.ListStore); ok {
		return l.RemoveFromList(key, value)
	}
	return errUnsupported
}
func (s *Store) SetHash(key, field string, value any) error {
	if err := s.pre("SetHash", key, true); err != nil {
		return err
	}
	if l, ok := s.Inner.(types.HashStore); ok {
		return l.SetHash(key, field, value)
	}
	return errUnsupported
}
func (s *Store) GetHash(key, field string) (any, error) {
	if err := s.pre("GetHash", key, false); err != nil {
		return nil, err
	}
	if l, ok := s.Inner.(types.HashStore); ok {
		return l.GetHash(key, field)
	}
	return nil, errUnsupported
}
func (s *Store) GetAllHash(key string) (map[string]any, error) {
	if err := s.pre("GetAllHash", key, false); err != nil {
		return nil, err
	}
	if l, ok := s.Inner.(types.HashStore); ok {
		return l.GetAllHash(key)
	}
	return nil, errUnsupported
}
func (s *Store) DeleteHash(key, field string) error {
	if err := s.pre("DeleteHash", key, true); err != nil {
		return err
	}
	if l, ok := s.Inner.(types.HashStore); ok {
		return l.DeleteHash(key, field)
	}
	return errUnsupported
}
func (s *Store) Incr(key string) (int64, error) {
	if err := s.pre("Incr", key, true); err != nil {
		return 0, err
	}
	if l, ok := s.Inner.(types.CounterStore); ok {
		return l.Incr(key)
	}
	return 0, errUnsupported
}
func (s *Store) IncrBy(key string, v int64) (int64, error) {
	if err := s.pre("IncrBy", key, true); err != nil {
		return 0, err
	}
	if l, ok := s.Inner.(types.CounterStore); ok {
		return l.IncrBy(key, v)
	}
	return 0, errUnsupported
}
func (s *Store) SetNX(key string, value any, ttl time.Duration) (bool, error) {
	if err := s.pre("SetNX", key, true); err != nil {
		return false, err
	}
	if l, ok := s.Inner.(types.CASStore); ok {
		return l.SetNX(key, value, ttl)
	}
	return false, errUnsupported
}
func (s *Store) CompareAndSwap(key string, o, n any, ttl time.Duration) (bool, error) {
	if err := s.pre("CompareAndSwap", key, true); err != nil {
		return false, err
	}
	if l, ok := s.Inner.(types.CASStore); ok {
		return l.CompareAndSwap(key, o, n, ttl)
	}
	return false, errUnsupported
}
func (s *Store) Watch(key string, cb func(any)) error {
	if l, ok := s.Inner.(types.WatchableStore); ok {
		return l.Watch(key, cb)
	}
	return errUnsupported
}
func (s *Store) Unwatch(key string) error {
	if l, ok := s.Inner.(types.WatchableStore); ok {
		return l.Unwatch(key)
	}
	return errUnsupported
}
func (s *Store) ZAdd(key string, member any, score float64) error {
	if err := s.pre("ZAdd", key, true); err != nil {
		return err
	}
	if l, ok := s.Inner.(types.SortedSetStore); ok {
		return l.ZAdd(key, member, score)
	}
	return errUnsupported
}
func (s *Store) ZRem(key string, member any) error {
	if err := s.pre("ZRem", key, true); err != nil {
		return err
	}
	if l, ok := s.Inner.(types.SortedSetStore); ok {
		return l.ZRem(key, member)
	}
	return errUnsupported
}
func (s *Store) ZRangeByScore(key string, a, b float64) ([]string, error) {
	if err := s.pre("ZRangeByScore", key, false); err != nil {
		return nil, err
	}
	if l, ok := s.Inner.(types.SortedSetStore); ok {
		return l.ZRangeByScore(key, a, b)
	}
	return nil, errUnsupported
}
func (s *Store) ZRemRangeByScore(key string, a, b float64) (int64, error) {
	if err := s.pre("ZRemRangeByScore", key, true); err != nil {
		return 0, err
	}
	if l, ok := s.Inner.(types.SortedSetStore); ok {
		return l.ZRemRangeByScore(key, a, b)
	}
	return 0, errUnsupported
}
func (s *Store) ZScore(key string, member any) (float64, bool, error) {
	if err := s.pre("ZScore", key, false); err != nil {
		return 0, false, err
	}
	if l, ok := s.Inner.(types.SortedSetStore); ok {
		return l.ZScore(key, member)
	}
	return 0, false, errUnsupported
}
func (s *Store) ZCard(key string) (int64, error) {
	if err := s.pre("ZCard", key, false); err != nil {
		return 0, err
	}
	if l, ok := s.Inner.(types.SortedSetStore); ok {
		return l.ZCard(key)
	}
	return 0, errUnsupported
}

// QueryByPrefix is offered by the memory backend and used by some repositories.
func (s *Store) QueryByPrefix(prefix string, limit int) (map[string]string, error) {
	if err := s.pre("QueryByPrefix", prefix, false); err != nil {
		return nil, err
	}
	if l, ok := s.Inner.(interface {
		QueryByPrefix(string, int) (map[string]string, error)
	}); ok {
		return l.QueryByPrefix(prefix, limit)
	}
	return nil, errUnsupported
}

var _ types.FullStorage = (*Store)(nil)
var _ types.SortedSetStore = (*Store)(nil)

// Basic exposes only types.Storage of a Store (a backend without CAS, lists…).
type Basic struct{ S *Store }

func (b Basic) Set(k string, v any, ttl time.Duration) error    { return b.S.Set(k, v, ttl) }
func (b Basic) Get(k string) (any, error)                       { return b.S.Get(k) }
func (b Basic) Delete(k string) error                           { return b.S.Delete(k) }
func (b Basic) Exists(k string) (bool, error)                   { return b.S.Exists(k) }
func (b Basic) SetExpiration(k string, ttl time.Duration) error { return b.S.SetExpiration(k, ttl) }
func (b Basic) GetExpiration(k string) (time.Duration, error)   { return b.S.GetExpiration(k) }
func (b Basic) CleanupExpired() error                           { return b.S.CleanupExpired() }
func (b Basic) Close() error                                    { return nil }
