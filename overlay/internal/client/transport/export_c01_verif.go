//go:build verif && !no_websocket

package transport

import (
	"time"

	"github.com/gorilla/websocket"
)

// NewWebSocketStreamConnForVerif wraps an already established client WebSocket connection the way
// NewWebSocketStreamConn does after dialling.
func NewWebSocketStreamConnForVerif(conn *websocket.Conn) *WebSocketStreamConn {
	conn.SetReadDeadline(time.Time{})
	conn.SetWriteDeadline(time.Time{})
	return &WebSocketStreamConn{
		conn:       conn,
		readBuf:    make([]byte, 0),
		closed:     make(chan struct{}),
		localAddr:  &wsAddr{addr: "websocket-local"},
		remoteAddr: &wsAddr{addr: "ws://sim.invalid/_tunnox"},
	}
}
