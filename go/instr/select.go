package main

import (
	"go/ast"
	"go/token"
	"reflect"
	"strconv"
)

// cloneNode deep-copies an AST subtree, clearing resolver objects (positions are kept:
// some carry meaning, e.g. CallExpr.Ellipsis) (the copy is only ever printed).
func cloneNode[T ast.Node](n T) T {
	v := cloneValue(reflect.ValueOf(n))
	return v.Interface().(T)
}

var objType = reflect.TypeOf((*ast.Object)(nil))
var scopeType = reflect.TypeOf((*ast.Scope)(nil))

func cloneValue(v reflect.Value) reflect.Value {
	switch v.Kind() {
	case reflect.Ptr:
		if v.IsNil() {
			return v
		}
		if v.Type() == objType || v.Type() == scopeType {
			return reflect.Zero(v.Type())
		}
		c := reflect.New(v.Type().Elem())
		c.Elem().Set(cloneValue(v.Elem()))
		return c
	case reflect.Interface:
		if v.IsNil() {
			return v
		}
		c := reflect.New(v.Type()).Elem()
		c.Set(cloneValue(v.Elem()))
		return c
	case reflect.Struct:
		c := reflect.New(v.Type()).Elem()
		for i := 0; i < v.NumField(); i++ {
			f := v.Field(i)
			if !c.Field(i).CanSet() {
				continue
			}
			c.Field(i).Set(cloneValue(f))
		}
		return c
	case reflect.Slice:
		if v.IsNil() {
			return v
		}
		c := reflect.MakeSlice(v.Type(), v.Len(), v.Len())
		for i := 0; i < v.Len(); i++ {
			c.Index(i).Set(cloneValue(v.Index(i)))
		}
		return c
	default:
		return v
	}
}

// selectRewrite turns a select with two or more communication cases into
//
//	{ hoisted operands; polling passes (one case enabled at a time, in an order drawn from the
//	  simulator); the original select }
//
// so that the choice among several ready cases comes from the choice stream instead of the Go
// runtime's per-process random order. Without a simulator SelectOrder returns nil and only the
// original select runs. x's clause bodies must already be instrumented.
func (r *rewriter) selectRewrite(x *ast.SelectStmt) ast.Stmt {
	var comm []*ast.CommClause
	for _, c := range x.Body.List {
		cc := c.(*ast.CommClause)
		if cc.Comm != nil {
			comm = append(comm, cc)
		}
	}
	if len(comm) < 2 {
		return x
	}
	tmpSeq++
	id := strconv.Itoa(tmpSeq)
	var lhs, rhs []ast.Expr
	chanNames := make([]string, len(comm))
	for i, cc := range comm {
		name := "_vc" + id + "_" + strconv.Itoa(i)
		chanNames[i] = name
		switch s := cc.Comm.(type) {
		case *ast.SendStmt:
			lhs = append(lhs, ast.NewIdent(name))
			rhs = append(rhs, s.Chan)
			s.Chan = ast.NewIdent(name)
			if tv, ok := r.info.Types[s.Value]; ok && tv.Value == nil && !tv.IsNil() {
				vn := "_vs" + id + "_" + strconv.Itoa(i)
				lhs = append(lhs, ast.NewIdent(vn))
				rhs = append(rhs, s.Value)
				s.Value = ast.NewIdent(vn)
			}
		case *ast.ExprStmt:
			u, ok := ast.Unparen(s.X).(*ast.UnaryExpr)
			if !ok || u.Op != token.ARROW {
				return x
			}
			lhs = append(lhs, ast.NewIdent(name))
			rhs = append(rhs, u.X)
			u.X = ast.NewIdent(name)
		case *ast.AssignStmt:
			if len(s.Rhs) != 1 {
				return x
			}
			u, ok := ast.Unparen(s.Rhs[0]).(*ast.UnaryExpr)
			if !ok || u.Op != token.ARROW {
				return x
			}
			lhs = append(lhs, ast.NewIdent(name))
			rhs = append(rhs, u.X)
			u.X = ast.NewIdent(name)
		default:
			return x
		}
	}
	neverCompletes := true
	for _, c := range x.Body.List {
		if !bodyNeverCompletes(c.(*ast.CommClause).Body) {
			neverCompletes = false
		}
	}
	n := len(comm)
	done := "_vdone" + id
	perm := "_vperm" + id
	block := &ast.BlockStmt{}
	block.List = append(block.List,
		&ast.AssignStmt{Lhs: lhs, Tok: token.DEFINE, Rhs: rhs},
		&ast.AssignStmt{Lhs: []ast.Expr{ast.NewIdent(done)}, Tok: token.DEFINE, Rhs: []ast.Expr{ast.NewIdent("false")}},
		&ast.AssignStmt{Lhs: []ast.Expr{ast.NewIdent(perm)}, Tok: token.DEFINE, Rhs: []ast.Expr{hook("SelectOrder", &ast.BasicLit{Kind: token.INT, Value: strconv.Itoa(n)})}},
	)
	for p := 0; p < n; p++ {
		// masked copies of the channels for this pass
		var mlhs, mrhs []ast.Expr
		maskNames := make([]string, n)
		for i := range comm {
			maskNames[i] = "_vm" + id + "_" + strconv.Itoa(p) + "_" + strconv.Itoa(i)
			mlhs = append(mlhs, ast.NewIdent(maskNames[i]))
			mrhs = append(mrhs, ast.NewIdent(chanNames[i]))
		}
		pass := &ast.BlockStmt{}
		pass.List = append(pass.List, &ast.AssignStmt{Lhs: mlhs, Tok: token.DEFINE, Rhs: mrhs})
		for i := range comm {
			pass.List = append(pass.List, &ast.IfStmt{
				Cond: &ast.BinaryExpr{X: &ast.IndexExpr{X: ast.NewIdent(perm), Index: &ast.BasicLit{Kind: token.INT, Value: strconv.Itoa(p)}}, Op: token.NEQ, Y: &ast.BasicLit{Kind: token.INT, Value: strconv.Itoa(i)}},
				Body: &ast.BlockStmt{List: []ast.Stmt{&ast.AssignStmt{Lhs: []ast.Expr{ast.NewIdent(maskNames[i])}, Tok: token.ASSIGN, Rhs: []ast.Expr{ast.NewIdent("nil")}}}},
			})
		}
		sel := &ast.SelectStmt{Body: &ast.BlockStmt{}}
		for i, cc := range comm {
			c := cloneNode(cc)
			renameChan(c.Comm, chanNames[i], maskNames[i])
			c.Body = append([]ast.Stmt{&ast.AssignStmt{Lhs: []ast.Expr{ast.NewIdent(done)}, Tok: token.ASSIGN, Rhs: []ast.Expr{ast.NewIdent("true")}}}, c.Body...)
			sel.Body.List = append(sel.Body.List, c)
		}
		sel.Body.List = append(sel.Body.List, &ast.CommClause{})
		pass.List = append(pass.List, sel)
		block.List = append(block.List, &ast.IfStmt{
			Cond: &ast.BinaryExpr{
				X:  &ast.UnaryExpr{Op: token.NOT, X: ast.NewIdent(done)},
				Op: token.LAND,
				Y:  &ast.BinaryExpr{X: &ast.CallExpr{Fun: ast.NewIdent("len"), Args: []ast.Expr{ast.NewIdent(perm)}}, Op: token.GTR, Y: &ast.BasicLit{Kind: token.INT, Value: strconv.Itoa(p)}},
			},
			Body: pass,
		})
	}
	if neverCompletes {
		// every clause leaves the select by return/goto/continue/panic: the original select stays the
		// (terminating) last statement, which functions ending in such a select rely on
		block.List = append(block.List, x)
	} else {
		block.List = append(block.List, &ast.IfStmt{Cond: &ast.UnaryExpr{Op: token.NOT, X: ast.NewIdent(done)}, Body: &ast.BlockStmt{List: []ast.Stmt{x}}})
	}
	st.selects++
	r.changed = true
	return block
}

func renameChan(comm ast.Stmt, from, to string) {
	ast.Inspect(comm, func(n ast.Node) bool {
		if id, ok := n.(*ast.Ident); ok && id.Name == from {
			id.Name = to
		}
		return true
	})
}

// bodyNeverCompletes reports (conservatively) that control never flows out of the end of a select
// clause body nor breaks out of the select.
func bodyNeverCompletes(body []ast.Stmt) bool {
	if len(body) == 0 {
		return false
	}
	if hasPlainBreak(body) {
		return false
	}
	switch l := body[len(body)-1].(type) {
	case *ast.ReturnStmt:
		return true
	case *ast.BranchStmt:
		return l.Tok == token.GOTO || l.Tok == token.CONTINUE || (l.Tok == token.BREAK && l.Label != nil)
	case *ast.ExprStmt:
		if call, ok := l.X.(*ast.CallExpr); ok {
			if id, ok := call.Fun.(*ast.Ident); ok && id.Name == "panic" {
				return true
			}
		}
	case *ast.BlockStmt:
		return bodyNeverCompletes(l.List)
	case *ast.SelectStmt:
		for _, c := range l.Body.List {
			if !bodyNeverCompletes(c.(*ast.CommClause).Body) {
				return false
			}
		}
		return true
	case *ast.IfStmt:
		if l.Else == nil {
			return false
		}
		return bodyNeverCompletes(l.Body.List) && bodyNeverCompletes([]ast.Stmt{l.Else})
	}
	return false
}

// hasPlainBreak finds an unlabeled break that would leave the select (not nested in an inner
// for/switch/select, not inside a function literal).
func hasPlainBreak(body []ast.Stmt) bool {
	found := false
	var walk func(n ast.Node)
	walk = func(n ast.Node) {
		ast.Inspect(n, func(x ast.Node) bool {
			if found {
				return false
			}
			switch y := x.(type) {
			case *ast.FuncLit, *ast.ForStmt, *ast.RangeStmt, *ast.SwitchStmt, *ast.TypeSwitchStmt, *ast.SelectStmt:
				return false
			case *ast.BranchStmt:
				if y.Tok == token.BREAK && y.Label == nil {
					found = true
				}
			}
			return true
		})
	}
	for _, s := range body {
		walk(s)
	}
	return found
}
