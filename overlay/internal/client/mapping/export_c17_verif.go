//go:build verif

package mapping

// Read-only accessor for the C17 simulation scenario (per-mapping concurrent
// connection limit). It adds no behaviour.

// ActiveConnCountForVerif returns the handler's own admission counter.
func (h *BaseMappingHandler) ActiveConnCountForVerif() int {
	return int(h.activeConnCount.Load())
}
