package props

import (
	"context"
	"encoding/json"
	"errors"
	"fmt"
	"io"
	"net"
	"sort"
	"strings"
	"sync"
	"time"

	"tunnox-core/internal/client/mapping"
	"tunnox-core/internal/client/tunnel"
	"tunnox-core/internal/cloud/models"
	"tunnox-core/internal/cloud/repos"
	"tunnox-core/internal/cloud/services"
	"tunnox-core/internal/config"
	"tunnox-core/internal/constants"
	coreerrors "tunnox-core/internal/core/errors"
	"tunnox-core/internal/core/idgen"
	"tunnox-core/internal/packet"
	"tunnox-core/internal/protocol/adapter"
	"tunnox-core/internal/protocol/session"
	"tunnox-core/internal/stream"
	"tunnox-core/verifsim/simnet"
	"tunnox-core/verifsim/simrt"
	"tunnox-core/verifsim/simstore"
)

// C17 — configured limits and quotas hold under concurrency.
//
// One admission point per run (drawn): the server-wide connection cap
// (SessionManager.CreateConnection, directly or through the real adapter
// accept path), the control-connection cap (ClientRegistry.Register, which
// evicts the oldest), the tunnel registry cap (TunnelRegistry.Register, the
// control that checks and inserts under one lock), the per-mapping concurrent
// connection limit on the listening client (BaseMappingHandler accept loop),
// and the per-client quotas on active connection codes / active mappings
// (conncode.Service on 1-2 nodes over one shared memory backend).
//
// Oracle: the harness keeps its own occupancy per admission ("slot"): a slot
// counts from the instant the admission call returned success until the
// instant its release was *invoked* (or it can have lapsed on its own), i.e. the
// harness count is a lower bound of the real number of admitted holders at
// every instant. That lower bound must never exceed the configured limit.

// ---- the harness-side occupancy gauge ----------------------------------------

type c17slot struct {
	name       string
	id         string // component-side identity (connection id, code, mapping id)
	aux        any
	node       int
	phase      string
	inv, ret   int64
	tInv, tRet time.Duration
	ttl        time.Duration // the admission lapses on its own after ttl (0 = never)
	decided    bool
	admitted   bool
	gone       bool // release invoked (or holder observed closed by the component)
	releasing  bool // the release call has been invoked and has not returned yet
	err        error
}

type c17gauge struct {
	w          *simrt.World
	point      string
	limit      int
	desc       string
	mu         sync.Mutex
	slots      []*c17slot
	hist       []string
	dead       bool
	max        int
	phase      string
	classOf    func(s *c17slot) string
	faulted    func() bool
	faultClass func() string
	extra      func() string // component-side observations added to a verdict's detail
	admits     int
	refused    int
	overlap    bool
}

func (g *c17gauge) logf(format string, a ...any) {
	g.hist = append(g.hist, fmt.Sprintf("%9s ", g.w.Now().Truncate(time.Microsecond))+fmt.Sprintf(format, a...))
}

func (g *c17gauge) newSlot(name string) *c17slot {
	g.mu.Lock()
	defer g.mu.Unlock()
	s := &c17slot{name: name, phase: g.phase}
	g.slots = append(g.slots, s)
	return s
}

func (g *c17gauge) begin(s *c17slot) {
	g.mu.Lock()
	defer g.mu.Unlock()
	s.inv = g.w.Stamp()
	s.tInv = g.w.Now()
	s.phase = g.phase
	g.logf("%s invoke admission [%s]", s.name, s.phase)
}

// bounds returns the lower and the upper bound of the number of holders.
func (g *c17gauge) boundsLocked() (lo, hi int) {
	now := g.w.Now()
	for _, s := range g.slots {
		if !s.admitted || s.gone {
			continue
		}
		if s.ttl > 0 {
			if now > s.tRet+s.ttl {
				continue // certainly lapsed
			}
			hi++
			if now < s.tInv+s.ttl {
				lo++ // certainly still held
			}
			continue
		}
		lo++
		hi++
	}
	return
}

func (g *c17gauge) occ() int {
	g.mu.Lock()
	defer g.mu.Unlock()
	lo, _ := g.boundsLocked()
	return lo
}

func (g *c17gauge) occHi() int {
	g.mu.Lock()
	defer g.mu.Unlock()
	_, hi := g.boundsLocked()
	return hi
}

func (g *c17gauge) overlappedLocked(s *c17slot) bool {
	for _, t := range g.slots {
		if t == s || t.inv == 0 {
			continue
		}
		if t.inv < s.ret && (t.ret == 0 || t.ret > s.inv) {
			return true
		}
	}
	return false
}

func (g *c17gauge) class(s *c17slot) string {
	if g.faulted != nil && g.faulted() {
		return g.faultClass()
	}
	if g.classOf != nil {
		return g.classOf(s)
	}
	if g.overlappedLocked(s) {
		return "racing-admissions"
	}
	return "sequential"
}

func (g *c17gauge) tail() string { return strings.Join(tailStr(g.hist, 60), "\n") }

// admit records a successful admission and checks the invariant.
func (g *c17gauge) admit(s *c17slot) {
	g.mu.Lock()
	defer g.mu.Unlock()
	s.ret = g.w.Stamp()
	s.tRet = g.w.Now()
	s.decided, s.admitted = true, true
	g.admits++
	if g.overlappedLocked(s) {
		g.overlap = true
	}
	lo, _ := g.boundsLocked()
	if lo > g.max {
		g.max = lo
	}
	g.logf("%s ADMITTED id=%s -> holders=%d limit=%d", s.name, s.id, lo, g.limit)
	g.w.Probe(g.point + ".admitted")
	viol, cls := false, ""
	if g.limit > 0 && lo > g.limit && !g.dead {
		g.dead = true
		viol, cls = true, g.class(s)
	}
	g.mu.Unlock()
	if viol {
		ex := g.extraText() // may run repo code: never under the harness mutex
		g.mu.Lock()
		tail := g.tail()
		g.mu.Unlock()
		g.w.Violationf("C17:"+g.point+":exceeded:"+cls,
			"%s: %d holders are admitted and not released at the same instant, the configured limit is %d (admission %s, phase %s)%s\nhistory:\n%s",
			g.desc, lo, g.limit, s.name, s.phase, ex, tail)
	}
	g.mu.Lock() // re-taken for the deferred unlock
}

func (g *c17gauge) refuse(s *c17slot, err error) {
	g.mu.Lock()
	defer g.mu.Unlock()
	s.ret = g.w.Stamp()
	s.tRet = g.w.Now()
	s.decided, s.err = true, err
	g.refused++
	if g.overlappedLocked(s) {
		g.overlap = true
	}
	g.logf("%s refused: %v", s.name, err)
	g.w.Probe(g.point + ".refused")
}

func (g *c17gauge) releasing(s *c17slot, how string) {
	g.mu.Lock()
	defer g.mu.Unlock()
	if !s.gone {
		s.gone = true
		g.logf("%s release (%s)", s.name, how)
	}
}

func (g *c17gauge) unrelease(s *c17slot, err error) {
	g.mu.Lock()
	defer g.mu.Unlock()
	s.gone = false
	g.logf("%s release failed (%v): still held", s.name, err)
}

func (g *c17gauge) isDecided(s *c17slot) bool {
	g.mu.Lock()
	defer g.mu.Unlock()
	return s.decided
}

func (g *c17gauge) isDead() bool {
	g.mu.Lock()
	defer g.mu.Unlock()
	return g.dead
}

// component checks a counter kept by the component itself (same verdict as the
// harness count: the limit is exceeded at this instant).
func (g *c17gauge) component(n int, what string) {
	g.mu.Lock()
	viol, cls := false, ""
	if g.limit > 0 && n > g.limit && !g.dead {
		g.dead = true
		viol, cls = true, "racing-admissions"
		inFlight := 0
		for _, t := range g.slots {
			if t.admitted && t.releasing {
				inFlight++
			}
		}
		if g.faulted != nil && g.faulted() {
			cls = g.faultClass()
		} else if g.classOf != nil && len(g.slots) > 0 {
			cls = g.classOf(g.slots[len(g.slots)-1])
		} else if !g.overlap && inFlight > 0 && n-inFlight <= g.limit {
			// no two admissions overlapped; the surplus consists of holders whose release has been
			// invoked but is not yet visible in the component's own state: a request was admitted on
			// the strength of a release that had not been applied yet
			cls = "admitted-on-unapplied-release"
			what += fmt.Sprintf("; %d release(s) of earlier holders are invoked but not yet applied, the harness counts those holders as gone", inFlight)
		} else if !g.overlap {
			cls = "sequential"
		}
	}
	tail := g.tail()
	g.mu.Unlock()
	if viol {
		g.w.Violationf("C17:"+g.point+":exceeded:"+cls,
			"%s: the component's own count is %d (%s), the configured limit is %d%s\nhistory:\n%s", g.desc, n, what, g.limit, g.extraText(), tail)
	}
}

func (g *c17gauge) extraText() string {
	if g.extra == nil {
		return ""
	}
	return " [" + g.extra() + "]"
}

func (g *c17gauge) violation(sig, format string, a ...any) {
	g.mu.Lock()
	defer g.mu.Unlock()
	if g.dead {
		return
	}
	g.dead = true
	g.w.Violationf("C17:"+g.point+":"+sig, "%s: %s\nhistory:\n%s", g.desc, fmt.Sprintf(format, a...), g.tail())
}

// ---- generated case ---------------------------------------------------------------

type c17script struct {
	delay       time.Duration
	node        int
	thenRelease bool
	hold        time.Duration
	readmit     bool
	short       bool // quota kinds: the admitted item lapses after 20 s
}

type c17rel struct {
	idx   int // which preset slot
	delay time.Duration
	how   int
}

type c17run struct {
	w       *simrt.World
	g       *c17gauge
	point   string
	limit   int
	pre     int
	preMode int
	scripts []c17script
	rels    []c17rel
	// point specific
	viaAdapter bool
	quotaErr   bool
	nNodes     int
	extraExp   int
	extraRev   bool
	shortPre   int
	fault      bool
	fNode      int
	fK         int
	probeN     int
}

var c17points = []string{"conn-cap", "control-cap", "tunnel-cap", "mapping-cap", "code-quota", "mapping-quota"}

func init() {
	Register(&Scenario{
		ID:    "C17",
		Level: "exploration",
		Rule: "each run draws ONE admission point {server connection cap via SessionManager.CreateConnection or via the adapter accept path; control-connection cap via ClientRegistry.Register (evict-oldest) on a bare registry or on the one a SessionManager wires from MaxControlConnections; TunnelRegistry.Register with MaxTunnels; per-mapping MaxConnections via the BaseMappingHandler accept loop; per-client active-code quota via CreateConnectionCode; per-client active-mapping quota via ActivateConnectionCode}, a limit in {1,2,3,10,0=unlimited} (quotas: {1,2,3,10}), a preset occupancy in {limit-1, limit-2, limit} filled sequentially (quotas: plus 0-2 already expired and 0-1 revoked items that must not count), then N in 2..6 concurrent admission tasks (each optionally delayed, optionally releasing and re-admitting) and 0-2 concurrent releases of preset holders; quotas run on 1-2 nodes over one shared memory backend, optionally with items that expire mid-run, and in a quarter of the quota runs with one injected storage error at the k-th operation of one node while the same requests are issued one after the other (so that an exceeded limit is attributable to the error, class store-error-on-read / store-error-on-write); in half of the per-mapping runs every DialTunnel call additionally draws how that connection ends {lives on; dial error; peer 'tunnel closed' notification, fatal tunnel-error notification or TunnelManager.CloseTunnel delivered by a separate task as soon as the tunnel is registered (so it can overtake the handler's own start-up) or after establishment; transport end racing with the notification} and PrepareConnection / CheckMappingQuota fail for about one connection in twelve; afterwards a sequential probe (all connections live normally) fills up to the limit and sends one more request (must be refused and leave the component/store state identical; with limit 0 it must be admitted). " +
			"Oracle: harness-side holder count (success return .. release invocation/earliest lapse) <= limit after every admission, the component's own counter <= limit after every admission and equal to the harness count at quiescence (for the mapping handler: activeConnCount == open admitted connections whenever nothing is in flight, reported as count-mismatch after the probe had its chance to show the limit itself exceeded). " +
			"Non-trivial: at least two admission attempts overlapped in time while preset+attempts reached the limit (or limit 0), or an injected storage error fired, or the sequential probe reached the full boundary; distinct = distinct schedule hashes of such runs.",
		Real: []string{
			"internal/protocol/session SessionManager.CreateConnection/CloseConnection/AcceptConnection, ClientRegistry, TunnelRegistry",
			"internal/protocol/adapter BaseAdapter.handleConnection/read loop (variant of the connection cap)",
			"internal/client/mapping BaseMappingHandler Start/acceptLoop/handleConnection/checkConnectionQuota, internal/client/tunnel Tunnel + TunnelManager, internal/utils/iocopy",
			"internal/cloud/services/conncode Service (create/activate/revoke), ConnectionCodeRepository, PortMappingRepo, PortMappingService, IDManager",
			"internal/core/storage/memory backend behind per-node simstore handles",
		},
		Stub: []string{
			"transport: simnet links",
			"mapping.ClientInterface (DialTunnel hands out a simnet link + real StreamProcessor, can be held or fail; CheckMappingQuota can fail; user quota = 0/err; notifier tasks call the handler's real TunnelManager OnTunnelClosed/OnTunnelError/CloseTunnel) and mapping.MappingAdapter (Accept fed by the harness, PrepareConnection marks the admission)",
			"PackageStreamer stub recording Close for registry entries",
			"peers of tunnels: harness tasks that close when they read EOF",
		},
		Assumptions: []string{
			"limit 0 = unlimited is documented for MaxConnections, MaxControlConnections, MaxTunnels and the mapping's MaxConnections (falls back to the user quota, 0 there = none); it is NOT documented for the conncode quotas (Config{0,0} refuses everything), so quota limits are drawn from {1,2,3,10} only",
			"a mapping connection holds its slot from the moment the listener admitted it until the local connection is closed (the text says 'concurrent connections'), not just while the tunnel is being dialled",
			"a control connection evicted at the cap stops counting once the registry has closed its stream",
			"the listen client of the mapping quota is never the target client of a mapping (the per-client index counts both roles)",
			"storage-error runs only require the limit itself (no equality of counters, partial writes are C06's business)",
		},
		Opt: func(tier string) simrt.Options { return simrt.Options{MaxSteps: 600000} },
		Run: c17Run,
	})
}

var c17delays = []time.Duration{0, 0, 0, time.Millisecond, 3 * time.Millisecond}

func c17Run(w *simrt.World, tier string) {
	c := w.C
	r := &c17run{w: w}
	pt := c.Intn(len(c17points), "point")
	r.point = c17points[pt]
	quota := pt >= 4
	if quota {
		r.limit = []int{1, 2, 3, 10}[c.Intn(4, "limit")]
	} else {
		r.limit = []int{1, 2, 3, 10, 0}[c.Intn(5, "limit")]
	}
	r.preMode = c.Intn(3, "pre")
	switch {
	case r.limit == 0:
		r.pre = r.preMode
	case r.preMode == 0:
		r.pre = r.limit - 1
	case r.preMode == 1:
		r.pre = r.limit - 2
		if r.pre < 0 {
			r.pre = 0
		}
	default:
		r.pre = r.limit
	}
	n := 2 + c.Intn(5, "n")
	r.nNodes = 1
	if quota {
		r.nNodes = 1 + c.Intn(2, "nodes")
	}
	for i := 0; i < n; i++ {
		sc := c17script{delay: c17delays[c.Intn(len(c17delays), "delay")], node: c.Intn(r.nNodes, "node")}
		if quota && c.Intn(6, "late") == 5 {
			sc.delay = 47 * time.Second
		}
		sc.thenRelease = c.Intn(4, "then.release") == 3
		sc.hold = c17delays[c.Intn(len(c17delays), "hold")]
		sc.readmit = sc.thenRelease && c.Intn(2, "readmit") == 1
		sc.short = quota && c.Intn(5, "short") == 4
		r.scripts = append(r.scripts, sc)
	}
	nrel := c.Intn(3, "nrel")
	if nrel > r.pre {
		nrel = r.pre
	}
	for i := 0; i < nrel; i++ {
		r.rels = append(r.rels, c17rel{idx: i, delay: c17delays[c.Intn(len(c17delays), "rel.delay")], how: c.Intn(2, "rel.how")})
	}
	r.viaAdapter = c.Intn(3, "path") == 2
	r.quotaErr = c.Intn(4, "userquota") == 3
	if quota {
		r.extraExp = c.Intn(3, "extra.expired")
		if r.extraExp > r.limit {
			r.extraExp = r.limit
		}
		r.extraRev = c.Intn(3, "extra.revoked") == 2
		if r.pre > 0 && c.Intn(3, "short.pre") == 2 {
			r.shortPre = 1
		}
		r.fault = c.Intn(4, "fault") == 3
		r.fNode = c.Intn(r.nNodes, "fault.node")
		r.fK = 1 + c.Intn(30, "fault.k")
	}
	r.g = &c17gauge{w: w, point: r.point, limit: r.limit}
	r.g.desc = fmt.Sprintf("%s limit=%d preset=%d tasks=%d releases=%d", r.point, r.limit, r.pre, n, nrel)
	if quota {
		r.g.desc += fmt.Sprintf(" nodes=%d expired-extras=%d revoked-extra=%v short-preset=%d fault=%v@%d/n%d", r.nNodes, r.extraExp, r.extraRev, r.shortPre, r.fault, r.fK, r.fNode+1)
	}
	if pt == 0 {
		r.g.desc += fmt.Sprintf(" via-adapter=%v", r.viaAdapter)
	}
	if pt == 1 {
		r.g.desc += fmt.Sprintf(" via-session-manager=%v", r.viaAdapter)
	}

	switch pt {
	case 0:
		c17ConnCap(r)
	case 1:
		c17ControlCap(r)
	case 2:
		c17TunnelCap(r)
	case 3:
		c17MappingCap(r)
	case 4:
		c17Quota(r, false)
	default:
		c17Quota(r, true)
	}

	g := r.g
	g.mu.Lock()
	attempts := 0
	for _, s := range g.slots {
		if s.phase == "burst" {
			attempts++
		}
	}
	boundary := g.limit == 0 || r.pre+attempts > g.limit
	nontrivial := (g.overlap && boundary) || (g.faulted != nil && g.faulted()) || r.probeN > 0
	w.State(fmt.Sprintf("%s/L%d/pre%d/n%d/adm%d/ref%d/max%d/rel%d", r.point, r.limit, r.pre, n, g.admits, g.refused, g.max, nrel))
	w.Sample(fmt.Sprintf("%s: admitted=%d refused=%d max-holders=%d overlap=%v", g.desc, g.admits, g.refused, g.max, g.overlap))
	g.mu.Unlock()
	if nontrivial {
		w.Nontrivial()
	}
}

// ---- generic driver for call-style admission points --------------------------------

type c17ops struct {
	admit    func(s *c17slot) error // nil = admitted
	release  func(s *c17slot, how int) error
	count    func() int       // the component's own counter (or the store scan)
	snapshot func() string    // fingerprint of the state a refused request must not change
	limitErr func(error) bool // is this error a refusal because of the limit
	evicts   bool             // the point never refuses: it evicts the oldest holder
	before   func() bool
	atBurst  func()
	settle   func()
	verify   func()
	setShort func(s *c17slot, short bool)
}

var errC17Refused = errors.New("c17: connection was closed by the server instead of being admitted")

func (r *c17run) faulted() bool { return r.g.faulted != nil && r.g.faulted() }

// attempt performs one admission; sequential=true means nothing else runs.
func (r *c17run) attempt(ops *c17ops, s *c17slot, sequential bool) {
	g := r.g
	hiBefore := g.occHi()
	g.begin(s)
	err := ops.admit(s)
	switch {
	case err == nil:
		g.admit(s)
		if ops.count != nil && !g.isDead() {
			g.component(ops.count(), "after admission "+s.name)
		}
	case ops.limitErr(err):
		g.refuse(s, err)
		if r.faulted() {
			return
		}
		if r.limit == 0 {
			g.violation("refused-under-unlimited", "limit 0 means unlimited, but admission %s was refused: %v", s.name, err)
		} else if ops.evicts {
			g.violation("refused-instead-of-evicting", "admission %s was refused: %v", s.name, err)
		} else if sequential && hiBefore < r.limit {
			g.violation("refused-below-limit", "with at most %d holders and limit %d, the sequential admission %s was refused: %v", hiBefore, r.limit, s.name, err)
		}
	default:
		g.refuse(s, err)
		if !r.faulted() {
			g.violation("unexpected-error", "admission %s failed for a reason other than the limit: %v", s.name, err)
		} else {
			r.w.Probe(r.point + ".failed-by-fault")
		}
	}
}

func (r *c17run) doRelease(ops *c17ops, s *c17slot, how int) {
	g := r.g
	g.releasing(s, fmt.Sprintf("how=%d", how))
	r.w.Probe(r.point + ".release")
	g.mu.Lock()
	s.releasing = true
	g.mu.Unlock()
	err := ops.release(s, how)
	g.mu.Lock()
	s.releasing = false
	if err == nil {
		g.logf("%s release returned", s.name)
	}
	g.mu.Unlock()
	if err != nil {
		g.unrelease(s, err)
	}
}

func (r *c17run) quiescent(ops *c17ops, when string) {
	g := r.g
	if g.isDead() {
		return
	}
	if ops.settle != nil {
		ops.settle()
	}
	n := ops.count()
	g.component(n, when)
	if g.isDead() || r.faulted() {
		return
	}
	g.mu.Lock()
	lo, hi := g.boundsLocked()
	g.mu.Unlock()
	if n > hi {
		g.violation("count-mismatch:phantom-holders", "%s: the component counts %d holders, the harness knows of at most %d admitted and unreleased", when, n, hi)
	} else if n < lo {
		g.violation("count-mismatch:lost-holders", "%s: the component counts %d holders, the harness holds at least %d successful unreleased admissions", when, n, lo)
	}
}

func (r *c17run) drive(ops *c17ops) {
	w, g := r.w, r.g
	g.phase = "extras"
	if ops.before != nil && !ops.before() {
		return
	}
	g.phase = "preset"
	var preSlots []*c17slot
	for i := 0; i < r.pre && !g.isDead(); i++ {
		s := g.newSlot(fmt.Sprintf("P%d", i+1))
		if ops.setShort != nil {
			ops.setShort(s, i < r.shortPre)
		}
		r.attempt(ops, s, true)
		if s.admitted {
			preSlots = append(preSlots, s)
		}
	}
	if g.isDead() {
		return
	}
	r.quiescent(ops, "after the sequential preset")
	if g.isDead() {
		return
	}

	g.phase = "burst"
	if ops.atBurst != nil {
		ops.atBurst()
	}
	admitter := func(i int, sc c17script) {
		if sc.delay > 0 {
			w.Sleep(sc.delay)
		}
		w.Yield("c17.admit")
		s := g.newSlot(fmt.Sprintf("A%d", i+1))
		s.node = sc.node
		if ops.setShort != nil {
			ops.setShort(s, sc.short)
		}
		r.attempt(ops, s, false)
		if s.admitted && sc.thenRelease {
			if sc.hold > 0 {
				w.Sleep(sc.hold)
			}
			w.Yield("c17.release")
			r.doRelease(ops, s, i%2)
			if sc.readmit {
				w.Yield("c17.readmit")
				s2 := g.newSlot(fmt.Sprintf("A%d'", i+1))
				s2.node = sc.node
				if ops.setShort != nil {
					ops.setShort(s2, false)
				}
				r.attempt(ops, s2, false)
			}
		}
	}
	releaser := func() {
		for _, rl := range r.rels {
			if rl.idx >= len(preSlots) {
				continue
			}
			if rl.delay > 0 {
				w.Sleep(rl.delay)
			}
			w.Yield("c17.release.preset")
			r.doRelease(ops, preSlots[rl.idx], rl.how)
		}
	}
	if r.fault {
		// storage-error runs: the same requests one after the other, so that an exceeded limit is
		// attributable to the injected error and not to a race
		for i := range r.scripts {
			sc := r.scripts[i]
			if sc.delay < time.Second {
				sc.delay = 0
			}
			admitter(i, sc)
			if i == 0 {
				releaser()
			}
			if g.isDead() {
				return
			}
		}
	} else {
		var tasks []*simrt.Task
		for i := range r.scripts {
			i, sc := i, r.scripts[i]
			tasks = append(tasks, w.Spawn(fmt.Sprintf("adm%d", i+1), func() { admitter(i, sc) }))
		}
		if len(r.rels) > 0 {
			tasks = append(tasks, w.Spawn("releaser", releaser))
		}
		for _, t := range tasks {
			t.Wait()
		}
	}
	w.Yield("c17.joined")
	if g.isDead() {
		return
	}
	r.quiescent(ops, "after the burst")
	if ops.verify != nil && !g.isDead() {
		ops.verify()
	}
	if g.isDead() || r.faulted() {
		return
	}

	// sequential probe at the full boundary
	g.phase = "probe"
	if r.limit == 0 {
		s := g.newSlot("Q1")
		if ops.setShort != nil {
			ops.setShort(s, false)
		}
		r.attempt(ops, s, true)
		return
	}
	for i := 0; g.occHi() < r.limit && i < r.limit+1 && !g.isDead(); i++ {
		s := g.newSlot(fmt.Sprintf("F%d", i+1))
		if ops.setShort != nil {
			ops.setShort(s, false)
		}
		r.attempt(ops, s, true)
		if !s.admitted {
			return
		}
	}
	if g.isDead() || g.occ() != r.limit {
		return // an item is inside its lapse window: the boundary is ambiguous, do not probe
	}
	r.probeN++
	before := ""
	if ops.snapshot != nil {
		before = ops.snapshot()
	}
	x := g.newSlot("X1")
	if ops.setShort != nil {
		ops.setShort(x, false)
	}
	r.attempt(ops, x, true)
	if g.isDead() {
		return
	}
	if ops.evicts {
		r.quiescent(ops, "after the admission at the full cap (eviction expected)")
		if ops.verify != nil && !g.isDead() {
			ops.verify()
		}
		return
	}
	if x.admitted {
		return // the gauge has already flagged it
	}
	if ops.snapshot != nil {
		if after := ops.snapshot(); after != before {
			g.violation("refusal-changed-state", "the refused request %s changed state.\nbefore:\n%s\nafter:\n%s", x.name, before, after)
			return
		}
	}
	w.Probe(r.point + ".refusal-left-state-untouched")
	r.quiescent(ops, "after the refused probe")
}

// ---- stubs ----------------------------------------------------------------------------

// c17stream is a PackageStreamer that only records Close.
type c17stream struct {
	mu      sync.Mutex
	closes  int
	onClose func()
}

func (s *c17stream) GetReader() io.Reader { return nil }
func (s *c17stream) GetWriter() io.Writer { return nil }
func (s *c17stream) ReadPacket() (*packet.TransferPacket, int, error) {
	return nil, 0, io.EOF
}
func (s *c17stream) WritePacket(*packet.TransferPacket, bool, int64) (int, error) { return 0, nil }
func (s *c17stream) ReadExact(int) ([]byte, error)                                { return nil, io.EOF }
func (s *c17stream) WriteExact([]byte) error                                      { return nil }
func (s *c17stream) Close() {
	s.mu.Lock()
	s.closes++
	first := s.closes == 1
	s.mu.Unlock()
	if first && s.onClose != nil {
		s.onClose()
	}
}
func (s *c17stream) closed() bool {
	s.mu.Lock()
	defer s.mu.Unlock()
	return s.closes > 0
}

var _ stream.PackageStreamer = (*c17stream)(nil)

// ---- point 0: server-wide connection cap ---------------------------------------------------

type c17conn struct {
	a, b *simnet.Conn
}

func c17ConnCap(r *c17run) {
	w := r.w
	mem := simstore.NewMemory(w)
	defer mem.Close()
	st := simstore.New(w, "n1", mem)
	var sm *session.SessionManager
	var ad *adapter.SimAdapter
	w.Quiet(func() {
		idm := idgen.NewIDManager(st, w.Ctx)
		sm = session.NewSessionManagerWithConfig(idm, w.Ctx, &session.SessionConfig{
			HeartbeatTimeout: time.Minute, CleanupInterval: 15 * time.Second,
			MaxConnections: r.limit, MaxControlConnections: 0,
		})
		if r.viaAdapter {
			ad = adapter.NewSimAdapterForVerif(w.Ctx, sm)
		}
	})
	defer func() {
		if ad != nil {
			ad.Close()
		}
		sm.Close()
	}()
	listed := func(b *simnet.Conn) string {
		for _, sc := range sm.ListConnections() {
			if sc.RawConn != nil && sc.RawConn == net.Conn(b) {
				return sc.ID
			}
		}
		return ""
	}
	ops := &c17ops{
		admit: func(s *c17slot) error {
			a, b := simnet.NewLink(w, simnet.LinkConfig{NameA: s.name, NameB: s.name + "@srv"})
			s.aux = &c17conn{a: a, b: b}
			if r.viaAdapter {
				// the real accept path: BaseAdapter.handleConnection -> AcceptConnection -> CreateConnection
				ad.Serve(b)
				for i := 0; i < 400; i++ {
					w.Sleep(50 * time.Microsecond)
					if b.Closed() {
						a.Close()
						return errC17Refused
					}
					if id := listed(b); id != "" {
						s.id = id
						return nil
					}
				}
				return errors.New("the server neither admitted nor closed the connection within 20 ms")
			}
			conn, err := sm.CreateConnection(b, b)
			if err != nil {
				a.Close()
				b.Close()
				return err
			}
			s.id = conn.ID
			return nil
		},
		release: func(s *c17slot, how int) error {
			if r.viaAdapter {
				return s.aux.(*c17conn).a.Close() // the read loop sees EOF and closes the connection
			}
			return sm.CloseConnection(s.id)
		},
		count: func() int { return sm.GetConnectionStats().TotalConnections },
		snapshot: func() string {
			var ids []string
			for _, sc := range sm.ListConnections() {
				ids = append(ids, sc.ID)
			}
			sort.Strings(ids)
			_, writes := st.Ops()
			return fmt.Sprintf("connections=%v store-writes=%d", ids, writes)
		},
		limitErr: func(err error) bool {
			return err == errC17Refused || coreerrors.IsCode(err, coreerrors.CodeQuotaExceeded)
		},
	}
	if r.viaAdapter {
		ops.settle = func() { w.Sleep(2 * time.Millisecond) }
		w.Probe("conn-cap.via-adapter")
	}
	r.drive(ops)
}

// ---- point 1: control-connection cap (evict-oldest) ---------------------------------------

func c17ControlCap(r *c17run) {
	w, g := r.w, r.g
	// two paths to the same real registry: a bare ClientRegistry, or the one a SessionManager wires
	// from SessionConfig.MaxControlConnections (RegisterControlConnection / RemoveControlConnection)
	var reg *session.ClientRegistry
	var sm *session.SessionManager
	if r.viaAdapter {
		mem := simstore.NewMemory(w)
		defer mem.Close()
		st := simstore.New(w, "n1", mem)
		w.Quiet(func() {
			sm = session.NewSessionManagerWithConfig(idgen.NewIDManager(st, w.Ctx), w.Ctx, &session.SessionConfig{
				HeartbeatTimeout: time.Minute, CleanupInterval: 15 * time.Second,
				MaxConnections: 0, MaxControlConnections: r.limit,
			})
		})
		defer sm.Close()
		w.Probe("control-cap.via-session-manager")
	} else {
		reg = session.NewClientRegistry(&session.ClientRegistryConfig{MaxConnections: r.limit})
		defer reg.Close()
	}
	registered := func(id string) bool {
		if sm != nil {
			return sm.GetControlConnection(id) != nil
		}
		return reg.GetByConnID(id) != nil
	}
	seq := 0
	ops := &c17ops{
		evicts: true,
		admit: func(s *c17slot) error {
			seq++
			str := &c17stream{}
			str.onClose = func() {
				// the registry closed this holder's stream (eviction or removal): it no longer counts
				g.releasing(s, "stream closed by the registry")
				w.Probe("control-cap.stream-closed")
			}
			cc := session.NewControlConnection("conn-"+s.name, str, simnet.Addr{Net: "sim", S: fmt.Sprintf("10.2.0.%d:4000", seq)}, "tcp")
			s.id, s.aux = cc.ConnID, str
			clientID := int64(90000000 + seq)
			if sm != nil {
				sm.RegisterControlConnection(cc) // logs a refusal instead of returning it
				if sm.GetControlConnection(cc.ConnID) == nil && !str.closed() {
					return errors.New("connection limit reached (not registered)")
				}
				_ = sm.UpdateControlConnectionAuth(cc.ConnID, clientID, "")
				return nil
			}
			if err := reg.Register(cc); err != nil {
				return err
			}
			// what the handshake does next
			_ = reg.UpdateAuth(cc.ConnID, clientID, "")
			return nil
		},
		release: func(s *c17slot, how int) error {
			switch {
			case sm != nil:
				sm.RemoveControlConnection(s.id)
			case how == 0:
				reg.Remove(s.id)
			default:
				reg.Unregister(s.id)
			}
			return nil
		},
		count: func() int {
			if sm != nil {
				return sm.GetConnectionStats().ControlConnections
			}
			return reg.Count()
		},
		limitErr: func(err error) bool { return strings.Contains(err.Error(), "connection limit reached") },
	}
	ops.verify = func() {
		g.mu.Lock()
		var held []*c17slot
		for _, s := range g.slots {
			if s.admitted && !s.gone {
				held = append(held, s)
			}
		}
		g.mu.Unlock()
		for _, s := range held {
			if !registered(s.id) && !s.aux.(*c17stream).closed() {
				g.violation("evicted-without-close", "control connection %s (%s) is no longer registered but its stream was never closed", s.name, s.id)
				return
			}
		}
	}
	r.drive(ops)
}

// ---- point 2: tunnel registry cap (control) -----------------------------------------------

func c17TunnelCap(r *c17run) {
	reg := session.NewTunnelRegistry(&session.TunnelRegistryConfig{MaxTunnels: r.limit})
	defer reg.Close()
	seq := 0
	ops := &c17ops{
		admit: func(s *c17slot) error {
			seq++
			tc := session.NewTunnelConnection("tconn-"+s.name, &c17stream{}, simnet.Addr{Net: "sim", S: fmt.Sprintf("10.3.0.%d:4000", seq)}, "tcp")
			tc.TunnelID = "tunnel-" + s.name
			s.id = tc.ConnID
			return reg.Register(tc)
		},
		release: func(s *c17slot, how int) error { reg.Remove(s.id); return nil },
		count:   func() int { return reg.Count() },
		snapshot: func() string {
			var ids []string
			for _, tc := range reg.List() {
				ids = append(ids, tc.ConnID+"/"+tc.TunnelID)
			}
			sort.Strings(ids)
			return strings.Join(ids, ",")
		},
		limitErr: func(err error) bool { return coreerrors.IsCode(err, coreerrors.CodeResourceExhausted) },
	}
	r.drive(ops)
}

// ---- point 3: per-mapping concurrent connection limit on the listening client ------------------

type c17timeout struct{}

func (c17timeout) Error() string { return "c17: accept timeout" }
func (c17timeout) Timeout() bool { return true }

// c17local is the accepted local connection handed to the real handler.
type c17local struct {
	*simnet.Conn
	s        *c17slot
	g        *c17gauge
	prep     time.Duration
	failPrep bool // PrepareConnection fails for this connection (after it was admitted)
}

func (l *c17local) Close() error {
	l.g.mu.Lock()
	admitted, decided := l.s.admitted, l.s.decided
	l.g.mu.Unlock()
	if !decided {
		l.g.refuse(l.s, errors.New("closed by the handler before PrepareConnection (max connections reached)"))
	} else if admitted {
		l.g.releasing(l.s, "local connection closed by the handler")
	}
	return l.Conn.Close()
}

type c17mapAdapter struct {
	w        *simrt.World
	ctx      context.Context
	g        *c17gauge
	mu       sync.Mutex
	queue    []*c17local
	abnormal func(kind string)
}

func (a *c17mapAdapter) StartListener(config.MappingConfig) error { return nil }
func (a *c17mapAdapter) push(l *c17local) {
	a.mu.Lock()
	a.queue = append(a.queue, l)
	a.mu.Unlock()
}
func (a *c17mapAdapter) Accept() (io.ReadWriteCloser, error) {
	a.w.Yield("c17.accept")
	a.mu.Lock()
	if len(a.queue) > 0 {
		l := a.queue[0]
		a.queue = a.queue[1:]
		a.mu.Unlock()
		return l, nil
	}
	a.mu.Unlock()
	if a.ctx.Err() != nil {
		return nil, a.ctx.Err()
	}
	// like the TCP adapter: a deadline-bounded accept that reports a timeout
	time.Sleep(200 * time.Microsecond)
	a.w.Yield("c17.accept.timeout")
	return nil, c17timeout{}
}
func (a *c17mapAdapter) PrepareConnection(conn io.ReadWriteCloser) error {
	l := conn.(*c17local)
	// the handler calls this only for connections that passed the connection-count check
	a.g.admit(l.s)
	if l.prep > 0 {
		a.w.Sleep(l.prep)
	}
	if l.failPrep {
		if a.abnormal != nil {
			a.abnormal("prepare-failed")
		}
		return errors.New("c17: protocol handshake with the local peer failed")
	}
	return nil
}
func (a *c17mapAdapter) GetProtocol() string { return "tcp" }
func (a *c17mapAdapter) Close() error        { return nil }

// fates of an admitted connection's tunnel (drawn per DialTunnel call)
const (
	c17FateNormal       = iota // established until the user (or the run) closes it
	c17FateDialError           // DialTunnel fails
	c17FatePeerClosed          // the peer reports "tunnel closed" (TunnelManager.OnTunnelClosed) as soon as the tunnel is known
	c17FateFatalError          // a fatal tunnel error notification (TunnelManager.OnTunnelError)
	c17FateCloseTunnel         // the client closes the tunnel through TunnelManager.CloseTunnel
	c17FateTransportEnd        // the tunnel transport ends AND the close notification arrives (two closers)
	c17FateLateNotify          // the close notification arrives after the tunnel is established
)

type c17mapClient struct {
	w         *simrt.World
	ctx       context.Context
	quotaErr  bool
	tm        func() tunnel.TunnelManager
	mu        sync.Mutex
	hold      bool
	dials     int
	quotas    int
	fates     []int  // by dial number
	quotaFail []bool // by CheckMappingQuota call number
	fatesOff  bool   // probe phase: every tunnel lives normally
	abnormal  int    // abnormal ends that actually happened in this run
	notifiers int    // notifier tasks still running
}

func (c *c17mapClient) setHold(h bool) {
	c.mu.Lock()
	c.hold = h
	c.mu.Unlock()
}
func (c *c17mapClient) held() bool {
	c.mu.Lock()
	defer c.mu.Unlock()
	return c.hold
}
func (c *c17mapClient) setFatesOff(v bool) {
	c.mu.Lock()
	c.fatesOff = v
	c.mu.Unlock()
}
func (c *c17mapClient) abnormalEnds() int {
	c.mu.Lock()
	defer c.mu.Unlock()
	return c.abnormal
}
func (c *c17mapClient) pendingNotifiers() int {
	c.mu.Lock()
	defer c.mu.Unlock()
	return c.notifiers
}
func (c *c17mapClient) noteAbnormal(kind string) {
	c.mu.Lock()
	c.abnormal++
	c.mu.Unlock()
	c.w.Probe("mapping-cap.end." + kind)
}

func (c *c17mapClient) DialTunnel(tunnelID, mappingID, secretKey string) (net.Conn, stream.PackageStreamer, error) {
	c.w.Yield("c17.dial")
	c.mu.Lock()
	c.dials++
	k := c.dials
	fate := c17FateNormal
	if !c.fatesOff && len(c.fates) > 0 {
		fate = c.fates[(k-1)%len(c.fates)]
	}
	c.mu.Unlock()
	for c.held() {
		if c.ctx.Err() != nil || c.w.Free() {
			return nil, nil, errors.New("c17: dial cancelled")
		}
		c.w.Sleep(250 * time.Microsecond)
	}
	if fate == c17FateDialError {
		c.noteAbnormal("dial-error")
		return nil, nil, errors.New("c17: the server refused the tunnel")
	}
	ta, tb := simnet.NewLink(c.w, simnet.LinkConfig{NameA: fmt.Sprintf("tun%d", k), NameB: fmt.Sprintf("tun%d@srv", k)})
	// the far end of the tunnel: a peer that closes when the listener side has finished
	c.w.Spawn(fmt.Sprintf("tunnel-peer-%d", k), func() {
		buf := make([]byte, 256)
		for {
			if _, err := tb.Read(buf); err != nil {
				break
			}
		}
		tb.Close()
	})
	if fate != c17FateNormal && c.tm != nil {
		c.mu.Lock()
		c.notifiers++
		c.mu.Unlock()
		c.w.Spawn(fmt.Sprintf("tunnel-notifier-%d", k), func() {
			defer func() {
				c.mu.Lock()
				c.notifiers--
				c.mu.Unlock()
			}()
			c.notify(fate, tunnelID, mappingID, tb)
		})
	}
	return ta, stream.NewStreamProcessor(ta, ta, c.ctx), nil
}

// notify ends a tunnel the way the rest of the client does: through the handler's TunnelManager, as
// soon as the tunnel is known there (the notification may overtake the handler's own start-up) or later.
func (c *c17mapClient) notify(fate int, tunnelID, mappingID string, far *simnet.Conn) {
	w := c.w
	if fate == c17FateLateNotify {
		w.Sleep(300 * time.Microsecond)
	}
	tm := c.tm()
	found := false
	for round := 0; round < 3 && !found; round++ {
		for i := 0; i < 300; i++ {
			if c.ctx.Err() != nil || w.Free() {
				return
			}
			if tm.GetTunnel(tunnelID) != nil {
				found = true
				break
			}
			w.Yield("c17.notify.wait")
		}
		if !found {
			w.Sleep(100 * time.Microsecond)
		}
	}
	if !found {
		w.Probe("mapping-cap.notification-without-tunnel")
		return
	}
	for lag := w.Draw(8, "notify.lag"); lag > 0; lag-- {
		w.Yield("c17.notify.lag")
	}
	switch fate {
	case c17FatePeerClosed, c17FateLateNotify:
		c.noteAbnormal("peer-closed-notification")
		tm.OnTunnelClosed(tunnelID, mappingID, "target unreachable", 0, 0, 0)
	case c17FateFatalError:
		c.noteAbnormal("fatal-error-notification")
		tm.OnTunnelError(tunnelID, mappingID, "TARGET_UNREACHABLE", "dial to the target failed", false)
	case c17FateCloseTunnel:
		c.noteAbnormal("close-tunnel")
		_ = tm.CloseTunnel(tunnelID, tunnel.CloseReasonPeerClosed)
	case c17FateTransportEnd:
		c.noteAbnormal("transport-end-and-notification")
		far.Close()
		w.Yield("c17.notify.after-transport-end")
		tm.OnTunnelClosed(tunnelID, mappingID, "peer closed", 0, 0, 0)
	}
}
func (c *c17mapClient) DialTunnelPooled(string, string) (mapping.PooledTunnelConnInterface, error) {
	return nil, nil
}
func (c *c17mapClient) ReturnTunnelToPool(mapping.PooledTunnelConnInterface)  {}
func (c *c17mapClient) CloseTunnelFromPool(mapping.PooledTunnelConnInterface) {}
func (c *c17mapClient) IsTunnelPoolEnabled() bool                             { return false }
func (c *c17mapClient) GetContext() context.Context                           { return c.ctx }
func (c *c17mapClient) CheckMappingQuota(string) error {
	c.mu.Lock()
	c.quotas++
	fail := !c.fatesOff && len(c.quotaFail) > 0 && c.quotaFail[(c.quotas-1)%len(c.quotaFail)]
	c.mu.Unlock()
	if fail {
		c.noteAbnormal("traffic-quota-refusal")
		return errors.New("c17: monthly traffic quota exhausted")
	}
	return nil
}
func (c *c17mapClient) TrackTraffic(string, int64, int64) error { return nil }
func (c *c17mapClient) GetUserQuota() (*models.UserQuota, error) {
	if c.quotaErr {
		return nil, errors.New("c17: quota service unavailable")
	}
	return &models.UserQuota{MaxConnections: 0}, nil
}
func (c *c17mapClient) GetServerProtocol() string { return "tcp" }
func (c *c17mapClient) SendTunnelCloseNotify(int64, string, string, string) error {
	return nil
}

type c17mconn struct {
	user  *simnet.Conn
	local *c17local
}

func c17MappingCap(r *c17run) {
	w, g := r.w, r.g
	c := w.C
	ctx, cancel := context.WithCancel(w.Ctx)
	defer cancel()
	cl := &c17mapClient{w: w, ctx: ctx, quotaErr: r.quotaErr && r.limit == 0}
	// how the admitted connections end (all draws before any task exists): half of the runs are plain
	// (every tunnel lives until the user closes it), in the others each DialTunnel call draws a fate
	var prepFail []bool
	if c.Intn(2, "fates") == 1 {
		for i := 0; i < 16; i++ {
			f := c17FateNormal
			if v := c.Intn(12, "fate"); v >= 6 {
				f = v - 5 // 1..6
			}
			cl.fates = append(cl.fates, f)
			cl.quotaFail = append(cl.quotaFail, c.Intn(12, "fate.quota") == 11)
			prepFail = append(prepFail, c.Intn(12, "fate.prepare") == 11)
		}
		g.desc += " abnormal-ends=on"
	}
	ad := &c17mapAdapter{w: w, ctx: ctx, g: g, abnormal: cl.noteAbnormal}
	h := mapping.NewBaseMappingHandler(cl, config.MappingConfig{
		MappingID: "pmap_c17", SecretKey: "k", Protocol: "tcp", LocalPort: 18080,
		TargetHost: "127.0.0.1", TargetPort: 80, MaxConnections: r.limit,
	}, ad)
	cl.tm = h.GetTunnelManager
	if err := h.Start(); err != nil {
		w.Violationf("C17:harness", "mapping handler did not start: %v", err)
		return
	}
	defer h.Stop()

	// class of an exceed: by the schedule that produced it
	g.classOf = func(s *c17slot) string {
		if cl.abnormal > 0 {
			// connections of this run ended by a close/error notification, a failed dial, a failed
			// handshake or a quota refusal before the limit was exceeded
			return "after-abnormal-close"
		}
		inSetup := 0
		for _, t := range g.slots {
			if t.admitted && !t.gone && t.phase == "burst" && cl.hold {
				inSetup++
			}
		}
		switch {
		case s.phase == "burst" && inSetup > g.limit:
			return "racing-admissions"
		case s.phase == "burst":
			return "racing-after-established"
		}
		return "sequential-after-established"
	}
	g.extra = func() string {
		return fmt.Sprintf("handler's activeConnCount=%d, tunnels registered in its TunnelManager=%d, abnormal ends so far=%d", h.ActiveConnCountForVerif(), h.GetTunnelManager().CountTunnels(), cl.abnormalEnds())
	}
	seq := 0
	offer := func(s *c17slot) {
		seq++
		ua, ub := simnet.NewLink(w, simnet.LinkConfig{NameA: s.name + ".user", NameB: s.name + ".local"})
		lc := &c17local{Conn: ub, s: s, g: g, prep: time.Duration(seq) * 7 * time.Microsecond}
		if len(prepFail) > 0 && g.phase != "probe" {
			lc.failPrep = prepFail[(seq-1)%len(prepFail)]
		}
		s.aux = &c17mconn{user: ua, local: lc}
		s.id = s.name
		g.begin(s)
		ad.push(lc)
	}
	await := func(s *c17slot) bool {
		for i := 0; i < 400; i++ {
			if g.isDecided(s) {
				return true
			}
			w.Sleep(100 * time.Microsecond)
		}
		g.violation("undecided", "connection %s was neither admitted nor closed within 40 ms", s.name)
		return false
	}
	release := func(s *c17slot) {
		g.releasing(s, "user closes")
		w.Probe("mapping-cap.release")
		s.aux.(*c17mconn).user.Close()
	}
	// settle waits (bounded) until nothing is in flight: no pending notification, every connection the
	// harness counts as gone has been closed by the handler, and everything runnable has run. Simulated
	// time only advances when no task is runnable, so the final sleep is a real quiescence point.
	settle := func() bool {
		for i := 0; i < 300; i++ {
			pending := cl.pendingNotifiers() > 0
			g.mu.Lock()
			for _, s := range g.slots {
				if mc, ok := s.aux.(*c17mconn); ok && s.admitted && s.gone && !mc.local.Conn.Closed() {
					pending = true
				}
			}
			g.mu.Unlock()
			if !pending {
				w.Sleep(200 * time.Microsecond)
				return true
			}
			w.Sleep(100 * time.Microsecond)
		}
		w.Probe("mapping-cap.unsettled")
		return false
	}
	// drift compares the handler's own counter with the connections that are really open
	drift := func(when string) string {
		if !settle() {
			return ""
		}
		n := h.ActiveConnCountForVerif()
		g.mu.Lock()
		lo, hi := g.boundsLocked()
		g.mu.Unlock()
		switch {
		case n < lo:
			return fmt.Sprintf("lost-holders|%s: the handler's activeConnCount is %d while %d admitted connections are open (tunnels registered: %d, abnormal ends so far: %d): the counter has been given back more often than it was taken, so the handler will admit more than the limit",
				when, n, lo, h.GetTunnelManager().CountTunnels(), cl.abnormalEnds())
		case n > hi:
			return fmt.Sprintf("phantom-holders|%s: the handler's activeConnCount is %d while only %d admitted connections are open (tunnels registered: %d, abnormal ends so far: %d): a slot was never given back",
				when, n, hi, h.GetTunnelManager().CountTunnels(), cl.abnormalEnds())
		}
		return ""
	}
	flagDrift := func(d string) {
		if d == "" || g.isDead() {
			return
		}
		i := strings.Index(d, "|")
		g.violation("count-mismatch:"+d[:i], "%s", d[i+1:])
	}
	sequential := func(s *c17slot, mustAdmit bool) bool {
		settled := settle()
		mustAdmit = mustAdmit && settled
		hi := g.occHi()
		offer(s)
		if !await(s) {
			return false
		}
		if !s.admitted && r.limit == 0 {
			g.violation("refused-under-unlimited", "limit 0 means unlimited, but connection %s was refused", s.name)
			return false
		}
		if !s.admitted && mustAdmit && hi < r.limit {
			g.violation("refused-below-limit", "with at most %d open connections and limit %d, connection %s was refused", hi, r.limit, s.name)
			return false
		}
		w.Sleep(time.Millisecond) // let the tunnel establish and the handler return
		return !g.isDead()
	}

	// 1. preset: established connections
	g.phase = "preset"
	var preSlots []*c17slot
	for i := 0; i < r.pre; i++ {
		s := g.newSlot(fmt.Sprintf("P%d", i+1))
		if !sequential(s, true) {
			return
		}
		if s.admitted {
			preSlots = append(preSlots, s)
		}
	}

	pendingDrift := drift("after the sequential preset")

	// 2. burst: N connections arrive while every admitted one is still dialling its tunnel
	g.phase = "burst"
	cl.setHold(true)
	var tasks []*simrt.Task
	for i := range r.scripts {
		i, sc := i, r.scripts[i]
		s := g.newSlot(fmt.Sprintf("A%d", i+1))
		tasks = append(tasks, w.Spawn(fmt.Sprintf("user%d", i+1), func() {
			if sc.delay > 0 {
				w.Sleep(sc.delay / 4)
			}
			w.Yield("c17.offer")
			offer(s)
			if !await(s) {
				return
			}
			if s.admitted && sc.thenRelease {
				w.Sleep(sc.hold/4 + 50*time.Microsecond)
				release(s)
			}
		}))
	}
	if len(r.rels) > 0 {
		tasks = append(tasks, w.Spawn("releaser", func() {
			for _, rl := range r.rels {
				if rl.idx >= len(preSlots) {
					continue
				}
				w.Sleep(rl.delay/4 + 20*time.Microsecond)
				release(preSlots[rl.idx])
			}
		}))
	}
	for _, t := range tasks {
		t.Wait()
	}
	w.Yield("c17.joined")
	if g.isDead() {
		return
	}
	// every handler has decided; give the refusing ones time to return (an implementation may count a
	// connection while it is being refused), then the admitted ones are all inside DialTunnel
	w.Sleep(300 * time.Microsecond)
	g.component(h.ActiveConnCountForVerif(), "activeConnCount while every admitted connection of the burst is dialling")
	cl.setHold(false)
	w.Sleep(3 * time.Millisecond)
	if g.isDead() {
		return
	}

	if d := drift("after the burst"); d != "" && pendingDrift == "" {
		pendingDrift = d
	}
	// a drifted counter is reported after the probe had its chance to show the limit itself exceeded
	defer func() {
		if !g.isDead() {
			if d := drift("at the end of the run"); d != "" {
				pendingDrift = d
			}
		}
		flagDrift(pendingDrift)
	}()

	// 3. sequential probe with established connections
	g.phase = "probe"
	cl.setFatesOff(true)
	if r.limit == 0 {
		sequential(g.newSlot("Q1"), true)
		return
	}
	for i := 0; g.occHi() < r.limit && i < r.limit+1; i++ {
		if !sequential(g.newSlot(fmt.Sprintf("F%d", i+1)), true) {
			return
		}
	}
	if g.occ() != r.limit {
		return
	}
	r.probeN++
	cntBefore, tunBefore := h.ActiveConnCountForVerif(), h.GetTunnelManager().CountTunnels()
	x := g.newSlot("X1")
	if !sequential(x, false) {
		return
	}
	if !x.admitted {
		if a, t := h.ActiveConnCountForVerif(), h.GetTunnelManager().CountTunnels(); a != cntBefore || t != tunBefore {
			g.violation("refusal-changed-state", "the refused connection changed the handler: activeConnCount %d -> %d, tunnels %d -> %d", cntBefore, a, tunBefore, t)
			return
		}
		w.Probe("mapping-cap.refusal-left-state-untouched")
	}
}

// ---- points 4/5: per-client quotas of the connection-code service ---------------------------------

type c17node struct {
	name string
	st   *simstore.Store
	svc  *services.ConnectionCodeService
}

type c17code struct {
	code   string
	mapDur time.Duration
}

const (
	c17Short = 20 * time.Second
	c17Long  = 10 * time.Minute
)

func c17Quota(r *c17run, mappings bool) {
	w, g := r.w, r.g
	ctx, cancel := context.WithCancel(w.Ctx)
	defer cancel()
	mem := simstore.NewMemory(w)
	defer mem.Close()
	codeLimit, mapLimit := r.limit, 50
	if mappings {
		codeLimit, mapLimit = 10, r.limit
	}
	var nodes []*c17node
	failAt, faultOp := 0, ""
	seen := make([]int, r.nNodes)
	for i := 0; i < r.nNodes; i++ {
		n := &c17node{name: fmt.Sprintf("n%d", i+1)}
		n.st = simstore.New(w, n.name, mem)
		nd, ni := n, i
		n.st.Filter = func(op, key string) bool {
			g.mu.Lock()
			seen[ni]++
			mark := ""
			if failAt > 0 && ni == r.fNode && seen[ni] == failAt {
				mark = "   <== injected storage error"
				faultOp = "read"
				switch op {
				case "Set", "Delete", "SetNX", "CompareAndSwap", "SetList", "AppendToList", "RemoveFromList", "SetHash", "DeleteHash", "Incr", "IncrBy", "SetExpiration":
					faultOp = "write"
				}
			}
			if g.phase == "burst" || g.phase == "probe" {
				g.logf("   %s %s %s%s", nd.name, op, strings.TrimPrefix(key, "tunnox:"), mark)
			}
			g.mu.Unlock()
			return true
		}
		w.Quiet(func() {
			repo := repos.NewRepository(n.st)
			ccRepo := repos.NewConnectionCodeRepository(repo)
			mRepo := repos.NewPortMappingRepo(repo)
			idm := idgen.NewIDManager(n.st, ctx)
			pms := services.NewPortMappingService(mRepo, idm, nil, ctx)
			n.svc = services.NewConnectionCodeService(ccRepo, pms, mRepo, &services.ConnectionCodeServiceConfig{
				MaxActiveCodesPerClient: codeLimit, MaxActiveMappingsPerClient: mapLimit,
			}, ctx)
		})
		nodes = append(nodes, n)
	}
	g.faultClass = func() string { return "store-error-on-" + faultOp }
	g.faulted = func() bool { return faultOp != "" }

	const target, listen, other = int64(10010001), int64(20020002), int64(30030003)
	addrSeq := 0
	newReq := func(tgt int64, ttl, mapDur time.Duration) *services.CreateConnectionCodeRequest {
		addrSeq++
		return &services.CreateConnectionCodeRequest{
			TargetClientID: tgt, TargetAddress: fmt.Sprintf("tcp://10.9.%d.%d:%d", addrSeq/200, addrSeq%200+1, 3000+addrSeq),
			ActivationTTL: ttl, MappingDuration: mapDur, CreatedBy: "c17",
		}
	}
	listenAddr := func() string {
		addrSeq++
		return fmt.Sprintf("0.0.0.0:%d", 20000+addrSeq)
	}

	// the oracle's own reading of the shared store (primary records, not the indexes)
	scan := func() int {
		n := 0
		now := time.Now()
		if mappings {
			recs, _ := mem.QueryByPrefix(constants.KeyPrefixPortMapping+":", 0)
			for _, k := range sortedKeys(recs) {
				var m models.PortMapping
				if json.Unmarshal([]byte(recs[k]), &m) != nil {
					continue
				}
				if m.ListenClientID == listen && m.Status == models.MappingStatusActive && !m.IsRevoked && (m.ExpiresAt == nil || now.Before(*m.ExpiresAt)) {
					n++
				}
			}
			return n
		}
		recs, _ := mem.QueryByPrefix(constants.KeyPrefixRuntimeConnectionCodeByID, 0)
		for _, k := range sortedKeys(recs) {
			var cc models.TunnelConnectionCode
			if json.Unmarshal([]byte(recs[k]), &cc) != nil {
				continue
			}
			if cc.TargetClientID == target && !cc.IsRevoked && !cc.IsActivated && now.Before(cc.ActivationExpiresAt) {
				n++
			}
		}
		return n
	}
	dump := func() string {
		recs, _ := mem.QueryByPrefix("tunnox:", 0)
		var b strings.Builder
		for _, k := range sortedKeys(recs) {
			v := recs[k]
			if strings.HasPrefix(k, constants.KeyPrefixIndexConnectionCodeByTarget) {
				// an index entry whose record has lapsed is garbage the count path may collect
				var ids []string
				if json.Unmarshal([]byte(v), &ids) == nil {
					var live []string
					for _, id := range ids {
						if _, ok := recs[constants.KeyPrefixRuntimeConnectionCodeByID+id]; ok {
							live = append(live, id)
						}
					}
					v = strings.Join(live, ",")
				}
			}
			fmt.Fprintf(&b, "%s = %s\n", strings.TrimPrefix(k, "tunnox:"), v)
		}
		return b.String()
	}

	// mapping quota: a pool of fresh codes (from several target clients) made before the race
	var pool []*c17code
	short := map[*c17slot]bool{}
	var shortMu sync.Mutex
	isShort := func(s *c17slot) bool {
		shortMu.Lock()
		defer shortMu.Unlock()
		return short[s]
	}

	ops := &c17ops{
		setShort: func(s *c17slot, sh bool) {
			shortMu.Lock()
			short[s] = sh
			shortMu.Unlock()
		},
		count:    scan,
		snapshot: dump,
		limitErr: func(err error) bool { return coreerrors.IsCode(err, coreerrors.CodeQuotaExceeded) },
	}
	if !mappings {
		ops.admit = func(s *c17slot) error {
			ttl := c17Long
			if isShort(s) {
				ttl = c17Short
			}
			cc, err := nodes[s.node].svc.CreateConnectionCode(newReq(target, ttl, time.Hour))
			if err != nil {
				return err
			}
			s.id, s.ttl = cc.Code, ttl
			return nil
		}
		ops.release = func(s *c17slot, how int) error {
			if how == 0 {
				return nodes[s.node].svc.RevokeConnectionCode(s.id, "c17")
			}
			// consumed by somebody else's activation
			_, err := nodes[s.node].svc.ActivateConnectionCode(&services.ActivateConnectionCodeRequest{Code: s.id, ListenClientID: other, ListenAddress: listenAddr()})
			return err
		}
	} else {
		ops.admit = func(s *c17slot) error {
			var cd *c17code
			want := c17Long * 6
			if isShort(s) {
				want = c17Short
			}
			for i := 0; i < len(pool); i++ {
				if pool[i] != nil && pool[i].mapDur == want {
					cd, pool[i] = pool[i], nil
					break
				}
			}
			if cd == nil {
				return errors.New("c17: code pool exhausted")
			}
			m, err := nodes[s.node].svc.ActivateConnectionCode(&services.ActivateConnectionCodeRequest{Code: cd.code, ListenClientID: listen, ListenAddress: listenAddr()})
			if err != nil {
				return err
			}
			s.id = m.ID
			if isShort(s) {
				s.ttl = c17Short
			}
			return nil
		}
		ops.release = func(s *c17slot, how int) error {
			return nodes[s.node].svc.RevokeMapping(s.id, listen, "c17")
		}
	}

	ops.before = func() bool {
		if mappings {
			// codes for every admission of the run: long-lived mappings and a few short-lived ones
			nLong := r.pre + 2*len(r.scripts) + r.limit + 4
			nShort := r.extraExp + r.shortPre + len(r.scripts) + 1
			mk := func(i int, dur time.Duration) bool {
				tgt := target + int64(i/8) // at most 8 active codes per target client (code quota is 10)
				cc, err := nodes[0].svc.CreateConnectionCode(newReq(tgt, c17Long, dur))
				if err != nil {
					g.violation("unexpected-error", "preparing a connection code failed: %v", err)
					return false
				}
				pool = append(pool, &c17code{code: cc.Code, mapDur: dur})
				return true
			}
			for i := 0; i < nLong; i++ {
				if !mk(i, c17Long*6) {
					return false
				}
			}
			for i := 0; i < nShort; i++ {
				if !mk(nLong+i, c17Short) {
					return false
				}
			}
		}
		// items that must not count at the boundary: lapsed and revoked ones
		var extras []*c17slot
		for i := 0; i < r.extraExp; i++ {
			s := g.newSlot(fmt.Sprintf("E%d", i+1))
			ops.setShort(s, true)
			r.attempt(ops, s, true)
			if g.isDead() {
				return false
			}
			extras = append(extras, s)
		}
		if r.extraRev && len(extras) < r.limit {
			s := g.newSlot("R1")
			ops.setShort(s, false)
			r.attempt(ops, s, true)
			if g.isDead() {
				return false
			}
			if s.admitted {
				r.doRelease(ops, s, 0)
			}
			w.Probe(r.point + ".revoked-extra")
		}
		if len(extras) > 0 {
			w.Sleep(31 * time.Second)
			w.Probe(r.point + ".expired-extra")
		}
		return !g.isDead()
	}
	ops.atBurst = func() {
		if r.fault {
			n, _ := nodes[r.fNode].st.Ops()
			failAt = n + r.fK
			nodes[r.fNode].st.FailAt = failAt
		}
	}
	r.drive(ops)
	if failAt > 0 && g.faulted() {
		w.Probe(r.point + ".fault-fired")
	}
}

func sortedKeys(m map[string]string) []string {
	out := make([]string, 0, len(m))
	for k := range m {
		out = append(out, k)
	}
	sort.Strings(out)
	return out
}
