//go:build verif

// Package verifhook is the seam between instrumented tunnox-core code and the
// deterministic simulator in /verif. It is copied into a scratch copy of the
// repository by /verif's build; it never exists in /repo itself.
//
// Every function is a pass-through when no simulator is installed, so the
// instrumented tree behaves exactly like the original (this is what the
// pass-through validation of the instrumenter relies on).
package verifhook

import (
	"cmp"
	"fmt"
	"slices"
	"sort"
	"sync"
	"sync/atomic"
)

// Runtime is implemented by the simulator.
type Runtime interface {
	Yield(site string)
	Lock(site string, try func() bool, lock func())
	Unlocked()
	Go(site string, f func())
	Suppress(delta int)
	// OnceEnter serialises callers of one sync.Once at scheduler level (a second caller parks as a
	// lock waiter until OnceLeave), so the Do body may park without wedging anybody on the Once's
	// internal mutex.
	OnceEnter(o *sync.Once)
	OnceLeave(o *sync.Once)
	// PoolGet/PoolPut give sync.Pool a per-run deterministic LIFO (a real pool's content depends on
	// earlier runs in the same process and on GC timing).
	PoolGet(p *sync.Pool) any
	PoolPut(p *sync.Pool, x any)
	// SelectOrder returns the order in which the n communication cases of a select are polled.
	SelectOrder(n int) []int
}

var rt Runtime

// Install sets (or clears, with nil) the active simulator. It must only be
// called while no instrumented goroutine is running.
func Install(r Runtime) { rt = r }

// Active reports whether a simulator is installed.
func Active() bool { return rt != nil }

// Yield is a scheduling point.
func Yield(site string) {
	if r := rt; r != nil {
		r.Yield(site)
	}
}

// Lock replaces X.Lock() / X.RLock(): try is X.TryLock / X.TryRLock.
func Lock(site string, try func() bool, lock func()) {
	if r := rt; r != nil {
		r.Lock(site, try, lock)
		return
	}
	lock()
}

// Unlock replaces X.Unlock() / X.RUnlock().
func Unlock(unlock func()) {
	unlock()
	if r := rt; r != nil {
		r.Unlocked()
	}
}

// Go replaces a go statement.
func Go(site string, f func()) {
	if r := rt; r != nil {
		r.Go(site, f)
		return
	}
	go f()
}

// OnceDo replaces once.Do(f).
func OnceDo(o *sync.Once, f func()) {
	r := rt
	if r == nil {
		o.Do(f)
		return
	}
	r.OnceEnter(o)
	defer r.OnceLeave(o)
	o.Do(f)
}

// SelectOrder is called by rewritten select statements: with a simulator it returns the polling
// order of the n communication cases (drawn from the choice stream); without one it returns nil and
// the original select runs untouched.
func SelectOrder(n int) []int {
	if r := rt; r != nil {
		return r.SelectOrder(n)
	}
	return nil
}

// PoolGet replaces p.Get() on a sync.Pool.
func PoolGet(p *sync.Pool) any {
	if r := rt; r != nil {
		return r.PoolGet(p)
	}
	return p.Get()
}

// PoolPut replaces p.Put(x) on a sync.Pool.
func PoolPut(p *sync.Pool, x any) {
	if r := rt; r != nil {
		r.PoolPut(p, x)
		return
	}
	p.Put(x)
}

// SortedKeys returns the keys of m in ascending order. Rewritten map range
// loops iterate over this snapshot so that iteration order is not a hidden
// source of nondeterminism.
func SortedKeys[M ~map[K]V, K cmp.Ordered, V any](m M) []K {
	keys := make([]K, 0, len(m))
	for k := range m {
		keys = append(keys, k)
	}
	slices.Sort(keys)
	return keys
}

// SyncMapRange replaces m.Range(f) of a sync.Map: it snapshots the map through the real Range,
// orders the entries by the printed form of their keys and calls f in that order until it
// returns false. Iteration order becomes a function of the content, not of the process's hash seed.
func SyncMapRange(rangeFn func(func(key, value any) bool), f func(key, value any) bool) {
	type kv struct {
		s    string
		k, v any
	}
	Yield("sync.Map.Range")
	var all []kv
	rangeFn(func(k, v any) bool {
		all = append(all, kv{fmt.Sprintf("%T:%v", k, k), k, v})
		return true
	})
	sort.SliceStable(all, func(i, j int) bool { return all[i].s < all[j].s })
	for _, e := range all {
		if !f(e.k, e.v) {
			return
		}
	}
}

// moved counts the bytes that instrumented code moved in bulk (copy, append(x, y...) of bytes):
// a deterministic cost measure for oracles about work per input byte.
var moved atomic.Int64

// Copied wraps copy(dst, src): it receives copy's result.
func Copied(n int) int {
	moved.Add(int64(n))
	return n
}

// MovedBytes wraps the y of append(x, y...).
func MovedBytes[S ~[]byte](s S) S {
	moved.Add(int64(len(s)))
	return s
}

// MovedString wraps the y of append(x, y...) when y is a string.
func MovedString[S ~string](s S) S {
	moved.Add(int64(len(s)))
	return s
}

// BytesMoved returns the process-wide number of bytes moved so far.
func BytesMoved() int64 { return moved.Load() }
