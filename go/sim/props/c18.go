package props

import (
	"context"
	"fmt"
	"net"
	"sort"
	"strings"
	"time"

	"tunnox-core/internal/security"
	"tunnox-core/verifsim/simrt"
	"tunnox-core/verifsim/simstore"
)

// C18 — repeated authentication failures lock an address out for the ban period.
//
// Component-level configuration: the real BruteForceProtector, IPManager (on a
// simstore over the real memory backend) and RateLimiter with their background
// cleanup tickers on the fake clock, driven by 2-3 caller tasks that perform
// the same gate sequence as ServerAuthHandler.HandleHandshake (IsAllowed ->
// IsBanned -> AllowIP for anonymous registrations -> authentication latency ->
// RecordFailure/RecordSuccess) plus plain queries and the manual management
// calls. Every component call is recorded with call/return stamps and its
// simulated instant; the oracles run offline over that history and only use the
// configuration and the property text (no implementation state).

const c18Margin = time.Millisecond // boundary instants closer than this are don't-care

type c18cfg struct {
	maxFail int
	permAt  int
	window  time.Duration
	ban     time.Duration
	cleanup time.Duration
	rate    int
	burst   int
	ttl     time.Duration
}

type c18op struct {
	kind    string // fail succ isbanned isallowed allowip ban unban bladd blrem wladd wlrem
	ip      string // address (queries, fail/succ, ban/unban)
	key     string // list key (ip or CIDR) for bl*/wl*
	dur     time.Duration
	call    int64
	ret     int64
	t       time.Duration
	t2      time.Duration
	refused bool
	task    string
}

func (o *c18op) String() string {
	s := fmt.Sprintf("%s@%v[%d,%d] %s", o.task, o.t, o.call, o.ret, o.kind)
	switch o.kind {
	case "bladd":
		s += fmt.Sprintf("(%s,%v)", o.key, o.dur)
	case "blrem", "wladd", "wlrem":
		s += "(" + o.key + ")"
	case "ban":
		s += fmt.Sprintf("(%s,%v)", o.ip, o.dur)
	case "isbanned", "isallowed", "allowip":
		s += fmt.Sprintf("(%s)=%s", o.ip, map[bool]string{false: "admit", true: "REFUSE"}[o.refused])
	default:
		s += "(" + o.ip + ")"
	}
	return s
}

func c18before(a, b *c18op) bool { return a.ret < b.call }

type c18world struct {
	w    *simrt.World
	cfg  c18cfg
	bf   *security.BruteForceProtector
	ipm  *security.IPManager
	rl   *security.RateLimiter
	hist []*c18op
	ips  []string
	keys []string
	// workload heuristics only (never used by the oracles)
	lastFail map[string]time.Duration
	lastBL   time.Duration
	lastBLd  time.Duration
	lastAnon map[string]time.Duration
}

func (s *c18world) do(task, kind, ip, key string, dur time.Duration, f func() bool) *c18op {
	op := &c18op{kind: kind, ip: ip, key: key, dur: dur, task: task, call: s.w.Stamp(), t: s.w.Now()}
	op.refused = f()
	op.ret = s.w.Stamp()
	op.t2 = s.w.Now()
	s.hist = append(s.hist, op)
	s.w.Logf("%s", op.String())
	return op
}

func (s *c18world) isAllowed(task, ip string) *c18op {
	return s.do(task, "isallowed", ip, "", 0, func() bool { ok, _ := s.ipm.IsAllowed(ip); return !ok })
}
func (s *c18world) isBanned(task, ip string) *c18op {
	return s.do(task, "isbanned", ip, "", 0, func() bool { b, _ := s.bf.IsBanned(ip); return b })
}
func (s *c18world) allowIP(task, ip string) *c18op {
	op := s.do(task, "allowip", ip, "", 0, func() bool { return !s.rl.AllowIP(ip) })
	s.lastAnon[ip] = op.t
	return op
}
func (s *c18world) fail(task, ip string) {
	op := s.do(task, "fail", ip, "", 0, func() bool { return s.bf.RecordFailure(ip) })
	s.lastFail[ip] = op.t
}
func (s *c18world) succ(task, ip string) {
	s.do(task, "succ", ip, "", 0, func() bool { s.bf.RecordSuccess(ip); return false })
}

// attempt is the gate sequence of HandleHandshake on the real components.
func (s *c18world) attempt(task, ip string, anon bool, latency int, fail bool) {
	if s.isAllowed(task, ip).refused {
		return
	}
	if s.isBanned(task, ip).refused {
		return
	}
	if anon && s.allowIP(task, ip).refused {
		return
	}
	switch latency { // the authentication itself (storage look-up, HMAC) takes time
	case 1:
		s.w.Yield("c18.auth")
	case 2:
		s.w.Sleep(3 * time.Millisecond)
	case 3:
		s.w.Sleep(2 * time.Second)
	case 4:
		s.w.Sleep(20 * time.Second)
	}
	if fail {
		s.fail(task, ip)
	} else {
		s.succ(task, ip)
	}
}

// gap sleeps the calling task to an instant drawn relative to the boundaries
// that matter for ip: window end, ban end, cleanup ticks, blacklist expiry,
// token refill, bucket TTL.
func (s *c18world) gap(task, ip string) {
	w := s.w
	d := []time.Duration{3 * time.Millisecond, 40 * time.Millisecond, 900 * time.Millisecond}[w.Draw(3, "gap.delta")]
	now := w.Now()
	lf := s.lastFail[ip]
	tick := func(iv time.Duration) time.Duration {
		if iv > time.Hour {
			return now
		}
		return (now/iv + 1) * iv
	}
	per := time.Second / time.Duration(s.cfg.rate)
	targets := []time.Duration{
		now, now, now, now, now, now + 7*time.Millisecond, now + 7*time.Millisecond, now + d, now + d,
		lf + s.cfg.window - d, lf + s.cfg.window + d,
		lf + s.cfg.ban - d, lf + s.cfg.ban + d, lf + s.cfg.ban + d,
		tick(s.cfg.cleanup) - d, tick(s.cfg.cleanup) + d,
		tick(time.Minute) - d, tick(time.Minute) + d, tick(time.Minute), tick(s.cfg.cleanup), tick(time.Minute) - s.cfg.ttl - d,
		s.lastBL + s.lastBLd - d, s.lastBL + s.lastBLd + d,
		s.lastAnon[ip] + per - d, s.lastAnon[ip] + per + d, now + per*time.Duration(s.cfg.burst) + d,
		s.lastAnon[ip] + s.cfg.ttl + d,
		now + s.cfg.window/3, now + s.cfg.ban + s.cfg.window + d,
	}
	tg := targets[w.Draw(len(targets), "gap.target")]
	if tg > now {
		w.Sleep(tg - now)
	}
}

var c18OpNames = []string{"attempt", "attempt-anon", "isbanned", "isallowed", "allowip", "ban", "unban", "bladd", "blrem", "wladd", "wlrem", "blwatch", "anon-burst"}

// weights per focus (index = op in c18OpNames)
var c18Weights = map[string][]int{
	"ban":       {14, 1, 6, 0, 0, 1, 1, 0, 0, 0, 0, 0, 0},
	"blacklist": {3, 0, 0, 8, 0, 0, 0, 6, 2, 1, 1, 4, 0},
	"rate":      {1, 8, 0, 0, 6, 0, 0, 0, 0, 0, 0, 0, 4},
	"mixed":     {10, 4, 4, 4, 2, 1, 1, 3, 1, 1, 1, 2, 1},
}

func init() {
	Register(&Scenario{
		ID:    "C18",
		Level: "exploration",
		Rule: "each run draws a configuration (MaxFailures 1/2/3/5, PermanentBanAt 2..20, window, ban duration, cleanup interval incl. 'never', rate 1/10 per s, burst 1/5/20, bucket TTL, 1-3 addresses of which two share CIDR blocks, " +
			"optional single store-write failure) and a focus (ban | blacklist | rate | mixed) that weights the operations; 2-3 caller tasks each perform 5-30 steps: sleep to an instant drawn relative to the window end, ban end, cleanup ticks, blacklist expiry, " +
			"token refill and bucket TTL of the address (just before / just after / far), then a handshake-shaped attempt (gate checks, authentication latency none/yield/3ms/2s/20s, failure or success), a plain query, or a management call (manual ban/unban, blacklist add with duration/remove, whitelist add/remove). " +
			"The scheduler interleaves callers with the asynchronous unban/removal goroutines and the three cleanup tickers at lock/statement granularity. " +
			"A run is non-trivial when the reference timeline produced at least one definite 'must refuse' verdict for a query (ban, permanent ban or blacklist in force) or predicted an empty token bucket for a registration; distinct = distinct schedule hash among those.",
		Real: []string{"internal/security BruteForceProtector (RecordFailure/RecordSuccess/IsBanned/BanIP/UnbanIP + cleanup ticker)", "internal/security IPManager incl. storage persistence and reload (IsAllowed/AddToBlacklist/RemoveFromBlacklist/whitelist + cleanup ticker)",
			"internal/security RateLimiter/TokenBucket (AllowIP + cleanup ticker)", "internal/core/storage/memory behind simstore"},
		Stub: []string{"ServerAuthHandler.HandleHandshake: the gate order IsAllowed -> IsBanned -> AllowIP(anonymous only) -> authenticate -> RecordFailure/RecordSuccess is re-enacted by the harness task on the real components (end-to-end handler not wired)",
			"authentication outcome and latency are drawn"},
		Assumptions: []string{
			"a whitelisted address is exempt from the blacklist clause (DESIGN reading)",
			"'cleared' failure history: refusal is demanded only under the reading most favourable to the code (history cleared by a success, by a manual unban, or by a failure-free stretch of one window), admission only under the reading least favourable (cleared by success only)",
			"manual BanIP/UnbanIP and blacklist re-adds are administrator overrides: they may shorten or lift a ban, the oracle then gives no verdict",
			"a refusal by the rate limiter while the reference bucket holds a whole token is flagged too (DESIGN oracle; the property text itself only bounds admissions)",
			"instants within 1 ms of a window/ban/expiry boundary are don't-care",
			"after an IPManager restart a blacklist entry must still be refused only if no storage fault was injected in the run",
		},
		Opt: func(tier string) simrt.Options { return simrt.Options{MaxSteps: 400000} },
		Run: c18Run,
	})
}

func c18Run(w *simrt.World, tier string) {
	c := w.C
	s := &c18world{w: w, lastFail: map[string]time.Duration{}, lastAnon: map[string]time.Duration{}}
	s.cfg = c18cfg{
		maxFail: []int{3, 1, 2, 5}[c.Intn(4, "cfg.maxfail")],
		permAt:  []int{6, 2, 3, 4, 10, 20}[c.Intn(6, "cfg.permat")],
		window:  []time.Duration{5 * time.Minute, 30 * time.Second, 2 * time.Minute}[c.Intn(3, "cfg.window")],
		ban:     []time.Duration{30 * time.Minute, 10 * time.Second, time.Minute, 7 * time.Minute}[c.Intn(4, "cfg.ban")],
		cleanup: []time.Duration{time.Minute, 10 * time.Second, 1000 * time.Hour}[c.Intn(3, "cfg.cleanup")],
		rate:    []int{10, 1}[c.Intn(2, "cfg.rate")],
		burst:   []int{20, 1, 5}[c.Intn(3, "cfg.burst")],
		ttl:     []time.Duration{5 * time.Minute, 10 * time.Second, 45 * time.Second, 2 * time.Second}[c.Intn(4, "cfg.ttl")],
	}
	focus := []string{"mixed", "ban", "blacklist", "rate"}[c.Intn(4, "focus")]
	allIPs := []string{"203.0.113.7", "203.0.113.8", "198.51.100.9"}
	s.ips = allIPs[:1+c.Intn(3, "nips")]
	s.keys = append(append([]string{}, s.ips...), "203.0.113.0/24", "203.0.113.0/28")
	ntasks := 2 + c.Intn(2, "ntasks")
	steps := make([]int, ntasks)
	for i := range steps {
		steps[i] = 5 + c.Intn(26, "nsteps")
		if tier == "quick" && steps[i] > 20 {
			steps[i] = 20
		}
	}
	storeFault := 0
	if c.Intn(4, "store.fault") == 3 {
		storeFault = 1 + c.Intn(12, "store.fault.at")
	}
	w.Sample(fmt.Sprintf("focus=%s max=%d perm=%d window=%v ban=%v cleanup=%v rate=%d burst=%d ttl=%v ips=%d tasks=%d steps=%v storeFailAt=%d",
		focus, s.cfg.maxFail, s.cfg.permAt, s.cfg.window, s.cfg.ban, s.cfg.cleanup, s.cfg.rate, s.cfg.burst, s.cfg.ttl, len(s.ips), ntasks, steps, storeFault))
	w.State(fmt.Sprintf("cfg:%s/%d/%d/%v/%v/%v", focus, s.cfg.maxFail, s.cfg.permAt, s.cfg.window, s.cfg.ban, s.cfg.cleanup))
	w.State(fmt.Sprintf("rl:%d/%d/%v", s.cfg.rate, s.cfg.burst, s.cfg.ttl))

	ctx, cancel := context.WithCancel(w.Ctx)
	defer cancel()
	mem := simstore.NewMemory(w)
	st := simstore.New(w, "sec", mem)
	if storeFault > 0 {
		st.FailAt = storeFault
		st.CountWritesOnly = true
	}
	s.bf = security.NewBruteForceProtector(&security.BruteForceConfig{MaxFailures: s.cfg.maxFail, TimeWindow: s.cfg.window,
		BanDuration: s.cfg.ban, PermanentBanAt: s.cfg.permAt, CleanupInterval: s.cfg.cleanup}, ctx)
	s.ipm = security.NewIPManager(st, ctx)
	s.rl = security.NewRateLimiter(&security.RateLimitConfig{Rate: s.cfg.rate, Burst: s.cfg.burst, TTL: s.cfg.ttl}, nil, ctx)

	weights := c18Weights[focus]
	total := 0
	for _, x := range weights {
		total += x
	}
	var tasks []*simrt.Task
	for ti := 0; ti < ntasks; ti++ {
		name := fmt.Sprintf("caller%d", ti)
		n := steps[ti]
		tasks = append(tasks, w.Spawn(name, func() {
			for i := 0; i < n; i++ {
				ip := s.ips[w.Draw(len(s.ips)+2, "ip")%len(s.ips)]
				s.gap(name, ip)
				v := w.Draw(total, "op")
				k := 0
				for v >= weights[k] {
					v -= weights[k]
					k++
				}
				switch c18OpNames[k] {
				case "attempt":
					lat := w.Draw(5, "attempt.latency")
					fail := w.Draw(10, "attempt.outcome") < 8
					s.attempt(name, ip, false, lat, fail)
				case "attempt-anon":
					lat := w.Draw(3, "attempt.latency")
					fail := w.Draw(10, "attempt.outcome") == 9 // credential generation failed
					s.attempt(name, ip, true, lat, fail)
				case "isbanned":
					s.isBanned(name, ip)
				case "isallowed":
					s.isAllowed(name, ip)
				case "allowip":
					s.allowIP(name, ip)
				case "ban":
					d := []time.Duration{s.cfg.ban / 2, 0, 2 * s.cfg.ban}[w.Draw(3, "ban.dur")]
					s.do(name, "ban", ip, "", d, func() bool { s.bf.BanIP(ip, d, "manual"); return false })
				case "unban":
					s.do(name, "unban", ip, "", 0, func() bool { s.bf.UnbanIP(ip); return false })
				case "bladd":
					key := s.keys[w.Draw(len(s.keys), "bl.key")]
					d := []time.Duration{20 * time.Second, 0, 3 * time.Minute, 90 * time.Second}[w.Draw(4, "bl.dur")]
					op := s.do(name, "bladd", "", key, d, func() bool { return s.ipm.AddToBlacklist(key, d, "verif", "admin") != nil })
					if d > 0 {
						s.lastBL, s.lastBLd = op.t, d
					}
				case "blwatch":
					// an operator script that re-lists an address as soon as it sees it admitted
					d := []time.Duration{20 * time.Second, 0, 3 * time.Minute, 90 * time.Second}[w.Draw(4, "bl.dur")]
					if !s.isAllowed(name, ip).refused {
						op := s.do(name, "bladd", "", ip, d, func() bool { return s.ipm.AddToBlacklist(ip, d, "verif", "watch") != nil })
						if d > 0 {
							s.lastBL, s.lastBLd = op.t, d
						}
					}
				case "anon-burst":
					k := 1 + w.Draw(s.cfg.burst+2, "burst.n")
					for j := 0; j < k; j++ {
						s.allowIP(name, ip)
					}
				case "blrem":
					key := s.keys[w.Draw(len(s.keys), "bl.key")]
					s.do(name, "blrem", "", key, 0, func() bool { s.ipm.RemoveFromBlacklist(key); return false })
				case "wladd":
					key := s.keys[w.Draw(len(s.keys), "wl.key")]
					s.do(name, "wladd", "", key, 0, func() bool { return s.ipm.AddToWhitelist(key, "verif", "admin") != nil })
				case "wlrem":
					key := s.keys[w.Draw(len(s.keys), "wl.key")]
					s.do(name, "wlrem", "", key, 0, func() bool { s.ipm.RemoveFromWhitelist(key); return false })
				}
			}
		}))
	}
	for _, t := range tasks {
		t.Wait()
	}
	// let pending asynchronous unban/removal goroutines run, then ask once more
	w.Settle(6)
	for _, ip := range s.ips {
		s.isBanned("final", ip)
		s.isAllowed("final", ip)
	}

	for _, op := range s.hist {
		if op.t != op.t2 {
			w.Violationf("C18:harness:time-moved-during-op", "%v returned at %v", op, op.t2)
			return
		}
		if op.kind == "bladd" || op.kind == "wladd" {
			if op.refused {
				w.Violationf("C18:harness:list-add-rejected", "%v returned an error", op)
			}
		}
	}
	sort.SliceStable(s.hist, func(i, j int) bool { return s.hist[i].call < s.hist[j].call })
	faulted := w.Res.Faults["store.error"] > 0
	for _, ip := range s.ips {
		s.checkBans(ip)
		s.checkBlacklist(ip, s.hist, "")
		s.checkRate(ip)
	}

	// restart: a fresh IPManager over the same storage must still refuse what is blacklisted
	if !faulted && (focus == "blacklist" || focus == "mixed") {
		st.FailAt = 0
		s.ipm = security.NewIPManager(st, ctx)
		w.Probe("ipm.restart")
		n := len(s.hist)
		for _, ip := range s.ips {
			s.isAllowed("restarted", ip)
		}
		for _, ip := range s.ips {
			s.checkBlacklist(ip, s.hist[n:], ":after-restart")
		}
	}
	cancel()
}

// ---- ban oracle ---------------------------------------------------------

type c18src struct {
	kind    string // temp perm manual
	call    int64
	ret     int64
	t       time.Duration
	dur     time.Duration // 0 = permanent
	members []*c18op
}

func (x *c18src) String() string {
	var m []string
	for _, o := range x.members {
		m = append(m, o.String())
	}
	return fmt.Sprintf("%s ban established by {%s} at %v for %v", x.kind, strings.Join(m, "; "), x.t, x.dur)
}

func (s *c18world) opsOf(ip string, kinds ...string) []*c18op {
	var out []*c18op
	for _, o := range s.hist {
		if o.ip != ip {
			continue
		}
		for _, k := range kinds {
			if o.kind == k {
				out = append(out, o)
			}
		}
	}
	return out
}

// groupSource builds the definite ban source formed by members (all completed
// failures, ascending in time) if no history-clearing call possibly falls
// inside the group.
func c18group(kind string, members []*c18op, clears []*c18op, dur time.Duration) *c18src {
	x := &c18src{kind: kind, dur: dur, members: members}
	minCall := members[0].call
	for _, m := range members {
		if m.call < minCall {
			minCall = m.call
		}
		if m.call > x.call {
			x.call = m.call
		}
		if m.ret > x.ret {
			x.ret = m.ret
		}
		if m.t > x.t {
			x.t = m.t
		}
	}
	for _, z := range clears {
		if z.ret > minCall && z.call < x.ret {
			return nil
		}
	}
	return x
}

func (s *c18world) checkBans(ip string) {
	w := s.w
	fails := s.opsOf(ip, "fail")
	succs := s.opsOf(ip, "succ")
	bans := s.opsOf(ip, "ban")
	unbans := s.opsOf(ip, "unban")
	clears := append(append([]*c18op{}, succs...), unbans...)
	queries := s.opsOf(ip, "isbanned")

	// possible sources (reading least favourable to the code), independent of the query
	type poss struct {
		op   *c18op
		perm bool
		dur  time.Duration
	}
	var possible []poss
	for _, b := range bans {
		possible = append(possible, poss{b, b.dur == 0, b.dur})
	}
	for _, f := range fails {
		inWin, all := 1, 1
		for _, g := range fails {
			if g == f || g.call >= f.ret {
				continue
			}
			cleared := false
			for _, z := range succs {
				if c18before(g, z) && c18before(z, f) {
					cleared = true
					break
				}
			}
			if cleared {
				continue
			}
			all++
			if g.t >= f.t-s.cfg.window-c18Margin {
				inWin++
			}
		}
		if all >= s.cfg.permAt {
			possible = append(possible, poss{f, true, 0})
		} else if inWin >= s.cfg.maxFail {
			possible = append(possible, poss{f, false, s.cfg.ban})
		}
	}

	for _, q := range queries {
		// ---- definite sources for q
		var done []*c18op
		for _, f := range fails {
			if c18before(f, q) {
				done = append(done, f)
			}
		}
		sort.SliceStable(done, func(i, j int) bool { return done[i].t < done[j].t })
		var srcs []*c18src
		for i := range done {
			if j := i + s.cfg.maxFail; j <= len(done) {
				g := done[i:j]
				if g[len(g)-1].t-g[0].t < s.cfg.window-c18Margin {
					if x := c18group("temp", g, clears, s.cfg.ban); x != nil {
						srcs = append(srcs, x)
					}
				}
			}
			if j := i + s.cfg.permAt; j <= len(done) {
				g := done[i:j]
				ok := true
				for k := 1; k < len(g); k++ {
					if g[k].t-g[k-1].t >= s.cfg.window-c18Margin {
						ok = false
					}
				}
				if ok {
					if x := c18group("perm", g, clears, 0); x != nil {
						srcs = append(srcs, x)
					}
				}
			}
		}
		for _, b := range bans {
			if c18before(b, q) {
				srcs = append(srcs, &c18src{kind: "manual", call: b.call, ret: b.ret, t: b.t, dur: b.dur, members: []*c18op{b}})
			}
		}
		var must *c18src
		for _, x := range srcs {
			if x.dur != 0 && !(q.t < x.t+x.dur-c18Margin) {
				continue
			}
			killed := false
			inK := func(k *c18op) bool { return k.ret > x.call && k.call < q.ret }
			for _, u := range unbans {
				if inK(u) {
					killed = true
				}
			}
			for _, b := range bans {
				if len(x.members) == 1 && x.members[0] == b {
					continue
				}
				if !inK(b) {
					continue
				}
				if x.kind == "perm" || x.dur == 0 {
					if b.dur > 0 {
						killed = true
					}
				} else if b.dur > 0 && b.t+b.dur <= q.t+c18Margin {
					killed = true
				}
			}
			if x.kind == "manual" {
				for _, f := range fails {
					if inK(f) && f.t+s.cfg.ban <= q.t+c18Margin {
						killed = true
					}
				}
			}
			if !killed {
				if must == nil || (must.kind != "perm" && x.kind == "perm") {
					must = x
				}
			}
		}
		// ---- possibly banned?
		possibly := false
		everSource := false
		for _, p := range possible {
			if p.op.call >= q.ret {
				continue
			}
			everSource = true
			if !p.perm && q.t > p.op.t+p.dur+c18Margin {
				continue
			}
			lifted := false
			for _, u := range unbans {
				if c18before(p.op, u) && c18before(u, q) {
					lifted = true
				}
			}
			if !lifted {
				possibly = true
			}
		}
		switch {
		case must != nil && !possibly:
			w.Violationf("C18:harness:model-inconsistent", "query %v: definite %v but not possible", q, must)
		case must != nil:
			w.Nontrivial()
			w.Probe("verdict.ban.must-refuse." + must.kind)
			w.State("ban:must-refuse:" + must.kind)
			if !q.refused {
				// class of the input: had an earlier ban of this address already run out when this one
				// was established (re-ban)? did a failure complete after the permanent threshold?
				reban := false
				for _, p := range possible {
					if !p.perm && p.op.ret < must.call && p.op.t+p.dur < must.t {
						reban = true
					}
				}
				class := "within-ban-period"
				switch must.kind {
				case "perm":
					class = "after-permanent-threshold"
					later := false
					for _, f := range fails {
						if f.ret > must.ret && f.call < q.ret {
							later = true
						}
					}
					if later {
						class += "-and-later-failure"
					} else if reban {
						class += "-reban-after-expiry"
					}
				case "manual":
					class = "manual-ban"
					if reban {
						class += "-reban-after-expiry"
					}
				default:
					if reban {
						class = "reban-after-expiry"
					}
				}
				w.Violationf("C18:ban:admitted-"+class, "cfg max=%d perm=%d window=%v ban=%v cleanup=%v: %v was admitted although a %v (no unban in between)\nhistory of %s:\n%s",
					s.cfg.maxFail, s.cfg.permAt, s.cfg.window, s.cfg.ban, s.cfg.cleanup, q, must, ip, s.dump(ip, q))
			}
		case !possibly:
			if everSource {
				w.Probe("verdict.ban.must-admit.after-expiry")
				w.State("ban:must-admit:after-expiry")
			} else {
				w.Probe("verdict.ban.must-admit.below-threshold")
				w.State("ban:must-admit:below")
			}
			if q.refused {
				class := "below-threshold"
				if everSource {
					class = "after-expiry"
				}
				w.Violationf("C18:ban:refused-"+class, "cfg max=%d perm=%d window=%v ban=%v: %v was refused although no ban can be in force under any reading\nhistory of %s:\n%s",
					s.cfg.maxFail, s.cfg.permAt, s.cfg.window, s.cfg.ban, q, ip, s.dump(ip, q))
			}
		default:
			w.Probe("verdict.ban.either")
			w.State("ban:either")
		}
	}
}

func (s *c18world) dump(ip string, upto *c18op) string {
	banRel := upto.kind == "isbanned"
	var b strings.Builder
	n := 0
	var lines []string
	for _, o := range s.hist {
		if o.call > upto.ret {
			break
		}
		if banRel && (o.kind == "isallowed" || o.kind == "allowip" || o.ip == "") {
			continue
		}
		if !banRel && o.ip != "" && o.kind != "isallowed" {
			continue
		}
		if o.ip == ip || (o.ip == "" && c18covers(o.key, ip)) {
			l := fmt.Sprintf("  %s@%v %s", o.task, o.t, o.String()[strings.Index(o.String(), "] ")+2:])
			if len(lines) > 0 && strings.HasPrefix(lines[len(lines)-1], l) {
				lines[len(lines)-1] = l + " (repeated)"
				continue
			}
			lines = append(lines, l)
		}
	}
	if len(lines) > 40 {
		n = len(lines) - 40
	}
	for _, l := range lines[n:] {
		b.WriteString(l + "\n")
	}
	return b.String()
}

// ---- blacklist oracle ---------------------------------------------------

func c18covers(key, ip string) bool {
	if key == ip {
		return true
	}
	if !strings.Contains(key, "/") {
		return false
	}
	_, n, err := net.ParseCIDR(key)
	if err != nil {
		return false
	}
	p := net.ParseIP(ip)
	return p != nil && n.Contains(p)
}

func (s *c18world) checkBlacklist(ip string, queriesFrom []*c18op, suffix string) {
	w := s.w
	var adds, rems, wadds, wrems []*c18op
	for _, o := range s.hist {
		if o.ip != "" || !c18covers(o.key, ip) {
			continue
		}
		switch o.kind {
		case "bladd":
			adds = append(adds, o)
		case "blrem":
			rems = append(rems, o)
		case "wladd":
			wadds = append(wadds, o)
		case "wlrem":
			wrems = append(wrems, o)
		}
	}
	for _, q := range queriesFrom {
		if q.kind != "isallowed" || q.ip != ip {
			continue
		}
		// possibly whitelisted -> no verdict
		white := false
		for _, a := range wadds {
			if a.call >= q.ret {
				continue
			}
			gone := false
			for _, r := range wrems {
				if r.key == a.key && c18before(a, r) && c18before(r, q) {
					gone = true
				}
			}
			if !gone {
				white = true
			}
		}
		var must *c18op
		for _, a := range adds {
			if !c18before(a, q) {
				continue
			}
			if a.dur != 0 && !(q.t < a.t+a.dur-c18Margin) {
				continue
			}
			killed := false
			for _, k := range s.hist {
				if k.ip != "" || k.key != a.key || k == a || !(k.ret > a.call && k.call < q.ret) {
					continue
				}
				if k.kind == "blrem" {
					killed = true
				}
				if k.kind == "bladd" && k.dur != 0 && k.t+k.dur <= q.t+c18Margin {
					killed = true
				}
			}
			if !killed {
				must = a
				break
			}
		}
		if must == nil || white {
			w.Probe("verdict.blacklist.none")
			continue
		}
		w.Nontrivial()
		w.Probe("verdict.blacklist.must-refuse" + suffix)
		w.State("bl:must-refuse" + suffix)
		if q.refused {
			continue
		}
		// class of the input: was the entry added at the very instant at which a query for that
		// address had just been admitted (re-add while an expired entry is being seen)? does
		// another entry covering the address exist that has run out (overlap)?
		class := "plain"
		for _, a := range adds {
			if a == must || a.call >= q.ret || a.dur == 0 || a.t+a.dur > q.t {
				continue
			}
			if a.key != must.key {
				class = "expired-overlapping-entry"
			}
		}
		for _, q0 := range s.hist {
			if q0.kind == "isallowed" && q0.ip == must.key && !q0.refused && q0.t == must.t && q0.call < must.ret {
				class = "readd-after-expiry"
			}
		}
		w.Violationf("C18:blacklist:admitted-"+class+suffix, "%v was admitted although %v is in force and the address is not whitelisted\nhistory for %s:\n%s", q, must, ip, s.dump(ip, q))
	}
}

// ---- token bucket oracle ------------------------------------------------

func (s *c18world) checkRate(ip string) {
	w := s.w
	ops := s.opsOf(ip, "allowip")
	if len(ops) == 0 {
		return
	}
	sort.SliceStable(ops, func(i, j int) bool {
		if ops[i].t != ops[j].t {
			return ops[i].t < ops[j].t
		}
		return ops[i].ret < ops[j].ret
	})
	const eps = 1e-6
	tokens := float64(s.cfg.burst)
	last := ops[0].t
	admitted := 0
	suspect := false
	for i, o := range ops {
		tokens += (o.t - last).Seconds() * float64(s.cfg.rate)
		if tokens > float64(s.cfg.burst) {
			tokens = float64(s.cfg.burst)
		}
		idle := o.t - last
		last = o.t
		// input class: was the address idle for longer than the bucket TTL at a moment when the
		// bucket could not yet have refilled completely?
		if tokens >= float64(s.cfg.burst)-eps {
			suspect = false
		} else if i > 0 && idle > s.cfg.ttl {
			suspect = true
		}
		if tokens < 1-eps {
			w.Nontrivial()
			w.Probe("verdict.rate.must-refuse")
			w.State("rate:empty")
			if !o.refused {
				class := "plain"
				if suspect {
					class = "idle-longer-than-bucket-ttl-before-refilled"
				}
				w.Violationf("C18:rate:exceeded-"+class, "rate=%d/s burst=%d ttl=%v: %v was admitted although only %.3f tokens can be available (%d admitted before, previous request %v earlier)\n%s",
					s.cfg.rate, s.cfg.burst, s.cfg.ttl, o, tokens, admitted, idle, s.dumpRate(ops, i))
				return
			}
		} else if avail := tokens - c18concurrentAdmits(ops, i); avail >= 1+eps {
			// (admissions of the same instant that overlap this call may have been served first)
			w.Probe("verdict.rate.must-admit")
			if o.refused {
				w.Violationf("C18:rate:refused-with-tokens", "rate=%d/s burst=%d ttl=%v: %v was refused although %.3f tokens are available\n%s",
					s.cfg.rate, s.cfg.burst, s.cfg.ttl, o, avail, s.dumpRate(ops, i))
				return
			}
		}
		if !o.refused {
			tokens--
			admitted++
		}
	}
}

// c18concurrentAdmits counts admitted requests ordered after ops[i] by return stamp that
// nevertheless started before ops[i] returned: they may have taken their token first.
func c18concurrentAdmits(ops []*c18op, i int) float64 {
	n := 0.0
	for j := i + 1; j < len(ops) && ops[j].t == ops[i].t; j++ {
		if !ops[j].refused && ops[j].call < ops[i].ret {
			n++
		}
	}
	return n
}

func (s *c18world) dumpRate(ops []*c18op, i int) string {
	var b strings.Builder
	j := 0
	if i > 30 {
		j = i - 30
	}
	for ; j <= i; j++ {
		b.WriteString("  " + ops[j].String() + "\n")
	}
	return b.String()
}
