// Package simws establishes a real gorilla/websocket connection pair over a
// simulated byte-stream link, entirely inside the simulation bubble: the
// client side dials through the link, a harness task on the other end reads
// the HTTP upgrade request and runs the real Upgrader.
package simws

import (
	"bufio"
	"errors"
	"net"
	"net/http"
	"time"

	"github.com/gorilla/websocket"

	"tunnox-core/verifsim/simnet"
	"tunnox-core/verifsim/simrt"
)

type hijackRW struct {
	conn net.Conn
	brw  *bufio.ReadWriter
	h    http.Header
}

func (h *hijackRW) Header() http.Header         { return h.h }
func (h *hijackRW) Write(p []byte) (int, error) { return h.brw.Write(p) }
func (h *hijackRW) WriteHeader(int)             {}
func (h *hijackRW) Hijack() (net.Conn, *bufio.ReadWriter, error) {
	return h.conn, h.brw, nil
}

// Pair returns the client and server ends of one WebSocket connection running over a fresh simnet link.
func Pair(w *simrt.World, cfg simnet.LinkConfig, bufSize int) (cli, srv *websocket.Conn, a, b *simnet.Conn, err error) {
	a, b = simnet.NewLink(w, cfg)
	var srvErr error
	st := w.Spawn("ws-upgrade-"+cfg.NameB, func() {
		br := bufio.NewReader(b)
		req, e := http.ReadRequest(br)
		if e != nil {
			srvErr = e
			return
		}
		rw := &hijackRW{conn: b, brw: bufio.NewReadWriter(br, bufio.NewWriter(b)), h: http.Header{}}
		up := websocket.Upgrader{ReadBufferSize: bufSize, WriteBufferSize: bufSize, CheckOrigin: func(*http.Request) bool { return true }}
		srv, srvErr = up.Upgrade(rw, req, nil)
	})
	d := websocket.Dialer{
		NetDial:          func(network, addr string) (net.Conn, error) { return a, nil },
		HandshakeTimeout: 20 * time.Second,
		ReadBufferSize:   bufSize,
		WriteBufferSize:  bufSize,
	}
	cli, _, err = d.Dial("ws://sim.invalid/_tunnox", nil)
	st.Wait()
	if err == nil {
		err = srvErr
	}
	if err == nil && (cli == nil || srv == nil) {
		err = errors.New("simws: handshake produced no connection")
	}
	return
}
