package props

import (
	"encoding/json"
	"errors"
	"fmt"
	"sort"
	"strings"
	"time"

	"github.com/anishathalye/porcupine"

	"tunnox-core/internal/core/storage/types"
	"tunnox-core/verifsim/simrt"
	"tunnox-core/verifsim/simstore"
)

// C13 — storage backends implement one TTL key-value semantics.
//
// Three modes per run (drawn): sequential memory vs a reference map with
// expiry; sequential memory vs the real Redis backend (miniredis in the
// bubble) restricted to the value shapes the repositories use; concurrent
// memory checked for linearizability with porcupine.

// ---- reference model, written from the interface contract -------------

type c13item struct {
	kind  string // scalar | list | hash | counter
	val   string
	list  []string
	hash  map[string]string
	ctr   int64
	exp   time.Time // zero = never
	impl  bool      // implicitly created: TTL chosen by the implementation ("long")
}

type c13model struct {
	m map[string]*c13item
	// redis: the recorded differences of the Redis backend on hashes are built in (used only to attribute
	// a divergence to them): a hash whose last field is deleted is no key at all, and SetHash gives the
	// key the default lifetime again whenever the hash holds exactly one field afterwards
	redis bool
}

func (md *c13model) live(k string, now time.Time) *c13item {
	it := md.m[k]
	if it == nil {
		return nil
	}
	if !it.exp.IsZero() && now.After(it.exp) {
		delete(md.m, k)
		return nil
	}
	return it
}

func c13exp(now time.Time, ttl time.Duration) time.Time {
	if ttl <= 0 {
		return time.Time{}
	}
	return now.Add(ttl)
}

// state class of a key for signatures
func (md *c13model) class(k string, now time.Time) string {
	it := md.m[k]
	if it == nil {
		return "absent"
	}
	if !it.exp.IsZero() && now.After(it.exp) {
		return "expired"
	}
	if it.exp.IsZero() {
		return "live-forever"
	}
	return "live-ttl"
}

type c13op struct {
	Op    string
	Key   string
	Val   string
	Old   string // CAS old ("" = nil)
	Field string
	N     int64
	TTL   time.Duration
	List  []string
}

func (o c13op) String() string {
	s := o.Op + "(" + o.Key
	switch o.Op {
	case "Set", "SetNX":
		s += fmt.Sprintf(",%s,ttl=%v", o.Val, o.TTL)
	case "CAS":
		s += fmt.Sprintf(",old=%q,new=%s,ttl=%v", o.Old, o.Val, o.TTL)
	case "Append", "Remove":
		s += "," + o.Val
	case "SetList":
		s += fmt.Sprintf(",%v,ttl=%v", o.List, o.TTL)
	case "SetHash":
		s += "," + o.Field + "=" + o.Val
	case "GetHash", "DeleteHash":
		s += "," + o.Field
	case "IncrBy":
		s += fmt.Sprintf(",%d", o.N)
	case "SetExpiration":
		s += fmt.Sprintf(",ttl=%v", o.TTL)
	}
	return s + ")"
}

// result of an op, canonical: "ok", "notfound", "err:<x>", "v:<...>"
func c13errClass(err error) string {
	if err == nil {
		return "ok"
	}
	if errors.Is(err, types.ErrKeyNotFound) {
		return "notfound"
	}
	if errors.Is(err, types.ErrInvalidType) {
		return "invalidtype"
	}
	return "err"
}

func canonAny(v any) string {
	switch x := v.(type) {
	case string:
		return x
	case []byte:
		return string(x)
	case nil:
		return "<nil>"
	default:
		b, _ := json.Marshal(x)
		return string(b)
	}
}

func canonList(l []any) string {
	s := make([]string, len(l))
	for i, v := range l {
		s[i] = canonAny(v)
	}
	return "[" + strings.Join(s, ",") + "]"
}

func canonHash(h map[string]any) string {
	var ks []string
	for k := range h {
		ks = append(ks, k)
	}
	sort.Strings(ks)
	var sb strings.Builder
	sb.WriteString("{")
	for _, k := range ks {
		sb.WriteString(k + "=" + canonAny(h[k]) + ";")
	}
	sb.WriteString("}")
	return sb.String()
}

// apply executes op on a real backend and returns the canonical result.
func c13apply(s types.Storage, o c13op) string {
	ls, _ := s.(types.ListStore)
	hs, _ := s.(types.HashStore)
	cs, _ := s.(types.CounterStore)
	cas, _ := s.(types.CASStore)
	switch o.Op {
	case "Set":
		return c13errClass(s.Set(o.Key, o.Val, o.TTL))
	case "Get":
		v, err := s.Get(o.Key)
		if err != nil {
			return c13errClass(err)
		}
		if l, ok := v.([]any); ok {
			return "v:" + canonList(l)
		}
		return "v:" + canonAny(v)
	case "Delete":
		return c13errClass(s.Delete(o.Key))
	case "Exists":
		b, err := s.Exists(o.Key)
		if err != nil {
			return c13errClass(err)
		}
		return fmt.Sprintf("v:%v", b)
	case "SetNX":
		b, err := cas.SetNX(o.Key, o.Val, o.TTL)
		if err != nil {
			return c13errClass(err)
		}
		return fmt.Sprintf("v:%v", b)
	case "CAS":
		var old any
		if o.Old != "" {
			old = o.Old
		}
		b, err := cas.CompareAndSwap(o.Key, old, o.Val, o.TTL)
		if err != nil {
			return c13errClass(err)
		}
		return fmt.Sprintf("v:%v", b)
	case "SetList":
		vals := make([]any, len(o.List))
		for i, v := range o.List {
			vals[i] = v
		}
		return c13errClass(ls.SetList(o.Key, vals, o.TTL))
	case "GetList":
		l, err := ls.GetList(o.Key)
		if err != nil {
			return c13errClass(err)
		}
		return "v:" + canonList(l)
	case "Append":
		return c13errClass(ls.AppendToList(o.Key, o.Val))
	case "Remove":
		return c13errClass(ls.RemoveFromList(o.Key, o.Val))
	case "SetHash":
		return c13errClass(hs.SetHash(o.Key, o.Field, o.Val))
	case "GetHash":
		v, err := hs.GetHash(o.Key, o.Field)
		if err != nil {
			return c13errClass(err)
		}
		return "v:" + canonAny(v)
	case "GetAllHash":
		h, err := hs.GetAllHash(o.Key)
		if err != nil {
			return c13errClass(err)
		}
		return "v:" + canonHash(h)
	case "DeleteHash":
		return c13errClass(hs.DeleteHash(o.Key, o.Field))
	case "IncrBy":
		n, err := cs.IncrBy(o.Key, o.N)
		if err != nil {
			return c13errClass(err)
		}
		return fmt.Sprintf("v:%d", n)
	case "Cleanup":
		return c13errClass(s.CleanupExpired())
	case "SetExpiration":
		return c13errClass(s.SetExpiration(o.Key, o.TTL))
	case "GetExpiration":
		d, err := s.GetExpiration(o.Key)
		if err != nil {
			return c13errClass(err)
		}
		if d <= 0 {
			return "v:never"
		}
		return fmt.Sprintf("v:%v", d.Round(time.Second))
	}
	return "err:unknown-op"
}

// step applies op to the model and returns the set of acceptable results
// (usually one).
func (md *c13model) step(o c13op, now time.Time) []string {
	it := md.live(o.Key, now)
	switch o.Op {
	case "Set":
		md.m[o.Key] = &c13item{kind: "scalar", val: o.Val, exp: c13exp(now, o.TTL)}
		return []string{"ok"}
	case "Get":
		if it == nil {
			return []string{"notfound"}
		}
		switch it.kind {
		case "scalar":
			return []string{"v:" + it.val}
		case "list":
			return []string{"v:[" + strings.Join(it.list, ",") + "]"}
		}
		return nil // Get on hash/counter keys: representation is backend-specific, not compared
	case "Delete":
		delete(md.m, o.Key)
		return []string{"ok"}
	case "Exists":
		return []string{fmt.Sprintf("v:%v", it != nil)}
	case "SetNX":
		if it != nil {
			return []string{"v:false"}
		}
		md.m[o.Key] = &c13item{kind: "scalar", val: o.Val, exp: c13exp(now, o.TTL)}
		return []string{"v:true"}
	case "CAS":
		if it == nil {
			if o.Old == "" {
				md.m[o.Key] = &c13item{kind: "scalar", val: o.Val, exp: c13exp(now, o.TTL)}
				return []string{"v:true"}
			}
			return []string{"v:false"}
		}
		if it.kind == "scalar" && o.Old != "" && it.val == o.Old {
			it.val = o.Val
			it.exp = c13exp(now, o.TTL)
			return []string{"v:true"}
		}
		return []string{"v:false"}
	case "SetList":
		md.m[o.Key] = &c13item{kind: "list", list: append([]string(nil), o.List...), exp: c13exp(now, o.TTL)}
		return []string{"ok"}
	case "GetList":
		if it == nil {
			return []string{"notfound"}
		}
		if it.kind != "list" {
			return []string{"invalidtype", "err"}
		}
		return []string{"v:[" + strings.Join(it.list, ",") + "]"}
	case "Append":
		if it == nil {
			md.m[o.Key] = &c13item{kind: "list", list: []string{o.Val}, exp: now.Add(24 * time.Hour), impl: true}
			return []string{"ok"}
		}
		if it.kind != "list" {
			return []string{"invalidtype", "err"}
		}
		it.list = append(it.list, o.Val)
		return []string{"ok"}
	case "Remove":
		if it == nil {
			return []string{"ok"}
		}
		if it.kind != "list" {
			return []string{"invalidtype", "err"}
		}
		var nl []string
		for _, v := range it.list {
			if v != o.Val {
				nl = append(nl, v)
			}
		}
		it.list = nl
		return []string{"ok"}
	case "SetHash":
		if it == nil {
			md.m[o.Key] = &c13item{kind: "hash", hash: map[string]string{o.Field: o.Val}, exp: now.Add(24 * time.Hour), impl: true}
			return []string{"ok"}
		}
		if it.kind != "hash" {
			return nil // overwriting a non-hash with a hash field: unspecified
		}
		it.hash[o.Field] = o.Val
		if md.redis && len(it.hash) == 1 {
			it.exp, it.impl = now.Add(24*time.Hour), true
		}
		return []string{"ok"}
	case "GetHash":
		if it == nil {
			return []string{"notfound"}
		}
		if it.kind != "hash" {
			return []string{"invalidtype", "err"}
		}
		if v, ok := it.hash[o.Field]; ok {
			return []string{"v:" + v}
		}
		return []string{"notfound"}
	case "GetAllHash":
		if it == nil {
			return []string{"notfound", "v:{}"}
		}
		if it.kind != "hash" {
			return []string{"invalidtype", "err"}
		}
		h := map[string]any{}
		for k, v := range it.hash {
			h[k] = v
		}
		return []string{"v:" + canonHash(h)}
	case "DeleteHash":
		if it == nil {
			return []string{"ok"}
		}
		if it.kind != "hash" {
			return []string{"invalidtype", "err"}
		}
		delete(it.hash, o.Field)
		if md.redis && len(it.hash) == 0 {
			delete(md.m, o.Key)
		}
		return []string{"ok"}
	case "IncrBy":
		if it == nil {
			md.m[o.Key] = &c13item{kind: "counter", ctr: o.N, exp: now.Add(24 * time.Hour), impl: true}
			return []string{fmt.Sprintf("v:%d", o.N)}
		}
		if it.kind != "counter" {
			return []string{"invalidtype", "err"}
		}
		it.ctr += o.N
		return []string{fmt.Sprintf("v:%d", it.ctr)}
	case "Cleanup":
		return []string{"ok"} // removes only what is already absent by the contract
	case "SetExpiration":
		if it == nil {
			return []string{"notfound"}
		}
		it.exp = c13exp(now, o.TTL)
		it.impl = false
		return []string{"ok"}
	case "GetExpiration":
		if it == nil {
			return []string{"notfound"}
		}
		if it.exp.IsZero() {
			return []string{"v:never"}
		}
		if it.impl {
			return nil // implementation-chosen lifetime
		}
		return []string{fmt.Sprintf("v:%v", it.exp.Sub(now).Round(time.Second))}
	}
	return nil
}

var c13keys = []string{"s1", "s2", "l1", "h1", "c1"}

func c13gen(c *simrt.Choice, uniq *int, keys []string) c13op {
	*uniq++
	val := fmt.Sprintf("v%d", *uniq)
	if c.Intn(4, "val.json") == 3 {
		val = fmt.Sprintf(`{"id":%d,"n":"x"}`, *uniq)
	}
	ttl := []time.Duration{0, time.Second, time.Hour}[c.Intn(3, "ttl")]
	key := keys[c.Intn(len(keys), "key")]
	noExp := len(keys) < len(c13keys)
	var ops []string
	switch key[0] {
	case 's':
		ops = []string{"Get", "Set", "Delete", "Exists", "SetNX", "CAS", "CAS", "Set", "SetExpiration", "GetExpiration"}
	case 'l':
		ops = []string{"GetList", "Append", "Append", "Remove", "SetList", "Delete", "Exists", "SetExpiration", "GetExpiration"}
	case 'h':
		ops = []string{"SetHash", "GetHash", "GetAllHash", "DeleteHash", "Delete", "Exists", "SetHash", "SetExpiration", "GetExpiration"}
	case 'c':
		ops = []string{"IncrBy", "IncrBy", "Delete", "Exists", "SetExpiration", "GetExpiration"}
	}
	if noExp {
		ops = ops[:len(ops)-2]
	}
	o := c13op{Op: ops[c.Intn(len(ops), "op")], Key: key, Val: val, TTL: ttl}
	switch o.Op {
	case "CAS":
		// old: nil, the last value written to this key (tracked by caller), or a stale one
		o.Old = "?" // patched by caller
	case "Remove", "Append":
		if c.Intn(3, "list.dup") == 0 {
			o.Val = fmt.Sprintf("m%d", c.Intn(3, "list.member"))
		}
	case "SetList":
		n := c.Intn(4, "list.n")
		for i := 0; i < n; i++ {
			o.List = append(o.List, fmt.Sprintf("m%d", c.Intn(3, "list.member")))
		}
	case "SetHash", "GetHash", "DeleteHash":
		o.Field = fmt.Sprintf("f%d", c.Intn(3, "field"))
	case "IncrBy":
		o.N = int64([]int{1, 1, 5, -2}[c.Intn(4, "incr")])
	}
	return o
}

func init() {
	Register(&Scenario{
		ID:    "C13",
		Level: "exploration",
		Rule: "each run draws a mode: (a) 10-60 sequential operations (Set/Get/Delete/Exists/SetNX/CAS/list/hash/counter/SetExpiration/GetExpiration, ttl in {0,1s,1h}, unique values, clock advances that never land on an expiry instant) on the real memory backend compared step by step with a reference map written from the interface contract; " +
			"(b) the same history on the real memory backend and the real Redis backend (miniredis in the bubble) compared after canonicalisation, restricted to strings, lists of strings, counters, SetNX/CAS on strings; " +
			"(c) 2-4 client tasks on the memory backend interleaved at statement granularity, history checked with porcupine (per-key partition). Non-trivial: the history contains at least one expiry crossing, one CAS/SetNX, or (c) two overlapping operations on one key; distinct = distinct schedule/operation hashes.",
		Real: []string{"internal/core/storage/memory (all operations)", "internal/core/storage/redis (all operations) over go-redis", "miniredis (real Redis command semantics incl. Lua EVAL) in the bubble"},
		Stub: []string{"TCP between go-redis and Redis: net.Pipe", "Redis server: miniredis, TTL clock driven from the simulated clock"},
		Assumptions: []string{"lifetimes an implementation picks for implicitly created keys (append/incr/hash on a missing key) are outside the interface and not compared", "instants exactly on an expiry boundary are never generated", "GetExpiration of a never-expiring key may be any non-positive duration"},
		Opt: func(tier string) simrt.Options { return simrt.Options{MaxSteps: 400000} },
		Run: c13Run,
	})
}

func c13Run(w *simrt.World, tier string) {
	mode := w.C.Intn(5, "mode")
	switch {
	case mode <= 1:
		c13Sequential(w, false)
	case mode == 2:
		c13Sequential(w, true)
	default:
		c13Concurrent(w)
	}
}

var c13advances = []time.Duration{0, 0, 0, 343 * time.Millisecond, 777 * time.Millisecond, 1505 * time.Millisecond, 31*time.Minute + 7*time.Millisecond, 61*time.Minute + 14*time.Millisecond}

func c13Sequential(w *simrt.World, withRedis bool) {
	c := w.C
	mem := simstore.NewMemory(w)
	defer mem.Close()
	var rd *simstore.Redis
	if withRedis {
		rd = simstore.NewRedis(w)
		defer rd.Close()
		w.Probe("mode.memory-vs-redis")
	} else {
		w.Probe("mode.memory-vs-model")
	}
	md := &c13model{m: map[string]*c13item{}}
	mdR := &c13model{m: map[string]*c13item{}, redis: true}
	n := 10 + c.Intn(51, "nops")
	uniq := 0
	last := map[string]string{} // last value written per scalar key
	prev := map[string]string{}
	emptied := map[string]bool{}
	rearmed := map[string]bool{}
	hrearm := map[string]bool{}
	tainted := map[string]bool{}
	var hist []string
	for i := 0; i < n; i++ {
		if d := c13advances[c.Intn(len(c13advances), "advance")]; d > 0 {
			w.Sleep(d)
			hist = append(hist, fmt.Sprintf("+%v", d))
			if rd != nil {
				rd.Sync()
			}
		}
		o := c13gen(c, &uniq, c13keys)
		if o.Op == "CAS" {
			switch c.Intn(3, "cas.old") {
			case 0:
				o.Old = last[o.Key]
			case 1:
				o.Old = ""
			default:
				o.Old = prev[o.Key]
				if o.Old == "" {
					o.Old = "never-written"
				}
			}
		}
		now := time.Now()
		cls := md.class(o.Key, now)
		want := md.step(o, now)
		// mdR: the same reference with the one recorded difference of Redis built in (a list that is set
		// empty or emptied is no key at all). A divergence on a key that went through an empty list is
		// attributed to that difference only if Redis answers exactly what this second reference expects.
		var wantR []string
		if rd != nil {
			wantR = mdR.step(o, now)
			if it := mdR.m[o.Key]; it != nil && it.kind == "list" && len(it.list) == 0 {
				delete(mdR.m, o.Key)
			}
			if o.Op == "GetList" && contains(wantR, "notfound") {
				wantR = append(wantR, "v:[]") // LRANGE on a missing key (its own recorded difference)
			}
		}
		got := c13apply(mem, o)
		hist = append(hist, o.String()+"→"+got)
		if cls == "expired" || o.Op == "CAS" || o.Op == "SetNX" {
			w.Nontrivial()
		}
		if cls == "expired" {
			w.Probe("expiry.crossed")
		}
		w.Probe("op." + o.Op)
		// track values for CAS
		if (o.Op == "Set") || ((o.Op == "SetNX" || o.Op == "CAS") && got == "v:true") {
			prev[o.Key] = last[o.Key]
			last[o.Key] = o.Val
		}
		ttlc := "na"
		switch o.Op {
		case "Set", "SetNX", "CAS", "SetList", "SetExpiration":
			ttlc = "ttl0"
			if o.TTL > 0 {
				ttlc = "ttl+"
			}
		}
		if want != nil && !contains(want, got) {
			w.Violationf(fmt.Sprintf("C13:model:%s:%s:%s", o.Op, cls, ttlc),
				"memory backend answered %s, reference map expects %v for %s (key state %s) after history:\n%s", got, want, o, cls, strings.Join(tailStr(hist, 25), "\n"))
			return
		}
		if want == nil {
			// unspecified by the contract: resynchronise the model is impossible; stop comparing this key
			w.Probe("unspecified.skipped")
			return
		}
		if it := md.m[o.Key]; it != nil && it.kind == "hash" && len(it.hash) == 0 {
			emptied[o.Key] = true
			w.Probe("hash.became-empty")
		} else if it != nil && it.kind == "hash" && o.Op == "SetHash" && len(it.hash) == 1 && (cls == "live-forever" || cls == "live-ttl") {
			// an existing hash that holds exactly one field after SetHash: Redis re-arms the default lifetime
			hrearm[o.Key] = true
			w.Probe("hash.single-field-after-SetHash-on-existing-key")
		}
		if it := md.m[o.Key]; it != nil && it.kind == "list" && len(it.list) == 0 {
			emptied[o.Key] = true
			w.Probe("list.became-empty")
		} else if o.Op == "Set" || o.Op == "Delete" || o.Op == "SetList" {
			emptied[o.Key] = false // the key was rewritten as a whole in both backends
			hrearm[o.Key] = false
		}
		if o.Op == "IncrBy" && (cls == "live-forever" || cls == "live-ttl") && got == fmt.Sprintf("v:%d", o.N) {
			// an existing counter whose new value happens to equal the increment
			rearmed[o.Key] = true
			w.Probe("counter.result-equals-increment-on-existing-key")
		}
		if rd != nil {
			if c13Restricted(o) {
				rg := c13apply(rd.Storage, o)
				if rg != got && !c13ExpClose(rg, got) && !tainted[o.Key] {
					sig := fmt.Sprintf("C13:diff:%s:%s:%s", o.Op, cls, ttlc)
					// root-cause classes: Redis has no empty lists (an emptied or empty-set list is no key at all),
					// and LRANGE on a missing key answers an empty list
					if rearmed[o.Key] {
						sig = "C13:diff:redis-IncrBy-rearms-lifetime-when-result-equals-increment"
					} else if emptied[o.Key] && (c13Explained(wantR, rg) || (wantR == nil && strings.HasPrefix(rg, "v:"))) {
						// (wantR == nil: the Redis-flavoured reference leaves the answer open, e.g. the
						// implementation-chosen lifetime of a list re-created by an append)
						sig = "C13:diff:empty-list-is-not-a-key-in-redis"
						if o.Key[0] == 'h' {
							sig = "C13:diff:empty-hash-is-not-a-key-in-redis"
						}
					} else if o.Op == "GetList" && (cls == "absent" || cls == "expired") {
						sig = "C13:diff:GetList-of-missing-key"
					} else if o.Op == "GetAllHash" && (cls == "absent" || cls == "expired") && rg == "v:{}" {
						sig = "C13:diff:GetAllHash-of-missing-key"
					} else if hrearm[o.Key] && (c13Explained(wantR, rg) || (wantR == nil && strings.HasPrefix(rg, "v:"))) {
						sig = "C13:diff:redis-SetHash-rearms-lifetime-of-single-field-hash"
					}
					w.Violationf(sig,
						"memory answered %s but redis answered %s for %s (key state %s) after history:\n%s", got, rg, o, cls, strings.Join(tailStr(hist, 25), "\n"))
					// a classified root cause: stop comparing this key (its state now differs) but go on with the others
					if strings.HasPrefix(sig, "C13:diff:GetList-of") || strings.HasPrefix(sig, "C13:diff:GetAllHash-of") || sig == "C13:diff:empty-list-is-not-a-key-in-redis" || sig == "C13:diff:empty-hash-is-not-a-key-in-redis" ||
						sig == "C13:diff:redis-SetHash-rearms-lifetime-of-single-field-hash" {
						// no further state divergence (the second reference follows Redis on emptied lists)
					} else if rearmed[o.Key] {
						tainted[o.Key] = true
					} else {
						return
					}
				}
			} else {
				// keep redis state aligned without comparing
				c13apply(rd.Storage, o)
			}
		}
	}
	w.Sample(strings.Join(tailStr(hist, 30), " ; "))
}

// c13ExpClose: Redis reports remaining lifetimes truncated to seconds.
func c13ExpClose(a, b string) bool {
	if !strings.HasPrefix(a, "v:") || !strings.HasPrefix(b, "v:") {
		return false
	}
	// a remaining lifetime below one second is reported by Redis (TTL, whole seconds) as 0
	if a == "v:never" {
		a = "v:0s"
	}
	if b == "v:never" {
		b = "v:0s"
	}
	da, e1 := time.ParseDuration(a[2:])
	db, e2 := time.ParseDuration(b[2:])
	if e1 != nil || e2 != nil {
		return false
	}
	d := da - db
	if d < 0 {
		d = -d
	}
	return d <= time.Second
}

// c13Restricted: the operations and shapes the repositories use.
// c13Explained: Redis's answer is one the Redis-flavoured reference expects (lifetimes to the second).
func c13Explained(wantR []string, rg string) bool {
	for _, x := range wantR {
		if x == rg || c13ExpClose(x, rg) {
			return true
		}
	}
	return false
}

func c13Restricted(o c13op) bool {
	switch o.Op {
	case "Set", "Get", "Delete", "Exists", "SetNX", "CAS", "GetList", "Append", "Remove", "SetList", "IncrBy", "SetExpiration", "GetExpiration":
		return true
	case "SetHash", "GetHash", "GetAllHash", "DeleteHash":
		return true // the stats counters and the typed repository keep hashes
	}
	return false
}

func contains(l []string, s string) bool {
	for _, x := range l {
		if x == s {
			return true
		}
	}
	return false
}

func tailStr(l []string, n int) []string {
	if len(l) > n {
		return l[len(l)-n:]
	}
	return l
}

// ---- concurrent mode: linearizability ---------------------------------

type c13in struct {
	op c13op
}

type c13state struct {
	kind string
	val  string
	list string // comma joined
	hash string // canonical
	ctr  int64
}

func c13LinModel() porcupine.Model {
	return porcupine.Model{
		Partition: func(history []porcupine.Operation) [][]porcupine.Operation {
			m := map[string][]porcupine.Operation{}
			var keys []string
			for _, op := range history {
				k := op.Input.(c13op).Key
				if _, ok := m[k]; !ok {
					keys = append(keys, k)
				}
				m[k] = append(m[k], op)
			}
			sort.Strings(keys)
			var out [][]porcupine.Operation
			for _, k := range keys {
				out = append(out, m[k])
			}
			return out
		},
		Init: func() interface{} { return c13state{} },
		Step: func(state, input, output interface{}) (bool, interface{}) {
			st := state.(c13state)
			o := input.(c13op)
			out := output.(string)
			// reuse the sequential model on a one-key map (no expiry in concurrent mode)
			md := &c13model{m: map[string]*c13item{}}
			if st.kind != "" {
				it := &c13item{kind: st.kind, val: st.val, ctr: st.ctr}
				if st.kind == "list" && st.list != "" {
					it.list = strings.Split(st.list, ",")
				}
				if st.kind == "hash" {
					it.hash = map[string]string{}
					for _, kv := range strings.Split(st.hash, ";") {
						if i := strings.Index(kv, "="); i > 0 {
							it.hash[kv[:i]] = kv[i+1:]
						}
					}
				}
				md.m[o.Key] = it
			}
			want := md.step(o, time.Time{})
			if want != nil && !contains(want, out) {
				return false, state
			}
			ns := c13state{}
			if it := md.m[o.Key]; it != nil {
				ns.kind, ns.val, ns.ctr = it.kind, it.val, it.ctr
				ns.list = strings.Join(it.list, ",")
				if it.kind == "hash" {
					var ks []string
					for k := range it.hash {
						ks = append(ks, k)
					}
					sort.Strings(ks)
					for _, k := range ks {
						ns.hash += k + "=" + it.hash[k] + ";"
					}
				}
			}
			return true, ns
		},
		Equal: func(a, b interface{}) bool { return a.(c13state) == b.(c13state) },
		DescribeOperation: func(in, out interface{}) string { return in.(c13op).String() + "→" + out.(string) },
	}
}

func c13Concurrent(w *simrt.World) {
	c := w.C
	w.Probe("mode.concurrent-linearizability")
	mem := simstore.NewMemory(w)
	defer mem.Close()
	// a third of the runs put the clients on the Redis backend (go-redis against miniredis inside the
	// bubble): one storage operation is then one or several Redis commands, and other clients' commands
	// can land between them. Only scalar and counter keys: their answers agree between the backends.
	var backend types.Storage = mem
	onRedis := c.Intn(3, "concurrent.backend") == 2
	if onRedis {
		rd := simstore.NewRedis(w)
		defer rd.Close()
		backend = rd.Storage
		w.Probe("concurrent.on-redis")
	}
	nclients := 2 + c.Intn(3, "nclients")
	per := 3 + c.Intn(6, "ops.per.client")
	uniq := 0
	// few keys so that operations collide
	keys := []string{"s1", "l1", "h1", "c1"}
	if onRedis {
		keys = []string{"s1", "c1"}
	}
	nk := 1 + c.Intn(2, "nkeys")
	base := c.Intn(len(keys), "key.base")
	var plans [][]c13op
	var allowed []string
	for x := 0; x < nk; x++ {
		allowed = append(allowed, keys[(base+x)%len(keys)])
	}
	for ci := 0; ci < nclients; ci++ {
		var pl []c13op
		for j := 0; j < per; j++ {
			o := c13gen(c, &uniq, allowed)
			o.TTL = []time.Duration{0, time.Hour}[c.Intn(2, "ttl2")]
			if onRedis && (o.Op == "GetExpiration" || o.Op == "SetExpiration") {
				o.Op = "Get" // lifetimes of counters differ between the backends (recorded difference)
			}
			if o.Op == "CAS" {
				// expect a value another client may have written: values are v<N>
				if c.Intn(2, "cas.nil") == 0 {
					o.Old = ""
				} else {
					o.Old = fmt.Sprintf("v%d", 1+c.Intn(uniq, "cas.guess"))
				}
			}
			pl = append(pl, o)
		}
		plans = append(plans, pl)
	}
	// half of the runs: the keys start out expired but not yet swept (written with a 1 s lifetime, clock
	// advanced past it) and one extra client runs the expiry sweep concurrently with the writers: by the
	// contract an expired key is absent, so the sweep must never remove what a writer has just stored
	if !onRedis && c.Intn(2, "expired.prelude") == 1 {
		for _, k := range allowed {
			switch k[0] {
			case 's':
				mem.Set(k, "stale", time.Second)
			case 'l':
				mem.SetList(k, []any{"stale"}, time.Second)
			case 'c':
				mem.Set(k, int64(7), time.Second)
			case 'h':
				mem.Set(k, map[string]any{"f0": "stale"}, time.Second)
			}
		}
		w.Sleep(2*time.Second + 7*time.Millisecond)
		var sweeps []c13op
		for j := 0; j < 1+c.Intn(3, "nsweeps"); j++ {
			sweeps = append(sweeps, c13op{Op: "Cleanup", Key: allowed[0]})
		}
		plans = append(plans, sweeps)
		nclients++
		w.Probe("concurrent.expired-prelude-with-sweep")
	}
	var hist []porcupine.Operation
	var tasks []*simrt.Task
	results := make([][]porcupine.Operation, nclients)
	for ci := 0; ci < nclients; ci++ {
		ci := ci
		tasks = append(tasks, w.Spawn(fmt.Sprintf("client%d", ci), func() {
			for _, o := range plans[ci] {
				w.Yield("c13.invoke")
				call := w.Stamp()
				out := c13apply(backend, o)
				w.Yield("c13.return")
				ret := w.Stamp()
				results[ci] = append(results[ci], porcupine.Operation{ClientId: ci, Input: o, Call: call, Output: out, Return: ret})
			}
		}))
	}
	for _, t := range tasks {
		t.Wait()
	}
	overlap := false
	for ci := range results {
		hist = append(hist, results[ci]...)
	}
	for i := range hist {
		for j := range hist {
			if i != j && hist[i].ClientId != hist[j].ClientId && hist[i].Input.(c13op).Key == hist[j].Input.(c13op).Key &&
				hist[i].Call < hist[j].Return && hist[j].Call < hist[i].Return {
				overlap = true
			}
		}
	}
	if overlap {
		w.Nontrivial()
		w.Probe("concurrent.overlap")
	}
	res, info := porcupine.CheckOperationsVerbose(c13LinModel(), hist, 20*time.Second)
	_ = info
	switch res {
	case porcupine.Illegal:
		var lines []string
		sort.Slice(hist, func(i, j int) bool { return hist[i].Call < hist[j].Call })
		ops := map[string]bool{}
		for _, h := range hist {
			lines = append(lines, fmt.Sprintf("c%d [%d,%d] %s→%s", h.ClientId, h.Call, h.Return, h.Input.(c13op), h.Output))
			ops[h.Input.(c13op).Op] = true
		}
		sfx := ""
		if onRedis {
			sfx = ":redis"
		}
		w.Violationf("C13:linearizability:"+c13BadKey(hist)+sfx, "history is not linearizable:\n%s", strings.Join(lines, "\n"))
	case porcupine.Unknown:
		w.Probe("porcupine.unknown")
	default:
		w.Probe("porcupine.ok")
	}
	var s []string
	for _, h := range hist {
		s = append(s, fmt.Sprintf("c%d:%s→%s", h.ClientId, h.Input.(c13op), h.Output))
	}
	w.Sample(strings.Join(tailStr(s, 20), " ; "))
}

// c13BadKey names the kind of key whose sub-history is not linearizable.
func c13BadKey(hist []porcupine.Operation) string {
	m := c13LinModel()
	parts := m.Partition(hist)
	for _, p := range parts {
		one := porcupine.Model{Init: m.Init, Step: m.Step, Equal: m.Equal}
		if porcupine.CheckOperations(one, p) == false {
			k := p[0].Input.(c13op).Key
			return map[byte]string{'s': "scalar", 'l': "list", 'h': "hash", 'c': "counter"}[k[0]]
		}
	}
	return "unknown"
}
