//go:build verif

package domainproxy

import "tunnox-core/internal/cloud/models"

// LookupMappingForVerif exposes lookupMapping (the three-stage Host header
// resolution used by every proxy path) read-only to the C19 scenario.
func (m *DomainProxyModule) LookupMappingForVerif(host string) (*models.PortMapping, error) {
	return m.lookupMapping(host)
}
