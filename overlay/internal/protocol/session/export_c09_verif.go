//go:build verif

package session

import (
	"context"
	"net"

	"tunnox-core/internal/packet"
	"tunnox-core/internal/stream"
)

// Read-only / call-through accessors for the C09 simulation scenario
// (routing of waiting tunnels). They add no behaviour.

// StartSourceBridgeForVerif calls the real startSourceBridge.
func (s *SessionManager) StartSourceBridgeForVerif(req *packet.TunnelOpenRequest, conn net.Conn, st stream.PackageStreamer) error {
	return s.startSourceBridge(req, conn, st)
}

// LookupTunnelRoutingForVerif calls the real polling lookup used on the target node.
func (s *SessionManager) LookupTunnelRoutingForVerif(ctx context.Context, tunnelID string) (*TunnelWaitingState, error) {
	return s.lookupTunnelRouting(ctx, tunnelID)
}

// BridgeForVerif returns the bridge registered for a tunnel id (nil if none).
func (s *SessionManager) BridgeForVerif(tunnelID string) *TunnelBridge {
	s.bridgeLock.RLock()
	defer s.bridgeLock.RUnlock()
	return s.tunnelBridges[tunnelID]
}

// BridgeCountForVerif returns the number of bridges in the map.
func (s *SessionManager) BridgeCountForVerif() int {
	s.bridgeLock.RLock()
	defer s.bridgeLock.RUnlock()
	return len(s.tunnelBridges)
}
