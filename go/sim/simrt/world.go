package simrt

import (
	"context"
	crand "crypto/rand"
	mrand "math/rand"
	"fmt"
	"hash/fnv"
	"io"
	"runtime"
	"sort"
	"strconv"
	"strings"
	"sync"
	"sync/atomic"
	"testing"
	"testing/synctest"
	"time"
	"unsafe"

	"tunnox-core/internal/verifhook"
)

// Options bound one simulated run.
type Options struct {
	MaxSteps int           // scheduler decisions before the run is cut (default 200k)
	IdleJump time.Duration // longest single clock jump while nothing is runnable (default 1h)
	MaxIdle  time.Duration // simulated time without any hooked activity before the run counts as stuck (default 48h)
	Trace    io.Writer     // optional full event log
	Grace    time.Duration // simulated time given to goroutines to exit after the root context is cancelled (default 2m)
}

// Violation is one oracle verdict.
type Violation struct {
	Sig    string `json:"sig"`
	Detail string `json:"detail"`
	Step   int    `json:"step"`
	SimMS  int64  `json:"sim_ms"`
}

// TaskInfo describes a task that was still alive when the run ended.
type TaskInfo struct {
	ID   string `json:"id"`
	Site string `json:"site"`
	Born string `json:"born"`
}

// Result is what one run produced.
type Result struct {
	Violations []Violation    `json:"violations,omitempty"`
	Probes     map[string]int `json:"probes,omitempty"`
	Faults     map[string]int `json:"faults,omitempty"`
	States     map[string]int `json:"-"`
	Steps      int            `json:"steps"`
	SimTime    time.Duration  `json:"sim_ns"`
	SchedHash  uint64         `json:"sched_hash"`
	Stuck      bool           `json:"stuck,omitempty"`
	StepCap    bool           `json:"step_cap,omitempty"`
	Live       []TaskInfo     `json:"live,omitempty"`
	Blocked    []TaskInfo     `json:"blocked,omitempty"`
	Deadlock   string         `json:"deadlock,omitempty"`
	Nontrivial bool           `json:"nontrivial,omitempty"`
	Sample     string         `json:"sample,omitempty"`
	Tasks      int            `json:"tasks"`
	Draws      int            `json:"draws"`
}

// Task is a goroutine known to the scheduler.
type Task struct {
	ID        string
	w         *World
	born      string
	gate      chan struct{}
	site      string
	parked    bool
	lockWait  bool
	waitEpoch uint64
	children  int
	suppress  int
	done      bool
	doneCh    chan struct{}
	harness   bool
}

// Wait blocks (durably) until the task has finished.
func (t *Task) Wait() { <-t.doneCh }

// Done reports whether the task has finished.
func (t *Task) Done() bool {
	select {
	case <-t.doneCh:
		return true
	default:
		return false
	}
}

// World is one simulated execution.
type World struct {
	C   *Choice
	T   *testing.T
	Res *Result
	Ctx context.Context

	cancel   context.CancelFunc
	opt      Options
	mu       sync.Mutex
	all      []*Task
	parked   map[*Task]struct{}
	epoch    atomic.Uint64
	free     atomic.Bool
	activity chan struct{}
	cur      *Task
	extSeq   map[string]int
	hash     uint64
	start    time.Time
	stick    int
	lastAct  time.Time
	mainTask *Task
	crashSentinel any
	sleepUntil    time.Time
	stamp         atomic.Int64
	unlockCh      chan struct{}
	onceHeld      map[*sync.Once]*Task
	pools         map[*sync.Pool][]any
}

// Task identity is goroutine-local: the runtime's per-goroutine profiler-label
// slot (inherited by plain `go`, overwritten by every spawn through the hook)
// holds the *Task. Parsing runtime.Stack for a goroutine id costs a full
// traceback per hook (measured: 86% of CPU).
//
//go:linkname runtimeGetProfLabel runtime/pprof.runtime_getProfLabel
func runtimeGetProfLabel() unsafe.Pointer

//go:linkname runtimeSetProfLabel runtime/pprof.runtime_setProfLabel
func runtimeSetProfLabel(labels unsafe.Pointer)

// Run executes body as the root task of a fresh world inside one synctest
// bubble and returns what happened. It never fails t.
func Run(t *testing.T, c *Choice, opt Options, body func(w *World)) (res *Result) {
	if opt.MaxSteps == 0 {
		opt.MaxSteps = 200000
	}
	if opt.IdleJump == 0 {
		opt.IdleJump = time.Hour
	}
	if opt.MaxIdle == 0 {
		opt.MaxIdle = 48 * time.Hour
	}
	if opt.Grace == 0 {
		opt.Grace = 2 * time.Minute
	}
	res = &Result{Probes: map[string]int{}, Faults: map[string]int{}, States: map[string]int{}}
	w := &World{C: c, T: t, Res: res, opt: opt,
		parked: map[*Task]struct{}{}, extSeq: map[string]int{}, onceHeld: map[*sync.Once]*Task{}, pools: map[*sync.Pool][]any{}}
	// crypto/rand.Reader is the repository's only randomness source (ids, nonces, challenges, uuids):
	// replace it for the run by a full-entropy but deterministic stream derived from the choice stream.
	oldRand := crand.Reader
	crand.Reader = &detRand{r: mrand.New(mrand.NewSource(int64(c.Intn(1<<30, "rand.seed")) + 99))}
	defer func() {
		crand.Reader = oldRand
		verifhook.Install(nil)
		if r := recover(); r != nil {
			if e, ok := r.(error); ok && strings.HasPrefix(e.Error(), "deadlock:") {
				res.Deadlock = e.Error()
				return
			}
			panic(r)
		}
	}()
	synctest.Test(t, func(t *testing.T) {
		w.start = time.Now()
		w.lastAct = w.start
		w.activity = make(chan struct{}, 1)
		w.unlockCh = make(chan struct{})
		w.Ctx, w.cancel = context.WithCancel(context.Background())
		// per-run scheduling style: how strongly the running task keeps the CPU
		w.stick = []int{3, 0, 1, 8, 20}[c.Intn(5, "sched.stick")]
		verifhook.Install(w)
		w.mainTask = w.spawn("main", "root", true, func() { body(w) })
		w.loop()
		w.finish()
	})
	return res
}

// ---------------------------------------------------------------- hooks

func (w *World) taskFor(site string) *Task {
	if p := runtimeGetProfLabel(); p != nil {
		if t := (*Task)(p); t.w == w && !t.done {
			return t
		}
	}
	// goroutine created by uninstrumented code (timer callback, library)
	w.mu.Lock()
	w.extSeq[site]++
	t := &Task{ID: "x:" + site + "#" + strconv.Itoa(w.extSeq[site]), born: site, w: w,
		gate: make(chan struct{}), doneCh: make(chan struct{})}
	w.all = append(w.all, t)
	w.mu.Unlock()
	runtimeSetProfLabel(unsafe.Pointer(t))
	return t
}

func (w *World) park(t *Task, site string, lockWait bool, epoch uint64) {
	w.mu.Lock()
	if w.free.Load() {
		w.mu.Unlock()
		return
	}
	t.site = site
	t.lockWait = lockWait
	t.waitEpoch = epoch
	t.parked = true
	w.parked[t] = struct{}{}
	w.mu.Unlock()
	select {
	case w.activity <- struct{}{}:
	default:
	}
	<-t.gate
}

// Yield implements verifhook.Runtime.
func (w *World) Yield(site string) {
	if w.free.Load() {
		return
	}
	t := w.taskFor(site)
	if t.suppress > 0 {
		return
	}
	w.park(t, site, false, 0)
}

// Lock implements verifhook.Runtime: a modelled mutex acquisition. The task
// parks first (a scheduling decision), then TryLocks; on failure it stays
// parked until some Unlock has happened. It never blocks on the real mutex,
// so a task may be parked while holding a lock.
func (w *World) Lock(site string, try func() bool, lock func()) {
	if w.free.Load() {
		w.freeLock(try)
		return
	}
	t := w.taskFor(site)
	if t.suppress > 0 {
		lock()
		return
	}
	w.park(t, site, false, 0)
	for {
		e := w.epoch.Load()
		if try() {
			return
		}
		if w.free.Load() {
			w.freeLock(try)
			return
		}
		w.park(t, site, true, e)
	}
}

// Unlocked implements verifhook.Runtime.
func (w *World) Unlocked() {
	w.epoch.Add(1)
	if w.free.Load() {
		w.mu.Lock()
		close(w.unlockCh)
		w.unlockCh = make(chan struct{})
		w.mu.Unlock()
	}
}

// freeLock acquires a modelled mutex while the world drains. It never blocks on the real mutex
// (a goroutine waiting on a sync.Mutex is not durably blocked, so if the holder is stuck for good
// the bubble could neither detect quiescence nor advance its clock and the worker would hang): it
// waits on a bubble channel that every Unlock signals.
func (w *World) freeLock(try func() bool) {
	for {
		if try() {
			return
		}
		w.mu.Lock()
		ch := w.unlockCh
		w.mu.Unlock()
		if try() {
			return
		}
		<-ch
	}
}

// Suppress implements verifhook.Runtime.
func (w *World) Suppress(d int) {
	if w.free.Load() {
		return
	}
	t := w.taskFor("suppress")
	t.suppress += d
}

// Go implements verifhook.Runtime: every spawn is a task with a logical id
// derived from its parent, parked at birth.
func (w *World) Go(site string, f func()) {
	if w.free.Load() {
		go f()
		return
	}
	p := w.taskFor("go:" + site)
	w.mu.Lock()
	p.children++
	id := p.ID + "." + strconv.Itoa(p.children)
	w.mu.Unlock()
	w.spawn(id, site, false, f)
}

func (w *World) spawn(id, site string, harness bool, f func()) *Task {
	t := &Task{ID: id, born: site, w: w, gate: make(chan struct{}), doneCh: make(chan struct{}), harness: harness}
	w.mu.Lock()
	w.all = append(w.all, t)
	w.mu.Unlock()
	go func() {
		runtimeSetProfLabel(unsafe.Pointer(t))
		defer func() {
			if r := recover(); r != nil {
				if (w.crashSentinel != nil && r == w.crashSentinel) || strings.Contains(fmt.Sprint(r), CrashMarker) {
					// simulated process crash unwinding this task (possibly re-panicked by a library
					// such as singleflight, which wraps the value but keeps its text)
				} else {
					w.recordPanic(t, r)
				}
			}
			w.mu.Lock()
			t.done = true
			w.mu.Unlock()
			runtimeSetProfLabel(nil)
			close(t.doneCh)
			select {
			case w.activity <- struct{}{}:
			default:
			}
		}()
		w.park(t, "start:"+site, false, 0)
		f()
	}()
	return t
}

// Spawn starts a harness task with an explicit, unique logical id.
func (w *World) Spawn(name string, f func()) *Task {
	return w.spawn(name, "harness", true, f)
}

// CrashMarker is the text every simulated-crash panic value carries.
const CrashMarker = "verifsim: simulated node crash"

// SetCrashSentinel registers the panic value used to unwind tasks of a
// crashed node; such panics are not reported.
func (w *World) SetCrashSentinel(v any) { w.crashSentinel = v }

func (w *World) recordPanic(t *Task, r any) {
	buf := make([]byte, 16<<10)
	buf = buf[:runtime.Stack(buf, false)]
	fn := panicFrame(string(buf))
	w.Violation("panic:"+fn, fmt.Sprintf("task %s: %v\n%s", t.ID, r, trimStack(string(buf))))
}

// panicFrame extracts the first tunnox-core (non-harness) function below the
// panic call from a stack dump.
func panicFrame(st string) string {
	lines := strings.Split(st, "\n")
	seenPanic := false
	first := ""
	for _, l := range lines {
		if strings.HasPrefix(l, "panic(") {
			seenPanic = true
			continue
		}
		if !seenPanic || strings.HasPrefix(l, "\t") || l == "" {
			continue
		}
		name := l
		if i := strings.LastIndex(name, "("); i > 0 {
			name = name[:i]
		}
		if first == "" && !strings.HasPrefix(name, "runtime.") {
			first = name
		}
		if strings.HasPrefix(name, "tunnox-core/internal/") && !strings.Contains(name, "verifhook") {
			return strings.TrimPrefix(name, "tunnox-core/internal/")
		}
	}
	if first == "" {
		first = "unknown"
	}
	return first
}

func trimStack(s string) string {
	if len(s) > 3000 {
		return s[:3000] + "\n..."
	}
	return s
}

// ---------------------------------------------------------------- scheduler

func (w *World) runnable() []*Task {
	e := w.epoch.Load()
	var c []*Task
	for t := range w.parked {
		if t.lockWait && t.waitEpoch == e {
			continue
		}
		c = append(c, t)
	}
	sort.Slice(c, func(i, j int) bool { return c[i].ID < c[j].ID })
	return c
}

func (w *World) loop() {
	for {
		synctest.Wait()
		w.mu.Lock()
		if w.mainTask.done {
			w.mu.Unlock()
			return
		}
		cands := w.runnable()
		w.mu.Unlock()
		if len(cands) == 0 {
			if time.Since(w.lastAct) > w.opt.MaxIdle && time.Now().After(w.sleepUntil.Add(w.opt.MaxIdle)) {
				w.Res.Stuck = true
				w.Res.Blocked = w.snapshotTasks()
				return
			}
			tm := time.NewTimer(w.opt.IdleJump)
			select {
			case <-w.activity:
				tm.Stop()
			case <-tm.C:
			}
			continue
		}
		w.lastAct = time.Now()
		if w.Res.Steps >= w.opt.MaxSteps {
			w.Res.StepCap = true
			w.Res.Blocked = w.snapshotTasks()
			return
		}
		idx := 0
		if n := len(cands); n > 1 {
			ci := -1
			for i, t := range cands {
				if t == w.cur {
					ci = i
				}
			}
			if ci > 0 {
				cands[0], cands[ci] = cands[ci], cands[0]
				sort.Slice(cands[1:], func(i, j int) bool { return cands[1+i].ID < cands[1+j].ID })
			}
			if ci >= 0 && w.stick > 0 {
				bonus := w.stick * n
				v := w.C.Intn(n+bonus, "sched")
				if v > bonus {
					idx = v - bonus
				}
			} else {
				idx = w.C.Intn(n, "sched")
			}
		}
		t := cands[idx]
		w.release(t)
	}
}

func (w *World) release(t *Task) {
	w.mu.Lock()
	delete(w.parked, t)
	t.parked = false
	w.cur = t
	w.Res.Steps++
	h := fnv.New64a()
	var b [8]byte
	for i := 0; i < 8; i++ {
		b[i] = byte(w.hash >> (8 * i))
	}
	h.Write(b[:])
	h.Write([]byte(t.ID))
	h.Write([]byte{0})
	h.Write([]byte(t.site))
	w.hash = h.Sum64()
	if w.opt.Trace != nil {
		fmt.Fprintf(w.opt.Trace, "%6d %12s %-28s %s\n", w.Res.Steps, time.Since(w.start), t.ID, t.site)
	}
	w.mu.Unlock()
	t.gate <- struct{}{}
}

func (w *World) snapshotTasks() []TaskInfo {
	w.mu.Lock()
	defer w.mu.Unlock()
	var out []TaskInfo
	for _, t := range w.all {
		if !t.done {
			site := t.site
			if !t.parked {
				site = "blocked-after:" + site
			} else if t.lockWait {
				site = "lock-wait:" + site
			}
			out = append(out, TaskInfo{ID: t.ID, Site: site, Born: t.born})
		}
	}
	sort.Slice(out, func(i, j int) bool { return out[i].ID < out[j].ID })
	return out
}

// finish ends the simulation: hooks become pass-through, every parked task is
// released, the root context is cancelled and goroutines get a grace period on
// the fake clock to exit. Whatever is still alive afterwards is recorded.
func (w *World) finish() {
	w.mu.Lock()
	w.free.Store(true)
	var ps []*Task
	for t := range w.parked {
		ps = append(ps, t)
	}
	w.parked = map[*Task]struct{}{}
	w.mu.Unlock()
	for _, t := range ps {
		t.gate <- struct{}{}
	}
	w.cancel()
	synctest.Wait()
	time.Sleep(w.opt.Grace)
	synctest.Wait()
	w.Res.SimTime = time.Since(w.start)
	w.Res.SchedHash = w.hash
	w.Res.Live = w.snapshotTasks()
	w.mu.Lock()
	w.Res.Tasks = len(w.all)
	w.mu.Unlock()
	w.Res.Draws = len(w.C.Rec)
}

// ---------------------------------------------------------------- scenario API

// Violation records an oracle verdict. sig is the stable class of the
// failure (used for minimisation and known-finding matching).
func (w *World) Violation(sig, detail string) {
	w.mu.Lock()
	defer w.mu.Unlock()
	for _, v := range w.Res.Violations {
		if v.Sig == sig {
			return
		}
	}
	w.Res.Violations = append(w.Res.Violations, Violation{Sig: sig, Detail: detail, Step: w.Res.Steps, SimMS: time.Since(w.start).Milliseconds()})
}

// Violationf is Violation with formatting.
func (w *World) Violationf(sig, format string, a ...any) {
	w.Violation(sig, fmt.Sprintf(format, a...))
}

// Probe counts that a branch of interest was reached.
func (w *World) Probe(name string) {
	w.mu.Lock()
	w.Res.Probes[name]++
	w.mu.Unlock()
}

// Fault counts a fault that actually fired.
func (w *World) Fault(kind string) {
	w.mu.Lock()
	w.Res.Faults[kind]++
	w.mu.Unlock()
}

// State counts a visited abstract state.
func (w *World) State(key string) {
	w.mu.Lock()
	w.Res.States[key]++
	w.mu.Unlock()
}

// Nontrivial marks the run as having reached the property's interesting region.
func (w *World) Nontrivial() {
	w.mu.Lock()
	w.Res.Nontrivial = true
	w.mu.Unlock()
}

// Sample stores a human-readable description of this run's case.
func (w *World) Sample(s string) {
	w.mu.Lock()
	if len(s) > 1500 {
		s = s[:1500] + "..."
	}
	w.Res.Sample = s
	w.mu.Unlock()
}

// Logf adds an oracle-visible observation to the event log hash and trace.
func (w *World) Logf(format string, a ...any) {
	s := fmt.Sprintf(format, a...)
	w.mu.Lock()
	h := fnv.New64a()
	var b [8]byte
	for i := 0; i < 8; i++ {
		b[i] = byte(w.hash >> (8 * i))
	}
	h.Write(b[:])
	h.Write([]byte(s))
	w.hash = h.Sum64()
	if w.opt.Trace != nil {
		fmt.Fprintf(w.opt.Trace, "       %12s   # %s\n", time.Since(w.start), s)
	}
	w.mu.Unlock()
}

// Draw parks the calling task and then draws: because the draw happens right
// after a release, no other task is running and the stream order is exact.
func (w *World) Draw(n int, label string) int {
	if n <= 1 {
		return 0
	}
	w.Yield("draw:" + label)
	return w.C.Intn(n, label)
}

// DrawChance is Draw-based Chance.
func (w *World) DrawChance(num, den int, label string) bool {
	if num <= 0 {
		return false
	}
	w.Yield("draw:" + label)
	return w.C.Chance(num, den, label)
}

// Stamp returns the next value of a global event counter. Only one task runs
// between two scheduler decisions, so stamps taken by tasks right after a
// release are totally ordered in real (simulated) execution order.
func (w *World) Stamp() int64 { return w.stamp.Add(1) }

// Now is the simulated time since the run began.
func (w *World) Now() time.Duration { return time.Since(w.start) }

// Steps returns the number of scheduler decisions so far.
func (w *World) Steps() int {
	w.mu.Lock()
	defer w.mu.Unlock()
	return w.Res.Steps
}

// Free reports whether the world is draining (hooks pass-through).
func (w *World) Free() bool { return w.free.Load() }

// Settle parks the caller until every other task is blocked or finished or
// until it has been scheduled n times; used by oracles that need quiescence.
func (w *World) Settle(n int) {
	for i := 0; i < n; i++ {
		w.Yield("settle")
	}
}

// LiveTasks lists tasks that have not finished (any state).
func (w *World) LiveTasks() []TaskInfo { return w.snapshotTasks() }

// Sleep advances the calling task on the simulated clock. Long intentional
// sleeps do not count towards the stuck detector.
func (w *World) Sleep(d time.Duration) {
	if d <= 0 {
		return
	}
	w.mu.Lock()
	if u := time.Now().Add(d); u.After(w.sleepUntil) {
		w.sleepUntil = u
	}
	w.mu.Unlock()
	time.Sleep(d)
	w.Yield("sleep.wake")
}

// Quiet runs f in the calling task with scheduling points suppressed (hooks
// pass through). Use it for world construction while no other task has run
// yet: wiring a node executes thousands of instrumented statements that need
// no interleaving. Tasks spawned inside f are still parked at birth.
func (w *World) Quiet(f func()) {
	if w.free.Load() {
		f()
		return
	}
	t := w.taskFor("quiet")
	t.suppress++
	defer func() { t.suppress-- }()
	f()
}

// detRand is a deterministic crypto/rand.Reader replacement.
type detRand struct {
	mu sync.Mutex
	r  *mrand.Rand
}

func (d *detRand) Read(p []byte) (int, error) {
	d.mu.Lock()
	defer d.mu.Unlock()
	return d.r.Read(p)
}

// OnceEnter implements verifhook.Runtime.
func (w *World) OnceEnter(o *sync.Once) {
	if w.free.Load() {
		return
	}
	t := w.taskFor("once.enter")
	if t.suppress > 0 {
		return
	}
	w.park(t, "once.Do", false, 0)
	for {
		e := w.epoch.Load()
		w.mu.Lock()
		holder := w.onceHeld[o]
		if holder == nil || holder == t {
			w.onceHeld[o] = t
			w.mu.Unlock()
			return
		}
		w.mu.Unlock()
		if w.free.Load() {
			return
		}
		w.park(t, "once.wait", true, e)
	}
}

// OnceLeave implements verifhook.Runtime.
func (w *World) OnceLeave(o *sync.Once) {
	w.mu.Lock()
	if t := w.onceHeld[o]; t != nil {
		if p := runtimeGetProfLabel(); p == nil || (*Task)(p) == t {
			delete(w.onceHeld, o)
		}
	}
	w.mu.Unlock()
	w.epoch.Add(1)
}

// PoolGet implements verifhook.Runtime.
func (w *World) PoolGet(p *sync.Pool) any {
	w.mu.Lock()
	l := w.pools[p]
	if n := len(l); n > 0 {
		x := l[n-1]
		w.pools[p] = l[:n-1]
		w.mu.Unlock()
		return x
	}
	w.mu.Unlock()
	if p.New != nil {
		return p.New()
	}
	return nil
}

// PoolPut implements verifhook.Runtime.
func (w *World) PoolPut(p *sync.Pool, x any) {
	w.mu.Lock()
	if len(w.pools[p]) < 64 {
		w.pools[p] = append(w.pools[p], x)
	}
	w.mu.Unlock()
}

// SelectOrder implements verifhook.Runtime: a rotation of the source order, drawn right after the
// yield the instrumenter places before every select (so the draw is race-free).
func (w *World) SelectOrder(n int) []int {
	if w.free.Load() || n < 2 {
		return nil
	}
	t := w.taskFor("select")
	k := 0
	if t.suppress == 0 {
		w.park(t, "select.order", false, 0)
		if w.free.Load() {
			return nil
		}
		k = w.C.Intn(n, "select.order")
	}
	out := make([]int, n)
	for i := range out {
		out[i] = (i + k) % n
	}
	return out
}
