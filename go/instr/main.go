// Command verifinstr rewrites a scratch copy of tunnox-core so that every
// synchronisation point becomes a scheduling decision of the simulator.
//
//	verifinstr -dir <scratch repo copy> -dense <file with one repo-relative path per line>
//
// It is type-aware (go/packages) and rewrites files in place. Constructs it
// does not understand are left untouched and reported on stderr.
package main

import (
	"bufio"
	"bytes"
	"flag"
	"fmt"
	"go/ast"
	"go/constant"
	"go/format"
	"go/token"
	"go/types"
	"os"
	"path/filepath"
	"sort"
	"strconv"
	"strings"

	"golang.org/x/tools/go/packages"
)

var (
	dirFlag   = flag.String("dir", "", "root of the scratch copy (module tunnox-core)")
	denseFlag = flag.String("dense", "", "file listing repo-relative paths (files or directories) that get a yield before every statement")
	verbose   = flag.Bool("v", false, "verbose")
)

type stats struct {
	locks, unlocks, gos, yields, dense, onces, ranges, skipped, files, pools, selects, moves int
}

var st stats
var warnings []string

func warnf(format string, a ...any) {
	warnings = append(warnings, fmt.Sprintf(format, a...))
}

func main() {
	flag.Parse()
	if *dirFlag == "" {
		fmt.Fprintln(os.Stderr, "need -dir")
		os.Exit(2)
	}
	root, _ := filepath.Abs(*dirFlag)
	dense := map[string]bool{}
	var denseDirs []string
	if *denseFlag != "" {
		f, err := os.Open(*denseFlag)
		if err != nil {
			fmt.Fprintln(os.Stderr, err)
			os.Exit(2)
		}
		sc := bufio.NewScanner(f)
		for sc.Scan() {
			l := strings.TrimSpace(sc.Text())
			if l == "" || strings.HasPrefix(l, "#") {
				continue
			}
			if strings.HasSuffix(l, "/") {
				denseDirs = append(denseDirs, l)
			} else {
				dense[l] = true
			}
		}
		f.Close()
	}
	applyRetypes(root)
	cfg := &packages.Config{
		Mode:       packages.NeedName | packages.NeedFiles | packages.NeedSyntax | packages.NeedTypes | packages.NeedTypesInfo | packages.NeedImports | packages.NeedDeps | packages.NeedCompiledGoFiles,
		Dir:        root,
		BuildFlags: []string{"-tags=verif"},
		Tests:      false,
	}
	pkgs, err := packages.Load(cfg, "./internal/...")
	if err != nil {
		fmt.Fprintln(os.Stderr, "load:", err)
		os.Exit(2)
	}
	bad := false
	for _, p := range pkgs {
		for _, e := range p.Errors {
			fmt.Fprintln(os.Stderr, "load error:", e)
			bad = true
		}
	}
	if bad {
		os.Exit(2)
	}
	for _, p := range pkgs {
		if strings.HasSuffix(p.PkgPath, "/verifhook") {
			continue
		}
		// logging must never become a scheduling point
		if strings.HasSuffix(p.PkgPath, "internal/core/log") || strings.HasSuffix(p.PkgPath, "internal/utils/logger") {
			continue
		}
		for i, f := range p.Syntax {
			name := p.CompiledGoFiles[i]
			if !strings.HasPrefix(name, root) || !strings.HasSuffix(name, ".go") {
				continue
			}
			rel, _ := filepath.Rel(root, name)
			// overlay files (*_verif.go) are instrumented too: their accessors take repo locks, and a real
			// Lock() against a mutex held by a parked task would wedge the bubble
			isDense := dense[rel]
			for _, d := range denseDirs {
				if strings.HasPrefix(rel, d) {
					isDense = true
				}
			}
			r := &rewriter{fset: p.Fset, info: p.TypesInfo, pkg: p.Types, rel: rel, dense: isDense}
			if r.file(f) {
				stripComments(f)
				addImport(f)
				var buf bytes.Buffer
				if err := format.Node(&buf, p.Fset, f); err != nil {
					fmt.Fprintf(os.Stderr, "format %s: %v\n", rel, err)
					os.Exit(2)
				}
				if err := os.WriteFile(name, buf.Bytes(), 0o644); err != nil {
					fmt.Fprintln(os.Stderr, err)
					os.Exit(2)
				}
				st.files++
			}
		}
	}
	sort.Strings(warnings)
	for _, w := range warnings {
		fmt.Fprintln(os.Stderr, "warn:", w)
	}
	fmt.Printf("instrumented files=%d locks=%d unlocks=%d go=%d yields=%d dense_yields=%d once=%d map_ranges=%d pools=%d selects=%d moves=%d skipped=%d\n",
		st.files, st.locks, st.unlocks, st.gos, st.yields, st.dense, st.onces, st.ranges, st.pools, st.selects, st.moves, st.skipped)
}

// applyRetypes is a textual pre-pass, run before type-checking: an overlay file
// (*_verif.go) may carry lines of the form
//
//	//verif:retype <from> <to>
//
// and every occurrence of <from> in the other non-test Go files of the same
// directory is replaced by <to>. It exists for struct fields typed with a
// concrete kernel-socket type (e.g. *net.UDPConn) that the simulator must be
// able to replace by a harness-owned endpoint: <to> is an interface declared in
// the overlay file that the concrete type also satisfies, so the repo's own
// constructors keep compiling. Opt-in, one package at a time; without a
// directive nothing changes.
func applyRetypes(root string) {
	filepath.WalkDir(filepath.Join(root, "internal"), func(path string, d os.DirEntry, err error) error {
		if err != nil || d.IsDir() || !strings.HasSuffix(path, "_verif.go") {
			return nil
		}
		b, err := os.ReadFile(path)
		if err != nil {
			return nil
		}
		for _, line := range strings.Split(string(b), "\n") {
			line = strings.TrimSpace(line)
			if !strings.HasPrefix(line, "//verif:retype ") {
				continue
			}
			f := strings.Fields(strings.TrimPrefix(line, "//verif:retype "))
			if len(f) != 2 {
				fmt.Fprintf(os.Stderr, "bad retype directive in %s: %q\n", path, line)
				os.Exit(2)
			}
			dir := filepath.Dir(path)
			ents, _ := os.ReadDir(dir)
			n := 0
			for _, e := range ents {
				name := e.Name()
				if e.IsDir() || !strings.HasSuffix(name, ".go") || strings.HasSuffix(name, "_test.go") || strings.HasSuffix(name, "_verif.go") {
					continue
				}
				fp := filepath.Join(dir, name)
				src, err := os.ReadFile(fp)
				if err != nil || !bytes.Contains(src, []byte(f[0])) {
					continue
				}
				n += bytes.Count(src, []byte(f[0]))
				if err := os.WriteFile(fp, bytes.ReplaceAll(src, []byte(f[0]), []byte(f[1])), 0o644); err != nil {
					fmt.Fprintln(os.Stderr, err)
					os.Exit(2)
				}
			}
			rel, _ := filepath.Rel(root, dir)
			fmt.Printf("retype %s: %s -> %s (%d occurrences)\n", rel, f[0], f[1], n)
		}
		return nil
	})
}

// stripComments keeps only comments up to the package clause and //go:
// directives; free-floating comments confuse the printer once nodes move.
func stripComments(f *ast.File) {
	var keep []*ast.CommentGroup
	for _, cg := range f.Comments {
		if cg.End() < f.Package {
			keep = append(keep, cg)
			continue
		}
		for _, c := range cg.List {
			if strings.HasPrefix(c.Text, "//go:") {
				keep = append(keep, &ast.CommentGroup{List: []*ast.Comment{c}})
			}
		}
	}
	f.Comments = keep
	// drop doc pointers that now dangle
	ast.Inspect(f, func(n ast.Node) bool {
		switch x := n.(type) {
		case *ast.FuncDecl:
			x.Doc = filterDoc(x.Doc)
		case *ast.GenDecl:
			x.Doc = filterDoc(x.Doc)
		case *ast.Field:
			x.Doc, x.Comment = nil, nil
		case *ast.ValueSpec:
			x.Doc, x.Comment = filterDoc(x.Doc), nil
		case *ast.TypeSpec:
			x.Doc, x.Comment = nil, nil
		case *ast.ImportSpec:
			x.Doc, x.Comment = nil, nil
		}
		return true
	})
}

func filterDoc(cg *ast.CommentGroup) *ast.CommentGroup {
	if cg == nil {
		return nil
	}
	var l []*ast.Comment
	for _, c := range cg.List {
		if strings.HasPrefix(c.Text, "//go:") {
			l = append(l, c)
		}
	}
	if len(l) == 0 {
		return nil
	}
	return &ast.CommentGroup{List: l}
}

func addImport(f *ast.File) {
	for _, im := range f.Imports {
		if im.Path.Value == `"tunnox-core/internal/verifhook"` {
			return
		}
	}
	spec := &ast.ImportSpec{Name: ast.NewIdent("verifhook"), Path: &ast.BasicLit{Kind: token.STRING, Value: `"tunnox-core/internal/verifhook"`}}
	decl := &ast.GenDecl{Tok: token.IMPORT, Specs: []ast.Spec{spec}}
	// after existing imports (imports must precede other decls)
	idx := 0
	for i, d := range f.Decls {
		if g, ok := d.(*ast.GenDecl); ok && g.Tok == token.IMPORT {
			idx = i + 1
		}
	}
	f.Decls = append(f.Decls[:idx], append([]ast.Decl{decl}, f.Decls[idx:]...)...)
	f.Imports = append(f.Imports, spec)
}

type rewriter struct {
	fset    *token.FileSet
	info    *types.Info
	pkg     *types.Package
	rel     string
	dense   bool
	changed bool
	labeled bool
}

func (r *rewriter) site(n ast.Node) string {
	p := r.fset.Position(n.Pos())
	return r.rel + ":" + strconv.Itoa(p.Line)
}

// addrOf returns an expression of pointer type for x (x itself if it already is a pointer).
func (r *rewriter) addrOf(x ast.Expr) ast.Expr {
	if t := r.info.TypeOf(x); t != nil {
		if _, ok := t.Underlying().(*types.Pointer); ok {
			return x
		}
	}
	return &ast.UnaryExpr{Op: token.AND, X: x}
}

// rewritePools turns p.Get()/p.Put(x) on sync.Pool into verifhook.PoolGet(&p)/PoolPut(&p, x):
// a real pool's content depends on earlier runs and GC timing, which would make step counts
// (and therefore replays) depend on process history.
func (r *rewriter) rewritePools(f *ast.File) {
	ast.Inspect(f, func(n ast.Node) bool {
		call, ok := n.(*ast.CallExpr)
		if !ok {
			return true
		}
		pkg, typ, meth, se, ok := r.methodOf(call)
		if !ok || pkg != "sync" || typ != "Pool" || (meth != "Get" && meth != "Put") {
			return true
		}
		if hasCall(se.X) {
			return true
		}
		name := "PoolGet"
		if meth == "Put" {
			name = "PoolPut"
		}
		call.Args = append([]ast.Expr{r.addrOf(se.X)}, call.Args...)
		call.Fun = &ast.SelectorExpr{X: ast.NewIdent("verifhook"), Sel: ast.NewIdent(name)}
		r.changed = true
		st.pools++
		return true
	})
}

// rewriteMoves makes bulk byte moves countable: copy(dst, src) becomes verifhook.Copied(copy(dst, src))
// and append(x, y...) with a []byte/string y becomes append(x, verifhook.MovedBytes(y)...) (MovedString).
// Behaviour is unchanged; the hook adds the number of bytes to a process-wide counter that cost
// oracles read (work per delivered byte must not grow with the amount buffered; a memmove is one
// statement, invisible to step counts and to the allocator).
func (r *rewriter) rewriteMoves(f *ast.File) {
	hook := func(name string, arg ast.Expr) *ast.CallExpr {
		return &ast.CallExpr{Fun: &ast.SelectorExpr{X: ast.NewIdent("verifhook"), Sel: ast.NewIdent(name)}, Args: []ast.Expr{arg}}
	}
	byteish := func(e ast.Expr) string {
		t := r.info.TypeOf(e)
		if t == nil {
			return ""
		}
		switch u := t.Underlying().(type) {
		case *types.Slice:
			if b, ok := u.Elem().Underlying().(*types.Basic); ok && b.Kind() == types.Uint8 {
				return "MovedBytes"
			}
		case *types.Basic:
			if u.Info()&types.IsString != 0 && u.Kind() != types.UntypedString {
				return "MovedString"
			}
		}
		return ""
	}
	// the call of a defer/go statement is evaluated later: wrapping it would move the evaluation
	deferred := map[*ast.CallExpr]bool{}
	ast.Inspect(f, func(n ast.Node) bool {
		switch x := n.(type) {
		case *ast.DeferStmt:
			deferred[x.Call] = true
		case *ast.GoStmt:
			deferred[x.Call] = true
		}
		return true
	})
	ast.Inspect(f, func(n ast.Node) bool {
		call, ok := n.(*ast.CallExpr)
		if !ok || deferred[call] {
			return true
		}
		id, ok := call.Fun.(*ast.Ident)
		if !ok {
			return true
		}
		if _, isBuiltin := r.info.Uses[id].(*types.Builtin); !isBuiltin {
			return true
		}
		switch {
		case id.Name == "copy" && len(call.Args) == 2:
			inner := &ast.CallExpr{Fun: call.Fun, Lparen: call.Lparen, Args: call.Args, Rparen: call.Rparen}
			call.Fun = &ast.SelectorExpr{X: ast.NewIdent("verifhook"), Sel: ast.NewIdent("Copied")}
			call.Args = []ast.Expr{inner}
			call.Ellipsis = token.NoPos
			r.changed = true
			st.moves++
			return false
		case id.Name == "append" && len(call.Args) == 2 && call.Ellipsis != token.NoPos:
			if name := byteish(call.Args[1]); name != "" {
				call.Args[1] = hook(name, call.Args[1])
				r.changed = true
				st.moves++
			}
		}
		return true
	})
}

// rewriteSyncMapRanges makes the iteration order of sync.Map.Range deterministic:
// m.Range(f) becomes verifhook.SyncMapRange(m.Range, f), which takes a snapshot through the real
// Range, sorts it by key and then calls f in that order (Range is only weakly consistent anyway;
// the runtime's order depends on a per-process hash seed and made C16/C17 replays diverge).
func (r *rewriter) rewriteSyncMapRanges(f *ast.File) {
	deferred := map[*ast.CallExpr]bool{}
	ast.Inspect(f, func(n ast.Node) bool {
		switch x := n.(type) {
		case *ast.DeferStmt:
			deferred[x.Call] = true
		case *ast.GoStmt:
			deferred[x.Call] = true
		}
		return true
	})
	ast.Inspect(f, func(n ast.Node) bool {
		call, ok := n.(*ast.CallExpr)
		if !ok || deferred[call] || len(call.Args) != 1 {
			return true
		}
		sel, ok := call.Fun.(*ast.SelectorExpr)
		if !ok || sel.Sel.Name != "Range" {
			return true
		}
		t := r.info.TypeOf(sel.X)
		if t == nil {
			return true
		}
		if p, ok := t.(*types.Pointer); ok {
			t = p.Elem()
		}
		named, ok := t.(*types.Named)
		if !ok || named.Obj().Pkg() == nil || named.Obj().Pkg().Path() != "sync" || named.Obj().Name() != "Map" {
			return true
		}
		method := &ast.SelectorExpr{X: sel.X, Sel: ast.NewIdent("Range")}
		call.Fun = &ast.SelectorExpr{X: ast.NewIdent("verifhook"), Sel: ast.NewIdent("SyncMapRange")}
		call.Args = []ast.Expr{method, call.Args[0]}
		r.changed = true
		st.ranges++
		return true
	})
}

func (r *rewriter) file(f *ast.File) bool {
	r.rewritePools(f)
	r.rewriteMoves(f)
	r.rewriteSyncMapRanges(f)
	for _, d := range f.Decls {
		fd, ok := d.(*ast.FuncDecl)
		if !ok || fd.Body == nil {
			// package-level var initialisers may contain func literals
			if gd, ok := d.(*ast.GenDecl); ok {
				r.funcLitsIn(gd)
			}
			continue
		}
		if fd.Name.Name == "init" && fd.Recv == nil {
			continue
		}
		fd.Body.List = r.stmts(fd.Body.List)
	}
	return r.changed
}

// funcLitsIn rewrites the bodies of all function literals below n (not
// descending into literals twice).
func (r *rewriter) funcLitsIn(n ast.Node) {
	if n == nil {
		return
	}
	ast.Inspect(n, func(x ast.Node) bool {
		if fl, ok := x.(*ast.FuncLit); ok {
			fl.Body.List = r.stmts(fl.Body.List)
			return false
		}
		return true
	})
}

func yieldStmt(site string) ast.Stmt {
	return &ast.ExprStmt{X: &ast.CallExpr{
		Fun:  &ast.SelectorExpr{X: ast.NewIdent("verifhook"), Sel: ast.NewIdent("Yield")},
		Args: []ast.Expr{&ast.BasicLit{Kind: token.STRING, Value: strconv.Quote(site)}},
	}}
}

func (r *rewriter) stmts(list []ast.Stmt) []ast.Stmt {
	var out []ast.Stmt
	for _, s := range list {
		site := r.site(s)
		needYield, isHook := r.needsYield(s)
		ns := r.stmt(s)
		if !isHook {
			if needYield {
				out = append(out, yieldStmt(site))
				st.yields++
				r.changed = true
			} else if r.dense && denseWorthy(s) {
				out = append(out, yieldStmt(site))
				st.dense++
				r.changed = true
			}
		}
		out = append(out, ns)
	}
	return out
}

func denseWorthy(s ast.Stmt) bool {
	switch x := s.(type) {
	case *ast.DeclStmt, *ast.EmptyStmt:
		return false
	case *ast.BranchStmt:
		return false
	case *ast.LabeledStmt:
		return denseWorthy(x.Stmt)
	}
	return true
}

// stmt rewrites one statement (and everything nested in it) and returns its
// replacement.
func (r *rewriter) stmt(s ast.Stmt) ast.Stmt {
	switch x := s.(type) {
	case *ast.BlockStmt:
		x.List = r.stmts(x.List)
	case *ast.IfStmt:
		r.funcLitsIn(x.Init)
		r.funcLitsIn(x.Cond)
		x.Body.List = r.stmts(x.Body.List)
		if x.Else != nil {
			x.Else = r.stmt(x.Else)
		}
	case *ast.ForStmt:
		r.funcLitsIn(x.Init)
		r.funcLitsIn(x.Cond)
		r.funcLitsIn(x.Post)
		x.Body.List = r.stmts(x.Body.List)
	case *ast.RangeStmt:
		r.funcLitsIn(x.X)
		x.Body.List = r.stmts(x.Body.List)
		if t := r.info.TypeOf(x.X); t != nil {
			if _, ok := t.Underlying().(*types.Chan); ok {
				x.Body.List = append([]ast.Stmt{yieldStmt(r.site(x) + ":rangechan")}, x.Body.List...)
				r.changed = true
			}
		}
		return r.mapRange(x)
	case *ast.SwitchStmt:
		r.funcLitsIn(x.Init)
		r.funcLitsIn(x.Tag)
		for _, c := range x.Body.List {
			cc := c.(*ast.CaseClause)
			for _, e := range cc.List {
				r.funcLitsIn(e)
			}
			cc.Body = r.stmts(cc.Body)
		}
	case *ast.TypeSwitchStmt:
		r.funcLitsIn(x.Init)
		r.funcLitsIn(x.Assign)
		for _, c := range x.Body.List {
			cc := c.(*ast.CaseClause)
			cc.Body = r.stmts(cc.Body)
		}
	case *ast.SelectStmt:
		for _, c := range x.Body.List {
			cc := c.(*ast.CommClause)
			r.funcLitsIn(cc.Comm)
			cc.Body = r.stmts(cc.Body)
		}
		if !r.labeled {
			return r.selectRewrite(x)
		}
	case *ast.LabeledStmt:
		_, isSel := x.Stmt.(*ast.SelectStmt)
		r.labeled = isSel
		x.Stmt = r.stmt(x.Stmt)
		r.labeled = false
	case *ast.GoStmt:
		return r.goStmt(x)
	case *ast.DeferStmt:
		if ns := r.hookCall(x.Call, r.site(x)); ns != nil {
			x.Call = ns
			r.changed = true
			return x
		}
		r.funcLitsIn(x.Call)
	case *ast.ExprStmt:
		if call, ok := x.X.(*ast.CallExpr); ok {
			if ns := r.hookCall(call, r.site(x)); ns != nil {
				x.X = ns
				r.changed = true
				return x
			}
		}
		r.funcLitsIn(x.X)
	default:
		r.funcLitsIn(s)
	}
	return s
}

func isSyncNamed(t types.Type, names ...string) bool {
	if p, ok := t.(*types.Pointer); ok {
		t = p.Elem()
	}
	n, ok := t.(*types.Named)
	if !ok {
		return false
	}
	o := n.Obj()
	if o.Pkg() == nil || o.Pkg().Path() != "sync" {
		return false
	}
	for _, nm := range names {
		if o.Name() == nm {
			return true
		}
	}
	return false
}

// methodOf returns (receiver named type's package path, type name, method
// name) for a method call expression, or ok=false.
func (r *rewriter) methodOf(call *ast.CallExpr) (pkg, typ, meth string, sel *ast.SelectorExpr, ok bool) {
	se, isSel := call.Fun.(*ast.SelectorExpr)
	if !isSel {
		return
	}
	s := r.info.Selections[se]
	if s == nil || s.Kind() != types.MethodVal {
		return
	}
	fn, isFn := s.Obj().(*types.Func)
	if !isFn {
		return
	}
	sig := fn.Type().(*types.Signature)
	if sig.Recv() == nil {
		return
	}
	rt := sig.Recv().Type()
	if p, isP := rt.(*types.Pointer); isP {
		rt = p.Elem()
	}
	n, isN := rt.(*types.Named)
	if !isN || n.Obj().Pkg() == nil {
		return
	}
	return n.Obj().Pkg().Path(), n.Obj().Name(), fn.Name(), se, true
}

func hasCall(e ast.Expr) bool {
	found := false
	ast.Inspect(e, func(n ast.Node) bool {
		if _, ok := n.(*ast.CallExpr); ok {
			found = true
		}
		return !found
	})
	return found
}

func hook(name string, args ...ast.Expr) *ast.CallExpr {
	return &ast.CallExpr{Fun: &ast.SelectorExpr{X: ast.NewIdent("verifhook"), Sel: ast.NewIdent(name)}, Args: args}
}

func strLit(s string) ast.Expr { return &ast.BasicLit{Kind: token.STRING, Value: strconv.Quote(s)} }

func sel(x ast.Expr, name string) ast.Expr { return &ast.SelectorExpr{X: x, Sel: ast.NewIdent(name)} }

// hookCall returns the replacement for a call statement that is a mutex
// lock/unlock or once.Do, or nil.
func (r *rewriter) hookCall(call *ast.CallExpr, site string) *ast.CallExpr {
	pkg, typ, meth, se, ok := r.methodOf(call)
	if !ok || pkg != "sync" {
		return nil
	}
	switch {
	case (typ == "Mutex" || typ == "RWMutex") && len(call.Args) == 0:
		if hasCall(se.X) {
			warnf("%s: receiver of %s has a call; left untouched", site, meth)
			st.skipped++
			return nil
		}
		switch meth {
		case "Lock":
			st.locks++
			return hook("Lock", strLit(site), sel(se.X, "TryLock"), sel(se.X, "Lock"))
		case "RLock":
			st.locks++
			return hook("Lock", strLit(site), sel(se.X, "TryRLock"), sel(se.X, "RLock"))
		case "Unlock", "RUnlock":
			st.unlocks++
			return hook("Unlock", sel(se.X, meth))
		}
	case typ == "Once" && meth == "Do" && len(call.Args) == 1:
		r.funcLitsIn(call.Args[0])
		st.onces++
		return hook("OnceDo", r.addrOf(se.X), call.Args[0])
	}
	return nil
}

// needsYield reports whether statement s performs a synchronisation
// operation at its own level (not inside nested blocks or function literals).
// isHook is true when the statement itself becomes a hook call that already
// parks (Lock, OnceDo, Go).
func (r *rewriter) needsYield(s ast.Stmt) (need, isHook bool) {
	switch x := s.(type) {
	case *ast.GoStmt:
		return false, false
	case *ast.ExprStmt:
		if call, ok := x.X.(*ast.CallExpr); ok {
			if pkg, typ, meth, _, ok := r.methodOf(call); ok && pkg == "sync" {
				if (typ == "Mutex" || typ == "RWMutex") && (meth == "Lock" || meth == "RLock") {
					return false, true
				}
				if (typ == "Mutex" || typ == "RWMutex") && (meth == "Unlock" || meth == "RUnlock") {
					return false, false
				}
				if typ == "Once" && meth == "Do" {
					return false, true
				}
			}
		}
		return r.exprSync(x.X), false
	case *ast.DeferStmt:
		return false, false
	case *ast.SendStmt:
		return true, false
	case *ast.SelectStmt:
		return true, false
	case *ast.LabeledStmt:
		return r.needsYield(x.Stmt)
	case *ast.IfStmt:
		return r.nodeSync(x.Init) || r.exprSync(x.Cond), false
	case *ast.ForStmt:
		return r.nodeSync(x.Init) || r.exprSync(x.Cond), false
	case *ast.RangeStmt:
		if t := r.info.TypeOf(x.X); t != nil {
			if _, ok := t.Underlying().(*types.Chan); ok {
				return true, false
			}
		}
		return r.exprSync(x.X), false
	case *ast.SwitchStmt:
		return r.nodeSync(x.Init) || r.exprSync(x.Tag), false
	case *ast.TypeSwitchStmt:
		return r.nodeSync(x.Init) || r.nodeSync(x.Assign), false
	case *ast.BlockStmt:
		return false, false
	case *ast.ReturnStmt:
		for _, e := range x.Results {
			if r.exprSync(e) {
				return true, false
			}
		}
		return false, false
	case *ast.AssignStmt, *ast.IncDecStmt, *ast.DeclStmt:
		return r.nodeSync(s), false
	}
	return false, false
}

func (r *rewriter) nodeSync(n ast.Node) bool {
	if n == nil {
		return false
	}
	// (*ast.X)(nil) stored in an interface
	switch v := n.(type) {
	case ast.Stmt:
		if v == nil {
			return false
		}
	}
	found := false
	ast.Inspect(n, func(x ast.Node) bool {
		if found {
			return false
		}
		switch y := x.(type) {
		case *ast.FuncLit:
			return false
		case *ast.UnaryExpr:
			if y.Op == token.ARROW {
				found = true
			}
		case *ast.CallExpr:
			if r.callSync(y) {
				found = true
			}
		}
		return !found
	})
	return found
}

func (r *rewriter) exprSync(e ast.Expr) bool {
	if e == nil {
		return false
	}
	return r.nodeSync(e)
}

func (r *rewriter) callSync(call *ast.CallExpr) bool {
	// builtin close
	if id, ok := call.Fun.(*ast.Ident); ok {
		if b, ok := r.info.Uses[id].(*types.Builtin); ok && b.Name() == "close" {
			return true
		}
		return false
	}
	se, ok := call.Fun.(*ast.SelectorExpr)
	if !ok {
		return false
	}
	// package function: atomic.*, time.Sleep
	if id, ok := se.X.(*ast.Ident); ok {
		if pn, ok := r.info.Uses[id].(*types.PkgName); ok {
			switch pn.Imported().Path() {
			case "sync/atomic":
				return true
			case "time":
				return se.Sel.Name == "Sleep"
			}
			return false
		}
	}
	pkg, typ, meth, _, ok := r.methodOf(call)
	if !ok {
		return false
	}
	switch pkg {
	case "sync/atomic":
		return true
	case "sync":
		switch typ {
		case "WaitGroup":
			return meth == "Wait"
		case "Map":
			return true
		case "Mutex", "RWMutex":
			// a lock call in expression position (TryLock etc.)
			return meth == "TryLock" || meth == "TryRLock"
		}
	}
	return false
}

var tmpSeq int

func (r *rewriter) goStmt(g *ast.GoStmt) ast.Stmt {
	site := r.site(g)
	call := g.Call
	r.changed = true
	st.gos++
	// go func(){...}()  → verifhook.Go(site, func(){...})
	if fl, ok := call.Fun.(*ast.FuncLit); ok && len(call.Args) == 0 && fl.Type.Results == nil && (fl.Type.Params == nil || len(fl.Type.Params.List) == 0) {
		fl.Body.List = r.stmts(fl.Body.List)
		return &ast.ExprStmt{X: hook("Go", strLit(site), fl)}
	}
	r.funcLitsIn(call.Fun)
	for _, a := range call.Args {
		r.funcLitsIn(a)
	}
	// hoist operands
	var lhs, rhs []ast.Expr
	newCall := &ast.CallExpr{Ellipsis: call.Ellipsis}
	hoist := func(e ast.Expr) ast.Expr {
		tmpSeq++
		id := ast.NewIdent("_vh" + strconv.Itoa(tmpSeq))
		lhs = append(lhs, id)
		rhs = append(rhs, e)
		return ast.NewIdent(id.Name)
	}
	switch f := call.Fun.(type) {
	case *ast.FuncLit:
		newCall.Fun = f
	case *ast.Ident:
		if _, isFunc := r.info.Uses[f].(*types.Func); isFunc {
			newCall.Fun = f
		} else {
			newCall.Fun = hoist(f)
		}
	case *ast.SelectorExpr:
		if id, ok := f.X.(*ast.Ident); ok {
			if _, isPkg := r.info.Uses[id].(*types.PkgName); isPkg {
				newCall.Fun = f
				break
			}
		}
		newCall.Fun = hoist(f) // method value binds the receiver now
	default:
		newCall.Fun = hoist(call.Fun)
	}
	for _, a := range call.Args {
		tv, ok := r.info.Types[a]
		if ok && (tv.Value != nil || tv.IsNil()) {
			newCall.Args = append(newCall.Args, a)
			continue
		}
		if ok {
			if tup, isTup := tv.Type.(*types.Tuple); isTup && tup.Len() != 1 {
				warnf("%s: go statement with multi-value argument; left as plain go", site)
				st.skipped++
				st.gos--
				return g
			}
			// untyped non-constant (e.g. shift results, comparisons): keep typed via conversion-free hoist is unsafe
			if b, isB := tv.Type.(*types.Basic); isB && b.Info()&types.IsUntyped != 0 {
				newCall.Args = append(newCall.Args, a)
				continue
			}
		}
		newCall.Args = append(newCall.Args, hoist(a))
	}
	body := &ast.FuncLit{Type: &ast.FuncType{Params: &ast.FieldList{}}, Body: &ast.BlockStmt{List: []ast.Stmt{&ast.ExprStmt{X: newCall}}}}
	goCall := &ast.ExprStmt{X: hook("Go", strLit(site), body)}
	if len(lhs) == 0 {
		return goCall
	}
	return &ast.BlockStmt{List: []ast.Stmt{
		&ast.AssignStmt{Lhs: lhs, Tok: token.DEFINE, Rhs: rhs},
		goCall,
	}}
}

func orderedKey(t types.Type) bool {
	b, ok := t.Underlying().(*types.Basic)
	if !ok {
		return false
	}
	return b.Info()&(types.IsInteger|types.IsFloat|types.IsString) != 0
}

func isBlank(e ast.Expr) bool {
	if e == nil {
		return true
	}
	id, ok := e.(*ast.Ident)
	return ok && id.Name == "_"
}

// mapRange rewrites `for k, v := range m` over a map with ordered keys into
// an iteration over a sorted key snapshot.
func (r *rewriter) mapRange(x *ast.RangeStmt) ast.Stmt {
	t := r.info.TypeOf(x.X)
	if t == nil {
		return x
	}
	m, ok := t.Underlying().(*types.Map)
	if !ok {
		return x
	}
	if !orderedKey(m.Key()) {
		warnf("%s: map range with unordered key type %s left untouched", r.site(x), m.Key())
		st.skipped++
		return x
	}
	if hasCall(x.X) {
		warnf("%s: map range over call expression left untouched", r.site(x))
		st.skipped++
		return x
	}
	tmpSeq++
	n := strconv.Itoa(tmpSeq)
	vk, vv, vok := ast.NewIdent("_vk"+n), ast.NewIdent("_vv"+n), ast.NewIdent("_vok"+n)
	var prelude []ast.Stmt
	valWanted := !isBlank(x.Value)
	valLHS := ast.Expr(ast.NewIdent("_"))
	if valWanted {
		valLHS = vv
	}
	prelude = append(prelude,
		&ast.AssignStmt{Lhs: []ast.Expr{valLHS, vok}, Tok: token.DEFINE, Rhs: []ast.Expr{&ast.IndexExpr{X: x.X, Index: ast.NewIdent(vk.Name)}}},
		&ast.IfStmt{Cond: &ast.UnaryExpr{Op: token.NOT, X: ast.NewIdent(vok.Name)}, Body: &ast.BlockStmt{List: []ast.Stmt{&ast.BranchStmt{Tok: token.CONTINUE}}}},
	)
	var lhs, rhs []ast.Expr
	if !isBlank(x.Key) {
		lhs = append(lhs, x.Key)
		rhs = append(rhs, ast.NewIdent(vk.Name))
	}
	if valWanted {
		lhs = append(lhs, x.Value)
		rhs = append(rhs, ast.NewIdent(vv.Name))
	}
	if len(lhs) > 0 {
		tok := x.Tok
		if tok != token.DEFINE && tok != token.ASSIGN {
			tok = token.DEFINE
		}
		prelude = append(prelude, &ast.AssignStmt{Lhs: lhs, Tok: tok, Rhs: rhs})
	}
	st.ranges++
	r.changed = true
	return &ast.RangeStmt{
		Key: ast.NewIdent("_"), Value: vk, Tok: token.DEFINE,
		X:    hook("SortedKeys", x.X),
		Body: &ast.BlockStmt{List: append(prelude, x.Body.List...)},
	}
}

var _ = constant.MakeBool
