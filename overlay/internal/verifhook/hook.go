//go:build verif

// Package verifhook is the seam between instrumented tunnox-core code and the
// deterministic simulator in /verif. It is copied into a scratch copy of the
// repository by /verif's build; it never exists in /repo itself.
//
// Every function is a pass-through when no simulator is installed, so the
// instrumented tree behaves exactly like the original (this is what the
// pass-through validation of the instrumenter relies on).
package verifhook

import (
	"cmp"
	"slices"
)

// Runtime is implemented by the simulator.
type Runtime interface {
	Yield(site string)
	Lock(site string, try func() bool, lock func())
	Unlocked()
	Go(site string, f func())
	Suppress(delta int)
}

var rt Runtime

// Install sets (or clears, with nil) the active simulator. It must only be
// called while no instrumented goroutine is running.
func Install(r Runtime) { rt = r }

// Active reports whether a simulator is installed.
func Active() bool { return rt != nil }

// Yield is a scheduling point.
func Yield(site string) {
	if r := rt; r != nil {
		r.Yield(site)
	}
}

// Lock replaces X.Lock() / X.RLock(): try is X.TryLock / X.TryRLock.
func Lock(site string, try func() bool, lock func()) {
	if r := rt; r != nil {
		r.Lock(site, try, lock)
		return
	}
	lock()
}

// Unlock replaces X.Unlock() / X.RUnlock().
func Unlock(unlock func()) {
	unlock()
	if r := rt; r != nil {
		r.Unlocked()
	}
}

// Go replaces a go statement.
func Go(site string, f func()) {
	if r := rt; r != nil {
		r.Go(site, f)
		return
	}
	go f()
}

// OnceDo replaces once.Do(f): a task must never park inside Do, because a
// second caller would block on the Once's internal mutex, which the fake
// clock's quiescence detection does not treat as durable.
func OnceDo(do func(func()), f func()) {
	r := rt
	if r == nil {
		do(f)
		return
	}
	r.Yield("once.Do")
	do(func() {
		r.Suppress(1)
		defer r.Suppress(-1)
		f()
	})
}

// SortedKeys returns the keys of m in ascending order. Rewritten map range
// loops iterate over this snapshot so that iteration order is not a hidden
// source of nondeterminism.
func SortedKeys[M ~map[K]V, K cmp.Ordered, V any](m M) []K {
	keys := make([]K, 0, len(m))
	for k := range m {
		keys = append(keys, k)
	}
	slices.Sort(keys)
	return keys
}
