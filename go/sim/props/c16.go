package props

import (
	"context"
	"errors"
	"fmt"
	"io"
	"net"
	"runtime/debug"
	"sort"
	"strings"
	"sync"
	"time"

	"tunnox-core/internal/client/mapping"
	clienttunnel "tunnox-core/internal/client/tunnel"
	"tunnox-core/internal/cloud/models"
	"tunnox-core/internal/cloud/stats"
	"tunnox-core/internal/config"
	"tunnox-core/internal/core/dispose"
	"tunnox-core/internal/core/storage/memory"
	"tunnox-core/internal/packet"
	"tunnox-core/internal/protocol/session/connection"
	srvtunnel "tunnox-core/internal/protocol/session/tunnel"
	"tunnox-core/internal/stream"
	"tunnox-core/internal/utils/iocopy"
	"tunnox-core/verifsim/simnet"
	"tunnox-core/verifsim/simrt"
)

// C16 — shutdown paths run exactly once and leave nothing running.
//
// One managed component per run (drawn), built from real code with counting
// callbacks; 2-5 closer tasks race each other and the component's own
// completion paths; then late users call ordinary operations on the closed
// component. The oracle counts (cleanup handlers, close callbacks, traffic
// reports), forbids panics and checks that no goroutine born in repo code
// survives the close.

func init() {
	Register(&Scenario{
		ID:    "C16",
		Level: "exploration",
		Rule: "each run draws ONE component (dispose.Dispose/ResourceBase/ManagerBase; dispose.ResourceManager; stream.StreamProcessor over a simnet link with a reader inside ReadPacket; memory.Storage with optional cleanup goroutine; client tunnel.Tunnel + real DefaultTunnelManager between two simnet links; server tunnel.Bridge with real TCPTunnelConnections, Start() and a cloud-control double), " +
			"then draws 2-5 closer tasks (Close variant, start delay in scheduler yields and/or simulated time), the component's own completion path (peer EOF, reset, idle timeout by a 5 min clock advance, peer-closed notification, parent-context cancel, manager Close, target never arrives), its own START-UP racing the closers (Tunnel.Start of an already registered tunnel, Bridge.Start, StartCleanup), concurrent users (packets in flight, storage operations, AddCleanHandler/Register) and 1-3 late operations after close (incl. Start). " +
			"The StreamProcessor is built over one connection or over separate receive/send endpoints (Close() error or Close() signature) whose Close may report an injected error; each endpoint must still be closed exactly once and the blocked reader released. The tunnel's goroutines must be gone while its manager (parent context) is still alive. " +
			"ResourceManager resources take drawn amounts of simulated time to dispose and DisposeWithTimeout callers draw timeouts around them, so a timeout really fires while the disposal continues in the background (its helper goroutine must end). " +
			"After the bridge's first Close a reconnecting source and/or a late target connection may be attached (the bridge is still registered then); the bridge's last Close must close every connection it was ever handed and release its remote end. The cloud-control double may be slower than the bridge's own final-report timeout. " +
			"Close itself must terminate: every closer has to return within a bound of simulated time far above all planned delays (a Close deadlocked with the component's own Start/I/O never runs the cleanup). " +
			"Seventh component: the client's real BaseMappingHandler (accept loop, handleConnection, real Tunnel + TunnelManager) with 1-4 local connections, a connection limit, failed handshakes, and 0-3 notification tasks per tunnel (peer-closed, fatal error, CloseTunnel, CloseAll) delivered as soon as the tunnel is registered, i.e. between RegisterTunnel and Tunnel.Start, during start-up or later, racing 2-4 Stop/Close callers; afterwards the per-connection slot must have been released exactly once (counter 0), adapter.Close ran once, no tunnel/connection/goroutine is left. " +
			"Interleavings come from the seeded scheduler at statement granularity inside the anchored files. A run is non-trivial when two Close calls overlapped in time, or a Close overlapped an in-flight user operation / completion path of the component (measured with global event stamps); distinct = distinct schedule hash among those.",
		Real: []string{"internal/core/dispose (Dispose, ResourceBase, ManagerBase, ResourceManager)", "internal/stream StreamProcessor (+ utils.BufferManager/BufferPool)", "internal/core/storage/memory Storage (all ops, StartCleanup/StopCleanup)",
			"internal/client/tunnel Tunnel + DefaultTunnelManager", "internal/client/mapping BaseMappingHandler (Start/acceptLoop/handleConnection/Stop)", "internal/utils/iocopy Bidirectional + readWriteCloser", "internal/protocol/session/tunnel Bridge (Start, CopyWithControl, Close, periodic/final traffic report)", "internal/protocol/session/connection TCPTunnelConnection", "internal/stream/compression (compressed packets written while closing)"},
		Stub: []string{"transport: simnet links", "tunnel.ClientInterface (SendTunnelCloseNotify counter)", "CloudControlAPI double holding one PortMapping with read/update yield points", "TunnelManager: real DefaultTunnelManager behind a counting wrapper for UnregisterTunnel", "mapping.ClientInterface (DialTunnel hands out a simnet link + real StreamProcessor and starts the notification tasks) and mapping.MappingAdapter (Accept fed by the harness, handshake delay/failure, counted Close)"},
		Assumptions: []string{"a cleanup handler registered concurrently with Close may run zero or one times; one whose registration returned before the first Close call began must run exactly once",
			"late operations on storage/dispose/bridge may succeed, return an error or a zero value (only a panic or a hang is a violation); late packet I/O on a closed StreamProcessor must return an error", "a Close call may return early while another Close is still running the cleanup; counters are checked after all closers returned",
			"timers are observed only through the goroutines they wake (no timer-creation hook)", "SessionManager and hybrid.Storage are not built in this scenario",
			"sync.Pool is replaced by a per-run deterministic pool by the instrumenter, so a run does not depend on earlier runs of the same worker process"},
		Opt: func(tier string) simrt.Options { return simrt.Options{MaxSteps: 400000} },
		Run: c16Run,
	})
}

func c16Run(w *simrt.World, tier string) {
	// process-global sync.Pools whose (instrumented) New functions would make a run's schedule depend on
	// what earlier runs in the same worker process left behind
	switch w.C.Intn(7, "component") {
	case 0:
		c16Dispose(w)
	case 1:
		c16Stream(w)
	case 2:
		c16Memory(w)
	case 3:
		c16Tunnel(w)
	case 4:
		c16Bridge(w)
	case 5:
		c16ResMgr(w)
	default:
		c16Mapping(w)
	}
}

// ---- shared helpers ----------------------------------------------------

type c16span struct {
	who       string
	call, ret int64
}

type c16spans struct {
	mu sync.Mutex
	l  []c16span
}

func (s *c16spans) add(who string, call, ret int64) {
	s.mu.Lock()
	s.l = append(s.l, c16span{who, call, ret})
	s.mu.Unlock()
}

// overlap reports whether two spans of the given kinds (prefix match) from
// different actors overlapped in time.
func (s *c16spans) overlap(pa, pb string) bool {
	s.mu.Lock()
	defer s.mu.Unlock()
	for i, a := range s.l {
		if !strings.HasPrefix(a.who, pa) {
			continue
		}
		for j, b := range s.l {
			if i == j || !strings.HasPrefix(b.who, pb) || a.who == b.who {
				continue
			}
			if a.call < b.ret && b.call < a.ret {
				return true
			}
		}
	}
	return false
}

func (s *c16spans) firstCall(p string) int64 {
	s.mu.Lock()
	defer s.mu.Unlock()
	var m int64 = -1
	for _, a := range s.l {
		if strings.HasPrefix(a.who, p) && (m < 0 || a.call < m) {
			m = a.call
		}
	}
	return m
}

// c16plan is when a closer (or other actor) starts.
type c16plan struct {
	yields  int
	sleep   time.Duration
	variant int
}

func c16Plans(c *simrt.Choice, n int, label string, sleeps []time.Duration, variants int) []c16plan {
	pl := make([]c16plan, n)
	// per-run scale of the start delays: closers that start at once, in the middle of the
	// component's traffic, or long after it
	scale := []int{12, 4, 60, 250}[c.Intn(4, label+".scale")]
	for i := range pl {
		pl[i].yields = c.Intn(scale, label+".yields")
		if len(sleeps) > 0 {
			pl[i].sleep = sleeps[c.Intn(len(sleeps), label+".sleep")]
		}
		if variants > 1 {
			pl[i].variant = c.Intn(variants, label+".variant")
		}
	}
	return pl
}

// c16Quiesce: 0 = start now, 1ms = start once everything else has come to rest (time only moves then).
var c16Quiesce = []time.Duration{0, 0, 0, time.Millisecond}

// c16Actor runs do() as a task after the planned delay and records its span.
func c16Actor(w *simrt.World, sp *c16spans, name string, p c16plan, do func()) *simrt.Task {
	return w.Spawn(name, func() {
		if p.sleep > 0 {
			w.Sleep(p.sleep)
		}
		for i := 0; i < p.yields; i++ {
			w.Yield("c16.delay")
		}
		w.Yield("c16.call")
		call := w.Stamp()
		defer func() {
			sp.add(name, call, w.Stamp())
		}()
		do()
		w.Yield("c16.ret")
	})
}

// c16Guard runs f and turns a panic into a C16 violation of the given class.
func c16Guard(w *simrt.World, sig string, f func()) bool { return c16GuardW(w, sig, "", f) }

// c16GuardW: what describes the guarded operation; a sig ending in "*" gets the class of the panic appended.
func c16GuardW(w *simrt.World, sig, c16what string, f func()) (panicked bool) {
	defer func() {
		if r := recover(); r != nil {
			panicked = true
			st := string(debug.Stack())
			if len(st) > 2500 {
				st = st[:2500]
			}
			if strings.HasSuffix(sig, "*") {
				// class of the panic instead of the operation that hit it: one root cause, one signature
				msg := fmt.Sprint(r)
				cl := "other"
				switch {
				case strings.Contains(msg, "nil map"):
					cl = "write-to-nil-map"
				case strings.Contains(msg, "closed channel"):
					cl = "close-of-closed-channel"
				case strings.Contains(msg, "nil pointer") || strings.Contains(msg, "invalid memory address"):
					cl = "nil-dereference"
				}
				w.Violationf(strings.TrimSuffix(sig, "*")+cl, "%s: panic: %v\n%s", c16what, r, st)
				return
			}
			w.Violationf(sig, "panic: %v\n%s", r, st)
		}
	}()
	f()
	return false
}

func c16Join(ts []*simrt.Task) {
	for _, t := range ts {
		t.Wait()
	}
}

// c16JoinBounded is the termination clause for Close itself: every closer (and side actor) must have returned
// within bound of simulated time (bound is far above every planned delay and timeout of the component). A Close
// that never returns (lock-order deadlock with the component's own start-up or I/O) never runs the cleanup.
func c16JoinBounded(w *simrt.World, comp string, ts []*simrt.Task, bound time.Duration) bool {
	ok := true
	for _, t := range ts {
		if !c16Bounded(w, t, bound) {
			ok = false
		}
	}
	if !ok {
		var stuck []string
		for _, ti := range w.LiveTasks() {
			if ti.Born == "root" {
				continue
			}
			stuck = append(stuck, fmt.Sprintf("%s (born %s) at %s", ti.ID, ti.Born, ti.Site))
		}
		sort.Strings(stuck)
		w.Violationf("C16:"+comp+":Close-did-not-return", "a Close call (or an operation racing it) has not returned %v of simulated time after it was due; tasks still alive:\n%s", bound, strings.Join(stuck, "\n"))
	}
	return ok
}

// c16Bounded waits for t for at most d of simulated time.
func c16Bounded(w *simrt.World, t *simrt.Task, d time.Duration) bool {
	if t.Done() {
		return true
	}
	step := d / 8
	if step <= 0 {
		step = time.Millisecond
	}
	for waited := time.Duration(0); waited < d; waited += step {
		w.Sleep(step)
		if t.Done() {
			return true
		}
	}
	return t.Done()
}

// c16LeakCheck: after the component was closed, its links closed and its
// context cancelled, no task born in repo code may remain.
func c16LeakCheck(w *simrt.World, comp string, grace time.Duration) {
	w.Sleep(grace)
	var left []string
	for _, ti := range w.LiveTasks() {
		if ti.Born == "harness" || ti.Born == "root" {
			continue
		}
		left = append(left, fmt.Sprintf("%s born at %s, now at %s", ti.ID, ti.Born, ti.Site))
	}
	if len(left) > 0 {
		sort.Strings(left)
		w.Violationf("C16:"+comp+":goroutine-left-after-close", "%d goroutine(s) started by the component are still alive %v after close returned and pending I/O was unblocked:\n%s", len(left), grace, strings.Join(left, "\n"))
	}
}

// ---- component 0: dispose.Dispose / ResourceBase / ManagerBase ---------

func c16Dispose(w *simrt.World) {
	c := w.C
	kind := c.Intn(3, "dispose.kind")
	nPre := 1 + c.Intn(4, "dispose.nhandlers")
	nClosers := 2 + c.Intn(4, "dispose.nclosers")
	nAdders := c.Intn(3, "dispose.nadders")
	errMask := c.Intn(1<<nPre, "dispose.errmask")
	hYields := c.Intn(4, "dispose.handler.yields")
	cancelFirst := c.Chance(1, 4, "dispose.cancel-parent-first")
	plans := c16Plans(c, nClosers, "dispose.closer", nil, 3)
	addPlans := c16Plans(c, nAdders, "dispose.adder", nil, 0)
	nLate := 1 + c.Intn(3, "dispose.nlate")
	lateOps := make([]int, nLate)
	for i := range lateOps {
		lateOps[i] = c.Intn(5, "dispose.late.op")
	}
	kindName := []string{"Dispose", "ResourceBase", "ManagerBase"}[kind]
	w.Probe("component.dispose." + kindName)
	w.Sample(fmt.Sprintf("dispose kind=%s handlers=%d errmask=%b closers=%d adders=%d handlerYields=%d cancelFirst=%v late=%v", kindName, nPre, errMask, nClosers, nAdders, hYields, cancelFirst, lateOps))

	ctx, cancel := context.WithCancel(w.Ctx)
	defer cancel()
	counts := make([]int, nPre+nAdders+nLate)
	running := 0
	maxRunning := 0
	mk := func(i int) func() error {
		return func() error {
			running++
			if running > maxRunning {
				maxRunning = running
			}
			counts[i]++
			for y := 0; y < hYields; y++ {
				w.Yield("c16.handler")
			}
			running--
			if i < nPre && errMask&(1<<i) != 0 {
				return errors.New("injected cleanup error")
			}
			return nil
		}
	}
	var d *dispose.Dispose
	var rb *dispose.ResourceBase
	first := 0
	switch kind {
	case 0:
		d = dispose.NewDispose(ctx, mk(0))
		first = 1
	case 1:
		rb = dispose.NewResourceBase("c16-resource")
		rb.Initialize(ctx)
		d = &rb.Dispose
	default:
		mb := dispose.NewManager("c16-manager", ctx)
		rb = mb.ResourceBase
		d = &rb.Dispose
	}
	for i := first; i < nPre; i++ {
		d.AddCleanHandler(mk(i))
	}
	if cancelFirst {
		cancel()
	}
	sp := &c16spans{}
	preDoneAtReturn := true
	var tasks []*simrt.Task
	for i := 0; i < nClosers; i++ {
		p := plans[i]
		tasks = append(tasks, c16Actor(w, sp, fmt.Sprintf("closer%d", i), p, func() {
			switch {
			case p.variant == 1:
				_ = d.CloseWithError()
			case p.variant == 2 && rb != nil:
				_ = rb.Close()
			default:
				_ = d.Close()
			}
			// after ANY Close returned the latch must be set, the context cancelled and every
			// handler registered before must have completed
			if !d.IsClosed() {
				w.Violationf("C16:dispose:not-closed-after-close", "IsClosed()==false right after Close returned")
			}
			if d.Ctx().Err() == nil {
				w.Violationf("C16:dispose:context-not-cancelled", "component context still live after Close returned")
			}
			for h := 0; h < nPre; h++ {
				if counts[h] != 1 || running != 0 {
					preDoneAtReturn = false
				}
			}
		}))
	}
	adderRet := make([]int64, nAdders)
	for i := 0; i < nAdders; i++ {
		i := i
		tasks = append(tasks, c16Actor(w, sp, fmt.Sprintf("adder%d", i), addPlans[i], func() {
			d.AddCleanHandler(mk(nPre + i))
			adderRet[i] = w.Stamp()
		}))
	}
	if !c16JoinBounded(w, "dispose", tasks, time.Minute) {
		return
	}
	if sp.overlap("closer", "closer") {
		w.Nontrivial()
		w.Probe("dispose.closers-overlapped")
	}
	if sp.overlap("closer", "adder") {
		w.Nontrivial()
		w.Probe("dispose.add-overlapped-close")
	}
	w.State(fmt.Sprintf("dispose/%s/h%d/c%d/a%d", kindName, nPre, nClosers, nAdders))
	for h := 0; h < nPre; h++ {
		switch {
		case counts[h] > 1:
			w.Violationf("C16:dispose:handler-ran-more-than-once", "clean handler %d of %d ran %d times with %d concurrent closers (%s)", h, nPre, counts[h], nClosers, kindName)
		case counts[h] == 0:
			w.Violationf("C16:dispose:handler-never-ran", "clean handler %d of %d never ran although %d Close calls returned (%s)", h, nPre, nClosers, kindName)
		}
	}
	if maxRunning > 1 {
		w.Violationf("C16:dispose:handlers-ran-concurrently", "%d clean handlers were inside their body at the same time", maxRunning)
	}
	if !preDoneAtReturn {
		w.Violationf("C16:dispose:close-returned-before-cleanup-finished", "a Close call returned while a handler registered before it had not completed exactly once")
	}
	firstClose := sp.firstCall("closer")
	for i := 0; i < nAdders; i++ {
		n := counts[nPre+i]
		if n > 1 {
			w.Violationf("C16:dispose:handler-ran-more-than-once", "handler added concurrently with Close ran %d times", n)
		}
		if adderRet[i] < firstClose && n == 0 {
			w.Violationf("C16:dispose:handler-never-ran", "AddCleanHandler returned (stamp %d) before the first Close began (stamp %d) but the handler ran %d times", adderRet[i], firstClose, n)
		}
		if adderRet[i] > firstClose && n == 0 {
			w.Probe("dispose.concurrent-add-dropped")
		}
	}
	// late users
	for i, op := range lateOps {
		op := op
		idx := nPre + nAdders + i
		c16Guard(w, "C16:dispose:panic-after-close", func() {
			switch op {
			case 0:
				if !d.IsClosed() {
					w.Violationf("C16:dispose:not-closed-after-close", "IsClosed()==false after all closers returned")
				}
			case 1:
				d.AddCleanHandler(mk(idx))
				w.Probe("dispose.late.AddCleanHandler")
			case 2:
				_ = d.Close()
			case 3:
				_ = d.GetErrors()
				_ = d.CloseWithError()
			default:
				d.SetCtx(ctx, mk(idx)) // ignored: ctx already set
			}
		})
	}
	for h := 0; h < nPre; h++ {
		if counts[h] > 1 {
			w.Violationf("C16:dispose:handler-ran-more-than-once", "clean handler %d ran again on a late Close (%d times)", h, counts[h])
		}
	}
	for i := range lateOps {
		if n := counts[nPre+nAdders+i]; n > 1 {
			w.Violationf("C16:dispose:handler-ran-more-than-once", "late handler ran %d times", n)
		}
	}
	c16LeakCheck(w, "dispose", time.Second)
}

// ---- component 5: dispose.ResourceManager -------------------------------

type c16res struct {
	w      *simrt.World
	name   string
	n      int
	yields int
	fail   bool
	dur    time.Duration // simulated time the disposal takes (a flush, a Close waiting for a peer)
}

func (r *c16res) Dispose() error {
	r.n++
	for i := 0; i < r.yields; i++ {
		r.w.Yield("c16.res.dispose")
	}
	if r.dur > 0 {
		r.w.Sleep(r.dur)
	}
	if r.fail {
		return errors.New("injected dispose error")
	}
	return nil
}

func c16ResMgr(w *simrt.World) {
	c := w.C
	nRes := 1 + c.Intn(4, "resmgr.nres")
	nClosers := 2 + c.Intn(3, "resmgr.nclosers")
	nReg := c.Intn(3, "resmgr.nregistrars")
	yields := c.Intn(4, "resmgr.dispose.yields")
	failMask := c.Intn(1<<nRes, "resmgr.failmask")
	plans := c16Plans(c, nClosers, "resmgr.closer", nil, 3)
	regPlans := c16Plans(c, nReg, "resmgr.reg", nil, 2)
	// how long each resource's disposal takes on the simulated clock, and the timeouts of the DisposeWithTimeout callers:
	// a timeout only fires when a disposal really outlives it (a timer cannot win against work that takes no simulated time)
	durs := make([]time.Duration, nRes)
	for i := range durs {
		durs[i] = []time.Duration{0, 0, 50 * time.Millisecond, 3 * time.Second, 90 * time.Second}[c.Intn(5, "resmgr.dispose.duration")]
	}
	timeouts := make([]time.Duration, nClosers)
	for i := range timeouts {
		timeouts[i] = []time.Duration{time.Nanosecond, 700 * time.Millisecond, 20 * time.Second, 10 * time.Minute}[c.Intn(4, "resmgr.timeout")]
	}
	w.Probe("component.resource-manager")
	w.Sample(fmt.Sprintf("ResourceManager resources=%d failmask=%b disposeDurations=%v closers=%d timeouts=%v registrars=%d disposeYields=%d", nRes, failMask, durs, nClosers, timeouts, nReg, yields))
	w.State(fmt.Sprintf("resmgr/r%d/c%d/g%d", nRes, nClosers, nReg))

	rm := dispose.NewResourceManager()
	var pre []*c16res
	for i := 0; i < nRes; i++ {
		r := &c16res{w: w, name: fmt.Sprintf("r%d", i), yields: yields, fail: failMask&(1<<i) != 0, dur: durs[i]}
		pre = append(pre, r)
		if err := rm.Register(r.name, r); err != nil {
			w.Violationf("C16:resmgr:register-failed", "%v", err)
		}
	}
	sp := &c16spans{}
	timedOut := false
	var tasks []*simrt.Task
	for i := 0; i < nClosers; i++ {
		p := plans[i]
		tasks = append(tasks, c16Actor(w, sp, fmt.Sprintf("closer%d", i), p, func() {
			switch p.variant {
			case 1, 2:
				// the server's shutdown path; when the timeout wins, the disposal goes on in the background
				res := rm.DisposeWithTimeout(timeouts[i])
				for _, e := range res.Errors {
					if e.ResourceName == "timeout" {
						w.Probe("resmgr.dispose-timeout-fired")
						timedOut = true
					}
				}
			default:
				_ = rm.DisposeAll()
			}
		}))
	}
	added := make([]*c16res, nReg)
	unregistered := make([]bool, nReg)
	for i := 0; i < nReg; i++ {
		i := i
		p := regPlans[i]
		added[i] = &c16res{w: w, name: fmt.Sprintf("late%d", i), yields: yields}
		tasks = append(tasks, c16Actor(w, sp, fmt.Sprintf("registrar%d", i), p, func() {
			_ = rm.Register(added[i].name, added[i])
			if p.variant == 1 {
				w.Yield("c16.reg.between")
				if rm.Unregister(added[i].name) == nil {
					unregistered[i] = true
				}
			}
		}))
	}
	if !c16JoinBounded(w, "resmgr", tasks, 30*time.Minute) {
		return
	}
	w.Sleep(10 * time.Minute) // the background DisposeAll of a timed-out DisposeWithTimeout finishes its slow resources
	if timedOut {
		w.Nontrivial()
	}
	if sp.overlap("closer", "closer") || sp.overlap("closer", "registrar") {
		w.Nontrivial()
		w.Probe("resmgr.overlap")
	}
	// a final, uncontended DisposeAll picks up whatever was registered while a disposal was running
	c16Guard(w, "C16:resmgr:panic-after-close", func() { _ = rm.DisposeAll() })
	for _, r := range pre {
		if r.n != 1 {
			cl := "resource-disposed-more-than-once"
			if r.n == 0 {
				cl = "resource-never-disposed"
			}
			w.Violationf("C16:resmgr:"+cl, "resource %s registered before any DisposeAll was disposed %d times (closers=%d)", r.name, r.n, nClosers)
		}
	}
	for i, r := range added {
		if r.n > 1 {
			w.Violationf("C16:resmgr:resource-disposed-more-than-once", "resource %s registered during disposal was disposed %d times", r.name, r.n)
		}
		if r.n == 0 && !unregistered[i] {
			w.Violationf("C16:resmgr:resource-never-disposed", "resource %s was registered, never unregistered, and a final DisposeAll ran, but it was never disposed", r.name)
		}
		if r.n == 1 && unregistered[i] {
			w.Probe("resmgr.disposed-before-unregister")
		}
	}
	if rm.GetResourceCount() != 0 {
		w.Violationf("C16:resmgr:resources-left-registered", "%d resources still registered after the final DisposeAll: %v", rm.GetResourceCount(), rm.ListResources())
	}
	c16LeakCheck(w, "resmgr", time.Second)
}

// ---- component 1: StreamProcessor ---------------------------------------

// c16endpoint is one half of a transport handed to the StreamProcessor as its reader or writer: it counts Close
// calls and can report an error from Close (a flushing writer on a broken connection) while still closing.
type c16endpoint struct {
	w      *simrt.World
	conn   *simnet.Conn
	fail   bool
	closes int
}

func (e *c16endpoint) Read(p []byte) (int, error)  { return e.conn.Read(p) }
func (e *c16endpoint) Write(p []byte) (int, error) { return e.conn.Write(p) }
func (e *c16endpoint) Close() error {
	e.closes++
	_ = e.conn.Close()
	if e.fail {
		e.w.Fault("endpoint.close-error")
		return errors.New("injected: broken pipe while closing")
	}
	return nil
}

// c16endpointNoErr is the same endpoint behind the error-less Close() signature the processor also accepts.
type c16endpointNoErr struct{ *c16endpoint }

func (e c16endpointNoErr) Close() { _ = e.c16endpoint.Close() }

func c16Stream(w *simrt.World) {
	c := w.C
	nClosers := 2 + c.Intn(4, "stream.nclosers")
	plans := c16Plans(c, nClosers, "stream.closer", c16Quiesce, 3)
	nPkts := c.Intn(3, "stream.peer.npkts") * (1 + c.Intn(5, "stream.peer.npkts.mul"))
	partial := c.Intn(4, "stream.peer.partial") // 0 none, 1 type only, 2 type+len, 3 type+len+half body
	peerEnd := c.Intn(4, "stream.peer.end")     // 0 stays open, 1 close, 2 reset, 3 closewrite
	nWrites := c.Intn(4, "stream.nwrites")
	compressMask := c.Intn(8, "stream.write.compress")
	writerPlan := c16Plans(c, 1, "stream.writer", nil, 0)[0]
	law := simnet.Law(c.Intn(6, "stream.law"))
	if law == simnet.LawCuts {
		law = simnet.LawSmall
	}
	capacity := []int{0, 16, 4096}[c.Intn(3, "stream.cap")]
	cancelCtx := c.Chance(1, 4, "stream.cancel-ctx")
	cancelPlan := c16Plans(c, 1, "stream.cancel", nil, 0)[0]
	// topology: 0 one connection is reader and writer (plain TCP); 1 separate receive and send halves whose Close returns an error
	// value; 2 separate halves with the error-less Close() signature. Fault: an endpoint's Close reports an error (it still closes).
	topology := []int{0, 1, 1, 2}[c.Intn(4, "stream.topology")]
	closeFault := c.Intn(4, "stream.close-fault") // 0 none, 1 writer.Close fails, 2 reader.Close fails, 3 both
	if topology == 0 {
		closeFault = 0
	}
	nLate := 1 + c.Intn(3, "stream.nlate")
	lateOps := make([]int, nLate)
	for i := range lateOps {
		lateOps[i] = c.Intn(7, "stream.late.op")
	}
	w.Probe("component.stream-processor")
	w.Sample(fmt.Sprintf("StreamProcessor topology=%d closeFault=%d closers=%d peerPackets=%d partial=%d peerEnd=%d writes=%d law=%s cap=%d cancelCtx=%v late=%v", topology, closeFault, nClosers, nPkts, partial, peerEnd, nWrites, simnet.LawNames[law], capacity, cancelCtx, lateOps))
	w.State(fmt.Sprintf("stream/t%d/f%d/p%d/part%d/end%d/w%d", topology, closeFault, nPkts, partial, peerEnd, nWrites))

	ctx, cancel := context.WithCancel(w.Ctx)
	defer cancel()
	a, b := simnet.NewLink(w, simnet.LinkConfig{NameA: "sp", NameB: "peer", LawAB: law, LawBA: law, Capacity: capacity})
	rdConn, wrConn, peerWr, peerRd := a, a, b, b // the processor reads rdConn and writes wrConn; the peer writes peerWr and reads peerRd
	var rdEnd, wrEnd *c16endpoint
	var sp *stream.StreamProcessor
	if topology == 0 {
		sp = stream.NewStreamProcessor(a, a, ctx)
	} else {
		wrConn, peerRd = simnet.NewLink(w, simnet.LinkConfig{NameA: "sp-send", NameB: "peer-recv", LawAB: law, LawBA: law, Capacity: capacity})
		rdEnd = &c16endpoint{w: w, conn: rdConn, fail: closeFault&2 != 0}
		wrEnd = &c16endpoint{w: w, conn: wrConn, fail: closeFault&1 != 0}
		if topology == 1 {
			sp = stream.NewStreamProcessor(rdEnd, wrEnd, ctx)
		} else {
			sp = stream.NewStreamProcessor(c16endpointNoErr{rdEnd}, c16endpointNoErr{wrEnd}, ctx)
		}
		w.Probe("stream.split-endpoints")
	}
	peerSP := stream.NewStreamProcessor(peerRd, peerWr, w.Ctx)
	handlerRuns := 0
	sp.AddCleanHandler(func() error { handlerRuns++; w.Yield("c16.handler"); return nil })

	spans := &c16spans{}
	got := 0
	var readErr error
	reader := w.Spawn("reader", func() {
		for {
			w.Yield("c16.read.call")
			call := w.Stamp()
			var err error
			pan := c16Guard(w, "C16:stream:panic:ReadPacket-racing-Close", func() { _, _, err = sp.ReadPacket() })
			spans.add(fmt.Sprintf("user.read%d", got), call, w.Stamp())
			if pan {
				return
			}
			if err != nil {
				readErr = err
				return
			}
			got++
		}
	})
	var tasks []*simrt.Task
	if nWrites > 0 {
		tasks = append(tasks, w.Spawn("writer", func() {
			for y := 0; y < writerPlan.yields; y++ {
				w.Yield("c16.delay")
			}
			for i := 0; i < nWrites; i++ {
				w.Yield("c16.write.call")
				call := w.Stamp()
				pan := c16Guard(w, "C16:stream:panic:WritePacket-racing-Close", func() {
					wasClosed := sp.IsClosed()
					_, err := sp.WritePacket(&packet.TransferPacket{PacketType: packet.TunnelData, Payload: []byte("payload-from-sp")}, (compressMask>>i)&1 == 1, 0)
					switch {
					case err == nil:
						w.Probe("stream.write.ok")
					case wasClosed:
						w.Probe("stream.write.refused-after-close")
					default:
						w.Probe("stream.write.failed-while-closing")
					}
				})
				spans.add(fmt.Sprintf("user.write%d", i), call, w.Stamp())
				if pan {
					return
				}
			}
		}))
	}
	peer := w.Spawn("peer", func() {
		for i := 0; i < nPkts; i++ {
			if _, err := peerSP.WritePacket(&packet.TransferPacket{PacketType: packet.TunnelData, Payload: []byte(fmt.Sprintf("packet-%d-from-peer", i))}, false, 0); err != nil {
				break
			}
		}
		switch partial {
		case 1:
			peerWr.Write([]byte{byte(packet.TunnelData)})
		case 2:
			peerWr.Write([]byte{byte(packet.TunnelData), 0, 0, 0, 10})
		case 3:
			peerWr.Write([]byte{byte(packet.TunnelData), 0, 0, 0, 10, 'h', 'a', 'l', 'f'})
		}
		switch peerEnd {
		case 1:
			peerWr.Close()
		case 2:
			peerWr.Reset()
			w.Fault("net.reset")
		case 3:
			peerWr.CloseWrite()
		}
	})
	peerDrain := w.Spawn("peer-drain", func() {
		buf := make([]byte, 4096)
		for {
			if _, err := peerRd.Read(buf); err != nil {
				return
			}
		}
	})
	if cancelCtx {
		tasks = append(tasks, c16Actor(w, spans, "cancel", cancelPlan, func() { cancel() }))
	}
	var closers []*simrt.Task
	for i := 0; i < nClosers; i++ {
		p := plans[i]
		closers = append(closers, c16Actor(w, spans, fmt.Sprintf("closer%d", i), p, func() {
			c16Guard(w, "C16:stream:panic:Close", func() {
				switch p.variant {
				case 1:
					_ = sp.CloseWithResult()
				case 2:
					_ = sp.ManagerBase.Close()
				default:
					sp.Close()
				}
			})
			if !sp.IsClosed() {
				w.Violationf("C16:stream:not-closed-after-close", "IsClosed()==false after Close returned")
			}
		}))
	}
	if !c16JoinBounded(w, "stream", closers, time.Minute) {
		return
	}
	if handlerRuns != 1 {
		cl := "handler-ran-more-than-once"
		if handlerRuns == 0 {
			cl = "handler-never-ran"
		}
		w.Violationf("C16:stream:"+cl, "clean handler ran %d times after %d concurrent closers returned", handlerRuns, nClosers)
	}
	// every cleanup action exactly once: with separate endpoints each of them is closed once, whatever the other one's Close reported
	if topology != 0 {
		for _, e := range []struct {
			name string
			ep   *c16endpoint
		}{{"reader", rdEnd}, {"writer", wrEnd}} {
			switch {
			case e.ep.closes == 0:
				w.Violationf("C16:stream:endpoint-never-closed", "the processor's %s was never closed although %d Close calls returned (topology=%d, injected close errors: writer=%v reader=%v)", e.name, nClosers, topology, wrEnd.fail, rdEnd.fail)
			case e.ep.closes > 1:
				w.Violationf("C16:stream:endpoint-closed-more-than-once", "the processor's %s was closed %d times by %d concurrent closers", e.name, e.ep.closes, nClosers)
			}
		}
	}
	if spans.overlap("closer", "closer") {
		w.Nontrivial()
		w.Probe("stream.closers-overlapped")
	}
	if spans.overlap("closer", "user.") {
		w.Nontrivial()
		w.Probe("stream.close-overlapped-io")
	}
	// close has returned: the reader blocked in ReadPacket must be released (the processor owns and closes its reader)
	if !c16Bounded(w, reader, 2*time.Second) {
		w.Violationf("C16:stream:reader-still-blocked-after-close", "ReadPacket has not returned 2s after Close returned (topology=%d closeFault=%d, reader's connection closed=%v)", topology, closeFault, rdConn.Closed())
		// release it by hand: it holds the read lock, and the late operations below would wait for it forever
		peerWr.Close()
		rdConn.Close()
		reader.Wait()
	} else {
		_ = readErr
		if got > 0 {
			w.Probe("stream.reader-decoded-packets-before-close")
		}
		if got < nPkts {
			w.Probe("stream.closed-before-all-packets-read")
		}
	}
	c16Join(tasks)
	// late users
	for _, op := range lateOps {
		op := op
		name := []string{"ReadPacket", "WritePacket", "ReadExact", "WriteExact", "ReadAvailable", "Close", "AddCleanHandler"}[op]
		c16Guard(w, "C16:stream:panic-after-close:"+name, func() {
			var err error
			switch op {
			case 0:
				_, _, err = sp.ReadPacket()
			case 1:
				_, err = sp.WritePacket(&packet.TransferPacket{PacketType: packet.Heartbeat}, false, 0)
			case 2:
				_, err = sp.ReadExact(4)
			case 3:
				err = sp.WriteExact([]byte("late"))
			case 4:
				_, err = sp.ReadAvailable(16)
			case 5:
				sp.Close()
				err = errors.New("n/a")
			default:
				sp.AddCleanHandler(func() error { handlerRuns += 100; return nil })
				err = errors.New("n/a")
			}
			if err == nil {
				w.Violationf("C16:stream:late-operation-succeeded:"+name, "%s on a closed StreamProcessor returned no error", name)
			}
		})
	}
	if handlerRuns != 1 && handlerRuns%100 == 1 && handlerRuns > 1 {
		w.Probe("stream.late-handler-ran")
	}
	// unblock everything and check for leftovers
	peerWr.Close()
	peerRd.Close()
	peerSP.Close()
	cancel()
	peer.Wait()
	peerDrain.Wait()
	c16LeakCheck(w, "stream", time.Second)
}

// ---- component 2: memory storage ---------------------------------------

var c16memOps = []string{"Set", "Get", "Delete", "Exists", "SetList", "GetList", "AppendToList", "RemoveFromList", "SetHash", "GetHash", "GetAllHash", "DeleteHash",
	"Incr", "IncrBy", "SetExpiration", "GetExpiration", "CleanupExpired", "SetNX", "CompareAndSwap-nil", "CompareAndSwap-old", "QueryByPrefix", "ZAdd", "ZRem", "ZRangeByScore", "ZRemRangeByScore", "ZScore", "ZCard", "StartCleanup", "StopCleanup", "Watch"}

func c16memDo(m *memory.Storage, op int, key string) {
	switch c16memOps[op] {
	case "Set":
		_ = m.Set(key, "v", time.Hour)
	case "Get":
		_, _ = m.Get(key)
	case "Delete":
		_ = m.Delete(key)
	case "Exists":
		_, _ = m.Exists(key)
	case "SetList":
		_ = m.SetList(key+":l", []any{"a"}, 0)
	case "GetList":
		_, _ = m.GetList(key + ":l")
	case "AppendToList":
		_ = m.AppendToList(key+":l", "b")
	case "RemoveFromList":
		_ = m.RemoveFromList(key+":l", "a")
	case "SetHash":
		_ = m.SetHash(key+":h", "f", "v")
	case "GetHash":
		_, _ = m.GetHash(key+":h", "f")
	case "GetAllHash":
		_, _ = m.GetAllHash(key + ":h")
	case "DeleteHash":
		_ = m.DeleteHash(key+":h", "f")
	case "Incr":
		_, _ = m.Incr(key + ":c")
	case "IncrBy":
		_, _ = m.IncrBy(key+":c", 5)
	case "SetExpiration":
		_ = m.SetExpiration(key, time.Minute)
	case "GetExpiration":
		_, _ = m.GetExpiration(key)
	case "CleanupExpired":
		_ = m.CleanupExpired()
	case "SetNX":
		_, _ = m.SetNX(key+":nx", "v", time.Minute)
	case "CompareAndSwap-nil":
		_, _ = m.CompareAndSwap(key+":cas", nil, "v", 0)
	case "CompareAndSwap-old":
		_, _ = m.CompareAndSwap(key, "v", "v2", 0)
	case "QueryByPrefix":
		_, _ = m.QueryByPrefix("k", 10)
	case "ZAdd":
		_ = m.ZAdd(key+":z", "m", 1)
	case "ZRem":
		_ = m.ZRem(key+":z", "m")
	case "ZRangeByScore":
		_, _ = m.ZRangeByScore(key+":z", 0, 10)
	case "ZRemRangeByScore":
		_, _ = m.ZRemRangeByScore(key+":z", 0, 10)
	case "ZScore":
		_, _, _ = m.ZScore(key+":z", "m")
	case "ZCard":
		_, _ = m.ZCard(key + ":z")
	case "StartCleanup":
		m.StartCleanup(time.Minute)
	case "StopCleanup":
		m.StopCleanup()
	case "Watch":
		_ = m.Watch(key, func(any) {})
	}
}

func c16Memory(w *simrt.World) {
	c := w.C
	nClosers := 2 + c.Intn(3, "mem.nclosers")
	plans := c16Plans(c, nClosers, "mem.closer", []time.Duration{0, 0, 90 * time.Second}, 2)
	cleanup := c.Intn(4, "mem.cleanup") // 0 none, 1 started, 2 started+stopped, 3 started+stopped+started
	nUsers := c.Intn(3, "mem.nusers")
	userOps := make([][]int, nUsers)
	for i := range userOps {
		k := 1 + c.Intn(5, "mem.user.nops")
		for j := 0; j < k; j++ {
			userOps[i] = append(userOps[i], c.Intn(29, "mem.user.op")) // incl. StartCleanup/StopCleanup racing Close (start-up concurrent with shutdown); Watch (unlocked read) only as a late operation
		}
	}
	userPlans := c16Plans(c, nUsers, "mem.user", nil, 0)
	cancelFirst := c.Chance(1, 5, "mem.cancel-parent-first")
	nLate := 1 + c.Intn(3, "mem.nlate")
	lateOps := make([]int, nLate)
	for i := range lateOps {
		lateOps[i] = c.Intn(len(c16memOps), "mem.late.op")
	}
	var lateNames []string
	for _, o := range lateOps {
		lateNames = append(lateNames, c16memOps[o])
	}
	w.Probe("component.memory-storage")
	w.Sample(fmt.Sprintf("memory.Storage closers=%d cleanupMode=%d users=%v cancelFirst=%v late=%v", nClosers, cleanup, userOps, cancelFirst, lateNames))
	w.State(fmt.Sprintf("memory/c%d/cl%d/u%d", nClosers, cleanup, nUsers))

	ctx, cancel := context.WithCancel(w.Ctx)
	defer cancel()
	m := memory.New(ctx)
	handlerRuns := 0
	m.AddCleanHandler(func() error { handlerRuns++; w.Yield("c16.handler"); return nil })
	_ = m.Set("k0", "v", 0)
	_ = m.Set("k1", "v", time.Minute)
	switch cleanup {
	case 1:
		m.StartCleanup(30 * time.Second)
	case 2:
		m.StartCleanup(30 * time.Second)
		m.StopCleanup()
	case 3:
		m.StartCleanup(30 * time.Second)
		m.StopCleanup()
		c16GuardW(w, "C16:memory:panic:*", "StartCleanup after StopCleanup", func() { m.StartCleanup(30 * time.Second) })
	}
	if cancelFirst {
		cancel()
	}
	spans := &c16spans{}
	closePanicked := false
	var tasks []*simrt.Task
	for i := 0; i < nUsers; i++ {
		i := i
		tasks = append(tasks, w.Spawn(fmt.Sprintf("user%d", i), func() {
			for y := 0; y < userPlans[i].yields; y++ {
				w.Yield("c16.delay")
			}
			for j, op := range userOps[i] {
				w.Yield("c16.user.call")
				call := w.Stamp()
				c16GuardW(w, "C16:memory:panic:*", c16memOps[op]+" by a user task concurrent with the closers", func() { c16memDo(m, op, fmt.Sprintf("k%d", j%2)) })
				spans.add(fmt.Sprintf("user%d.%d", i, j), call, w.Stamp())
			}
		}))
	}
	var closers []*simrt.Task
	for i := 0; i < nClosers; i++ {
		p := plans[i]
		closers = append(closers, c16Actor(w, spans, fmt.Sprintf("closer%d", i), p, func() {
			if c16GuardW(w, "C16:memory:panic:*", fmt.Sprintf("Close (cleanup mode %d: 3 = StartCleanup, StopCleanup, StartCleanup before Close)", cleanup), func() {
				if p.variant == 1 {
					_ = m.ManagerBase.Close()
				} else {
					_ = m.Close()
				}
			}) {
				closePanicked = true
			}
		}))
	}
	if !c16JoinBounded(w, "memory", append(closers, tasks...), 10*time.Minute) {
		return
	}
	if handlerRuns != 1 && !closePanicked {
		cl := "handler-ran-more-than-once"
		if handlerRuns == 0 {
			cl = "handler-never-ran"
		}
		w.Violationf("C16:memory:"+cl, "clean handler ran %d times after %d closers returned", handlerRuns, nClosers)
	}
	if spans.overlap("closer", "closer") || spans.overlap("closer", "user") {
		w.Nontrivial()
		w.Probe("memory.overlap")
	}
	// the cleanup goroutine must be gone once Close has returned
	c16LeakCheck(w, "memory", time.Second)
	// late users: clean failure or clean zero result, never a panic
	for _, op := range lateOps {
		op := op
		if c16GuardW(w, "C16:memory:panic:*", c16memOps[op]+" after Close returned", func() { c16memDo(m, op, "k0") }) {
			w.Probe("memory.late-op-panicked")
		}
	}
	// closing again after late users (a late Set/StartCleanup may have revived state) must still be clean
	c16GuardW(w, "C16:memory:panic:*", "Close again after late operations", func() { _ = m.Close() })
	if handlerRuns > 1 {
		w.Violationf("C16:memory:handler-ran-more-than-once", "clean handler ran %d times after a late Close", handlerRuns)
	}
	cancel()
	// a late StartCleanup on a closed storage starts a ticker goroutine that Close can no longer stop
	c16LeakCheck(w, "memory-late-operations", 2*time.Minute)
	// teardown (also keeps the bubble from ticking forever): an explicit StopCleanup
	c16GuardW(w, "C16:memory:panic:*", "StopCleanup at teardown (after Close and late operations)", func() { m.StopCleanup() })
}

// ---- component 3: client tunnel.Tunnel ----------------------------------

type c16mgr struct {
	*clienttunnel.DefaultTunnelManager
	w      *simrt.World
	unreg  map[string]int
	unregT int
}

func (m *c16mgr) UnregisterTunnel(id string) bool {
	m.w.Yield("c16.mgr.unregister")
	m.unreg[id]++
	if m.DefaultTunnelManager.UnregisterTunnel(id) {
		m.unregT++
		return true
	}
	return false
}

type c16client struct {
	w        *simrt.World
	notifies int
	reasons  []string
}

func (cl *c16client) SendTunnelCloseNotify(target int64, tunnelID, mappingID, reason string) error {
	cl.w.Yield("c16.client.notify")
	cl.notifies++
	cl.reasons = append(cl.reasons, reason)
	return nil
}

func c16Tunnel(w *simrt.World) {
	c := w.C
	role := clienttunnel.TunnelRole(c.Intn(2, "tun.role"))
	// start mode: Start() returned before any closer exists / Start() races the closers (the tunnel is
	// registered with its manager before it is started, so notifications can close it during start-up) / never started
	startMode := []int{0, 0, 0, 1, 1, 0, 1, 2}[c.Intn(8, "tun.start-mode")]
	started := startMode == 0
	startPlan := c16Plans(c, 1, "tun.start", nil, 0)[0]
	lateStart := c.Chance(1, 3, "tun.late-start")
	nClosers := 2 + c.Intn(4, "tun.nclosers")
	completion := c.Intn(6, "tun.completion") // 0 none, 1 app EOF, 2 server EOF, 3 idle timeout, 4 reset, 5 app half-close then server EOF
	sleeps := c16Quiesce
	if completion == 3 {
		sleeps = []time.Duration{0, 5 * time.Minute, 5 * time.Minute, 5*time.Minute + time.Millisecond}
	}
	// closer variants: 0 Close(Timeout) 1 Close(ContextCanceled) 2 peer-closed notification via manager 3 manager.CloseAll 4 manager.CloseTunnel(Timeout) 5 manager.Close 6 fatal OnTunnelError
	plans := c16Plans(c, nClosers, "tun.closer", sleeps, 7)
	nApp := c.Intn(4, "tun.app.chunks")
	nSrv := c.Intn(4, "tun.srv.chunks")
	cancelMgr := c.Chance(1, 5, "tun.cancel-manager-ctx")
	cancelPlan := c16Plans(c, 1, "tun.cancel", nil, 0)[0]
	targetClient := int64(c.Intn(2, "tun.target")) * 42
	var vs []int
	for _, p := range plans {
		vs = append(vs, p.variant)
	}
	w.Probe("component.client-tunnel")
	w.Sample(fmt.Sprintf("client Tunnel role=%v startMode=%d(0 before closers,1 racing closers,2 never) lateStart=%v started=%v closers(variants)=%v completion=%d appChunks=%d srvChunks=%d cancelMgrCtx=%v target=%d", role, startMode, lateStart, started, vs, completion, nApp, nSrv, cancelMgr, targetClient))
	w.State(fmt.Sprintf("tunnel/r%d/s%d/comp%d/c%d", role, startMode, completion, nClosers))

	mgrCtx, mgrCancel := context.WithCancel(w.Ctx)
	defer mgrCancel()
	mgr := &c16mgr{DefaultTunnelManager: clienttunnel.NewTunnelManager(mgrCtx, role), w: w, unreg: map[string]int{}}
	app, local := simnet.NewLink(w, simnet.LinkConfig{NameA: "app", NameB: "local"})
	tun, srv := simnet.NewLink(w, simnet.LinkConfig{NameA: "tun", NameB: "srv"})
	rwcCloses := 0
	rwc, _ := iocopy.NewReadWriteCloser(tun, tun, func() error { rwcCloses++; return tun.Close() })
	cl := &c16client{w: w}
	onClosed := 0
	var reasons []string
	var repSent, repRecv int64
	var t *clienttunnel.Tunnel
	t = clienttunnel.NewTunnel(&clienttunnel.TunnelConfig{
		ID: "t1", MappingID: "m1", Role: role, Protocol: "tcp", LocalConn: local, TunnelRWC: rwc, TargetClient: targetClient, Manager: mgr, Client: cl,
		OnClosed: func(reason clienttunnel.CloseReason, err error) {
			onClosed++
			reasons = append(reasons, reason.String())
			if onClosed == 1 {
				st := t.GetStats() // what BaseMappingHandler's callback adds to the mapping's traffic totals
				repSent, repRecv = st.BytesSent, st.BytesRecv
			}
			w.Yield("c16.onclosed")
		},
	})
	if err := mgr.RegisterTunnel(t); err != nil {
		w.Violationf("C16:tunnel:register-failed", "%v", err)
	}
	if started {
		if err := t.Start(); err != nil {
			w.Violationf("C16:tunnel:start-failed", "%v", err)
		}
	}
	spans := &c16spans{}
	var side []*simrt.Task
	appT := w.Spawn("app", func() {
		for i := 0; i < nApp; i++ {
			if _, err := app.Write([]byte(fmt.Sprintf("app-chunk-%d;", i))); err != nil {
				return
			}
		}
		switch completion {
		case 1:
			w.Yield("c16.completion")
			st := w.Stamp()
			app.Close()
			spans.add("completion.app-eof", st, st+1)
		case 4:
			w.Yield("c16.completion")
			st := w.Stamp()
			app.Reset()
			w.Fault("net.reset")
			spans.add("completion.reset", st, st+1)
		case 5:
			app.CloseWrite()
		}
	})
	appDrain := w.Spawn("app-drain", func() {
		buf := make([]byte, 1024)
		for {
			if _, err := app.Read(buf); err != nil {
				return
			}
		}
	})
	srvT := w.Spawn("srv", func() {
		for i := 0; i < nSrv; i++ {
			if _, err := srv.Write([]byte(fmt.Sprintf("srv-chunk-%d;", i))); err != nil {
				return
			}
		}
		if completion == 2 {
			w.Yield("c16.completion")
			st := w.Stamp()
			srv.Close()
			spans.add("completion.srv-eof", st, st+1)
		}
	})
	srvDrain := w.Spawn("srv-drain", func() {
		buf := make([]byte, 1024)
		for {
			_, err := srv.Read(buf)
			if err != nil {
				if completion == 5 {
					srv.Close()
				}
				return
			}
		}
	})
	if cancelMgr {
		side = append(side, c16Actor(w, spans, "cancel", cancelPlan, func() { mgrCancel() }))
	}
	var startErr error
	if startMode == 1 {
		// the component's own start-up is one more thing a Close can overlap
		side = append(side, c16Actor(w, spans, "user.start", startPlan, func() {
			c16Guard(w, "C16:tunnel:panic:Start-racing-Close", func() { startErr = t.Start() })
			if startErr == nil {
				started = true
				w.Probe("tunnel.concurrent-start-succeeded")
			} else {
				w.Probe("tunnel.concurrent-start-refused")
			}
		}))
	}
	var closers []*simrt.Task
	for i := 0; i < nClosers; i++ {
		p := plans[i]
		closers = append(closers, c16Actor(w, spans, fmt.Sprintf("closer%d", i), p, func() {
			c16Guard(w, "C16:tunnel:panic:Close", func() {
				switch p.variant {
				case 1:
					_ = t.Close(clienttunnel.CloseReasonContextCanceled, nil)
				case 2:
					mgr.OnTunnelClosed("t1", "m1", "peer", 1, 2, 3)
				case 3:
					mgr.CloseAll()
				case 4:
					_ = mgr.CloseTunnel("t1", clienttunnel.CloseReasonTimeout)
				case 5:
					_ = mgr.Close()
				case 6:
					mgr.OnTunnelError("t1", "m1", "E", "fatal", false)
				default:
					_ = t.Close(clienttunnel.CloseReasonTimeout, nil)
				}
			})
		}))
	}
	if !c16JoinBounded(w, "tunnel", append(closers, side...), 15*time.Minute) {
		return
	}
	if spans.overlap("closer", "closer") {
		w.Nontrivial()
		w.Probe("tunnel.closers-overlapped")
	}
	if spans.overlap("closer", "completion") {
		w.Nontrivial()
		w.Probe("tunnel.close-overlapped-completion")
	}
	if spans.overlap("closer", "user.start") {
		w.Nontrivial()
		w.Probe("tunnel.close-overlapped-start")
	}
	if completion == 3 {
		w.Probe("tunnel.idle-timeout-window")
	}
	// a final, uncontended Close: whatever happened before, the tunnel is closed now
	c16Guard(w, "C16:tunnel:panic:Close", func() { _ = t.Close(clienttunnel.CloseReasonTimeout, nil) })
	// let a closer that is still inside the close body (another Close may have returned early) finish
	w.Sleep(time.Second)
	if t.GetState() != clienttunnel.TunnelStateClosed {
		w.Violationf("C16:tunnel:not-closed-after-close", "state=%d one second after every Close call returned", t.GetState())
	}
	kind := "started"
	if !started {
		kind = "never-started"
	}
	_ = kind
	if onClosed > 1 || mgr.unreg["t1"] > 1 || cl.notifies > 1 {
		w.Violationf("C16:tunnel:close-body-ran-more-than-once", "one tunnel (%s), several Close calls: onClosed callback (the mapping handler's traffic report) ran %d times with reasons %v, UnregisterTunnel ran %d times, SendTunnelCloseNotify was sent %d times %v; closer variants=%v completion=%d",
			kind, onClosed, reasons, mgr.unreg["t1"], cl.notifies, cl.reasons, vs, completion)
	}
	if onClosed == 0 && started {
		w.Violationf("C16:tunnel:onClosed-never-ran", "tunnel was started and closed but onClosed never ran")
	}
	if mgr.unreg["t1"] == 0 && started {
		w.Violationf("C16:tunnel:unregister-never-ran", "tunnel closed but never unregistered from its manager")
	}
	if mgr.CountTunnels() != 0 {
		w.Violationf("C16:tunnel:still-registered-after-close", "manager still lists %d tunnels", mgr.CountTunnels())
	}
	if local.Closes() == 0 || rwcCloses == 0 {
		w.Violationf("C16:tunnel:connection-not-closed", "after close: local conn closed %d times, tunnel conn close func ran %d times", local.Closes(), rwcCloses)
	}
	// late user: Start on a tunnel whose Close has completed must fail cleanly and start nothing
	if lateStart {
		var lerr error
		c16Guard(w, "C16:tunnel:panic-after-close:Start", func() { lerr = t.Start() })
		if lerr == nil {
			w.Violationf("C16:tunnel:late-Start-succeeded", "Start() on a closed tunnel (state=%d) returned no error", t.GetState())
		}
		w.Probe("tunnel.late-start")
	}
	// unblock pending I/O of the peers. The tunnel's own goroutines must be gone now, while its manager (the parent
	// context) is still alive: the tunnel is the closed component, not the manager
	app.Close()
	srv.Close()
	appT.Wait()
	srvT.Wait()
	appDrain.Wait()
	srvDrain.Wait()
	c16LeakCheck(w, "tunnel", 2*time.Second)
	if t.GetState() != clienttunnel.TunnelStateClosed {
		w.Violationf("C16:tunnel:not-closed-after-close", "state=%d after every Close call returned and a late Start", t.GetState())
	}
	// then end the manager
	_ = mgr.Close()
	mgrCancel()
	c16LeakCheck(w, "tunnel-manager", time.Second)
	// traffic totals: the one report must carry what was actually moved
	if started && onClosed >= 1 {
		sent, recv := tun.BytesWritten(), local.BytesWritten()
		if repSent != sent || repRecv != recv {
			// reasons normal/local_closed/error are produced by the copy-result path (runDataCopy); error also by a fatal
			// OnTunnelError (closer variant 6); timeout/peer_closed/context_canceled only by a close from outside the copy
			who := "close-from-copy-result-path"
			switch reasons[0] {
			case "timeout", "peer_closed", "context_canceled":
				who = "closed-from-outside-while-copy-running"
			case "error":
				for _, v := range vs {
					if v == 6 {
						who = "closed-from-outside-while-copy-running"
					}
				}
			}
			w.Violationf("C16:tunnel:traffic-totals-not-in-report:"+who, "the close callback saw sent=%d recv=%d but the tunnel moved sent=%d recv=%d (first close reason %v)", repSent, repRecv, sent, recv, reasons)
		} else if sent+recv > 0 {
			w.Probe("tunnel.traffic-report-exact")
		}
	}
}

// ---- component 4: server tunnel.Bridge ----------------------------------

type c16cloud struct {
	w       *simrt.World
	mu      sync.Mutex
	mapping models.PortMapping
	gets    int
	updates int
	failGet int // fail the k-th GetPortMapping (1-based), 0 = never
	failed  bool
	delay   time.Duration // latency of GetPortMapping (a slow store): longer than the bridge's own final-report timeout
}

func (cc *c16cloud) GetPortMapping(id string) (*models.PortMapping, error) {
	cc.w.Yield("c16.cloud.get")
	if cc.delay > 0 {
		cc.w.Fault("cloud.slow")
		cc.w.Sleep(cc.delay)
	}
	cc.mu.Lock()
	defer cc.mu.Unlock()
	cc.gets++
	if cc.failGet > 0 && cc.gets == cc.failGet {
		cc.failed = true
		cc.w.Fault("cloud.get-mapping-error")
		return nil, errors.New("injected cloud-control error")
	}
	m := cc.mapping
	return &m, nil
}

func (cc *c16cloud) UpdatePortMappingStats(id string, ts *stats.TrafficStats) error {
	cc.w.Yield("c16.cloud.update")
	cc.mu.Lock()
	defer cc.mu.Unlock()
	cc.updates++
	cc.mapping.TrafficStats = *ts
	return nil
}

func (cc *c16cloud) GetClientPortMappings(clientID int64) ([]*models.PortMapping, error) {
	return nil, nil
}

type c16tconn struct {
	*connection.TCPTunnelConnection
	closes int
}

func (t *c16tconn) Close() error {
	t.closes++
	return t.TCPTunnelConnection.Close()
}

func c16Bridge(w *simrt.World) {
	c := w.C
	nClosers := 2 + c.Intn(4, "br.nclosers")
	targetMode := c.Intn(4, "br.target")     // 0 arrives at once, 1 arrives after a delay, 2 never (Start waits), 3 arrives after close only
	completion := c.Intn(5, "br.completion") // 0 none, 1 source EOF, 2 target EOF, 3 reset, 4 parent ctx cancel
	sleeps := c16Quiesce
	if c.Chance(1, 4, "br.periodic-window") {
		sleeps = []time.Duration{0, 30 * time.Second, 30 * time.Second, 31 * time.Second}
	}
	plans := c16Plans(c, nClosers, "br.closer", sleeps, 2)
	nSrc := c.Intn(4, "br.src.chunks")
	nTgt := c.Intn(4, "br.tgt.chunks")
	bw := []int64{0, 0, 1 << 20}[c.Intn(3, "br.bandwidth")]
	failGet := 0
	if c.Chance(1, 6, "br.cloud.fail") {
		failGet = 1 + c.Intn(3, "br.cloud.failat")
	}
	tgtPlan := c16Plans(c, 1, "br.target.arrive", nil, 0)[0]
	var cloudDelay time.Duration
	if c.Chance(1, 6, "br.cloud.slow") {
		cloudDelay = 7 * time.Second
	}
	// connections handed to the bridge after its first Close (the bridge stays registered until its lifecycle goroutine
	// has removed it, so a reconnecting source or a late target can still be attached): 1 source reconnect, 2 late target, 3 both
	lateAttach := c.Intn(4, "br.late-attach")
	nLate := 1 + c.Intn(3, "br.nlate")
	lateOps := make([]int, nLate)
	for i := range lateOps {
		lateOps[i] = c.Intn(7, "br.late.op")
	}
	w.Probe("component.server-bridge")
	w.Sample(fmt.Sprintf("server Bridge closers=%d targetMode=%d completion=%d srcChunks=%d tgtChunks=%d bandwidth=%d cloudFailAt=%d closerSleeps=%v late=%v lateAttach=%d cloudDelay=%v", nClosers, targetMode, completion, nSrc, nTgt, bw, failGet, sleeps, lateOps, lateAttach, cloudDelay))
	w.State(fmt.Sprintf("bridge/t%d/comp%d/c%d", targetMode, completion, nClosers))

	ctx, cancel := context.WithCancel(w.Ctx)
	defer cancel()
	srcCli, srcSrv := simnet.NewLink(w, simnet.LinkConfig{NameA: "srccli", NameB: "brsrc", AddrA: "10.0.0.7:5000"})
	tgtCli, tgtSrv := simnet.NewLink(w, simnet.LinkConfig{NameA: "tgtcli", NameB: "brtgt", AddrA: "10.0.0.8:5000"})
	srcSP := stream.NewStreamProcessor(srcSrv, srcSrv, ctx)
	tgtSP := stream.NewStreamProcessor(tgtSrv, tgtSrv, ctx)
	srcTC := &c16tconn{TCPTunnelConnection: connection.NewTCPTunnelConnection("conn-src", srcSrv, 7, "m1", "t1", srcSP)}
	tgtTC := &c16tconn{TCPTunnelConnection: connection.NewTCPTunnelConnection("conn-tgt", tgtSrv, 8, "m1", "t1", tgtSP)}
	cc := &c16cloud{w: w, failGet: failGet, delay: cloudDelay}
	cc.mapping.ID = "m1"
	br := srvtunnel.NewBridge(ctx, &srvtunnel.BridgeConfig{TunnelID: "t1", MappingID: "m1", ClientID: 7, SourceTunnelConn: srcTC, BandwidthLimit: bw, CloudControl: cc})
	handlerRuns := 0
	br.AddCleanHandler(func() error { handlerRuns++; w.Yield("c16.handler"); return nil })

	spans := &c16spans{}
	startReturned := false
	var startErr error
	startT := w.Spawn("bridge-start", func() {
		// what SessionManager.runBridgeLifecycle does
		w.Yield("c16.start.call")
		call := w.Stamp()
		c16Guard(w, "C16:bridge:panic:Start-racing-Close", func() {
			defer func() {
				c16Guard(w, "C16:bridge:panic:Close", func() { _ = br.Close() })
			}()
			startErr = br.Start()
		})
		startReturned = true
		spans.add("user.start", call, w.Stamp())
	})
	var side []*simrt.Task
	if targetMode <= 1 {
		p := tgtPlan
		if targetMode == 0 {
			p = c16plan{}
		}
		side = append(side, c16Actor(w, spans, "user.target-arrives", p, func() {
			c16Guard(w, "C16:bridge:panic:SetTargetConnection-racing-Close", func() { br.SetTargetConnection(tgtTC) })
		}))
	}
	srcT := w.Spawn("srccli", func() {
		for i := 0; i < nSrc; i++ {
			if _, err := srcCli.Write([]byte(fmt.Sprintf("src-chunk-%d;", i))); err != nil {
				return
			}
		}
		switch completion {
		case 1:
			w.Yield("c16.completion")
			st := w.Stamp()
			srcCli.Close()
			spans.add("completion.src-eof", st, st+1)
		case 3:
			w.Yield("c16.completion")
			st := w.Stamp()
			srcCli.Reset()
			w.Fault("net.reset")
			spans.add("completion.reset", st, st+1)
		case 4:
			w.Yield("c16.completion")
			st := w.Stamp()
			cancel()
			spans.add("completion.ctx-cancel", st, st+1)
		}
	})
	tgtT := w.Spawn("tgtcli", func() {
		for i := 0; i < nTgt; i++ {
			if _, err := tgtCli.Write([]byte(fmt.Sprintf("tgt-chunk-%d;", i))); err != nil {
				return
			}
		}
		if completion == 2 {
			w.Yield("c16.completion")
			st := w.Stamp()
			tgtCli.Close()
			spans.add("completion.tgt-eof", st, st+1)
		}
	})
	drain := func(name string, cn *simnet.Conn) *simrt.Task {
		return w.Spawn(name, func() {
			buf := make([]byte, 1024)
			for {
				if _, err := cn.Read(buf); err != nil {
					return
				}
			}
		})
	}
	srcDrain := drain("srccli-drain", srcCli)
	tgtDrain := drain("tgtcli-drain", tgtCli)
	var closers []*simrt.Task
	for i := 0; i < nClosers; i++ {
		p := plans[i]
		closers = append(closers, c16Actor(w, spans, fmt.Sprintf("closer%d", i), p, func() {
			c16Guard(w, "C16:bridge:panic:Close", func() {
				if p.variant == 1 {
					var acc srvtunnel.BridgeAccessor = br // the API layer closes through the accessor interface
					_ = acc.Close()
				} else {
					_ = br.Close()
				}
			})
			if br.IsActive() {
				w.Violationf("C16:bridge:active-after-close", "IsActive()==true after Close returned")
			}
		}))
	}
	if !c16JoinBounded(w, "bridge", closers, 10*time.Minute) {
		return
	}
	if spans.overlap("closer", "closer") {
		w.Nontrivial()
		w.Probe("bridge.closers-overlapped")
	}
	if spans.overlap("closer", "completion") || spans.overlap("closer", "user.") {
		w.Nontrivial()
		w.Probe("bridge.close-overlapped-start-or-completion")
	}
	if handlerRuns != 1 {
		cl := "handler-ran-more-than-once"
		if handlerRuns == 0 {
			cl = "handler-never-ran"
		}
		w.Violationf("C16:bridge:"+cl, "clean handler ran %d times after %d closers returned", handlerRuns, nClosers)
	}
	// Close returned: Start (blocked on ready / ctx / the two copy directions) must come back
	if !c16Bounded(w, startT, 40*time.Second) {
		w.Violationf("C16:bridge:Start-still-blocked-after-close", "Bridge.Start has not returned 40s after Close returned (targetMode=%d)", targetMode)
	}
	_ = startReturned
	_ = startErr
	if !c16JoinBounded(w, "bridge", side, 10*time.Minute) {
		return
	}
	if targetMode == 3 {
		c16Guard(w, "C16:bridge:panic-after-close:SetTargetConnection", func() { br.SetTargetConnection(tgtTC) })
	}
	for _, op := range lateOps {
		op := op
		name := []string{"Close", "SetTargetConnection-nil", "SetSourceConnection", "Start", "accessors", "WaitForTarget", "NotifyTargetReady"}[op]
		c16Guard(w, "C16:bridge:panic-after-close:"+name, func() {
			switch op {
			case 0:
				_ = br.Close()
			case 1:
				br.SetTargetConnection(nil)
			case 2:
				br.SetSourceConnection(nil)
			case 3:
				lt := w.Spawn("late-start", func() {
					c16Guard(w, "C16:bridge:panic-after-close:Start", func() { _ = br.Start() })
				})
				if !c16Bounded(w, lt, 40*time.Second) {
					w.Violationf("C16:bridge:late-Start-blocks", "Start on a closed bridge has not returned after 40s")
				}
			case 4:
				_ = br.GetClientID()
				_ = br.GetSourceConnectionID()
				_ = br.GetTargetConnectionID()
				_ = br.IsActive()
				_ = br.GetTargetNetConn()
				_ = br.GetSourceForwarder()
			case 5:
				_ = br.WaitForTarget(time.Second)
			default:
				br.NotifyTargetReady()
			}
		})
	}
	// connections attached to the already closed bridge, then the last Close of its life (the deferred Close of
	// SessionManager.runBridgeLifecycle): whatever the bridge was handed must be released by then
	type c16attached struct {
		name  string
		tc    *c16tconn
		drain *simrt.Task
	}
	var attached []c16attached
	tgtAttached := targetMode <= 1 || targetMode == 3
	var lateEnds []*simnet.Conn
	newConn := func(name string, clientID int64) c16attached {
		cliEnd, srvEnd := simnet.NewLink(w, simnet.LinkConfig{NameA: name + "-cli", NameB: name + "-srv"})
		spx := stream.NewStreamProcessor(srvEnd, srvEnd, ctx)
		tc := &c16tconn{TCPTunnelConnection: connection.NewTCPTunnelConnection(name, srvEnd, clientID, "m1", "t1", spx)}
		lateEnds = append(lateEnds, cliEnd, srvEnd)
		return c16attached{name: name, tc: tc, drain: drain(name+"-cli-drain", cliEnd)}
	}
	if lateAttach&1 != 0 {
		a := newConn("conn-src-reconnect", 7)
		c16Guard(w, "C16:bridge:panic-after-close:SetSourceConnection", func() { br.SetSourceConnection(a.tc) })
		attached = append(attached, a)
		w.Probe("bridge.late-source-reconnect")
	}
	if lateAttach&2 != 0 {
		a := newConn("conn-tgt-late", 8)
		c16Guard(w, "C16:bridge:panic-after-close:SetTargetConnection", func() { br.SetTargetConnection(a.tc) })
		attached = append(attached, a)
		w.Probe("bridge.late-target")
	}
	c16Guard(w, "C16:bridge:panic:Close", func() { _ = br.Close() })
	for _, a := range attached {
		if a.tc.closes == 0 {
			w.Violationf("C16:bridge:attached-connection-never-closed", "tunnel connection %s was attached to the bridge after an earlier Close; the bridge's last Close returned but never closed it", a.name)
		} else if a.tc.closes > 1 {
			w.Violationf("C16:bridge:tunnel-connection-closed-more-than-once", "late-attached tunnel connection %s was closed %d times", a.name, a.tc.closes)
		}
		if !c16Bounded(w, a.drain, 2*time.Second) {
			w.Violationf("C16:bridge:peer-of-attached-connection-still-blocked", "the remote end of %s (attached after an earlier Close) is still blocked in Read 2s after the bridge's last Close returned", a.name)
		}
	}
	lateNilTarget := false // SetTargetConnection(nil) as a late operation drops the bridge's reference without closing
	for _, op := range lateOps {
		if op == 1 {
			lateNilTarget = true
		}
	}
	if tgtAttached && tgtTC.closes == 0 && lateAttach&2 == 0 && !lateNilTarget {
		w.Violationf("C16:bridge:attached-connection-never-closed", "the target tunnel connection was handed to the bridge (targetMode=%d) but the bridge's last Close returned without closing it", targetMode)
	}
	if handlerRuns > 1 {
		w.Violationf("C16:bridge:handler-ran-more-than-once", "clean handler ran %d times after late operations", handlerRuns)
	}
	if srcTC.closes > 1 || tgtTC.closes > 1 {
		w.Violationf("C16:bridge:tunnel-connection-closed-more-than-once", "source tunnel connection Close ran %d times, target %d times", srcTC.closes, tgtTC.closes)
	}
	if srcTC.closes == 0 {
		w.Violationf("C16:bridge:source-connection-not-closed", "bridge closed but the source tunnel connection was never closed")
	}
	// unblock pending I/O
	srcCli.Close()
	tgtCli.Close()
	tgtSrv.Close()
	tgtSP.Close()
	for _, e := range lateEnds {
		e.Close()
	}
	cancel()
	srcT.Wait()
	tgtT.Wait()
	srcDrain.Wait()
	tgtDrain.Wait()
	for _, a := range attached {
		a.drain.Wait()
	}
	c16LeakCheck(w, "bridge", 30*time.Second)
	// traffic totals: what the cloud-control mapping accumulated against what the bridge counted as forwarded
	sent, recv := br.GetBytesSent(), br.GetBytesReceived()
	cc.mu.Lock()
	rs, rr, upd, failed := cc.mapping.TrafficStats.BytesSent, cc.mapping.TrafficStats.BytesReceived, cc.updates, cc.failed
	cc.mu.Unlock()
	if rs > sent || rr > recv {
		w.Violationf("C16:bridge:traffic-reported-more-than-once", "mapping totals sent=%d recv=%d exceed what the bridge forwarded sent=%d recv=%d (%d updates): a delta was added twice", rs, rr, sent, recv, upd)
	} else if (rs < sent || rr < recv) && !failed {
		w.Violationf("C16:bridge:traffic-totals-not-reported", "bridge forwarded sent=%d recv=%d but the mapping totals after close are sent=%d recv=%d (%d updates, no cloud-control error injected)", sent, recv, rs, rr, upd)
	} else if sent+recv > 0 && !failed {
		w.Probe("bridge.traffic-report-exact")
	}
}

// ---- component 6: client mapping handler (BaseMappingHandler) -------------

// c16mapClient is the rest of the client as the mapping handler sees it: DialTunnel hands out one end of a simnet
// link plus a real StreamProcessor, and starts the notification tasks that end this tunnel through the handler's
// real TunnelManager as soon as the tunnel is registered there (so a close can land between RegisterTunnel and
// Tunnel.Start, during start-up, or later).
type c16mapClient struct {
	w        *simrt.World
	ctx      context.Context
	tm       func() clienttunnel.TunnelManager
	mu       sync.Mutex
	dials    int
	fars     []*simnet.Conn
	tuns     []*simnet.Conn
	plans    [][]int // per dial: the notifications to deliver (1 peer-closed, 2 fatal error, 3 CloseTunnel, 4 CloseAll)
	pending  int
	tracked  int
	notifies int
}

func (c *c16mapClient) DialTunnel(tunnelID, mappingID, secretKey string) (net.Conn, stream.PackageStreamer, error) {
	c.w.Yield("c16.map.dial")
	c.mu.Lock()
	k := c.dials
	c.dials++
	ta, tb := simnet.NewLink(c.w, simnet.LinkConfig{NameA: fmt.Sprintf("mtun%d", k), NameB: fmt.Sprintf("mfar%d", k)})
	c.fars = append(c.fars, tb)
	c.tuns = append(c.tuns, ta)
	var plan []int
	if k < len(c.plans) {
		plan = c.plans[k]
	}
	c.pending += len(plan)
	c.mu.Unlock()
	c.w.Spawn(fmt.Sprintf("mfar%d-drain", k), func() {
		buf := make([]byte, 1024)
		for {
			if _, err := tb.Read(buf); err != nil {
				return
			}
		}
	})
	for j, kind := range plan {
		kind := kind
		c.w.Spawn(fmt.Sprintf("notifier%d.%d", k, j), func() {
			defer func() {
				c.mu.Lock()
				c.pending--
				c.mu.Unlock()
			}()
			tm := c.tm()
			found := false
			for i := 0; i < 600 && !found; i++ {
				if c.ctx.Err() != nil || c.w.Free() {
					return
				}
				if tm.GetTunnel(tunnelID) != nil {
					found = true
				} else {
					c.w.Yield("c16.map.notify.wait")
				}
			}
			if !found {
				c.w.Probe("mapping.notification-without-tunnel")
				return
			}
			for lag := c.w.Draw(10, "map.notify.lag"); lag > 0; lag-- {
				c.w.Yield("c16.map.notify.lag")
			}
			c.w.Probe("mapping.notification-delivered")
			c16Guard(c.w, "C16:mapping:panic:notification-racing-start", func() {
				switch kind {
				case 1:
					tm.OnTunnelClosed(tunnelID, mappingID, "peer closed", 0, 0, 0)
				case 2:
					tm.OnTunnelError(tunnelID, mappingID, "TARGET_UNREACHABLE", "dial to the target failed", false)
				case 3:
					_ = tm.CloseTunnel(tunnelID, clienttunnel.CloseReasonPeerClosed)
				default:
					tm.CloseAll()
				}
			})
		})
	}
	return ta, stream.NewStreamProcessor(ta, ta, c.ctx), nil
}
func (c *c16mapClient) DialTunnelPooled(string, string) (mapping.PooledTunnelConnInterface, error) {
	return nil, nil
}
func (c *c16mapClient) ReturnTunnelToPool(mapping.PooledTunnelConnInterface)  {}
func (c *c16mapClient) CloseTunnelFromPool(mapping.PooledTunnelConnInterface) {}
func (c *c16mapClient) IsTunnelPoolEnabled() bool                             { return false }
func (c *c16mapClient) GetContext() context.Context                           { return c.ctx }
func (c *c16mapClient) CheckMappingQuota(string) error                        { return nil }
func (c *c16mapClient) TrackTraffic(string, int64, int64) error {
	c.mu.Lock()
	c.tracked++
	c.mu.Unlock()
	return nil
}
func (c *c16mapClient) GetUserQuota() (*models.UserQuota, error) { return &models.UserQuota{}, nil }
func (c *c16mapClient) GetServerProtocol() string                { return "tcp" }
func (c *c16mapClient) SendTunnelCloseNotify(int64, string, string, string) error {
	c.w.Yield("c16.map.close-notify")
	c.mu.Lock()
	c.notifies++
	c.mu.Unlock()
	return nil
}
func (c *c16mapClient) pendingNotifiers() int {
	c.mu.Lock()
	defer c.mu.Unlock()
	return c.pending
}

// c16mapLocal is an accepted local connection (counts Close).
type c16mapLocal struct {
	*simnet.Conn
	prep     time.Duration
	failed   bool
	accepted bool
}

// c16mapAdapter is the protocol adapter: Accept is fed by the harness; Close (a cleanup action of the handler) is counted.
type c16mapAdapter struct {
	w      *simrt.World
	mu     sync.Mutex
	queue  []*c16mapLocal
	notify chan struct{}
	closed bool
	closes int
}

func (a *c16mapAdapter) StartListener(config.MappingConfig) error { return nil }
func (a *c16mapAdapter) push(l *c16mapLocal) {
	a.mu.Lock()
	a.queue = append(a.queue, l)
	close(a.notify)
	a.notify = make(chan struct{})
	a.mu.Unlock()
}
func (a *c16mapAdapter) Accept() (io.ReadWriteCloser, error) {
	for {
		a.w.Yield("c16.map.accept")
		a.mu.Lock()
		if a.closed {
			a.mu.Unlock()
			return nil, net.ErrClosed
		}
		if len(a.queue) > 0 {
			l := a.queue[0]
			a.queue = a.queue[1:]
			l.accepted = true
			a.mu.Unlock()
			return l, nil
		}
		ch := a.notify
		a.mu.Unlock()
		<-ch
	}
}
func (a *c16mapAdapter) PrepareConnection(c io.ReadWriteCloser) error {
	l := c.(*c16mapLocal)
	a.w.Sleep(l.prep) // a handshake; also keeps the time-derived tunnel ids of concurrent connections apart
	if l.failed {
		a.w.Fault("mapping.prepare-error")
		return errors.New("injected: local handshake failed")
	}
	return nil
}
func (a *c16mapAdapter) GetProtocol() string { return "tcp" }
func (a *c16mapAdapter) Close() error {
	a.w.Yield("c16.map.adapter.close")
	a.mu.Lock()
	a.closes++
	a.closed = true
	close(a.notify)
	a.notify = make(chan struct{})
	a.mu.Unlock()
	return nil
}

func c16Mapping(w *simrt.World) {
	c := w.C
	nConns := 1 + c.Intn(4, "map.nconns")
	limit := []int{0, 1, 2, 8}[c.Intn(4, "map.limit")]
	nClosers := 2 + c.Intn(3, "map.nclosers")
	plans := c16Plans(c, nClosers, "map.closer", []time.Duration{0, time.Millisecond, 5 * time.Millisecond, 31 * time.Second}, 2)
	type connPlan struct {
		end      int // 0 stays until the handler stops, 1 user closes, 2 far end closes, 3 user resets
		chunks   int
		failPrep bool
		notes    []int
	}
	cps := make([]connPlan, nConns)
	var notePlans [][]int
	for i := range cps {
		cps[i].end = c.Intn(4, "map.conn.end")
		cps[i].chunks = c.Intn(3, "map.conn.chunks")
		cps[i].failPrep = c.Intn(10, "map.conn.prepare-fails") == 9
		for n := c.Intn(4, "map.conn.notifications"); n > 0; n-- {
			cps[i].notes = append(cps[i].notes, 1+c.Intn(4, "map.conn.notification"))
		}
	}
	for _, cp := range cps {
		if !cp.failPrep { // only connections that pass the handshake dial a tunnel
			notePlans = append(notePlans, cp.notes)
		}
	}
	cancelFirst := c.Chance(1, 6, "map.cancel-client-ctx")
	w.Probe("component.client-mapping-handler")
	w.Sample(fmt.Sprintf("client BaseMappingHandler limit=%d conns=%+v closers=%d cancelClientCtx=%v", limit, cps, nClosers, cancelFirst))
	w.State(fmt.Sprintf("mapping/l%d/n%d/c%d", limit, nConns, nClosers))

	ctx, cancel := context.WithCancel(w.Ctx)
	defer cancel()
	cl := &c16mapClient{w: w, ctx: ctx, plans: notePlans}
	ad := &c16mapAdapter{w: w, notify: make(chan struct{})}
	h := mapping.NewBaseMappingHandler(cl, config.MappingConfig{MappingID: "pmap_c16", SecretKey: "k", Protocol: "tcp", LocalPort: 18080,
		TargetHost: "127.0.0.1", TargetPort: 80, TargetClientID: 42, MaxConnections: limit}, ad)
	cl.tm = h.GetTunnelManager
	handlerRuns := 0
	h.AddCleanHandler(func() error { handlerRuns++; w.Yield("c16.handler"); return nil })
	if err := h.Start(); err != nil {
		w.Violationf("C16:mapping:start-failed", "%v", err)
		return
	}
	spans := &c16spans{}
	var users []*simnet.Conn
	var locals []*c16mapLocal
	var side []*simrt.Task
	for i, cp := range cps {
		i, cp := i, cp
		ua, ub := simnet.NewLink(w, simnet.LinkConfig{NameA: fmt.Sprintf("user%d", i), NameB: fmt.Sprintf("local%d", i)})
		lc := &c16mapLocal{Conn: ub, prep: time.Duration(i+1) * 7 * time.Microsecond, failed: cp.failPrep}
		users = append(users, ua)
		locals = append(locals, lc)
		ad.push(lc)
		side = append(side, w.Spawn(fmt.Sprintf("user%d", i), func() {
			for k := 0; k < cp.chunks; k++ {
				if _, err := ua.Write([]byte(fmt.Sprintf("user%d-chunk-%d;", i, k))); err != nil {
					return
				}
			}
			w.Sleep(200 * time.Microsecond)
			w.Yield("c16.completion")
			st := w.Stamp()
			switch cp.end {
			case 1:
				ua.Close()
				spans.add("completion.user-close", st, st+1)
			case 3:
				ua.Reset()
				w.Fault("net.reset")
				spans.add("completion.reset", st, st+1)
			case 2:
				cl.mu.Lock()
				var far *simnet.Conn
				if i < len(cl.fars) {
					far = cl.fars[i]
				}
				cl.mu.Unlock()
				if far != nil {
					far.Close()
					spans.add("completion.far-close", st, st+1)
				}
			}
		}))
		side = append(side, w.Spawn(fmt.Sprintf("user%d-drain", i), func() {
			buf := make([]byte, 1024)
			for {
				if _, err := ua.Read(buf); err != nil {
					return
				}
			}
		}))
	}
	if cancelFirst {
		cancel()
	}
	var closers []*simrt.Task
	for i := 0; i < nClosers; i++ {
		p := plans[i]
		closers = append(closers, c16Actor(w, spans, fmt.Sprintf("closer%d", i), p, func() {
			c16Guard(w, "C16:mapping:panic:Close", func() {
				if p.variant == 1 {
					_ = h.Close()
				} else {
					h.Stop()
				}
			})
			if !h.IsClosed() {
				w.Violationf("C16:mapping:not-closed-after-close", "IsClosed()==false after Stop returned")
			}
		}))
	}
	if !c16JoinBounded(w, "mapping", closers, 10*time.Minute) {
		return
	}
	if spans.overlap("closer", "closer") || spans.overlap("closer", "completion") {
		w.Nontrivial()
		w.Probe("mapping.close-overlap")
	}
	// the handler has been stopped: release what the harness still holds, then everything must come to rest
	for _, u := range users {
		u.Close()
	}
	cl.mu.Lock()
	fars := append([]*simnet.Conn(nil), cl.fars...)
	cl.mu.Unlock()
	for _, f := range fars {
		f.Close()
	}
	for i := 0; i < 200 && cl.pendingNotifiers() > 0; i++ {
		w.Sleep(100 * time.Microsecond)
	}
	w.Sleep(2 * time.Second)
	if cl.pendingNotifiers() == 0 && cl.dials > 0 {
		w.Nontrivial()
	}
	if handlerRuns != 1 {
		w.Violationf("C16:mapping:handler-ran-wrong-number-of-times", "clean handler ran %d times after %d closers returned", handlerRuns, nClosers)
	}
	if ad.closes != 1 {
		w.Violationf("C16:mapping:adapter-close-ran-wrong-number-of-times", "adapter.Close (a cleanup action of the handler) ran %d times after %d closers returned", ad.closes, nClosers)
	}
	// each connection took one slot of the mapping's connection limit; its release is a cleanup action of that
	// connection's close: exactly once, whichever path closed it (failed handshake, tunnel closed before/while/after start, handler stop)
	switch n := h.ActiveConnCountForVerif(); {
	case n < 0:
		w.Violationf("C16:mapping:connection-slot-released-more-than-once", "every connection is closed and the handler stopped, but its active-connection counter is %d: some connection's slot was given back more than once (dials=%d, tunnels still registered=%d)", n, cl.dials, h.GetTunnelManager().CountTunnels())
	case n > 0:
		w.Violationf("C16:mapping:connection-slot-never-released", "every connection is closed and the handler stopped, but its active-connection counter is still %d (dials=%d, tunnels still registered=%d)", n, cl.dials, h.GetTunnelManager().CountTunnels())
	}
	if n := h.GetTunnelManager().CountTunnels(); n != 0 {
		w.Violationf("C16:mapping:tunnels-left-registered", "%d tunnels still registered after the handler was stopped", n)
	}
	for i, l := range locals {
		if l.accepted && l.Closes() == 0 {
			w.Violationf("C16:mapping:local-connection-not-closed", "local connection %d was handed to the handler but never closed although the handler was stopped", i)
		}
	}
	cl.mu.Lock()
	tuns := append([]*simnet.Conn(nil), cl.tuns...)
	cl.mu.Unlock()
	for i, t := range tuns {
		if !t.Closed() {
			w.Violationf("C16:mapping:tunnel-connection-not-closed", "the tunnel connection of dial %d was handed to the handler but is still open although the handler was stopped", i)
		}
	}
	cancel()
	for _, t := range side {
		t.Wait()
	}
	c16LeakCheck(w, "mapping", 2*time.Second)
}
