package simstore

import (
	"context"
	"fmt"
	"net"
	"sort"
	"strings"
	"sync"
	"time"

	"github.com/alicebob/miniredis/v2"
	goredis "github.com/redis/go-redis/v9"

	"tunnox-core/internal/core/storage/memory"
	redisstore "tunnox-core/internal/core/storage/redis"
	"tunnox-core/internal/core/storage/types"
	"tunnox-core/verifsim/simrt"
)

// NewMemory returns the real in-memory backend.
func NewMemory(w *simrt.World) *memory.Storage { return memory.New(w.Ctx) }

// Redis bundles the real Redis backend with the in-bubble miniredis behind it.
type Redis struct {
	Storage *redisstore.Storage
	Mini    *miniredis.Miniredis
	Client  *goredis.Client
	mu      sync.Mutex
	last    time.Time
}

// NewRedis starts miniredis inside the bubble (no real listener) and connects
// the repository's real Redis backend to it over net.Pipe.
func NewRedis(w *simrt.World) *Redis {
	m := miniredis.NewMiniRedis()
	if err := m.Start(); err != nil {
		panic(err)
	}
	m.Server().Close() // drop the real listener; connections arrive through ServeConn
	m.SetTime(time.Now())
	r := &Redis{Mini: m, last: time.Now()}
	r.Client = goredis.NewClient(&goredis.Options{
		Addr: "sim-redis:6379",
		Dialer: func(ctx context.Context, network, addr string) (net.Conn, error) {
			a, b := net.Pipe()
			go m.Server().ServeConn(b)
			return a, nil
		},
		PoolSize:        4,
		MaxRetries:      -1,
		DisableIdentity: true,
		Protocol:        2,
	})
	r.Storage = redisstore.NewWithClientForVerif(w.Ctx, r.Client)
	return r
}

// Sync advances miniredis's TTL clock to the simulated clock.
func (r *Redis) Sync() {
	r.mu.Lock()
	now := time.Now()
	d := now.Sub(r.last)
	r.last = now
	r.mu.Unlock()
	if d > 0 {
		r.Mini.FastForward(d)
		r.Mini.SetTime(now)
	}
}

// Close releases the client.
func (r *Redis) Close() { r.Client.Close() }

// Persist is the persistent-tier double: a map with scheduling and fault points.
type Persist struct {
	W    *simrt.World
	Name string
	mu   sync.Mutex
	Data map[string]any
	ops  int
	// FailAt fails the k-th operation (1-based).
	FailAt int
	Log    []OpRec
}

func NewPersist(w *simrt.World, name string) *Persist {
	return &Persist{W: w, Name: name, Data: map[string]any{}}
}

func (p *Persist) pre(op, key string, write bool) error {
	if p.W != nil && !p.W.Free() {
		p.W.Yield("persist." + op + ":" + p.Name)
	}
	p.mu.Lock()
	p.ops++
	n := p.ops
	p.Log = append(p.Log, OpRec{N: n, Op: op, Key: key, Write: write})
	fa := p.FailAt
	p.mu.Unlock()
	if fa > 0 && n == fa {
		p.W.Fault("persist.error")
		return fmt.Errorf("%w (persist %s %s #%d)", ErrInjected, op, key, n)
	}
	return nil
}

func (p *Persist) Ops() int { p.mu.Lock(); defer p.mu.Unlock(); return p.ops }

func (p *Persist) Set(key string, value any) error {
	if err := p.pre("Set", key, true); err != nil {
		return err
	}
	p.mu.Lock()
	p.Data[key] = value
	p.mu.Unlock()
	return nil
}
func (p *Persist) Get(key string) (any, error) {
	if err := p.pre("Get", key, false); err != nil {
		return nil, err
	}
	p.mu.Lock()
	defer p.mu.Unlock()
	v, ok := p.Data[key]
	if !ok {
		return nil, types.ErrKeyNotFound
	}
	return v, nil
}
func (p *Persist) Delete(key string) error {
	if err := p.pre("Delete", key, true); err != nil {
		return err
	}
	p.mu.Lock()
	delete(p.Data, key)
	p.mu.Unlock()
	return nil
}
func (p *Persist) Exists(key string) (bool, error) {
	if err := p.pre("Exists", key, false); err != nil {
		return false, err
	}
	p.mu.Lock()
	defer p.mu.Unlock()
	_, ok := p.Data[key]
	return ok, nil
}
func (p *Persist) BatchSet(items map[string]any) error {
	if err := p.pre("BatchSet", "", true); err != nil {
		return err
	}
	p.mu.Lock()
	for k, v := range items {
		p.Data[k] = v
	}
	p.mu.Unlock()
	return nil
}
func (p *Persist) BatchGet(keys []string) (map[string]any, error) {
	if err := p.pre("BatchGet", "", false); err != nil {
		return nil, err
	}
	p.mu.Lock()
	defer p.mu.Unlock()
	out := map[string]any{}
	for _, k := range keys {
		if v, ok := p.Data[k]; ok {
			out[k] = v
		}
	}
	return out, nil
}
func (p *Persist) BatchDelete(keys []string) error {
	if err := p.pre("BatchDelete", "", true); err != nil {
		return err
	}
	p.mu.Lock()
	for _, k := range keys {
		delete(p.Data, k)
	}
	p.mu.Unlock()
	return nil
}
func (p *Persist) QueryByField(keyPrefix, fieldName string, fieldValue any) ([]string, error) {
	return nil, nil
}
func (p *Persist) QueryByPrefix(prefix string, limit int) (map[string]string, error) {
	if err := p.pre("QueryByPrefix", prefix, false); err != nil {
		return nil, err
	}
	p.mu.Lock()
	defer p.mu.Unlock()
	var keys []string
	for k := range p.Data {
		if strings.HasPrefix(k, prefix) {
			keys = append(keys, k)
		}
	}
	sort.Strings(keys)
	out := map[string]string{}
	for _, k := range keys {
		if limit > 0 && len(out) >= limit {
			break
		}
		out[k] = fmt.Sprint(p.Data[k])
	}
	return out, nil
}
func (p *Persist) Close() error { return nil }

// Snapshot returns a copy of the data (no scheduling point).
func (p *Persist) Snapshot() map[string]any {
	p.mu.Lock()
	defer p.mu.Unlock()
	out := map[string]any{}
	for k, v := range p.Data {
		out[k] = v
	}
	return out
}

var _ types.PersistentStorage = (*Persist)(nil)
var _ types.CacheStorage = (*Store)(nil)
