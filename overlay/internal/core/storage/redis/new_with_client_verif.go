//go:build verif

package redis

import (
	"context"

	"github.com/redis/go-redis/v9"
)

// NewWithClientForVerif builds the real Redis storage backend around an
// existing client, so the simulator can give it a Dialer that returns one end
// of an in-bubble net.Pipe served by miniredis.
func NewWithClientForVerif(parentCtx context.Context, client *redis.Client) *Storage {
	s := &Storage{client: client, ctx: parentCtx}
	s.SetCtx(parentCtx, s.onClose)
	return s
}
