//go:build verif

package adapter

import (
	"context"
	"errors"
	"io"

	"tunnox-core/internal/protocol/session"
	"tunnox-core/internal/verifhook"
)

// SimAdapter is a ProtocolAdapter whose connections are handed in by the
// simulator; the real BaseAdapter.handleConnection / connectionReadLoop drive
// the session exactly as for TCP/WS/QUIC/KCP.
type SimAdapter struct {
	BaseAdapter
}

func NewSimAdapterForVerif(parentCtx context.Context, s session.Session) *SimAdapter {
	t := &SimAdapter{}
	t.BaseAdapter = BaseAdapter{}
	t.SetName("sim")
	t.SetSession(s)
	t.SetCtx(parentCtx, t.onClose)
	t.SetProtocolAdapter(t)
	return t
}

func (t *SimAdapter) Dial(addr string) (io.ReadWriteCloser, error) {
	return nil, errors.New("sim adapter cannot dial")
}
func (t *SimAdapter) Listen(addr string) error { return nil }
func (t *SimAdapter) Accept() (io.ReadWriteCloser, error) {
	return nil, errors.New("sim adapter has no listener")
}
func (t *SimAdapter) getConnectionType() string { return "sim" }

// Serve runs the real per-connection handler for conn in a new task, the way
// acceptLoop does after Accept.
func (t *SimAdapter) Serve(conn io.ReadWriteCloser) {
	verifhook.Go("adapter.Serve", func() { t.handleConnection(t, conn) })
}

// ServeSync runs the real per-connection handler in the calling task.
func (t *SimAdapter) ServeSync(conn io.ReadWriteCloser) { t.handleConnection(t, conn) }
