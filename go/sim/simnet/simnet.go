// Package simnet is the simulated network: harness-owned net.Conn pairs whose
// bytes move only at scheduler-visible points. Segmentation, back-pressure,
// half-close, reset and deadlines (on the fake clock) are modelled; nothing
// here touches a real socket.
package simnet

import (
	"errors"
	"io"
	"net"
	"os"
	"sync"
	"time"

	"tunnox-core/verifsim/simrt"
)

// Law decides how many of the available bytes one Read returns.
type Law int

const (
	LawAll   Law = iota // everything available (up to len(p))
	LawOne              // exactly one byte per Read
	LawSmall            // 1..7 bytes, drawn per Read
	LawMTU              // at most 1460 bytes
	LawCuts             // Reads never cross the absolute stream offsets in Cuts
	LawMixed            // drawn per Read among 1, 2..7, all
)

var LawNames = []string{"all", "one", "small", "mtu", "cuts", "mixed"}

// ErrReset is returned after an injected connection reset.
var ErrReset = errors.New("simnet: connection reset by peer")

type timeoutErr struct{}

func (timeoutErr) Error() string   { return "simnet: i/o timeout" }
func (timeoutErr) Timeout() bool   { return true }
func (timeoutErr) Temporary() bool { return true }
func (timeoutErr) Is(t error) bool { return t == os.ErrDeadlineExceeded }

// half is one direction of a link.
type half struct {
	mu       sync.Mutex
	buf      []byte   // stream mode
	msgs     [][]byte // message mode
	message  bool
	wclosed  bool  // writer closed its end: reader sees EOF after draining
	rclosed  bool  // reader closed: writer gets an error
	err      error // reset
	notify   chan struct{}
	capacity int   // 0 = unbounded
	written  int64 // bytes accepted from the writer
	read     int64 // bytes handed to Read
	law      Law
	cuts     []int64
	reads    int
}

func (h *half) wakeLocked() {
	close(h.notify)
	h.notify = make(chan struct{})
}

func (h *half) pending() int {
	if h.message {
		n := 0
		for _, m := range h.msgs {
			n += len(m)
		}
		return n
	}
	return len(h.buf)
}

// Addr is a simulated network address.
type Addr struct{ Net, S string }

func (a Addr) Network() string { return a.Net }
func (a Addr) String() string  { return a.S }

// Conn is one end of a link.
type Conn struct {
	w      *simrt.World
	name   string
	in     *half // we read from
	out    *half // we write to
	local  net.Addr
	remote net.Addr

	dmu    sync.Mutex
	rdl    time.Time
	wdl    time.Time
	closed bool
	// CloseCount counts Close calls (C12/C16 "closed exactly once" oracles).
	CloseCount int
}

// LinkConfig configures one link.
type LinkConfig struct {
	Message    bool // message-preserving transport (WebSocket contract)
	Capacity   int  // per-direction buffer; 0 = unbounded
	LawAB      Law  // law for reads at B of bytes written by A
	LawBA      Law
	CutsAB     []int64
	CutsBA     []int64
	AddrA      string
	AddrB      string
	NameA      string
	NameB      string
}

// NewLink creates a connected pair (a, b).
func NewLink(w *simrt.World, cfg LinkConfig) (*Conn, *Conn) {
	ab := &half{notify: make(chan struct{}), message: cfg.Message, capacity: cfg.Capacity, law: cfg.LawAB, cuts: cfg.CutsAB}
	ba := &half{notify: make(chan struct{}), message: cfg.Message, capacity: cfg.Capacity, law: cfg.LawBA, cuts: cfg.CutsBA}
	if cfg.AddrA == "" {
		cfg.AddrA = "10.0.0.1:40000"
	}
	if cfg.AddrB == "" {
		cfg.AddrB = "10.0.0.2:8000"
	}
	if cfg.NameA == "" {
		cfg.NameA = "a"
	}
	if cfg.NameB == "" {
		cfg.NameB = "b"
	}
	a := &Conn{w: w, name: cfg.NameA, in: ba, out: ab, local: Addr{"tcp", cfg.AddrA}, remote: Addr{"tcp", cfg.AddrB}}
	b := &Conn{w: w, name: cfg.NameB, in: ab, out: ba, local: Addr{"tcp", cfg.AddrB}, remote: Addr{"tcp", cfg.AddrA}}
	return a, b
}

func (c *Conn) deadlineCh(read bool) (<-chan time.Time, *time.Timer, bool) {
	c.dmu.Lock()
	d := c.wdl
	if read {
		d = c.rdl
	}
	c.dmu.Unlock()
	if d.IsZero() {
		return nil, nil, false
	}
	rem := time.Until(d)
	if rem <= 0 {
		return nil, nil, true
	}
	t := time.NewTimer(rem)
	return t.C, t, false
}

// Read implements net.Conn.
func (c *Conn) Read(p []byte) (int, error) {
	c.w.Yield("net.read:" + c.name)
	h := c.in
	for {
		h.mu.Lock()
		if c.isClosed() {
			h.mu.Unlock()
			return 0, net.ErrClosed
		}
		if h.err != nil {
			e := h.err
			h.mu.Unlock()
			return 0, e
		}
		if len(p) == 0 {
			h.mu.Unlock()
			return 0, nil
		}
		if h.pending() > 0 || (h.message && len(h.msgs) > 0) {
			n := c.take(h, p)
			h.wakeLocked()
			h.mu.Unlock()
			return n, nil
		}
		if h.wclosed {
			h.mu.Unlock()
			return 0, io.EOF
		}
		ch := h.notify
		h.mu.Unlock()
		dch, tm, expired := c.deadlineCh(true)
		if expired {
			return 0, timeoutErr{}
		}
		select {
		case <-ch:
			if tm != nil {
				tm.Stop()
			}
		case <-dch:
			c.w.Yield("net.read.timeout:" + c.name)
			return 0, timeoutErr{}
		}
		c.w.Yield("net.read.wake:" + c.name)
	}
}

// take copies bytes according to the law; h.mu is held and the caller is the
// only running task (it was just released), so drawing here is race-free.
func (c *Conn) take(h *half, p []byte) int {
	var src []byte
	if h.message {
		src = h.msgs[0]
	} else {
		src = h.buf
	}
	avail := len(src)
	if avail > len(p) {
		avail = len(p)
	}
	n := avail
	switch h.law {
	case LawOne:
		n = 1
	case LawSmall:
		n = 1 + c.w.C.Intn(7, "net.chunk")
	case LawMTU:
		if n > 1460 {
			n = 1460
		}
	case LawCuts:
		for _, cut := range h.cuts {
			if cut > h.read && cut-h.read < int64(n) {
				n = int(cut - h.read)
				break
			}
		}
	case LawMixed:
		switch c.w.C.Intn(4, "net.chunkkind") {
		case 1:
			n = 1
		case 2:
			n = 2 + c.w.C.Intn(6, "net.chunk")
		case 3:
			if avail > 1 {
				n = 1 + c.w.C.Intn(avail, "net.chunk")
			}
		}
	}
	if n > avail {
		n = avail
	}
	if n < 1 && avail > 0 {
		n = 1
	}
	copy(p, src[:n])
	if h.message {
		if n == len(src) {
			h.msgs = h.msgs[1:]
		} else {
			h.msgs[0] = src[n:]
		}
	} else {
		h.buf = h.buf[n:]
		if len(h.buf) == 0 {
			h.buf = nil
		}
	}
	h.read += int64(n)
	h.reads++
	return n
}

func (c *Conn) isClosed() bool {
	c.dmu.Lock()
	defer c.dmu.Unlock()
	return c.closed
}

// Write implements net.Conn.
func (c *Conn) Write(p []byte) (int, error) {
	c.w.Yield("net.write:" + c.name)
	h := c.out
	total := 0
	if h.message {
		h.mu.Lock()
		defer h.mu.Unlock()
		if c.isClosed() || h.wclosed {
			return 0, net.ErrClosed
		}
		if h.err != nil {
			return 0, h.err
		}
		if h.rclosed {
			return 0, io.ErrClosedPipe
		}
		m := make([]byte, len(p))
		copy(m, p)
		h.msgs = append(h.msgs, m)
		h.written += int64(len(p))
		h.wakeLocked()
		return len(p), nil
	}
	for {
		h.mu.Lock()
		if c.isClosed() || h.wclosed {
			h.mu.Unlock()
			return total, net.ErrClosed
		}
		if h.err != nil {
			e := h.err
			h.mu.Unlock()
			return total, e
		}
		if h.rclosed {
			h.mu.Unlock()
			return total, io.ErrClosedPipe
		}
		space := len(p) - total
		if h.capacity > 0 {
			if free := h.capacity - len(h.buf); free < space {
				space = free
			}
		}
		if space > 0 {
			h.buf = append(h.buf, p[total:total+space]...)
			total += space
			h.written += int64(space)
			h.wakeLocked()
		}
		if total == len(p) {
			h.mu.Unlock()
			return total, nil
		}
		ch := h.notify
		h.mu.Unlock()
		dch, tm, expired := c.deadlineCh(false)
		if expired {
			return total, timeoutErr{}
		}
		select {
		case <-ch:
			if tm != nil {
				tm.Stop()
			}
		case <-dch:
			c.w.Yield("net.write.timeout:" + c.name)
			return total, timeoutErr{}
		}
		c.w.Yield("net.write.wake:" + c.name)
	}
}

// Close implements net.Conn: both directions end; the peer reads EOF after
// draining and its writes fail.
func (c *Conn) Close() error {
	c.w.Yield("net.close:" + c.name)
	c.dmu.Lock()
	c.CloseCount++
	if c.closed {
		c.dmu.Unlock()
		return net.ErrClosed
	}
	c.closed = true
	c.dmu.Unlock()
	c.out.mu.Lock()
	c.out.wclosed = true
	c.out.wakeLocked()
	c.out.mu.Unlock()
	c.in.mu.Lock()
	c.in.rclosed = true
	c.in.buf, c.in.msgs = nil, nil
	c.in.wakeLocked()
	c.in.mu.Unlock()
	return nil
}

// CloseWrite half-closes: the peer reads EOF after draining; we can still read.
func (c *Conn) CloseWrite() error {
	c.w.Yield("net.closewrite:" + c.name)
	c.out.mu.Lock()
	c.out.wclosed = true
	c.out.wakeLocked()
	c.out.mu.Unlock()
	return nil
}

// CloseRead is accepted for interface compatibility.
func (c *Conn) CloseRead() error { return nil }

// Reset injects a connection reset seen by both ends.
func (c *Conn) Reset() {
	for _, h := range []*half{c.in, c.out} {
		h.mu.Lock()
		h.err = ErrReset
		h.buf, h.msgs = nil, nil
		h.wakeLocked()
		h.mu.Unlock()
	}
}

func (c *Conn) LocalAddr() net.Addr  { return c.local }
func (c *Conn) RemoteAddr() net.Addr { return c.remote }

func (c *Conn) SetDeadline(t time.Time) error {
	c.dmu.Lock()
	c.rdl, c.wdl = t, t
	c.dmu.Unlock()
	c.kick()
	return nil
}
func (c *Conn) SetReadDeadline(t time.Time) error {
	c.dmu.Lock()
	c.rdl = t
	c.dmu.Unlock()
	c.kick()
	return nil
}
func (c *Conn) SetWriteDeadline(t time.Time) error {
	c.dmu.Lock()
	c.wdl = t
	c.dmu.Unlock()
	c.kick()
	return nil
}

// kick wakes blocked readers/writers so they re-evaluate their deadline.
func (c *Conn) kick() {
	for _, h := range []*half{c.in, c.out} {
		h.mu.Lock()
		h.wakeLocked()
		h.mu.Unlock()
	}
}

// Closed reports whether Close has been called on this end.
func (c *Conn) Closed() bool { return c.isClosed() }

// Closes returns how many times Close was called.
func (c *Conn) Closes() int {
	c.dmu.Lock()
	defer c.dmu.Unlock()
	return c.CloseCount
}

// BytesRead is the number of bytes this end's Read calls have returned.
func (c *Conn) BytesRead() int64 {
	c.in.mu.Lock()
	defer c.in.mu.Unlock()
	return c.in.read
}

// BytesWritten is the number of bytes this end has written.
func (c *Conn) BytesWritten() int64 {
	c.out.mu.Lock()
	defer c.out.mu.Unlock()
	return c.out.written
}

// Pending is the number of bytes written by the peer and not yet read here.
func (c *Conn) Pending() int {
	c.in.mu.Lock()
	defer c.in.mu.Unlock()
	return c.in.pending()
}

// Reads is the number of Read calls that returned data.
func (c *Conn) Reads() int {
	c.in.mu.Lock()
	defer c.in.mu.Unlock()
	return c.in.reads
}

// PeerClosedWrite reports whether the peer has closed its writing side.
func (c *Conn) PeerClosedWrite() bool {
	c.in.mu.Lock()
	defer c.in.mu.Unlock()
	return c.in.wclosed
}

// SetName changes the label used in scheduler sites.
func (c *Conn) SetName(n string) { c.name = n }

// Name returns the label.
func (c *Conn) Name() string { return c.name }

var _ net.Conn = (*Conn)(nil)
