#!/bin/sh
# runall.sh [quick|thorough] [budget]: runs every registered check once and prints one summary line per property
cd /verif
T=${1:-quick}; B=${2:-0}
for id in $(python3 -c "import json; print(' '.join(c['property_id'] for c in json.load(open('MANIFEST.json'))['checks']))"); do
  if [ "$B" = 0 ]; then ./check $id --tier $T > /tmp/runall-$id.log 2>&1; else ./check $id --tier $T --budget $B > /tmp/runall-$id.log 2>&1; fi
  echo "$id exit=$? $(grep "^$id tier" /tmp/runall-$id.log | tail -1)"
done
