// Package simnode wires a real tunnox-core server node (the way
// internal/app/server's components do) inside the simulation, minus everything
// that needs a real socket (cross-node TCP listener and pool), and provides a
// scripted wire-protocol client.
package simnode

import (
	"crypto/hmac"
	"crypto/sha256"
	"encoding/base64"
	"encoding/hex"
	"encoding/json"
	"fmt"
	"time"

	"tunnox-core/internal/app/server"
	"tunnox-core/internal/cloud/factories"
	"tunnox-core/internal/cloud/managers"
	"tunnox-core/internal/cloud/repos"
	"tunnox-core/internal/cloud/services"
	"tunnox-core/internal/command"
	"tunnox-core/internal/core/idgen"
	"tunnox-core/internal/core/storage/types"
	"tunnox-core/internal/packet"
	"tunnox-core/internal/protocol/adapter"
	"tunnox-core/internal/protocol/session"
	"tunnox-core/internal/security"
	"tunnox-core/internal/stream"
	"tunnox-core/verifsim/simnet"
	"tunnox-core/verifsim/simrt"
)

// Config selects what a node is built with.
type Config struct {
	NodeID        string
	Session       *session.SessionConfig // nil = default
	BruteForce    *security.BruteForceConfig
	RateLimitIP   *security.RateLimitConfig
	ConnStateTTL  time.Duration // default 5 min
	RoutingTTL    time.Duration // default 30 s
	Commands      bool          // register the command executor and all handler sets
	NoConnState   bool
}

// Node is a wired server node.
type Node struct {
	W        *simrt.World
	ID       string
	Store    types.Storage
	Repo     *repos.Repository
	Cloud    *managers.BuiltinCloudControl
	IDMgr    *idgen.IDManager
	SM       *session.SessionManager
	BF       *security.BruteForceProtector
	IPM      *security.IPManager
	RL       *security.RateLimiter
	SKM      *security.SecretKeyManager
	ConnCode *services.ConnectionCodeService
	Auth     *server.ServerAuthHandler
	Tunnel   *server.ServerTunnelHandler
	Domains  *repos.HTTPDomainMappingRepository
	Adapter  *adapter.SimAdapter
	Routing  *session.TunnelRoutingTable
	ConnState *session.ConnectionStateStore
	Registry *command.CommandRegistry
	Executor *command.CommandExecutor
	nconn    int
}

// New wires a node over the given storage handle.
func New(w *simrt.World, store types.Storage, cfg Config) (*Node, error) {
	ctx := w.Ctx
	if cfg.NodeID == "" {
		cfg.NodeID = "node-1"
	}
	n := &Node{W: w, ID: cfg.NodeID, Store: store}
	n.Repo = repos.NewRepository(store)
	n.IDMgr = idgen.NewIDManager(store, ctx)
	cc := managers.DefaultConfig()
	cc.NodeID = cfg.NodeID
	n.Cloud = factories.NewBuiltinCloudControlWithRepo(ctx, cc, store, n.Repo)
	if cfg.Session != nil {
		n.SM = session.NewSessionManagerWithConfig(n.IDMgr, ctx, cfg.Session)
	} else {
		n.SM = session.NewSessionManager(n.IDMgr, ctx)
	}
	n.BF = security.NewBruteForceProtector(cfg.BruteForce, ctx)
	n.IPM = security.NewIPManager(store, ctx)
	n.RL = security.NewRateLimiter(cfg.RateLimitIP, nil, ctx)
	master := base64.StdEncoding.EncodeToString([]byte("0123456789abcdef0123456789abcdef"))
	skm, err := security.NewSecretKeyManager(&security.SecretKeyConfig{MasterKey: master})
	if err != nil {
		return nil, err
	}
	n.SKM = skm
	n.Cloud.SetSecretKeyManager(skm)
	n.SM.SetReconnectTokenManager(security.NewReconnectTokenManager(&security.ReconnectTokenConfig{SecretKey: "sim-reconnect-secret", TTL: 30 * time.Second}, store))

	connCodeRepo := repos.NewConnectionCodeRepository(n.Repo)
	pmService := n.Cloud.GetPortMappingService()
	pmRepo := repos.NewPortMappingRepo(n.Repo)
	n.Domains = repos.NewHTTPDomainMappingRepository(n.Repo, []string{"tunnox.net", "tunnel.test.local"})
	n.ConnCode = services.NewConnectionCodeService(connCodeRepo, pmService, pmRepo, nil, ctx)
	n.Auth = server.NewServerAuthHandler(n.Cloud, n.SM, n.BF, n.IPM, n.RL, n.SKM)
	n.Tunnel = server.NewServerTunnelHandler(n.Cloud, n.ConnCode)
	n.SM.SetAuthHandler(n.Auth)
	n.SM.SetTunnelHandler(n.Tunnel)
	n.SM.SetCloudControl(session.NewCloudControlAdapter(n.Cloud))
	n.SM.SetNodeID(cfg.NodeID)
	tsm := session.NewTunnelStateManager(store, "")
	n.SM.SetTunnelStateManager(tsm)
	n.SM.SetMigrationManager(session.NewTunnelMigrationManager(tsm, n.SM))
	rttl := cfg.RoutingTTL
	if rttl == 0 {
		rttl = 30 * time.Second
	}
	n.Routing = session.NewTunnelRoutingTable(store, rttl)
	n.SM.SetTunnelRoutingTable(n.Routing)
	n.Routing.RegisterNodeAddress(cfg.NodeID, cfg.NodeID+".sim:50052")
	if !cfg.NoConnState {
		cttl := cfg.ConnStateTTL
		if cttl == 0 {
			cttl = 5 * time.Minute
		}
		n.ConnState = session.NewConnectionStateStore(store, cfg.NodeID, cttl)
		n.SM.SetConnectionStateStore(n.ConnState)
	}
	if cfg.Commands {
		n.Registry = command.NewCommandRegistry(ctx)
		n.Executor = command.NewCommandExecutor(n.Registry, ctx)
		n.Executor.SetSession(n.SM)
		if err := n.SM.SetCommandExecutor(n.Executor); err != nil {
			return nil, err
		}
		if err := server.NewConnectionCodeCommandHandlers(n.ConnCode, n.SM).RegisterHandlers(n.Registry); err != nil {
			return nil, err
		}
		if err := server.NewConfigCommandHandlers(n.Auth, n.SM).RegisterHandlers(n.Registry); err != nil {
			return nil, err
		}
		if err := server.NewMappingCommandHandlers(n.ConnCode, n.SM).RegisterHandlers(n.Registry); err != nil {
			return nil, err
		}
		if err := server.NewHTTPDomainCommandHandlers(n.SM, n.Domains).RegisterHandlers(n.Registry); err != nil {
			return nil, err
		}
	}
	n.Adapter = adapter.NewSimAdapterForVerif(ctx, n.SM)
	return n, nil
}

// Close shuts the node down.
func (n *Node) Close() {
	n.Adapter.Close()
	n.SM.Close()
}

// Client is a scripted peer speaking the wire protocol through the real
// StreamProcessor over its end of a simnet link.
type Client struct {
	W      *simrt.World
	Name   string
	Conn   *simnet.Conn // client end
	Srv    *simnet.Conn // server end (observation: Closed())
	SP     *stream.StreamProcessor
	ID     int64
	Secret string
}

// Connect opens a new transport connection from addr to the node; the node's
// real adapter read loop serves it in its own task.
func (n *Node) Connect(name, addr string, cfg simnet.LinkConfig) *Client {
	n.nconn++
	cfg.NameA = name
	cfg.NameB = fmt.Sprintf("%s@%s", name, n.ID)
	if addr != "" {
		cfg.AddrA = addr
	}
	a, b := simnet.NewLink(n.W, cfg)
	n.Adapter.Serve(b)
	c := &Client{W: n.W, Name: name, Conn: a, Srv: b}
	c.SP = stream.NewStreamProcessor(a, a, n.W.Ctx)
	return c
}

// Send writes one packet.
func (c *Client) Send(t packet.Type, payload []byte) error {
	_, err := c.SP.WritePacket(&packet.TransferPacket{PacketType: t, Payload: payload}, false, 0)
	return err
}

// SendJSON marshals v as the payload.
func (c *Client) SendJSON(t packet.Type, v any) error {
	b, err := json.Marshal(v)
	if err != nil {
		return err
	}
	return c.Send(t, b)
}

// SendCommand writes a JsonCommand packet.
func (c *Client) SendCommand(cp *packet.CommandPacket) error {
	_, err := c.SP.WritePacket(&packet.TransferPacket{PacketType: packet.JsonCommand, CommandPacket: cp}, false, 0)
	return err
}

// Recv reads one packet with a simulated-time deadline; ok=false on timeout,
// error or EOF.
func (c *Client) Recv(timeout time.Duration) (*packet.TransferPacket, bool) {
	c.Conn.SetReadDeadline(time.Now().Add(timeout))
	p, _, err := c.SP.ReadPacket()
	c.Conn.SetReadDeadline(time.Time{})
	if err != nil {
		return nil, false
	}
	return p, true
}

// RecvType reads packets until one of base type t arrives (skipping others).
func (c *Client) RecvType(t packet.Type, timeout time.Duration) (*packet.TransferPacket, bool) {
	deadline := time.Now().Add(timeout)
	for {
		rem := time.Until(deadline)
		if rem <= 0 {
			return nil, false
		}
		p, ok := c.Recv(rem)
		if !ok {
			return nil, false
		}
		if p.PacketType&0x3F == t {
			return p, true
		}
	}
}

// Handshake sends req and returns the server's response.
func (c *Client) Handshake(req *packet.HandshakeRequest) (*packet.HandshakeResponse, bool) {
	if err := c.SendJSON(packet.Handshake, req); err != nil {
		return nil, false
	}
	p, ok := c.RecvType(packet.HandshakeResp, 30*time.Second)
	if !ok {
		return nil, false
	}
	var resp packet.HandshakeResponse
	if json.Unmarshal(p.Payload, &resp) != nil {
		return nil, false
	}
	return &resp, true
}

// Register performs a first-connection handshake and remembers the issued
// identity.
func (c *Client) Register(connType string) (*packet.HandshakeResponse, bool) {
	resp, ok := c.Handshake(&packet.HandshakeRequest{ClientID: 0, Token: "new-client", Version: "3", Protocol: "tcp", ConnectionType: connType})
	if ok && resp.Success {
		c.ID, c.Secret = resp.ClientID, resp.SecretKey
	}
	return resp, ok
}

// HMAC computes the challenge response the protocol documents:
// hex(HMAC-SHA256(secret, challenge)), with the standard library only.
func HMAC(secret, challenge string) string {
	m := hmac.New(sha256.New, []byte(secret))
	m.Write([]byte(challenge))
	return hex.EncodeToString(m.Sum(nil))
}

// Login performs the two-phase challenge–response as (id, secret).
func (c *Client) Login(id int64, secret, connType string) (*packet.HandshakeResponse, bool) {
	r1, ok := c.Handshake(&packet.HandshakeRequest{ClientID: id, Version: "3", Protocol: "tcp", ConnectionType: connType})
	if !ok || !r1.NeedResponse {
		return r1, ok
	}
	r2, ok := c.Handshake(&packet.HandshakeRequest{ClientID: id, Version: "3", Protocol: "tcp", ConnectionType: connType, ChallengeResponse: HMAC(secret, r1.Challenge)})
	if ok && r2.Success {
		c.ID, c.Secret = id, secret
	}
	return r2, ok
}

// Close closes the client's end.
func (c *Client) Close() { c.Conn.Close() }

// ConnID returns the server-side connection id of a client's transport, or ""
// if the session no longer knows it.
func (n *Node) ConnID(c *Client) string {
	for _, sc := range n.SM.ListConnections() {
		if sc.RawConn != nil && sc.RawConn == c.Srv {
			return sc.ID
		}
	}
	return ""
}
